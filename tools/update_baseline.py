#!/usr/bin/env python3
"""Record sha256 of every non-test Go/proto source file of /repo at its current state.
Run after committing fix/hook commits in /repo. The runner compares the files a property is
anchored in against this baseline and, when one differs, escalates the correspondence budget
(the model was validated against the baseline text; changed text = look much harder)."""
import hashlib, json, os, subprocess
ROOT = os.path.abspath(os.path.join(os.path.dirname(__file__), ".."))
files = subprocess.run(["git", "-C", "/repo", "ls-files"], capture_output=True, text=True).stdout.split()
out = {}
for f in files:
    if (f.endswith(".go") and not f.endswith("_test.go")) or f.endswith(".proto"):
        try:
            out[f] = hashlib.sha256(open(os.path.join("/repo", f), "rb").read()).hexdigest()[:20]
        except OSError:
            pass
head = subprocess.run(["git", "-C", "/repo", "rev-parse", "HEAD"], capture_output=True, text=True).stdout.strip()
json.dump({"repo_head": head, "files": out}, open(os.path.join(ROOT, "tools", "baseline_hashes.json"), "w"), indent=0, sort_keys=True)
print("baseline:", len(out), "files at", head[:10])
