#!/usr/bin/env python3
"""Regenerate MANIFEST.json from tools/props/*.json (one file per claimed property)."""
import glob, json, os
ROOT = os.path.abspath(os.path.join(os.path.dirname(__file__), ".."))
props = [json.loads(l) for l in open(os.path.join(ROOT, "properties.jsonl")) if l.strip()]
ids = [p["id"] for p in props]
cfgs = {}
for f in sorted(glob.glob(os.path.join(ROOT, "tools", "props", "C*.json"))):
    c = json.load(open(f))
    cfgs[c["id"]] = c
na_path = os.path.join(ROOT, "tools", "props", "not_applicable.json")
na = json.load(open(na_path)) if os.path.exists(na_path) else {}
hooks_path = os.path.join(ROOT, "tools", "props", "hooks.json")
hooks = json.load(open(hooks_path)) if os.path.exists(hooks_path) else {"source_commits": []}
checks = []
for i in ids:
    if i not in cfgs:
        continue
    c = cfgs[i]
    checks.append({
        "property_id": i,
        "quick_cmd": "./check %s --tier quick" % i,
        "thorough_cmd": "./check %s --tier thorough" % i,
        "evidence_file": "/verif/evidence/%s.json" % i,
        "replay_cmd_template": "./check %s --replay {path}" % i,
        "engine": "coq+harness",
        "level_claimed": {"category": "proof", "text": c["level_text"], "design_ref": c.get("design_ref", "")},
        "level_note": c["level_note"],
        "technique": c.get("technique", "Coq proof + Go/Coq correspondence check"),
    })
m = {
    "version": 1,
    "setup_cmd": "sh tools/setup.sh",
    "hooks": {
        "guard": "verif",
        "enable": "go build -tags verif (harness module in /verif/harness replaces github.com/aperturerobotics/bifrost => /repo)",
        "baseline_off_cmd": "cd /repo && go test -mod=mod -json -vet=off -count=1 -timeout 25m ./...",
        "source_commits": hooks.get("source_commits", []),
        "add_only": True,
    },
    "engines": [{
        "name": "coq+harness", "path": "/verif/coq + /verif/harness + /verif/tools/runner",
        "serves_properties": [c["property_id"] for c in checks],
        "kind_free_text": "Coq 8.16.1 theorems over hand-written Gallina models (coq/theories), constants regenerated from /repo by tools/gen, and a Go harness that runs the implementation and emits cases evaluated by vm_compute inside Coq (correspondence) plus a direct property oracle for replays",
    }],
    "checks": checks,
    "notes": "Every check = regenerate gen/*.v from /repo; make Props/Cxx.vo; Print Assumptions; build+run harness from the current tree; coqc the case files; verdict. See DESIGN.md.",
    "not_applicable": [{"property_id": i, "reason": na.get(i, "not yet built in this round: model and theorems planned in DESIGN.md section 7, no check is registered so nothing is claimed")} for i in ids if i not in cfgs],
}
json.dump(m, open(os.path.join(ROOT, "MANIFEST.json"), "w"), indent=1)
print("claimed", len(checks), "not_applicable", len(m["not_applicable"]))
