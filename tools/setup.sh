#!/bin/sh
# offline setup: build the Coq development and all harness binaries
set -e
cd "$(dirname "$0")/.."
export GOFLAGS=-mod=mod GOPROXY=off
unset GOSUMDB
mkdir -p .work evidence replays harness/bin
if [ -f tools/gen/gen_all.py ]; then python3 tools/gen/gen_all.py || echo "setup: translator failed (checks will report it)"; fi
sh coq/mkproject.sh
( cd coq && timeout 3000 make -j16 ) || echo "setup: coq build incomplete (checks will report it)"
cp /repo/go.sum harness/go.sum
for d in harness/cmd/*/; do
  n=$(basename "$d")
  ( cd harness && go build -tags verif -o bin/$n ./cmd/$n ) || echo "setup: harness $n did not build"
done
exit 0
