#!/bin/sh
# usage: tools/mutcheck.sh <patch.diff> Cxx [Cyy ...]
# Runs the given checks against a scratch worktree of /repo HEAD with the patch applied.
# /repo itself is never touched; the worktree is removed afterwards.
patch=$(realpath "$1"); shift
wt=/tmp/mut/$(basename $(dirname $patch))_$$
mkdir -p /tmp/mut
git -C /repo worktree add --detach $wt HEAD >/dev/null 2>&1 || exit 2
# untracked verif hook files of /repo (not yet committed) are needed by harnesses
(cd /repo && git status --porcelain | awk '{print $2}' | while read f; do [ -f "$f" ] && mkdir -p $wt/$(dirname $f) && cp $f $wt/$f; done)
if ! git -C $wt apply --whitespace=nowarn "$patch"; then echo "PATCH-DOES-NOT-APPLY $patch"; git -C /repo worktree remove --force $wt; exit 3; fi
rc=0
for p in "$@"; do
  out=$(cd /verif && VERIF_REPO=$wt ./check $p --tier ${VERIF_TIER:-quick} 2>&1)
  echo "$out" | grep -E "^VIOLATION|^KNOWN|tier=" 
  echo "$out" | grep -q "^VIOLATION" && echo "CAUGHT $p" || { echo "MISSED $p"; rc=1; }
done
git -C /repo worktree remove --force $wt
exit $rc
