#!/usr/bin/env python3
"""Run every seeded change (seeded/Cxx*/patch.diff, seeded/reverts/*/patch.diff) against the check of the
property it breaks, in scratch worktrees (tools/mutcheck.sh; /repo untouched), N at a time.
Writes seeded/results.json {property: {seed-name: CAUGHT|MISSED|NOAPPLY}}.
usage: tools/seedall.py [-j N] [names...]"""
import json, os, subprocess, sys
from concurrent.futures import ThreadPoolExecutor
ROOT = os.path.abspath(os.path.join(os.path.dirname(__file__), ".."))
args = sys.argv[1:]
jobs = 2
if args[:1] == ["-j"]:
    jobs = int(args[1]); args = args[2:]
seeds = []
for d in sorted(os.listdir(os.path.join(ROOT, "seeded"))):
    full = os.path.join(ROOT, "seeded", d)
    if d == "reverts":
        for r in sorted(os.listdir(full)):
            seeds.append(("reverts/" + r, os.path.join(full, r)))
    elif os.path.isdir(full):
        seeds.append((d, full))
if args:
    seeds = [s for s in seeds if s[0] in args or s[0].split("/")[-1] in args]
registered = {f[:-5] for f in os.listdir(os.path.join(ROOT, "tools", "props")) if f.startswith("C") and f.endswith(".json")}
def run(s):
    name, path = s
    meta = json.load(open(os.path.join(path, "meta.json")))
    props = meta.get("detect_with") or [meta["property"]]
    res = {}
    for p in props:
        if p not in registered:
            res[p] = "NOCHECK"; continue
        r = subprocess.run([os.path.join(ROOT, "tools", "mutcheck.sh"), os.path.join(path, "patch.diff"), p],
                           capture_output=True, text=True, cwd=ROOT)
        out = r.stdout + r.stderr
        st = "NOAPPLY" if "PATCH-DOES-NOT-APPLY" in out else ("CAUGHT" if "CAUGHT " + p in out else "MISSED")
        nf = "no-failing-input-found" in out
        res[p] = st + (" (no-failing-input-found)" if st == "CAUGHT" and nf and "replay=" in out and out.count("VIOLATION") == 1 else "")
        print(name, p, res[p], flush=True)
    return name, res
path = os.path.join(ROOT, "seeded", "results.json")
results = json.load(open(path)) if os.path.exists(path) else {}
with ThreadPoolExecutor(max_workers=jobs) as ex:
    for name, res in ex.map(run, seeds):
        for p, st in res.items():
            results.setdefault(p, {})[name] = st
        json.dump(results, open(path, "w"), indent=1, sort_keys=True)
