#!/bin/sh
# usage: tools/seedverify.sh <Cxx> [worktree]  -- confirm a seeded change in its scratch worktree:
# demo fails with the patch, passes without it, the repository's suite passes with it.
id=$1; wt=${2:-/tmp/seed/$id}; out=/verif/seeded/$id
export GOFLAGS=-mod=mod GOPROXY=off
mkdir -p $out
cd $wt || exit 2
[ -f .seed/patch.diff ] || { echo "no patch"; exit 2; }
cp .seed/* $out/ 2>/dev/null
# clean state: revert everything tracked, keep untracked demo files
git checkout -- . 
demos=$(git status --porcelain --untracked-files=all | grep '^??' | awk '{print $2}' | grep '_test.go$' | grep -v '^.seed/')
pkgs=$(for d in $demos; do echo ./$(dirname $d)/; done | sort -u)
echo "demo files: $demos"; echo "packages: $pkgs"
echo "== without patch =="; go test -vet=off -count=1 $pkgs > $out/verify_without.log 2>&1; r0=$?; tail -3 $out/verify_without.log
git apply --whitespace=nowarn .seed/patch.diff || { echo "patch does not apply"; exit 2; }
echo "== with patch =="; go test -vet=off -count=1 $pkgs > $out/verify_with.log 2>&1; r1=$?; tail -5 $out/verify_with.log
# suite with patch, demos moved aside
mkdir -p /tmp/seed/.aside_$id; for d in $demos; do mv $d /tmp/seed/.aside_$id/$(echo $d | tr / _); done
echo "== suite with patch =="; go test -vet=off -count=1 -timeout 25m ./... > $out/verify_suite.log 2>&1; r2=$?; grep -v "no test files" $out/verify_suite.log | grep -v "^ok" | tail -5
for d in $demos; do mv /tmp/seed/.aside_$id/$(echo $d | tr / _) $d; done; rmdir /tmp/seed/.aside_$id
echo "RESULT $id demo_without=$r0 demo_with=$r1 suite_with=$r2" | tee $out/verify_result.txt
[ $r0 -eq 0 ] && [ $r1 -ne 0 ] && [ $r2 -eq 0 ]
