#!/usr/bin/env python3
"""Runner: ./check Cxx [--tier quick|thorough] [--replay file]

Steps (DESIGN.md section 5): regenerate gen/*.v from /repo, build the Coq
cone of Props/Cxx.vo, collect Print Assumptions, build+run the Go harness from
the current /repo tree, evaluate the correspondence cases in Coq, apply the
direct property oracle, decide, write evidence/Cxx.json.
"""
import fcntl
import glob
import hashlib
import json
import os
import re
import shutil
import subprocess
import sys
import time
from concurrent.futures import ThreadPoolExecutor

ROOT = os.path.abspath(os.path.join(os.path.dirname(__file__), "..", ".."))
COQ = os.path.join(ROOT, "coq")
HARNESS = os.path.join(ROOT, "harness")
WORK = os.path.join(ROOT, ".work")
REPO = os.environ.get("VERIF_REPO", "/repo")
ALT = REPO != "/repo"  # mutation testing against a scratch worktree: private coq tree + modfile, /repo untouched

FORBIDDEN = re.compile(
    r"\b(Admitted|admit|Axiom|Axioms|Parameter|Parameters|Conjecture|Conjectures|Admit Obligations|"
    r"Unset Guard Checking|Unset Positivity Checking|Unset Universe Checking|bypass_check|"
    r"type-in-type|impredicative-set)\b")


def goenv():
    e = dict(os.environ)
    e["GOFLAGS"] = "-mod=mod"
    e["GOPROXY"] = "off"
    e.pop("GOSUMDB", None)
    e.setdefault("GOTOOLCHAIN", "auto")
    if e.get("GOTOOLCHAIN") == "local":
        e["GOTOOLCHAIN"] = "auto"
    e["VERIF_REPO"] = REPO
    return e


def sh(cmd, cwd=None, timeout=600, env=None):
    t0 = time.time()
    try:
        p = subprocess.run(cmd, cwd=cwd, env=env, timeout=timeout, stdout=subprocess.PIPE,
                           stderr=subprocess.STDOUT, text=True, errors="replace")
        return p.returncode, p.stdout, time.time() - t0
    except subprocess.TimeoutExpired as ex:
        out = ex.stdout or ""
        if isinstance(out, bytes):
            out = out.decode(errors="replace")
        return 124, out + "\n[timeout after %ss]" % timeout, time.time() - t0


class Lock:
    def __init__(self, name):
        os.makedirs(WORK, exist_ok=True)
        self.path = os.path.join(WORK, name + ".lock")

    def __enter__(self):
        self.f = open(self.path, "w")
        fcntl.flock(self.f, fcntl.LOCK_EX)
        return self

    def __exit__(self, *a):
        fcntl.flock(self.f, fcntl.LOCK_UN)
        self.f.close()


def load_cfg(pid):
    with open(os.path.join(ROOT, "tools", "props", pid + ".json")) as f:
        return json.load(f)


def load_known():
    p = os.path.join(ROOT, "known_findings.json")
    if not os.path.exists(p):
        return {"findings": [], "fixed": []}
    with open(p) as f:
        return json.load(f)


def changed_sources(pid, cfg):
    """Anchor files of the property (properties.jsonl + cfg watch_files) whose text differs from the
    baseline the model was validated against."""
    try:
        base = json.load(open(os.path.join(ROOT, "tools", "baseline_hashes.json")))["files"]
    except (OSError, ValueError, KeyError):
        return []
    pats = list(cfg.get("watch_files", []))
    try:
        for l in open(os.path.join(ROOT, "properties.jsonl")):
            if l.strip():
                p = json.loads(l)
                if p["id"] == pid:
                    pats += p["anchors"]["files"]
    except OSError:
        pass
    files = set()
    for pat in pats:
        if "*" in pat:
            files.update(os.path.relpath(x, REPO) for x in glob.glob(os.path.join(REPO, pat)))
            files.update(f for f in base if glob.fnmatch.fnmatch(f, pat))
        else:
            files.add(pat)
    changed = []
    for f in sorted(files):
        if f.endswith("_test.go") or not (f.endswith(".go") or f.endswith(".proto")):
            continue
        try:
            h = hashlib.sha256(open(os.path.join(REPO, f), "rb").read()).hexdigest()[:20]
        except OSError:
            h = None
        if base.get(f) != h:
            changed.append(f)
    return changed


def regenerate(log):
    """Translator: source -> coq/theories/gen/*.v (write-if-changed)."""
    gen = os.path.join(ROOT, "tools", "gen", "gen_all.py")
    if not os.path.exists(gen):
        return True, "no translator"
    rc, out, _ = sh([sys.executable, gen], cwd=ROOT, timeout=300, env=goenv())
    log.append("== translator ==\n" + out)
    return rc == 0, out.strip().splitlines()[-1] if out.strip() else ""


def coq_build(cfg, tier, log):
    targets = [cfg["props_file"].replace(".v", ".vo")] + cfg.get("extra_vo", [])
    with Lock("coq"):
        rc, out, _ = sh(["sh", "mkproject.sh"], cwd=COQ, timeout=60)
        log.append("== mkproject ==\n" + out)
        if rc != 0:
            return False, out
        rc, out, dt = sh(["make", "-j16"] + targets, cwd=COQ, timeout=cfg.get("coq_timeout_s", 1500))
        log.append("== make (%.1fs) ==\n%s" % (dt, out[-6000:]))
        return rc == 0, out


def dep_cone(targets):
    """.v files in the dependency cone of the given .vo targets (from coq_makefile's .Makefile.d)."""
    deps = {}
    try:
        txt = open(os.path.join(COQ, ".Makefile.d")).read().replace("\\\n", " ")
    except OSError:
        return None
    for line in txt.splitlines():
        if ":" not in line:
            continue
        lhs, rhs = line.split(":", 1)
        outs = [x for x in lhs.split() if x.endswith(".vo")]
        ins = [x for x in rhs.split() if x.endswith(".vo") and x.startswith("theories/")]
        for o in outs:
            deps.setdefault(o, set()).update(ins)
    seen, todo = set(), list(targets)
    while todo:
        t = todo.pop()
        if t in seen:
            continue
        seen.add(t)
        todo += list(deps.get(t, ()))
    return {t[:-1] for t in seen}  # .vo -> .v


def forbidden_scan(cfg=None):
    """Forbidden vernacular in the dependency cone of the property (global if the cone is unknown)."""
    cone = None
    if cfg is not None:
        cone = dep_cone([cfg["props_file"].replace(".v", ".vo")] + cfg.get("extra_vo", []))
    hits, elsewhere = [], []
    for p in glob.glob(os.path.join(COQ, "theories", "**", "*.v"), recursive=True):
        with open(p, errors="replace") as f:
            txt = f.read()
        # strip comments (non-nested approximation is enough: we only want to avoid false alarms on prose)
        stripped = re.sub(r"\(\*.*?\*\)", "", txt, flags=re.S)
        rel = os.path.relpath(p, COQ)
        for m in FORBIDDEN.finditer(stripped):
            (hits if cone is None or rel in cone else elsewhere).append("%s: %s" % (rel, m.group(0)))
    return hits, elsewhere


def theorems_of(cfg):
    with open(os.path.join(COQ, cfg["props_file"])) as f:
        txt = f.read()
    txt = re.sub(r"\(\*.*?\*\)", "", txt, flags=re.S)
    return re.findall(r"^\s*Theorem\s+([A-Za-z0-9_']+)", txt, flags=re.M)


def assumptions(cfg, work, log):
    """Print Assumptions for every theorem of Props/Cxx.v, from the compiled .vo."""
    thms = theorems_of(cfg)
    mod = cfg["props_file"].replace("theories/", "").replace(".v", "").replace("/", ".")
    src = "From Bifrost Require Import %s.\n" % mod
    for t in thms:
        src += 'Goal True. idtac "@@THM %s". exact I. Qed.\nPrint Assumptions %s.\n' % (t, t)
    path = os.path.join(work, "assum_%s.v" % cfg["id"])
    with open(path, "w") as f:
        f.write(src)
    rc, out, _ = sh(["coqc", "-Q", os.path.join(COQ, "theories"), "Bifrost", "-w", "none", path], cwd=work, timeout=300)
    log.append("== assumptions ==\n" + out[-4000:])
    res = {}
    if rc != 0:
        return thms, res
    cur = None
    for line in out.splitlines():
        m = re.match(r"@@THM (\S+)", line)
        if m:
            cur = m.group(1)
            res[cur] = []
            continue
        if cur is not None and line.strip():
            res[cur].append(line.strip())
    return thms, res


def harness_build(cfg, work, log):
    binp = os.path.join(HARNESS, "bin", cfg["harness"])
    if ALT:
        binp = os.path.join(work, "bin_" + cfg["harness"])
        mod = open(os.path.join(HARNESS, "go.mod")).read().replace("=> /repo", "=> " + REPO)
        with open(os.path.join(work, "alt.mod"), "w") as f:
            f.write(mod)
        shutil.copyfile(os.path.join(REPO, "go.sum"), os.path.join(work, "alt.sum"))
        rc, out, dt = sh(["go", "build", "-modfile", os.path.join(work, "alt.mod"), "-tags", "verif", "-o", binp,
                          "./cmd/" + cfg["harness"]], cwd=HARNESS, timeout=900, env=goenv())
        log.append("== go build alt (%.1fs) ==\n%s" % (dt, out[-4000:]))
        return rc == 0, binp, out
    with Lock("go"):
        try:
            shutil.copyfile(os.path.join(REPO, "go.sum"), os.path.join(HARNESS, "go.sum"))
        except OSError as ex:
            log.append("go.sum copy failed: %s" % ex)
        rc, out, dt = sh(["go", "build", "-tags", "verif", "-o", binp, "./cmd/" + cfg["harness"]], cwd=HARNESS,
                         timeout=900, env=goenv())
    log.append("== go build (%.1fs) ==\n%s" % (dt, out[-4000:]))
    return rc == 0, binp, out


def harness_run(cfg, binp, outdir, seed, n, tier, log, extra=None):
    os.makedirs(outdir, exist_ok=True)
    cmd = [binp, "-prop", cfg["id"], "-seed", str(seed), "-n", str(n), "-tier", tier, "-out", outdir]
    cmd += cfg.get("harness_args", [])
    if extra:
        cmd += extra
    env = goenv()
    rc, out, dt = sh(cmd, cwd=HARNESS, timeout=cfg.get("harness_timeout_s", 900), env=env)
    log.append("== harness seed=%s n=%s (%.1fs) rc=%s ==\n%s" % (seed, n, dt, rc, out[-4000:]))
    resp = os.path.join(outdir, "result.json")
    if rc != 0 or not os.path.exists(resp):
        return None, out
    with open(resp) as f:
        return json.load(f), out


def coq_cases(outdir, log):
    files = sorted(glob.glob(os.path.join(outdir, "cases_*.v")),
                   key=lambda f: int(re.search(r"_(\d+)\.v$", f).group(1)))
    results = {}

    def one(path):
        rc, out, dt = sh(["coqc", "-Q", os.path.join(COQ, "theories"), "Bifrost", "-w", "none", path],
                         cwd=outdir, timeout=900)
        m = re.search(r"bad\s*=\s*(.*?):\s*list nat", out, flags=re.S)
        if rc != 0 or not m:
            return path, None, out
        body = re.sub(r"\s+", "", m.group(1))
        if body == "[]":
            return path, [], out
        idx = [int(x.replace("%nat", "")) for x in body.strip("[]").split(";") if x]
        return path, idx, out

    with ThreadPoolExecutor(max_workers=8) as ex:
        for path, idx, out in ex.map(one, files):
            results[path] = idx
            if idx is None:
                log.append("== coqc %s FAILED ==\n%s" % (os.path.basename(path), out[-3000:]))
    return files, results


def match_known(known, pid, key):
    for k in known.get("findings", []):
        if k.get("property") == pid and re.fullmatch(k.get("key", ""), key):
            return k
    return None


def write_replay(pid, payload):
    rdir = os.path.join(WORK, "alt_replays") if ALT else os.path.join(ROOT, "replays")
    os.makedirs(rdir, exist_ok=True)
    h = hashlib.sha256(json.dumps(payload, sort_keys=True, default=str).encode()).hexdigest()[:10]
    path = os.path.join(rdir, "%s_%s.json" % (pid, h))
    with open(path, "w") as f:
        json.dump(payload, f, indent=1, default=str)
    return path


def run_check(pid, tier, seed, replay=None):
    t0 = time.time()
    cfg = load_cfg(pid)
    known = load_known()
    # one private work directory per invocation (concurrent checks of one property must not share files);
    # VERIF_KEEP=1 keeps it under .work/<id>_keep for inspection
    work = os.path.join(WORK, "%s_%s%d" % (pid, "alt" if ALT else "run", os.getpid()))
    shutil.rmtree(work, ignore_errors=True)
    os.makedirs(work, exist_ok=True)
    log = []
    broken = []  # reasons the proof/tie no longer checks
    global COQ
    if ALT:
        alt = os.path.join(work, "coq")
        sh(["rsync", "-a", "--exclude", "cases", os.path.join(ROOT, "coq") + "/", alt + "/"], timeout=600)
        COQ = alt
        os.environ["VERIF_GEN_OUT"] = os.path.join(alt, "theories", "gen")

    gen_ok, gen_msg = regenerate(log)
    if not gen_ok:
        broken.append({"kind": "translator", "detail": gen_msg})

    coq_ok, coq_out = coq_build(cfg, tier, log)
    if not coq_ok:
        m = re.search(r'File "([^"]+)", line (\d+)', coq_out)
        broken.append({"kind": "proof", "detail": "coq build of %s failed%s" % (
            cfg["props_file"], (" at %s:%s" % (m.group(1), m.group(2))) if m else ""),
            "tail": coq_out[-1500:]})

    hits, forbidden_elsewhere = forbidden_scan(cfg)
    if hits:
        broken.append({"kind": "forbidden-vernacular", "detail": hits[:10]})

    thms, assum = ([], {})
    if coq_ok:
        thms, assum = assumptions(cfg, work, log)
    else:
        try:
            thms = theorems_of(cfg)
        except OSError:
            thms = []
    discharged = [t for t in thms if t in assum]
    axioms = sorted({l for t in discharged for l in assum[t] if "Closed under the global context" not in l})
    if coq_ok and len(discharged) != len(thms):
        broken.append({"kind": "proof", "detail": "Print Assumptions failed for %s" % (
            [t for t in thms if t not in assum])})

    chk = None
    if tier == "thorough" and coq_ok and cfg.get("coqchk", True):
        mod = "Bifrost." + cfg["props_file"].replace("theories/", "").replace(".v", "").replace("/", ".")
        with Lock("coq"):
            rc, out, dt = sh(["coqchk", "-silent", "-o", "-Q", "theories", "Bifrost", mod], cwd=COQ, timeout=3000)
        log.append("== coqchk (%.1fs) rc=%s ==\n%s" % (dt, rc, out[-3000:]))
        chk = {"rc": rc, "wall_s": round(dt, 1), "tail": out[-1200:]}
        if rc != 0:
            broken.append({"kind": "proof", "detail": "coqchk failed", "tail": out[-800:]})

    # ---- harness + correspondence ----
    n = cfg.get("thorough_n", 4000) if tier == "thorough" else cfg.get("quick_n", 300)
    seeds = [seed + i for i in range(cfg.get("thorough_seeds", 2) if tier == "thorough" else 1)]
    changed = changed_sources(pid, cfg)
    if changed and tier == "quick":
        # the anchored source text differs from the text the model was validated against:
        # look much harder before believing the correspondence (no alarm by itself).
        n = n * cfg.get("escalate_factor", 4)
        seeds = [seed, seed + 1, seed + 2]
        log.append("escalated: anchored sources changed since baseline: %s" % changed)
    hb_ok, binp, hb_out = harness_build(cfg, work, log)
    results = []
    failures = []
    corr_bad = []
    corr_cases = 0
    corr_failed_files = []
    if not hb_ok:
        broken.append({"kind": "correspondence", "detail": "harness does not build against the current tree",
                       "tail": hb_out[-1500:]})
    else:
        for s in seeds:
            outdir = os.path.join(work, "run_%d" % s)
            res, hout = harness_run(cfg, binp, outdir, s, n, tier, log)
            if res is None:
                broken.append({"kind": "correspondence", "detail": "harness failed to run (seed %d)" % s,
                               "tail": hout[-1500:]})
                continue
            results.append(res)
            failures += res.get("failures") or []
            if coq_ok:
                files, cres = coq_cases(outdir, log)
                for k, path in enumerate(files):
                    idx = cres.get(path)
                    if idx is None:
                        corr_failed_files.append(os.path.basename(path))
                        continue
                    for i in idx:
                        gi = k * res.get("shard_size", 200) + i
                        d = res["descs"][gi] if gi < len(res.get("descs", [])) else None
                        corr_bad.append({"seed": s, "case": gi, "input": d})
                corr_cases += res.get("cases", 0)
        if corr_failed_files:
            broken.append({"kind": "correspondence", "detail": "case files did not evaluate: %s" % corr_failed_files[:5]})
        if corr_bad:
            broken.append({"kind": "correspondence",
                           "detail": "model %s disagrees with the implementation on %d case(s)" % (
                               cfg.get("agree_name", cfg["id"]), len(corr_bad)),
                           "cases": corr_bad[:5]})

    # ---- search for a failing input when something is broken and the oracle is clean ----
    searched = 0
    if broken and hb_ok and not [f for f in failures if not match_known(known, pid, f["key"])]:
        for s in range(seed + 1000, seed + 1000 + (6 if tier == "thorough" else 3)):
            outdir = os.path.join(work, "search_%d" % s)
            res, _ = harness_run(cfg, binp, outdir, s, n * 4, tier, log)
            if res is None:
                continue
            searched += res.get("evaluations", 0)
            fs = res.get("failures") or []
            failures += fs
            if [f for f in fs if not match_known(known, pid, f["key"])]:
                break

    # ---- verdict ----
    out_lines = []
    known_hits = {}
    unknown = []
    for f in failures:
        k = match_known(known, pid, f["key"])
        if k:
            known_hits.setdefault(f["key"], (k, f))
        else:
            unknown.append(f)
    for key, (k, f) in sorted(known_hits.items()):
        out_lines.append("KNOWN-FINDING: property=%s %s [%s]" % (pid, k.get("what", f["what"]), key))

    violations = 0
    rc = 0
    if unknown:
        seen = {}
        for f in unknown:
            seen.setdefault(f["key"], f)
        first = True
        for key, f in sorted(seen.items()):
            path = write_replay(pid, {
                "property": pid, "kind": "failing-input", "key": key, "what": f["what"], "input": f["input"],
                "seed": seed, "tier": tier, "replay_cmd": "VERIF_SEED=%d ./check %s --tier %s" % (seed, pid, tier),
                "also_broken": broken})
            out_lines.append("VIOLATION property=%s replay=%s" % (pid, os.path.relpath(path, ROOT)))
            violations += 1
        rc = 1
    elif broken:
        path = write_replay(pid, {
            "property": pid, "kind": "no-failing-input-found",
            "no_longer_checks": broken, "theorems": thms,
            "searched_evaluations": searched + sum(r.get("evaluations", 0) for r in results),
            "seed": seed, "tier": tier,
            "replay_cmd": "VERIF_SEED=%d ./check %s --tier %s" % (seed, pid, tier)})
        out_lines.append("VIOLATION property=%s replay=%s no-failing-input-found" % (pid, os.path.relpath(path, ROOT)))
        violations = 1
        rc = 1

    # ---- evidence ----
    hist = {}
    samples = []
    evals = 0
    distinct = 0
    for r in results:
        for k, v in (r.get("histogram") or {}).items():
            hist[k] = hist.get(k, 0) + v
        samples += (r.get("samples") or [])[:4]
        evals += r.get("evaluations", 0)
        distinct += r.get("distinct_nontrivial", 0)
    tb = [
        "Coq 8.16.1 kernel (coqc; vm_compute used for case evaluation and finite sweeps; native_compute not used)",
        "Print Assumptions: " + ("; ".join(axioms) if axioms else "every theorem of %s is closed under the global context (no axioms)" % cfg["props_file"]),
        "translator tools/gen (constants/tables regenerated from /repo on this run)",
        "correspondence harness harness/cmd/%s + internal/hx (generators, canonicalisation)" % cfg["harness"],
    ] + cfg.get("modelled", [])
    evidence = {
        "property_id": pid,
        "tier": tier,
        "seed": seed,
        "level": "proof",
        "coverage": {
            "obligations": max(len(thms), 1),
            "discharged": len(discharged),
            "checker_cmd": "make -C coq %s && coqc assum_%s.v (Print Assumptions)%s" % (
                cfg["props_file"].replace(".v", ".vo"), pid, " && coqchk -silent -o" if chk else ""),
            "trusted_base": tb,
            "theorems": [{"name": t, "assumptions": assum.get(t, ["NOT CHECKED"])} for t in thms],
            "evaluations": evals,
            "distinct_nontrivial": distinct,
            "rule": (results[0].get("rule") if results else "") or "",
            "samples": samples[:10] if samples else [{"note": "harness produced no samples"}],
            "correspondence": {"cases_evaluated_in_coq": corr_cases, "disagreements": len(corr_bad),
                               "histogram": hist, "seeds": seeds},
            "oracle": {"failing_inputs": len(failures), "known": len(known_hits), "unlisted": len(unknown),
                       "search_evaluations": searched},
            "broken": broken,
            "sources_changed_since_baseline": changed,
            "forbidden_vernacular_outside_cone": forbidden_elsewhere[:10],
            "coqchk": chk,
            "extra": [r.get("extra") for r in results if r.get("extra")][:1],
        },
        "assumptions": cfg.get("assumes", []),
        "wall_s": round(time.time() - t0, 2),
        "violations": violations,
    }
    os.makedirs(os.path.join(ROOT, "evidence"), exist_ok=True)
    with open(os.path.join(work, "evidence.json") if ALT else os.path.join(ROOT, "evidence", pid + ".json"), "w") as f:
        json.dump(evidence, f, indent=1, default=str)
    with open(os.path.join(work, "log.txt"), "w") as f:
        f.write("\n".join(log))
    for l in out_lines:
        print(l)
    print("%s tier=%s seed=%d theorems=%d/%d cases=%d disagreements=%d oracle_failures=%d (known %d) broken=%d wall=%.1fs -> %s" % (
        pid, tier, seed, len(discharged), len(thms), corr_cases, len(corr_bad), len(failures), len(known_hits),
        len(broken), time.time() - t0, "FAIL" if rc else "ok"))
    if rc and broken:
        for b in broken:
            print("  broken:", b["kind"], "-", str(b["detail"])[:300])
    keep = os.path.join(WORK, pid + "_keep")
    shutil.rmtree(keep, ignore_errors=True)
    if os.environ.get("VERIF_KEEP"):
        shutil.move(work, keep)
    else:
        # keep only the log of the last run of this property
        os.makedirs(keep, exist_ok=True)
        try:
            shutil.copyfile(os.path.join(work, "log.txt"), os.path.join(keep, "log.txt"))
        except OSError:
            pass
        shutil.rmtree(work, ignore_errors=True)
    return rc


def main():
    args = sys.argv[1:]
    if not args:
        print("usage: check Cxx [--tier quick|thorough] [--replay file]")
        return 2
    pid = args[0]
    tier = os.environ.get("VERIF_TIER", "quick")
    replay = None
    i = 1
    while i < len(args):
        if args[i] == "--tier":
            tier = args[i + 1]
            i += 2
        elif args[i] == "--replay":
            replay = args[i + 1]
            i += 2
        else:
            i += 1
    seed = int(os.environ.get("VERIF_SEED", "1") or "1")
    if replay:
        with open(replay) as f:
            r = json.load(f)
        seed = int(r.get("seed", seed))
        tier = r.get("tier", tier)
        print("replaying %s: seed=%d tier=%s key=%s" % (replay, seed, tier, r.get("key", r.get("kind"))))
    if tier not in ("quick", "thorough"):
        tier = "quick"
    return run_check(pid, tier, seed, replay)


if __name__ == "__main__":
    sys.exit(main())
