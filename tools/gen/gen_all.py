#!/usr/bin/env python3
"""Translator: regenerate coq/theories/gen/*.v from /repo's current working tree.

tools/gen/items/*.json : lists of {"name", "file", "regex", "kind": "int"|"string"|"ident", "doc"}
   int    -> Definition <name> : Z := <value>.          (group 1 = Go integer expression)
   string -> Definition <name> : list Z := [bytes].     (group 1 = contents of a Go string literal)
   ident  -> Definition <name> : list Z := bytes of the identifier text matched by group 1
 All items of one json file go to gen/<Stem>.v (Stem = capitalised file stem).
tools/gen/plugins/*.py  : modules with generate(repo) -> {"<Name>.v": "<coq source>"} for tables etc.

Files are only rewritten when their content changed (keeps make incremental).
Exit status 1 if an anchor was not found: the tie to the source is then broken
and the runner reports it.
"""
import glob, importlib.util, json, os, re, sys

ROOT = os.path.abspath(os.path.join(os.path.dirname(__file__), "..", ".."))
REPO = os.environ.get("VERIF_REPO", "/repo")
OUT = os.environ.get("VERIF_GEN_OUT") or os.path.join(ROOT, "coq", "theories", "gen")


def go_int(expr):
    expr = expr.strip()
    expr = re.sub(r"//.*", "", expr).strip()
    if not re.fullmatch(r"[0-9a-fA-FxX_+\-*/<>() \t]+", expr):
        raise ValueError("unsupported int expression: %r" % expr)
    return int(eval(expr.replace("_", ""), {"__builtins__": {}}, {}))


def go_string(lit):
    # contents of an interpreted string literal
    return bytes(lit, "utf-8").decode("unicode_escape").encode("latin-1") if "\\" in lit else lit.encode("utf-8")


def coq_bytes(b):
    return "[" + ";".join(str(x) for x in b) + "]"


def write_if_changed(path, content):
    old = None
    if os.path.exists(path):
        with open(path) as f:
            old = f.read()
    if old != content:
        with open(path, "w") as f:
            f.write(content)
        return True
    return False


def main():
    os.makedirs(OUT, exist_ok=True)
    errors = []
    produced = {}
    for jf in sorted(glob.glob(os.path.join(ROOT, "tools", "gen", "items", "*.json"))):
        stem = os.path.splitext(os.path.basename(jf))[0]
        name = stem[0].upper() + stem[1:] + ".v"
        lines = ["(* GENERATED from %s by tools/gen/gen_all.py (%s) - do not edit *)" % (REPO, os.path.basename(jf)),
                 "From Coq Require Import ZArith List.", "Import ListNotations.", "Open Scope Z_scope.", ""]
        for it in json.load(open(jf)):
            path = os.path.join(REPO, it["file"])
            try:
                src = open(path, errors="replace").read()
            except OSError as ex:
                errors.append("%s: cannot read %s: %s" % (it["name"], it["file"], ex))
                continue
            ms = list(re.finditer(it["regex"], src, flags=re.M | re.S))
            if len(ms) != it.get("count", 1):
                errors.append("%s: anchor %r matched %d times in %s (expected %d)" % (
                    it["name"], it["regex"], len(ms), it["file"], it.get("count", 1)))
                continue
            vals = set(m.group(1) for m in ms)
            if len(vals) != 1:
                errors.append("%s: anchors disagree in %s: %s" % (it["name"], it["file"], sorted(vals)))
                continue
            g = ms[0].group(1)
            try:
                if it["kind"] == "int":
                    body = "Definition %s : Z := %d." % (it["name"], go_int(g))
                elif it["kind"] == "string":
                    body = "Definition %s : list Z := %s." % (it["name"], coq_bytes(go_string(g)))
                elif it["kind"] == "ident":
                    body = "Definition %s : list Z := %s." % (it["name"], coq_bytes(g.encode()))
                else:
                    raise ValueError("unknown kind " + it["kind"])
            except Exception as ex:  # noqa
                errors.append("%s: %s" % (it["name"], ex))
                continue
            lines.append("(* %s : %s *)" % (it["file"], it.get("doc", "")))
            lines.append(body)
            lines.append("")
        produced[name] = "\n".join(lines)
    for pf in sorted(glob.glob(os.path.join(ROOT, "tools", "gen", "plugins", "*.py"))):
        spec = importlib.util.spec_from_file_location("plugin_" + os.path.basename(pf)[:-3], pf)
        mod = importlib.util.module_from_spec(spec)
        try:
            spec.loader.exec_module(mod)
            for name, content in mod.generate(REPO).items():
                produced[name] = content
        except Exception as ex:  # noqa
            errors.append("plugin %s: %s" % (os.path.basename(pf), ex))
    changed = [n for n, c in produced.items() if write_if_changed(os.path.join(OUT, n), c)]
    for e in errors:
        print("TRANSLATOR ERROR:", e)
    print("translator: %d files, %d changed, %d errors" % (len(produced), len(changed), len(errors)))
    return 1 if errors else 0


if __name__ == "__main__":
    sys.exit(main())
