"""Translator plugin: util/extra25519/lo25519.go -> gen/LowOrder.v

Extracts the edBlacklist table (declared dimensions and every byte), the mask
applied to the last byte, and the split index of the two classifier loops.
Raises (=> translator error, tie broken) when the source no longer has the
expected shape."""
import os
import re


def generate(repo):
    path = os.path.join(repo, "util", "extra25519", "lo25519.go")
    src = open(path).read()
    m = re.search(r"var edBlacklist = \[(\d+)\]\[(\d+)\]byte\{(.*?)\n\}\n", src, flags=re.S)
    if not m:
        raise ValueError("edBlacklist declaration not found in lo25519.go")
    nrows, ncols, body = int(m.group(1)), int(m.group(2)), m.group(3)
    body = re.sub(r"/\*.*?\*/", "", body, flags=re.S)
    body = re.sub(r"//[^\n]*", "", body)
    rows = []
    for rm in re.finditer(r"\{([^{}]*)\}", body):
        vals = [int(x, 0) for x in re.findall(r"0[xX][0-9a-fA-F]+|\d+", rm.group(1))]
        rows.append(vals)
    if len(rows) != nrows or any(len(r) != ncols for r in rows):
        raise ValueError("edBlacklist shape mismatch: declared %dx%d, found %s" % (
            nrows, ncols, [len(r) for r in rows]))
    fn = re.search(r"func IsEdLowOrder\(ge \[\]byte\) bool \{(.*?)\n\}\n", src, flags=re.S)
    if not fn:
        raise ValueError("IsEdLowOrder not found")
    fb = fn.group(1)
    ms = re.search(r"for j = 0; j < (\d+); j\+\+", fb)
    mm = re.search(r"c\[i\] \|= \(ge\[j\] & (0[xX][0-9a-fA-F]+|\d+)\) \^ edBlacklist\[i\]\[j\]", fb)
    mx = re.search(r"c\[i\] \|= ge\[j\] \^ edBlacklist\[i\]\[j\]", fb)
    mk = re.search(r"k \|= int\(c\[i\]\) - 1", fb)
    mr = re.search(r"return \(\(k >> (\d+)\) & 1\) == 1", fb)
    if not (ms and mm and mx and mk and mr):
        raise ValueError("IsEdLowOrder body no longer has the transcribed shape")
    out = ["(* GENERATED from %s/util/extra25519/lo25519.go by tools/gen/plugins/derive_lo25519.py - do not edit *)" % repo,
           "From Coq Require Import ZArith List.", "Import ListNotations.", "Open Scope Z_scope.", "",
           "(* declared dimensions of edBlacklist *)",
           "Definition lo_rows : Z := %d." % nrows,
           "Definition lo_cols : Z := %d." % ncols,
           "(* bound of the first loop (j < lo_split), mask on the last byte, shift of the result bit *)",
           "Definition lo_split : Z := %d." % int(ms.group(1)),
           "Definition lo_mask : Z := %d." % int(mm.group(1), 0),
           "Definition lo_shift : Z := %d." % int(mr.group(1)),
           "",
           "Definition ed_blacklist : list (list Z) := ["]
    out.append(";\n".join("  [" + ";".join(str(v) for v in r) + "]" for r in rows))
    out.append("].")
    out.append("")
    return {"LowOrder.v": "\n".join(out)}
