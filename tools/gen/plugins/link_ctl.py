"""Translator plugin for Link/ (C04, C06): which lock regions of the transport
controller wake the EstablishLinkWithPeer resolvers.

gen/LinkCtl.v:
  link_lost_broadcast_calls : Z   number of `broadcast()` calls in the body of
                                  transportHandler.HandleLinkLost
  link_est_broadcast_calls  : Z   same for HandleLinkEstablished
The model (Link/Model.v) refreshes the running directives after a lost link
only when link_lost_broadcast_calls > 0.
"""
import os
import re


def func_body(src, header_re):
    m = re.search(header_re, src)
    if not m:
        raise ValueError("anchor not found: %s" % header_re)
    i = src.index("{", m.end() - 1)
    depth = 0
    for j in range(i, len(src)):
        ch = src[j]
        if ch == "{":
            depth += 1
        elif ch == "}":
            depth -= 1
            if depth == 0:
                return src[i:j + 1]
    raise ValueError("unbalanced braces after %s" % header_re)


def strip_comments(s):
    s = re.sub(r"//[^\n]*", "", s)
    return re.sub(r"/\*.*?\*/", "", s, flags=re.S)


def generate(repo):
    path = os.path.join(repo, "transport", "controller", "transport-handler.go")
    src = strip_comments(open(path, errors="replace").read())
    lost = func_body(src, r"func \(h \*transportHandler\) HandleLinkLost\(lnk link\.Link\) \{")
    est = func_body(src, r"func \(h \*transportHandler\) HandleLinkEstablished\(lnk link\.Link\) \{")
    n_lost = len(re.findall(r"\bbroadcast\(\)", lost))
    n_est = len(re.findall(r"\bbroadcast\(\)", est))
    if n_est == 0:
        raise ValueError("HandleLinkEstablished no longer broadcasts: the Link model does not apply")
    # transport/common/quic/quic.go handleLinkLost: is the controller only told about
    # the loss when the link is still the one registered at its address?
    qsrc = strip_comments(open(os.path.join(repo, "transport", "common", "quic", "quic.go"), errors="replace").read())
    qlost = func_body(qsrc, r"func \(t \*Transport\) handleLinkLost\(addrStr string, lnk \*Link\) \{")
    calls = re.findall(r"if ([^{]*)\{\s*t\.handler\.HandleLinkLost\(lnk\)", qlost)
    if len(calls) != 1 and "t.handler.HandleLinkLost(lnk)" not in qlost:
        raise ValueError("handleLinkLost no longer calls HandleLinkLost")
    needs_current = 1 if (len(calls) == 1 and re.search(r"\brel\b", calls[0])) else 0
    out = [
        "(* GENERATED from %s by tools/gen/plugins/link_ctl.py - do not edit *)" % repo,
        "From Coq Require Import ZArith.", "Open Scope Z_scope.", "",
        "(* transport/controller/transport-handler.go : broadcast() calls in HandleLinkLost *)",
        "Definition link_lost_broadcast_calls : Z := %d." % n_lost,
        "(* transport/controller/transport-handler.go : broadcast() calls in HandleLinkEstablished *)",
        "Definition link_est_broadcast_calls : Z := %d." % n_est,
        "(* transport/common/quic/quic.go handleLinkLost: 1 if HandleLinkLost(lnk) is only called when the",
        "   link is still the one registered at its address (guard mentions rel), 0 if it is always called *)",
        "Definition quic_lost_needs_current : Z := %d." % needs_current, ""]
    return {"LinkCtl.v": "\n".join(out)}
