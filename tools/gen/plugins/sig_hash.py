"""Translator plugin: hash/hash.go + hash/hash.pb.go -> gen/SigHash.v

hash_validate_ok : the HashType values for which HashType.Validate returns nil
hash_sum_table   : (value, digest length) for every case of HashType.Sum that
                   returns a digest; the length is that of the called function
                   (sha256.Sum256 -> 32, sha1.Sum -> 20, blake3.Sum256 -> 32:
                   facts about the standard library / zeebo/blake3, listed here)
hash_len_table   : (value, length) of HashType.GetHashLen (recorded, used by C02 sanity)
Raises when a switch no longer has the expected shape."""
import os
import re

SUM_FUNCS = {"sha256.Sum256": 32, "sha1.Sum": 20, "blake3.Sum256": 32}
LEN_CONSTS = {"sha256.Size": 32, "sha1.Size": 20}


def func_body(src, header):
    i = src.find(header)
    if i < 0:
        raise ValueError("not found: " + header)
    j = src.find("\n}\n", i)
    return src[i:j]


def generate(repo):
    src = open(os.path.join(repo, "hash", "hash.go")).read()
    pb = open(os.path.join(repo, "hash", "hash.pb.go")).read()
    enum = {m.group(1): int(m.group(2)) for m in re.finditer(r"^\s*(HashType_HashType_\w+) HashType = (\d+)", pb, flags=re.M)}
    if not enum:
        raise ValueError("HashType enum not found in hash.pb.go")
    # Validate: cases that return nil
    vb = func_body(src, "func (h HashType) Validate() error {")
    ok = []
    for m in re.finditer(r"case ([\w, \n\t]+):\s*return nil", vb):
        for name in re.split(r"[,\s]+", m.group(1).strip()):
            if name:
                ok.append(enum[name])
    if "default:" not in vb or not ok:
        raise ValueError("HashType.Validate no longer has the expected switch shape")
    # Sum
    sb = func_body(src, "func (h HashType) Sum(data []byte) ([]byte, error) {")
    sums = []
    for m in re.finditer(r"case (\w+):\s*h := ([\w.]+)\(data\)[^\n]*\n\s*return h\[:\], nil", sb):
        fn = m.group(2)
        if fn not in SUM_FUNCS:
            raise ValueError("unknown hash function in HashType.Sum: " + fn)
        sums.append((enum[m.group(1)], SUM_FUNCS[fn]))
    if len(sums) != sb.count("case "):
        raise ValueError("HashType.Sum: %d cases, %d understood" % (sb.count("case "), len(sums)))
    # GetHashLen
    lb = func_body(src, "func (h HashType) GetHashLen() int {")
    lens = []
    for m in re.finditer(r"case (\w+):\s*return ([\w.]+)", lb):
        v = m.group(2)
        lens.append((enum[m.group(1)], LEN_CONSTS[v] if v in LEN_CONSTS else int(v)))
    out = ["(* GENERATED from %s/hash/hash.go, hash.pb.go by tools/gen/plugins/sig_hash.py - do not edit *)" % repo,
           "From Coq Require Import ZArith List.", "Import ListNotations.", "Open Scope Z_scope.", "",
           "(* HashType values accepted by HashType.Validate *)",
           "Definition hash_validate_ok : list Z := [%s]." % ";".join(str(v) for v in ok),
           "(* HashType.Sum: value, digest length *)",
           "Definition hash_sum_table : list (Z * Z) := [%s]." % ";".join("(%d,%d)" % p for p in sums),
           "(* HashType.GetHashLen *)",
           "Definition hash_len_table : list (Z * Z) := [%s]." % ";".join("(%d,%d)" % p for p in lens),
           ""]
    return {"SigHash.v": "\n".join(out)}
