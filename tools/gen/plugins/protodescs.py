"""Translator plugin: .proto files of /repo -> coq/theories/gen/Descs.v.

For every message reachable from ROOTS (the messages decoded from bytes that a
remote peer controls) emit a `Lib.Proto.desc`:

    Definition d_<pkg>_<Msg> : desc := [(<field number>, <label>, <kind>); ...].

in dependency order (nested message descriptors are inlined by name), plus
`all_descs : list (list Z * desc)` (name bytes, descriptor).  A schema change
in /repo therefore changes the model the C40 theorems are instantiated at and
the model the correspondence check compares the generated UnmarshalVT with.

Fails (raises -> TRANSLATOR ERROR, reported by the runner as a broken tie) when
a root is missing, a type cannot be resolved, the schema is recursive, or a
field uses a kind for which Lib/Proto.v has no model (fixed32/64, float,
double, sint32/64, map, group): no guessing.
"""
import glob
import os
import re
import subprocess

# messages parsed from network bytes (package-qualified proto names)
ROOTS = [
    "peer.Signature", "peer.SignedMsg",
    "hash.Hash",
    "crypto.PublicKey", "crypto.PrivateKey",
    "transport.controller.StreamEstablish",
    "floodsub.Packet", "floodsub.SubscriptionOpts",
    "pubmessage.PubMessageInner",
    "link.solicit.SolicitationExchange",
    "signaling.rpc.ListenRequest", "signaling.rpc.ListenResponse",
    "signaling.rpc.SessionRequest", "signaling.rpc.SessionResponse",
    "signaling.rpc.SessionInit", "signaling.rpc.SessionMsg",
    "envelope.Envelope", "envelope.EnvelopeGrant", "envelope.EnvelopeGrantInner",
    "envelope.EnvelopeShare", "envelope.EnvelopeKeypair",
    "webrtc.WebRtcSignal", "webrtc.WebRtcSdp", "webrtc.WebRtcIce",
]

SCALARS = {
    "uint64": "KScalar SUint64", "uint32": "KScalar SUint32",
    "int64": "KScalar SInt64", "int32": "KScalar SInt32",
    "bool": "KScalar SBool",
    "bytes": "KBytes", "string": "KBytes",
}
UNSUPPORTED = {"map", "fixed32", "fixed64", "sfixed32", "sfixed64", "float", "double", "sint32", "sint64"}

TOKEN = re.compile(r'"(?:[^"\\]|\\.)*"|[A-Za-z_][A-Za-z0-9_.]*|\.[A-Za-z_][A-Za-z0-9_.]*|[0-9]+|[{}=;<>,\[\]()]')


def strip_comments(src):
    src = re.sub(r"/\*.*?\*/", "", src, flags=re.S)
    return re.sub(r"//[^\n]*", "", src)


class Msg:
    def __init__(self, full, pkg, file):
        self.full = full
        self.pkg = pkg
        self.file = file
        self.fields = []  # (number, label, typename, name)
        self.ngroups = 0


def parse_file(path, msgs, enums):
    toks = TOKEN.findall(strip_comments(open(path, errors="replace").read()))
    pos = 0
    pkg = ""

    def skip_block(p):
        depth = 0
        while p < len(toks):
            if toks[p] == "{":
                depth += 1
            elif toks[p] == "}":
                depth -= 1
                if depth == 0:
                    return p + 1
            p += 1
        raise ValueError("unbalanced braces in %s" % path)

    def skip_stmt(p):
        while p < len(toks) and toks[p] != ";":
            if toks[p] == "{":
                return skip_block(p)
            p += 1
        return p + 1

    def parse_enum(p, scope):
        name = toks[p + 1]
        enums.add((scope + "." if scope else "") + name)
        return skip_block(p + 2)

    def parse_field(p, m, label):
        # [repeated|optional] type name = number [opts] ;
        typ = toks[p]
        if typ == "map":  # map < K , V > name = N ; recorded, rejected only if reachable from a root
            if toks[p + 1] != "<" or toks[p + 5] != ">":
                raise ValueError("%s: cannot parse map field near %r" % (m.full, toks[p:p + 8]))
            p += 5
        if typ == "group":
            raise ValueError("%s: groups have no model" % m.full)
        name = toks[p + 1]
        if toks[p + 2] != "=":
            raise ValueError("%s: cannot parse field near %r" % (m.full, toks[p:p + 4]))
        num = int(toks[p + 3])
        m.fields.append((num, label, typ, name))
        return skip_stmt(p + 4)

    def parse_message(p, scope):
        name = toks[p + 1]
        full = (scope + "." if scope else "") + name
        m = Msg(full, pkg, path)
        msgs[full] = m
        if toks[p + 2] != "{":
            raise ValueError("expected { after message %s" % full)
        p += 3
        while toks[p] != "}":
            t = toks[p]
            if t == "message":
                p = parse_message(p, full)
            elif t == "enum":
                p = parse_enum(p, full)
            elif t == "oneof":
                g = m.ngroups
                m.ngroups += 1
                if toks[p + 2] != "{":
                    raise ValueError("expected { after oneof in %s" % full)
                p += 3
                while toks[p] != "}":
                    if toks[p] == "option":
                        p = skip_stmt(p)
                    else:
                        p = parse_field(p, m, "LOneof %d" % g)
                p += 1
            elif t in ("option", "reserved", "extensions"):
                p = skip_stmt(p)
            elif t == ";":
                p += 1
            elif t == "repeated":
                p = parse_field(p + 1, m, "LRepeated")
            elif t == "optional":
                raise ValueError("%s: proto3 optional has no exemplar in scope" % full)
            else:
                p = parse_field(p, m, "LSingle")
        return p + 1

    while pos < len(toks):
        t = toks[pos]
        if t == "package":
            pkg = toks[pos + 1]
            pos = skip_stmt(pos)
        elif t == "message":
            pos = parse_message(pos, pkg)
        elif t == "enum":
            pos = parse_enum(pos, pkg)
        elif t in ("service",):
            pos = skip_block(pos)
        else:
            pos = skip_stmt(pos)


def resolve(typ, m, msgs, enums):
    """proto name resolution: absolute (.a.b.C), then innermost scope outwards."""
    if typ.startswith("."):
        cands = [typ[1:]]
    else:
        scope = m.full.split(".")
        cands = [".".join(scope[:k] + [typ]) for k in range(len(scope), -1, -1)]
    for c in cands:
        if c in msgs:
            return "msg", c
        if c in enums:
            return "enum", c
    raise ValueError("%s: cannot resolve type %s" % (m.full, typ))


def wkt_dir(repo):
    """directory holding google/protobuf well-known types of the protobuf-go-lite module in use"""
    env = dict(os.environ, GOFLAGS="-mod=mod", GOPROXY="off")
    env.pop("GOSUMDB", None)
    try:
        out = subprocess.run(["go", "list", "-m", "-f", "{{.Dir}}", "github.com/aperturerobotics/protobuf-go-lite"],
                             cwd=repo, env=env, stdout=subprocess.PIPE, stderr=subprocess.PIPE, text=True, timeout=120)
        d = out.stdout.strip()
        if out.returncode == 0 and d:
            return os.path.join(d, "types", "known")
    except Exception:  # noqa
        pass
    return None


def coq_name(full):
    return "d_" + full.replace(".", "_")


def generate(repo):
    msgs, enums = {}, set()
    files = [f for f in sorted(glob.glob(os.path.join(repo, "**", "*.proto"), recursive=True))
             if "/node_modules/" not in f and "/vendor/" not in f]
    if not files:
        raise ValueError("no .proto files under %s" % repo)
    for f in files:
        parse_file(f, msgs, enums)
    wd = wkt_dir(repo)
    if wd:
        for f in sorted(glob.glob(os.path.join(wd, "*", "*.proto"))):
            parse_file(f, msgs, enums)

    order, state = [], {}

    def visit(full, stack):
        if state.get(full) == 2:
            return
        if state.get(full) == 1:
            raise ValueError("recursive schema: %s" % " -> ".join(stack + [full]))
        state[full] = 1
        m = msgs[full]
        for (_num, _lab, typ, _name) in m.fields:
            if typ in SCALARS:
                continue
            if typ in UNSUPPORTED:
                raise ValueError("%s: field type %s has no model in Lib/Proto.v" % (full, typ))
            kind, tgt = resolve(typ, m, msgs, enums)
            if kind == "msg":
                visit(tgt, stack + [full])
        state[full] = 2
        order.append(full)

    for r in ROOTS:
        if r not in msgs:
            raise ValueError("root message %s not found in the .proto files" % r)
        visit(r, [])

    out = ["(* GENERATED from the .proto files of %s by tools/gen/plugins/protodescs.py - do not edit *)" % repo,
           "From Bifrost Require Import Lib.Base Lib.Proto.", "Open Scope Z_scope.", ""]
    for full in order:
        m = msgs[full]
        nums = [f[0] for f in m.fields]
        if len(set(nums)) != len(nums):
            raise ValueError("%s: duplicate field numbers" % full)
        items = []
        for (num, lab, typ, name) in m.fields:
            if typ in SCALARS:
                k = SCALARS[typ]
            else:
                kind, tgt = resolve(typ, m, msgs, enums)
                k = "KScalar SInt32" if kind == "enum" else "KMsg %s" % coq_name(tgt)
            items.append("(%d, %s, %s) (* %s %s *)" % (num, lab, k, typ, name))
        rel = os.path.relpath(m.file, repo) if m.file.startswith(repo) else "protobuf-go-lite/types/known/" + os.path.basename(m.file)
        out.append("(* %s : message %s *)" % (rel, full))
        if items:
            out.append("Definition %s : desc := [\n  %s\n]." % (coq_name(full), ";\n  ".join(items)))
        else:
            out.append("Definition %s : desc := []." % coq_name(full))
        out.append("")
    ents = []
    for full in order:
        ents.append("  (%s, %s)" % ("[" + ";".join(str(b) for b in full.encode()) + "]", coq_name(full)))
    out.append("(* every regenerated descriptor, with its proto name as bytes *)")
    out.append("Definition all_descs : list (list Z * desc) := [\n%s\n]." % ";\n".join(ents))
    out.append("")
    return {"Descs.v": "\n".join(out)}
