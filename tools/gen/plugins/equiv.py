"""Translator plugin for C37: gen/Equiv.v.

For every directive type anchored by C37 extract from the Go source
  * the struct fields (= constructor parameters), in declaration order, with a Coq type,
  * the getter -> field map (one-line `return d.field` methods),
  * the set of (field, projection) pairs compared by IsEquivalent, after checking that
    the method body is nothing but a conjunction of `d.X == od.Y` comparisons where X and Y
    denote the same field with the same projection,
and emit a Record per type plus `<type>_is_equivalent` built from exactly that set.
Any shape the extractor does not understand raises (translator error = broken tie).
"""
import os
import re

TYPES = [
    # (file, struct name)
    ("link/solicit/solicit.go", "solicitProtocol"),
    ("link/establish-link.go", "establishLinkWithPeer"),
    ("link/handle-mounted-stream.go", "handleMountedStream"),
    ("tptaddr/dial-tpt-addr.go", "dialTptAddr"),
    ("tptaddr/lookup-tpt-addr.go", "lookupTptAddr"),
    ("transport/dir-lookup-transport.go", "lookupTransport"),
    ("rpc/lookup-rpc-service.go", "lookupRpcService"),
    ("rpc/lookup-rpc-client.go", "lookupRpcClient"),
    ("http/dir-lookup-http-handler.go", "lookupHTTPHandler"),
    ("signaling/dir-signal-peer.go", "signalPeer"),
    ("peer/directive.go", "getPeer"),
]

# Go field type -> (Coq type, boolean equality)
GOTYPES = {
    "peer.ID": ("bytes", "bytes_eqb"),
    "ID": ("bytes", "bytes_eqb"),
    "protocol.ID": ("bytes", "bytes_eqb"),
    "string": ("bytes", "bytes_eqb"),
    "[]byte": ("bytes", "bytes_eqb"),
    "uint64": ("Z", "Z.eqb"),
    "*dialer.DialerOpts": ("dialer_opts", None),   # only comparable through a projection
    "*url.URL": ("url", None),                       # only comparable through String()
}

# projection chains the model knows: suffix text -> (applies to Coq type, Coq projection term, result eq)
PROJ = {
    "": None,
    ".String()": "str",          # an injective textual encoding, premise of the theorems
    ".GetAddress()": "opts_address",
}

PRELUDE = """(* GENERATED from %s by tools/gen/plugins/equiv.py - do not edit *)
From Bifrost Require Import Lib.Base.

(* transport/common/dialer DialerOpts: the address and everything else (backoff ...) *)
Record dialer_opts := mk_dialer_opts { opts_address : bytes; opts_rest : bytes }.
(* net/url.URL: the text String() renders (what IsEquivalent compares) and the Path field
   (what the HTTP lookup controllers resolve on); see the C37 notes *)
Record url := mk_url { url_text : bytes; url_path : bytes }.

"""


def strip_comments(src):
    return re.sub(r"//[^\n]*", "", src)


def parse_type(repo, rel, name):
    src = open(os.path.join(repo, rel), errors="replace").read()
    code = strip_comments(src)
    m = re.search(r"type %s struct \{(.*?)\n\}" % re.escape(name), code, flags=re.S)
    if not m:
        raise ValueError("%s: struct %s not found" % (rel, name))
    fields = []
    for line in m.group(1).splitlines():
        line = line.strip()
        if not line:
            continue
        fm = re.fullmatch(r"([A-Za-z_][\w]*(?:\s*,\s*[A-Za-z_]\w*)*)\s+(\S+)", line)
        if not fm:
            raise ValueError("%s: cannot parse field line %r of %s" % (rel, line, name))
        gotype = fm.group(2)
        if gotype not in GOTYPES:
            raise ValueError("%s: field type %s of %s is not known to the C37 model" % (rel, gotype, name))
        for f in re.split(r"\s*,\s*", fm.group(1)):
            fields.append((f, gotype))
    fnames = [f for f, _ in fields]
    # getters
    getters = {}
    for gm in re.finditer(r"func \(d \*%s\) (\w+)\(\) [^{]*\{\s*return d\.(\w+)\s*\}" % re.escape(name), code):
        if gm.group(2) in fnames:
            getters[gm.group(1)] = gm.group(2)
    # IsEquivalent body
    im = re.search(r"func \(d \*%s\) IsEquivalent\(other directive\.Directive\) bool \{(.*?)\n\}" % re.escape(name),
                   code, flags=re.S)
    if not im:
        raise ValueError("%s: IsEquivalent of %s not found" % (rel, name))
    body = im.group(1)
    # the interface assertion
    am = re.search(r"od, ok := other\.\((\w+)\)\s*if !ok \{\s*return false\s*\}", body)
    if not am:
        raise ValueError("%s: IsEquivalent of %s does not start with the interface assertion" % (rel, name))
    rest = body.replace(am.group(0), "")
    side = r"(?:string\()?(d|od)\.(\w+)(\(\))?((?:\.\w+\(\))*)\)?"
    cmp_re = re.compile(side + r"\s*(==|!=)\s*" + side)
    compared = []
    for cm in cmp_re.finditer(rest):
        (w1, n1, c1, s1, op, w2, n2, c2, s2) = cm.groups()
        if (w1, w2) != ("d", "od"):
            raise ValueError("%s: comparison %r of %s is not of the form d.x OP od.y" % (rel, cm.group(0), name))

        def field_of(n, call):
            if call:
                if n not in getters:
                    raise ValueError("%s: %s() is not a plain getter of %s" % (rel, n, name))
                return getters[n]
            if n not in fnames:
                raise ValueError("%s: %s is not a field of %s" % (rel, n, name))
            return n
        f1, f2 = field_of(n1, c1), field_of(n2, c2)
        if f1 != f2 or s1 != s2:
            raise ValueError("%s: IsEquivalent of %s compares %s%s with %s%s" % (rel, name, f1, s1, f2, s2))
        if s1 not in PROJ:
            raise ValueError("%s: projection %s in IsEquivalent of %s is not known to the C37 model" % (rel, s1, name))
        compared.append((f1, s1, op))
    # the body must be a pure conjunction: `if a != b { return false }` ... `return true`, or `return a == b && ...`
    residue = cmp_re.sub("CMP", rest)
    ops = set(op for _, _, op in compared)
    if ops == {"!="}:
        residue = re.sub(r"if CMP \{\s*return false\s*\}", "", residue)
        residue = re.sub(r"return true", "", residue, count=1)
    elif ops == {"=="}:
        residue = re.sub(r"return CMP(\s*&&\s*CMP)*", "", residue, count=1)
    elif not compared:
        raise ValueError("%s: IsEquivalent of %s compares nothing" % (rel, name))
    else:
        raise ValueError("%s: IsEquivalent of %s mixes == and !=" % (rel, name))
    if residue.strip():
        raise ValueError("%s: IsEquivalent of %s is not a plain conjunction of field comparisons (left over: %r)" % (
            rel, name, residue.strip()[:80]))
    return fields, getters, [(f, s) for f, s, _ in compared]


def generate(repo):
    out = [PRELUDE % repo]
    summary = []
    for rel, name in TYPES:
        fields, getters, compared = parse_type(repo, rel, name)
        ftypes = dict(fields)
        out.append("(* %s : %s *)" % (rel, name))
        out.append("Record %s := mk_%s { %s }." % (
            name, name, "; ".join("%s_%s : %s" % (name, f, GOTYPES[t][0]) for f, t in fields)))
        out.append("Definition %s_field_count : nat := %d%%nat." % (name, len(fields)))
        terms = []
        for f, s in compared:
            cty, eq = GOTYPES[ftypes[f]]
            pa, pb = "(%s_%s a)" % (name, f), "(%s_%s b)" % (name, f)
            if s == "":
                if eq is None:
                    raise ValueError("%s: %s.%s is compared as a pointer" % (rel, name, f))
            elif s == ".String()":
                if cty == "url":
                    pa, pb = "(str (url_text %s))" % pa, "(str (url_text %s))" % pb
                elif cty == "bytes":
                    pa, pb = "(str %s)" % pa, "(str %s)" % pb
                else:
                    raise ValueError("%s: String() on %s.%s" % (rel, name, f))
                eq = "bytes_eqb"
            elif s == ".GetAddress()":
                if cty != "dialer_opts":
                    raise ValueError("%s: GetAddress() on %s.%s" % (rel, name, f))
                pa, pb = "(opts_address %s)" % pa, "(opts_address %s)" % pb
                eq = "bytes_eqb"
            terms.append("%s %s %s" % (eq, pa, pb))
        out.append("(* compared by IsEquivalent: %s *)" % ", ".join(f + s for f, s in compared))
        out.append("Definition %s_is_equivalent (str : bytes -> bytes) (a b : %s) : bool :=\n  %s." % (
            name, name, "\n  && ".join(terms + ["true"])))
        out.append("")
        summary.append((name, [f for f, _ in fields], compared))
    return {"Equiv.v": "\n".join(out)}
