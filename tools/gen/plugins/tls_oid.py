"""Translator plugin for Tls/ (C03): the object identifier of the signed-key
certificate extension (crypto/tls/extension.go extensionPrefix ++ the suffix
passed to getPrefixedExtensionID in crypto/tls/tls.go)."""
import os
import re


def ints(s):
    return [int(x) for x in re.findall(r"[0-9]+", s)]


def generate(repo):
    ext = open(os.path.join(repo, "crypto", "tls", "extension.go"), errors="replace").read()
    tls = open(os.path.join(repo, "crypto", "tls", "tls.go"), errors="replace").read()
    m1 = re.search(r"extensionPrefix\s*=\s*\[\]int\{([^}]*)\}", ext)
    m2 = re.search(r"extensionID\s*=\s*getPrefixedExtensionID\(\[\]int\{([^}]*)\}\)", tls)
    m3 = re.search(r"return append\(extensionPrefix, suffix\.\.\.\)", ext)
    if not (m1 and m2 and m3):
        raise ValueError("extension OID anchors not found in crypto/tls")
    oid = ints(m1.group(1)) + ints(m2.group(1))
    # does PubKeyFromCertChain check the certificate's own signature?  (x509
    # Verify with the certificate as its own root does not)
    m4 = re.search(r"func PubKeyFromCertChain\(", tls)
    if not m4:
        raise ValueError("PubKeyFromCertChain not found")
    i = tls.index("{", m4.end())
    depth, j = 0, i
    for j in range(i, len(tls)):
        if tls[j] == "{":
            depth += 1
        elif tls[j] == "}":
            depth -= 1
            if depth == 0:
                break
    body = re.sub(r"//[^\n]*", "", tls[i:j + 1])
    n_sigchk = len(re.findall(r"\.CheckSignature(From)?\(", body))
    out = [
        "(* GENERATED from %s by tools/gen/plugins/tls_oid.py - do not edit *)" % repo,
        "From Coq Require Import ZArith List.", "Import ListNotations.", "Open Scope Z_scope.", "",
        "(* crypto/tls/extension.go extensionPrefix ++ crypto/tls/tls.go extensionID suffix *)",
        "Definition tls_extension_oid : list Z := [%s]." % ";".join(str(x) for x in oid), "",
        "(* crypto/tls/tls.go : CheckSignature/CheckSignatureFrom calls in PubKeyFromCertChain *)",
        "Definition tls_self_signature_checks : Z := %d." % n_sigchk, ""]
    return {"TlsOid.v": "\n".join(out)}
