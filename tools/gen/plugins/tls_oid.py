"""Translator plugin for Tls/ (C03): the object identifier of the signed-key
certificate extension (crypto/tls/extension.go extensionPrefix ++ the suffix
passed to getPrefixedExtensionID in crypto/tls/tls.go)."""
import os
import re


def ints(s):
    return [int(x) for x in re.findall(r"[0-9]+", s)]


def generate(repo):
    ext = open(os.path.join(repo, "crypto", "tls", "extension.go"), errors="replace").read()
    tls = open(os.path.join(repo, "crypto", "tls", "tls.go"), errors="replace").read()
    m1 = re.search(r"extensionPrefix\s*=\s*\[\]int\{([^}]*)\}", ext)
    m2 = re.search(r"extensionID\s*=\s*getPrefixedExtensionID\(\[\]int\{([^}]*)\}\)", tls)
    m3 = re.search(r"return append\(extensionPrefix, suffix\.\.\.\)", ext)
    if not (m1 and m2 and m3):
        raise ValueError("extension OID anchors not found in crypto/tls")
    oid = ints(m1.group(1)) + ints(m2.group(1))
    out = [
        "(* GENERATED from %s by tools/gen/plugins/tls_oid.py - do not edit *)" % repo,
        "From Coq Require Import ZArith List.", "Import ListNotations.", "Open Scope Z_scope.", "",
        "(* crypto/tls/extension.go extensionPrefix ++ crypto/tls/tls.go extensionID suffix *)",
        "Definition tls_extension_oid : list Z := [%s]." % ";".join(str(x) for x in oid), ""]
    return {"TlsOid.v": "\n".join(out)}
