"""Translator plugin (engineer ident): the three switch tables of hash/hash.go.

  hash_validate_accept : list Z      enum values for which HashType.Validate returns nil
  hash_len_table       : list (Z*Z)  (enum value, length) pairs of HashType.GetHashLen (default 0)
  hash_sum_types       : list Z      enum values HashType.Sum computes a digest for
  hash_sum_len_table   : list (Z*Z)  (enum value, length of the array Sum slices) from the stdlib/blake3 call used

Enum names are resolved through hash/hash.pb.go.  Library sizes (sha256.Size,
sha1.Size, Sum256) are constants of the Go standard library / zeebo/blake3 and
are fixed here; the harness checks len(Sum) against them on every run.
"""
import os, re

LIBSIZE = {"sha256.Size": 32, "sha1.Size": 20}
SUMCALL = {"sha256.Sum256": 32, "sha1.Sum": 20, "blake3.Sum256": 32}


def func_body(src, header):
    i = src.index(header)
    j = src.index("\n}\n", i)
    return src[i:j]


def generate(repo):
    src = open(os.path.join(repo, "hash", "hash.go")).read()
    pb = open(os.path.join(repo, "hash", "hash.pb.go")).read()
    enum = {m.group(1): int(m.group(2)) for m in re.finditer(r"^\s*(HashType_\w+)\s+HashType = (\d+)", pb, flags=re.M)}
    if not enum:
        raise ValueError("no HashType enum values found in hash/hash.pb.go")

    def cases(body):
        # [(name, text of the case body)]
        out = []
        parts = re.split(r"\n\s*case (\w+):", body)
        # parts[0] = prefix, then name, text, name, text ...
        for k in range(1, len(parts) - 1, 2):
            text = parts[k + 1]
            text = re.split(r"\n\s*default:", text)[0]
            out.append((parts[k], text))
        return out

    val = func_body(src, "func (h HashType) Validate() error {")
    accept = []
    for name, text in cases(val):
        if re.search(r"return nil\b", text):
            accept.append(enum[name])
    ln = func_body(src, "func (h HashType) GetHashLen() int {")
    lens = []
    for name, text in cases(ln):
        m = re.search(r"return ([\w.]+)", text)
        if not m:
            raise ValueError("GetHashLen case %s: no return" % name)
        tok = m.group(1)
        v = LIBSIZE[tok] if tok in LIBSIZE else int(tok, 0)
        lens.append((enum[name], v))
    sm = func_body(src, "func (h HashType) Sum(data []byte) ([]byte, error) {")
    sums, sumlens = [], []
    for name, text in cases(sm):
        m = re.search(r":= ([\w.]+)\(data\)", text)
        if not m or m.group(1) not in SUMCALL:
            raise ValueError("Sum case %s: unknown digest call" % name)
        sums.append(enum[name])
        sumlens.append((enum[name], SUMCALL[m.group(1)]))
    if not accept or not lens or not sums:
        raise ValueError("hash.go tables not found")

    def zl(l):
        return "[" + "; ".join(str(x) for x in l) + "]"

    def pl(l):
        return "[" + "; ".join("(%d, %d)" % p for p in l) + "]"

    out = "\n".join([
        "(* GENERATED from %s/hash/hash.go by tools/gen/plugins/ident_hash.py - do not edit *)" % repo,
        "From Coq Require Import ZArith List.", "Import ListNotations.", "Open Scope Z_scope.", "",
        "(* HashType.Validate returns nil for these enum values *)",
        "Definition hash_validate_accept : list Z := %s." % zl(accept), "",
        "(* HashType.GetHashLen (0 for every other value) *)",
        "Definition hash_len_table : list (Z * Z) := %s." % pl(lens), "",
        "(* HashType.Sum computes a digest for these enum values ... *)",
        "Definition hash_sum_types : list Z := %s." % zl(sums), "",
        "(* ... of this many bytes (size of the array the library call returns) *)",
        "Definition hash_sum_len_table : list (Z * Z) := %s." % pl(sumlens), ""])
    return {"IdentHash.v": out}
