#!/usr/bin/env python3
"""Run registered checks against a seeded change: apply patch to /repo, run, revert.

usage: tools/seedtest.py <seeded-dir> [Cxx ...]     (default: the property in meta.json)
Never leaves /repo modified: `git -C /repo checkout -- .` + removal of untracked files the patch added.
Only run this when nobody else is using /repo (checks rebuild from /repo's working tree).
"""
import json, os, subprocess, sys, time
ROOT = os.path.abspath(os.path.join(os.path.dirname(__file__), ".."))

def main():
    d = os.path.abspath(sys.argv[1])
    meta = json.load(open(os.path.join(d, "meta.json")))
    props = sys.argv[2:] or meta.get("detect_with") or [meta["property"]]
    patch = os.path.join(d, "patch.diff")
    st = subprocess.run(["git", "-C", "/repo", "status", "--porcelain", "--untracked-files=no"], capture_output=True, text=True).stdout.strip()
    if st:
        print("refusing: /repo has local modifications:\n" + st); return 2
    r = subprocess.run(["git", "-C", "/repo", "apply", "--whitespace=nowarn", patch], capture_output=True, text=True)
    if r.returncode != 0:
        print("patch does not apply:", r.stderr); return 2
    results = {}
    try:
        for p in props:
            t0 = time.time()
            c = subprocess.run(["./check", p, "--tier", os.environ.get("VERIF_TIER", "quick")], cwd=ROOT, capture_output=True, text=True)
            viol = [l for l in c.stdout.splitlines() if l.startswith("VIOLATION")]
            results[p] = {"exit": c.returncode, "violations": viol, "tail": c.stdout.strip().splitlines()[-6:], "wall_s": round(time.time() - t0, 1)}
            print(p, "exit", c.returncode, "|", (viol[0] if viol else "no violation line"))
    finally:
        subprocess.run(["git", "-C", "/repo", "apply", "-R", "--whitespace=nowarn", patch])
        subprocess.run(["git", "-C", "/repo", "checkout", "--", "."])
    json.dump(results, open(os.path.join(d, "result.json"), "w"), indent=1)
    caught = any(v["exit"] == 1 and v["violations"] for v in results.values())
    print("CAUGHT" if caught else "MISSED", os.path.basename(d))
    return 0 if caught else 1

if __name__ == "__main__":
    sys.exit(main())
