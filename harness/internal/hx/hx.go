// Package hx is the shared part of the correspondence harness: flags, seeded
// PRNG, Coq term printers, case-file sharding, oracle-failure collection and
// the result.json the runner reads.
package hx

import (
	"crypto/sha256"
	"encoding/hex"
	"encoding/json"
	"flag"
	"fmt"
	"math/rand"
	"os"
	"path/filepath"
	"sort"
	"strconv"
	"strings"
)

// Failure is a concrete input on which the implementation breaks the property.
type Failure struct {
	Key      string `json:"key"`  // stable identifier, matched against known_findings.json
	What     string `json:"what"` // observed vs required
	Input    any    `json:"input"`
	CaseIdx  int    `json:"case_idx"`
	Property string `json:"property"`
}

// Ctx is handed to the per-property generator.
type Ctx struct {
	Prop    string
	Seed    int64
	N       int
	Tier    string
	Out     string
	Rng     *rand.Rand
	Replay  string
	Imports string // e.g. "Solicit.Run"
	Type    string // Coq type of a case
	Agree   string // Coq function case -> bool
	Rule    string

	cases     []string
	descs     []any
	fails     []Failure
	hist      map[string]int
	distinct  map[string]struct{}
	samples   []any
	evals     int
	ShardSize int
	Extra     map[string]any
}

// Case records one correspondence case: term is the Coq constructor
// application (input plus canonicalised observation), desc a JSON-able
// description used in replays and samples.
func (c *Ctx) Case(term string, desc any) int {
	c.cases = append(c.cases, term)
	c.descs = append(c.descs, desc)
	if len(c.samples) < 5 || (len(c.cases)%97 == 0 && len(c.samples) < 12) {
		c.samples = append(c.samples, desc)
	}
	return len(c.cases) - 1
}

// Eval counts one execution of the implementation that is not a Coq case.
func (c *Ctx) Eval() { c.evals++ }

// Class bumps a histogram bucket.
func (c *Ctx) Class(k string) { c.hist[k]++ }

// Nontrivial marks a case as non-trivial; distinctness is by key.
func (c *Ctx) Nontrivial(key string) {
	h := sha256.Sum256([]byte(key))
	c.distinct[hex.EncodeToString(h[:8])] = struct{}{}
}

// Fail records a concrete property failure observed on the implementation.
func (c *Ctx) Fail(key, what string, input any) {
	c.fails = append(c.fails, Failure{Key: key, What: what, Input: input, CaseIdx: len(c.cases) - 1, Property: c.Prop})
}

// Failf is Fail with formatting.
func (c *Ctx) Failf(key string, input any, format string, a ...any) {
	c.Fail(key, fmt.Sprintf(format, a...), input)
}

// Main parses flags, runs gen and writes the outputs.
func Main(gen func(c *Ctx)) {
	c := &Ctx{hist: map[string]int{}, distinct: map[string]struct{}{}, ShardSize: 200, Extra: map[string]any{}}
	flag.StringVar(&c.Prop, "prop", "", "property id")
	flag.Int64Var(&c.Seed, "seed", 1, "seed")
	flag.IntVar(&c.N, "n", 200, "number of generated cases (scale)")
	flag.StringVar(&c.Tier, "tier", "quick", "quick|thorough")
	flag.StringVar(&c.Out, "out", ".", "output directory")
	flag.StringVar(&c.Replay, "replay", "", "replay file")
	flag.Parse()
	c.Rng = rand.New(rand.NewSource(c.Seed))
	gen(c)
	if err := c.write(); err != nil {
		fmt.Fprintln(os.Stderr, "hx: write:", err)
		os.Exit(2)
	}
}

func (c *Ctx) write() error {
	if err := os.MkdirAll(c.Out, 0o755); err != nil {
		return err
	}
	shards := 0
	for i := 0; i < len(c.cases); i += c.ShardSize {
		j := i + c.ShardSize
		if j > len(c.cases) {
			j = len(c.cases)
		}
		var sb strings.Builder
		fmt.Fprintf(&sb, "(* written by the harness: property %s seed %d cases %d..%d *)\n", c.Prop, c.Seed, i, j-1)
		fmt.Fprintf(&sb, "From Bifrost Require Import Lib.Base %s.\nOpen Scope Z_scope.\n", c.Imports)
		fmt.Fprintf(&sb, "Definition cases : list %s := [\n", c.Type)
		for k := i; k < j; k++ {
			sb.WriteString("  ")
			sb.WriteString(c.cases[k])
			if k+1 < j {
				sb.WriteString(";")
			}
			sb.WriteString("\n")
		}
		sb.WriteString("].\n")
		fmt.Fprintf(&sb, "Definition bad := Eval vm_compute in indices_where (fun c => negb (%s c)) cases.\nPrint bad.\n", c.Agree)
		name := filepath.Join(c.Out, fmt.Sprintf("cases_%s_%d.v", c.Prop, shards))
		if err := os.WriteFile(name, []byte(sb.String()), 0o644); err != nil {
			return err
		}
		shards++
	}
	keys := make([]string, 0, len(c.hist))
	for k := range c.hist {
		keys = append(keys, k)
	}
	sort.Strings(keys)
	res := map[string]any{
		"property":            c.Prop,
		"seed":                c.Seed,
		"tier":                c.Tier,
		"cases":               len(c.cases),
		"shards":              shards,
		"shard_size":          c.ShardSize,
		"evaluations":         len(c.cases) + c.evals,
		"distinct_nontrivial": len(c.distinct),
		"rule":                c.Rule,
		"histogram":           c.hist,
		"samples":             c.samples,
		"failures":            c.fails,
		"descs":               c.descs,
		"extra":               c.Extra,
	}
	b, err := json.MarshalIndent(res, "", " ")
	if err != nil {
		return err
	}
	return os.WriteFile(filepath.Join(c.Out, "result.json"), b, 0o644)
}

// ---- Coq term printers ----

// Z prints an integer literal safe in Z scope.
func Z(v int64) string {
	if v < 0 {
		return "(" + strconv.FormatInt(v, 10) + ")"
	}
	return strconv.FormatInt(v, 10)
}

// U prints an unsigned integer in Z scope.
func U(v uint64) string { return strconv.FormatUint(v, 10) }

// Nat prints a nat literal (keep small).
func Nat(v int) string { return strconv.Itoa(v) + "%nat" }

// Bool prints a Coq bool.
func Bool(b bool) string {
	if b {
		return "true"
	}
	return "false"
}

// Bytes prints a byte slice as list Z.
func Bytes(b []byte) string {
	if len(b) == 0 {
		return "[]"
	}
	var sb strings.Builder
	sb.Grow(len(b) * 4)
	sb.WriteByte('[')
	for i, x := range b {
		if i > 0 {
			sb.WriteByte(';')
		}
		sb.WriteString(strconv.Itoa(int(x)))
	}
	sb.WriteByte(']')
	return sb.String()
}

// Str prints a Go string as its bytes.
func Str(s string) string { return Bytes([]byte(s)) }

// List prints already-rendered terms as a Coq list.
func List(items []string) string {
	if len(items) == 0 {
		return "[]"
	}
	return "[" + strings.Join(items, "; ") + "]"
}

// BytesList prints a [][]byte.
func BytesList(l [][]byte) string {
	items := make([]string, len(l))
	for i, b := range l {
		items[i] = Bytes(b)
	}
	return List(items)
}

// NatList prints []int as list nat.
func NatList(l []int) string {
	items := make([]string, len(l))
	for i, b := range l {
		items[i] = Nat(b)
	}
	return List(items)
}

// Opt prints an option.
func Opt(present bool, term string) string {
	if !present {
		return "None"
	}
	return "(Some " + term + ")"
}

// App prints a constructor application.
func App(ctor string, args ...string) string {
	if len(args) == 0 {
		return ctor
	}
	return "(" + ctor + " " + strings.Join(args, " ") + ")"
}

// Catch runs f and reports whether it panicked.
func Catch(f func()) (panicked bool, val any) {
	defer func() {
		if r := recover(); r != nil {
			panicked = true
			val = r
		}
	}()
	f()
	return false, nil
}

// RandBytes returns n random bytes from the case PRNG.
func (c *Ctx) RandBytes(n int) []byte {
	b := make([]byte, n)
	for i := range b {
		b[i] = byte(c.Rng.Intn(256))
	}
	return b
}

// Hex is a short printable form for descriptors.
func Hex(b []byte) string { return hex.EncodeToString(b) }

// Chunking returns a random split of n into positive parts (style 0: all ones,
// 1: one chunk, otherwise random).
func (c *Ctx) Chunking(n, style int) []int {
	var out []int
	switch style {
	case 0:
		for i := 0; i < n; i++ {
			out = append(out, 1)
		}
	case 1:
		if n > 0 {
			out = append(out, n)
		}
	default:
		for n > 0 {
			k := 1 + c.Rng.Intn(n)
			if c.Rng.Intn(2) == 0 && k > 7 {
				k = 1 + c.Rng.Intn(7)
			}
			out = append(out, k)
			n -= k
		}
	}
	return out
}
