// Harness for peer/derive.go (C13) and util/extra25519 (C14): runs the real
// functions and emits correspondence cases for Derive/Run.v.
package main

import (
	"bytes"
	"crypto/ecdh"
	"crypto/ed25519"
	"fmt"
	"math/big"

	"filippo.io/edwards25519"
	"github.com/aperturerobotics/bifrost/crypto"
	"github.com/aperturerobotics/bifrost/peer"
	"github.com/aperturerobotics/bifrost/util/extra25519"
	"verifharness/internal/hx"
)

func main() { hx.Main(run) }

func run(c *hx.Ctx) {
	c.Imports = "Derive.Run"
	switch c.Prop {
	case "C13":
		c13(c)
	case "C14":
		c14(c)
	default:
		panic("unknown property " + c.Prop)
	}
}

// ---------------------------------------------------------------- keys

func genKeys(c *hx.Ctx, n int) []crypto.PrivKey {
	out := make([]crypto.PrivKey, n)
	for i := range out {
		// ed25519.GenerateKey reads exactly SeedSize bytes; build from a seed to stay deterministic
		seed := c.RandBytes(ed25519.SeedSize)
		k := ed25519.NewKeyFromSeed(seed)
		priv, _, err := crypto.KeyPairFromStdKey(&k)
		if err != nil {
			panic(err)
		}
		out[i] = priv
	}
	return out
}

// foreignKey is a crypto.PrivKey of a type DeriveKey does not know.
type foreignKey struct{}

func (foreignKey) Equals(crypto.Key) bool      { return false }
func (foreignKey) Raw() ([]byte, error)        { return []byte{1, 2, 3}, nil }
func (foreignKey) Type() crypto.KeyType        { return crypto.KeyType(77) }
func (foreignKey) Sign([]byte) ([]byte, error) { return nil, nil }
func (foreignKey) GetPublic() crypto.PubKey    { return nil }

// ---------------------------------------------------------------- C13

// keyT mirrors Derive.Run.keyt.
type keyT struct {
	atom      int
	ctx, salt []byte
	parent    *keyT
}

func (k *keyT) term() string {
	if k.parent == nil {
		return hx.App("KA", hx.Nat(k.atom))
	}
	return hx.App("KD", bz(k.ctx), bz(k.salt), k.parent.term())
}

func (k *keyT) desc() string {
	if k.parent == nil {
		return fmt.Sprintf("k%d", k.atom)
	}
	return fmt.Sprintf("DeriveEd25519Key(%q,%x,%s)", k.ctx, k.salt, k.parent.desc())
}

type privIn struct {
	kind int // 0 nil, 1 key, 2 foreign
	key  *keyT
}

func (p privIn) term() string {
	switch p.kind {
	case 0:
		return "PNil"
	case 2:
		return "POther"
	}
	return hx.App("PKey", p.key.term())
}

func (p privIn) desc() string {
	switch p.kind {
	case 0:
		return "nil"
	case 2:
		return "foreign-key-type"
	}
	return p.key.desc()
}

type dres struct {
	cls int // 0 ok, 1 nil key, 2 key type, 3 other error, 9 panic
	out []byte
	pv  any
}

func classify(err error) int {
	switch {
	case err == nil:
		return 0
	case err == crypto.ErrNilPrivateKey:
		return 1
	case err == crypto.ErrBadKeyType:
		return 2
	}
	return 3
}

func c13(c *hx.Ctx) {
	c.Type = "c13_case"
	c.Agree = "c13_agree"
	c.Rule = "contexts and salts in the size classes 63..1024 (30% of the picks) with last-byte and whitespace neighbours, recycled salt/out buffers; pairs of DeriveKey / DeriveEd25519Key calls over keys k0..k3, keys derived from them (depth <= 3), nil and foreign keys, contexts incl. empty / 1 byte / zero bytes / longer than the 32-byte material, salts nil / empty / non-empty, lengths 0..200; pairs biased to differ in exactly one of key, context, salt, length; non-trivial = distinct pair where both calls succeed"
	keys := genKeys(c, 4)
	realKey := map[string]crypto.PrivKey{}
	var resolve func(k *keyT) (crypto.PrivKey, error)
	resolve = func(k *keyT) (crypto.PrivKey, error) {
		if k.parent == nil {
			return keys[k.atom], nil
		}
		id := k.term()
		if v, ok := realKey[id]; ok {
			return v, nil
		}
		pk, err := resolve(k.parent)
		if err != nil {
			return nil, err
		}
		var d crypto.PrivKey
		panicked, pv := hx.Catch(func() { d, _, err = peer.DeriveEd25519Key(string(k.ctx), k.salt, pk) })
		if panicked {
			return nil, fmt.Errorf("panic: %v", pv)
		}
		if err != nil {
			return nil, err
		}
		realKey[id] = d
		return d, nil
	}
	ctxs := [][]byte{{}, []byte("a"), {0}, {0, 0, 0}, []byte("ctx one"), []byte("ctx one "), []byte("bifrost/verif derive 2024 v1"),
		bytes.Repeat([]byte("0123456789"), 4), {255, 1, 128}, c.RandBytes(33), c.RandBytes(5)}
	salts := [][]byte{nil, {}, []byte("s"), []byte("salt"), {0}, c.RandBytes(16), c.RandBytes(40),
		[]byte("bifrost/peer/derive-key")}
	lens := []int{0, 1, 2, 16, 31, 32, 33, 64, 65, 200}
	// whitespace neighbours, and long contexts / salts in the size classes, each with a
	// neighbour that differs only in its last byte (long common prefix)
	ctxs = append(ctxs, []byte(" ctx one"), []byte("ctx one\n"), []byte("\tctx one"))
	shortCtxs, shortSalts := len(ctxs), 0
	for _, n := range pickSizes(c, []int{64, 128, 257}, 2) {
		if n >= 63 {
			b := patterned(n, 2)
			ctxs = append(ctxs, b, tailVariant(b))
		}
	}
	shortSalts = len(salts)
	for _, n := range pickSizes(c, []int{74, 105, 128, 257}, 3) {
		if n >= 63 {
			b := patterned(n, 3)
			salts = append(salts, b, tailVariant(b))
		}
	}
	// pick: short values, or (30%) one of the long ones
	pick := func(l [][]byte) []byte {
		short := shortCtxs
		if len(l) > 0 && len(salts) > 0 && &l[0] == &salts[0] {
			short = shortSalts
		}
		if len(l) > short && c.Rng.Intn(10) < 3 {
			return l[short+c.Rng.Intn(len(l)-short)]
		}
		return l[c.Rng.Intn(short)]
	}
	var randKey func(depth int) *keyT
	randKey = func(depth int) *keyT {
		if depth <= 0 || c.Rng.Intn(3) != 0 {
			return &keyT{atom: c.Rng.Intn(len(keys))}
		}
		k := &keyT{ctx: pick(ctxs), salt: pick(salts), parent: randKey(depth - 1)}
		if _, err := resolve(k); err != nil {
			// the implementation cannot even produce this input key: report it, use the parent instead
			c.Failf("c13-derive-ed25519-fails-on-valid-key", map[string]any{"kind": "DeriveEd25519Key", "context": string(k.ctx), "context_hex": hx.Hex(k.ctx), "salt_hex": hx.Hex(k.salt), "key": k.parent.desc()},
				"DeriveEd25519Key failed on a valid Ed25519 key: %v", err)
			return k.parent
		}
		return k
	}
	randPriv := func() privIn {
		switch c.Rng.Intn(14) {
		case 0:
			return privIn{kind: 0}
		case 1:
			return privIn{kind: 2}
		}
		return privIn{kind: 1, key: randKey(3)}
	}
	realPriv := func(p privIn) crypto.PrivKey {
		switch p.kind {
		case 0:
			return nil
		case 2:
			return foreignKey{}
		}
		k, err := resolve(p.key)
		if err != nil {
			panic(fmt.Sprintf("cannot build input key %s: %v", p.key.desc(), err))
		}
		return k
	}
	calls := 0
	var ruSalt, ruOut reuseBuf
	var prevSalt []byte
	prevN := 0
	// one raw call; salt and out are passed exactly as given
	derive1 := func(ctx, salt []byte, pk crypto.PrivKey, out []byte) dres {
		var err error
		panicked, pv := hx.Catch(func() { err = peer.DeriveKey(string(ctx), salt, pk, out) })
		if panicked {
			return dres{cls: 9, pv: pv}
		}
		r := dres{cls: classify(err)}
		if err == nil {
			r.out = append([]byte{}, out...)
		}
		return r
	}
	sameRes := func(a, b dres) bool { return a.cls == b.cls && bytes.Equal(a.out, b.out) }
	// derive runs DeriveKey; every other call with salt and out as sub-slices of
	// larger patterned buffers (>= 96 bytes of spare capacity), then again with the
	// SAME slices, then with fresh exact-capacity copies: arguments and the bytes
	// around them must be untouched and all three results equal.
	derive := func(ctx, salt []byte, p privIn, n int) dres {
		calls++
		pk := realPriv(p)
		var rawBefore []byte
		if pk != nil {
			rawBefore, _ = pk.Raw()
		}
		ad := map[string]any{"kind": "DeriveKey", "context": string(ctx), "context_hex": hx.Hex(ctx), "salt_hex": hx.Hex(salt), "salt_nil": salt == nil, "key": p.desc(), "len": n}
		fresh := func() dres {
			var sc []byte
			if salt != nil {
				sc = make([]byte, len(salt))
				copy(sc, salt)
			}
			r := derive1(ctx, sc, pk, make([]byte, n))
			if !bytes.Equal(sc, salt) {
				c.Failf("c13-argument-modified", ad, "DeriveKey modified its salt argument")
			}
			return r
		}
		var r dres
		if calls%2 == 1 {
			saltArg, gs := guardBytes(salt)
			out, gout := guardOut(n)
			r = derive1(ctx, saltArg, pk, out)
			check := func(when string) {
				if gs.argChanged() {
					c.Failf("c13-argument-modified", ad, "DeriveKey modified its salt argument (%s; salt passed as a sub-slice with spare capacity)", when)
				}
				if gs.outsideChanged() {
					c.Failf("c13-argument-modified", ad, "DeriveKey wrote to the caller's buffer outside the salt slice, between len and cap (%s)", when)
				}
				if gout.outsideChanged() {
					c.Failf("c13-writes-outside-out", ad, "DeriveKey wrote outside the out slice (%s)", when)
				}
			}
			check("first call")
			if r.cls != 9 {
				r2 := derive1(ctx, saltArg, pk, out) // the SAME slices again
				c.Eval()
				check("second call")
				if !sameRes(r, r2) {
					c.Failf("c13-repeated-call-differs", ad, "a second DeriveKey call with the same salt and out slices gave a different result")
				}
				r3 := fresh()
				c.Eval()
				if !sameRes(r, r3) {
					c.Failf("c13-repeated-call-differs", ad, "DeriveKey with a fresh exact-capacity copy of the salt gave a different result than with the salt as a sub-slice of a larger buffer")
				}
			}
		} else {
			r = fresh()
			// recycled buffers: the previous salt / out, then this salt / out from the same
			// backing arrays (every other time wiped in between, as callers that scrub do)
			if r.cls != 9 && prevSalt != nil {
				derive1(ctx, ruSalt.load(prevSalt), pk, ruOut.load(make([]byte, prevN)))
				if calls%4 == 0 {
					ruSalt.zero()
					ruOut.zero()
				}
				var sa []byte
				if salt != nil {
					sa = ruSalt.load(salt)
				}
				r4 := derive1(ctx, sa, pk, ruOut.load(make([]byte, n)))
				c.Eval()
				c.Eval()
				if !sameRes(r, r4) {
					c.Failf("c13-buffer-reuse-differs", ad, "DeriveKey with salt/out buffers that held other contents before gave a different result than with fresh buffers")
				}
			}
		}
		prevSalt, prevN = append([]byte{}, salt...), n
		if pk != nil {
			if rawAfter, _ := pk.Raw(); !bytes.Equal(rawBefore, rawAfter) {
				c.Failf("c13-argument-modified", ad, "DeriveKey modified the private key it was given")
			}
		}
		return r
	}
	rel := func(a, b dres) int {
		if a.cls != 0 || b.cls != 0 {
			return 0
		}
		switch {
		case bytes.Equal(a.out, b.out):
			return 1
		case len(a.out) < len(b.out) && bytes.Equal(a.out, b.out[:len(a.out)]):
			return 2
		case len(b.out) < len(a.out) && bytes.Equal(b.out, a.out[:len(b.out)]):
			return 3
		}
		return 0
	}
	type inp struct {
		ctx, salt []byte
		p         privIn
		n         int
	}
	mutate := func(a inp) inp {
		b := a
		switch c.Rng.Intn(11) {
		case 7: // salt differs only in its last byte
			b.salt = tailVariant(a.salt)
		case 8: // context differs only in its last byte
			b.ctx = tailVariant(a.ctx)
		case 9: // leading / trailing whitespace
			ws := []string{" ", "\t", "\n", "\x00"}[c.Rng.Intn(4)]
			switch c.Rng.Intn(4) {
			case 0:
				b.ctx = append([]byte(ws), a.ctx...)
			case 1:
				b.ctx = append(append([]byte{}, a.ctx...), ws...)
			case 2:
				b.salt = append([]byte(ws), a.salt...)
			default:
				b.salt = append(append([]byte{}, a.salt...), ws...)
			}
		case 10: // another long-term key, everything else equal
			k := 0
			if a.p.kind == 1 && a.p.key.parent == nil {
				k = (a.p.key.atom + 1 + c.Rng.Intn(len(keys)-1)) % len(keys)
			}
			b.p = privIn{kind: 1, key: &keyT{atom: k}}
		case 0: // same inputs again (determinism)
		case 1:
			b.ctx = pick(ctxs)
		case 2:
			b.salt = pick(salts)
		case 3:
			b.p = randPriv()
		case 4:
			b.n = lens[c.Rng.Intn(len(lens))]
		case 5: // nil salt <-> empty salt, context moved into the salt and similar boundary shifts
			if len(a.salt) == 0 {
				if a.salt == nil {
					b.salt = []byte{}
				} else {
					b.salt = nil
				}
			} else {
				b.ctx = append(append([]byte{}, a.ctx...), a.salt[0])
				b.salt = a.salt[1:]
			}
		default:
			b = inp{pick(ctxs), pick(salts), randPriv(), lens[c.Rng.Intn(len(lens))]}
		}
		return b
	}
	sameInput := func(a, b inp) bool {
		return bytes.Equal(a.ctx, b.ctx) && bytes.Equal(a.salt, b.salt) && a.p.kind == 1 && b.p.kind == 1 && a.p.key.term() == b.p.key.term()
	}
	nKey := c.N * 3 / 4
	for i := 0; i < nKey; i++ {
		a := inp{pick(ctxs), pick(salts), randPriv(), lens[c.Rng.Intn(len(lens))]}
		if i < len(ctxs)*2 { // make sure every context is used early, with nil and non-nil salt
			a.ctx = ctxs[i%len(ctxs)]
			a.p = privIn{kind: 1, key: &keyT{atom: i % len(keys)}}
		}
		b := mutate(a)
		if !sameInput(a, b) {
			// outputs of 1..7 bytes for DIFFERENT inputs coincide by chance (2^-8n): the
			// equality pattern is only meaningful from 8 bytes on; short lengths stay for equal inputs
			if a.n > 0 && a.n < 8 {
				a.n = 8
			}
			if b.n > 0 && b.n < 8 {
				b.n = 8
			}
		}
		ra, rb := derive(a.ctx, a.salt, a.p, a.n), derive(b.ctx, b.salt, b.p, b.n)
		r := rel(ra, rb)
		desc := map[string]any{"kind": "DeriveKey x2",
			"a": map[string]any{"context": string(a.ctx), "context_hex": hx.Hex(a.ctx), "salt_hex": hx.Hex(a.salt), "salt_nil": a.salt == nil, "key": a.p.desc(), "len": a.n, "class": ra.cls},
			"b": map[string]any{"context": string(b.ctx), "context_hex": hx.Hex(b.ctx), "salt_hex": hx.Hex(b.salt), "salt_nil": b.salt == nil, "key": b.p.desc(), "len": b.n, "class": rb.cls},
			"relation": r}
		c.Case(hx.App("Derive2", bz(a.ctx), bz(a.salt), a.p.term(), hx.Nat(a.n),
			bz(b.ctx), bz(b.salt), b.p.term(), hx.Nat(b.n), hx.Nat(ra.cls), hx.Nat(rb.cls), hx.Nat(r)), desc)
		switch {
		case len(a.ctx) == 0 || len(b.ctx) == 0:
			c.Class("derive-key/empty-context")
		case a.p.kind != 1 || b.p.kind != 1:
			c.Class("derive-key/unusable-key")
		case sameInput(a, b):
			c.Class("derive-key/same-input")
		default:
			c.Class("derive-key/different-input")
		}
		if ra.cls == 0 && rb.cls == 0 {
			c.Nontrivial(fmt.Sprint(desc))
		}
		// ---- direct oracle (property text) ----
		for _, x := range []struct {
			in inp
			r  dres
		}{{a, ra}, {b, rb}} {
			if x.r.cls == 9 {
				c.Failf("c13-derive-key-panics", desc, "DeriveKey panicked: %v (context %q, salt %x, key %s, len %d)", x.r.pv, x.in.ctx, x.in.salt, x.in.p.desc(), x.in.n)
			}
			if x.in.p.kind == 1 && x.r.cls != 0 && x.r.cls != 9 {
				c.Failf("c13-derive-key-error-on-valid-key", desc, "DeriveKey returned an error for a valid Ed25519 key (context %q)", x.in.ctx)
			}
			// determinism: run again
			again := derive(x.in.ctx, x.in.salt, x.in.p, x.in.n)
			c.Eval()
			if again.cls != x.r.cls || !bytes.Equal(again.out, x.r.out) {
				c.Failf("c13-not-deterministic", desc, "two DeriveKey calls with identical inputs returned different results")
			}
		}
		if ra.cls == 0 && rb.cls == 0 {
			if sameInput(a, b) {
				m := a.n
				if b.n < m {
					m = b.n
				}
				if !bytes.Equal(ra.out[:m], rb.out[:m]) {
					c.Failf("c13-not-deterministic", desc, "same key, context and salt but outputs differ within the common length")
				}
			} else if a.n > 0 && b.n > 0 && ra.out[0] == rb.out[0] {
				m := a.n
				if b.n < m {
					m = b.n
				}
				if m >= 8 && bytes.Equal(ra.out[:m], rb.out[:m]) {
					c.Failf("c13-not-separated", desc, "different (key, context, salt) gave the same %d output bytes", m)
				}
			}
		}
	}
	// DeriveEd25519Key pairs
	for i := nKey; i < c.N; i++ {
		a := inp{pick(ctxs), pick(salts), randPriv(), 32}
		b := mutate(a)
		type edres struct {
			cls int
			pub []byte
			pv  any
		}
		deriveEd := func(x inp) edres {
			var priv crypto.PrivKey
			var pub crypto.PubKey
			var err error
			pk := realPriv(x.p)
			saltArg, gs := guardBytes(x.salt)
			var rawBefore []byte
			if pk != nil {
				rawBefore, _ = pk.Raw()
			}
			ed := map[string]any{"kind": "DeriveEd25519Key", "context_hex": hx.Hex(x.ctx), "salt_hex": hx.Hex(x.salt), "key": x.p.desc()}
			panicked, pv := hx.Catch(func() { priv, pub, err = peer.DeriveEd25519Key(string(x.ctx), saltArg, pk) })
			if gs.argChanged() || gs.outsideChanged() {
				c.Failf("c13-argument-modified", ed, "DeriveEd25519Key modified its salt argument or the caller's buffer around it (salt passed as a sub-slice with spare capacity)")
			}
			if !panicked && err == nil {
				// the same slice again, then a fresh exact-capacity copy
				for rep := 0; rep < 2; rep++ {
					arg := saltArg
					if rep == 1 && x.salt != nil {
						arg = append(make([]byte, 0, len(x.salt)), x.salt...)
					}
					var pub2 crypto.PubKey
					var err2 error
					p2, _ := hx.Catch(func() { _, pub2, err2 = peer.DeriveEd25519Key(string(x.ctx), arg, pk) })
					c.Eval()
					if p2 || err2 != nil || !pub2.Equals(pub) {
						c.Failf("c13-repeated-call-differs", ed, "repeating DeriveEd25519Key (rep %d: 0 = same salt slice, 1 = fresh copy) gave a different key", rep)
					}
				}
				if gs.argChanged() || gs.outsideChanged() {
					c.Failf("c13-argument-modified", ed, "DeriveEd25519Key modified its salt argument or the caller's buffer around it")
				}
			}
			if pk != nil {
				if rawAfter, _ := pk.Raw(); !bytes.Equal(rawBefore, rawAfter) {
					c.Failf("c13-argument-modified", ed, "DeriveEd25519Key modified the private key it was given")
				}
			}
			if panicked {
				return edres{cls: 9, pv: pv}
			}
			r := edres{cls: classify(err)}
			if err == nil {
				raw, _ := pub.Raw()
				r.pub = raw
				if priv == nil || !priv.GetPublic().Equals(pub) {
					r.cls = 3
				}
			}
			return r
		}
		ra, rb := deriveEd(a), deriveEd(b)
		same := ra.cls == 0 && rb.cls == 0 && bytes.Equal(ra.pub, rb.pub)
		desc := map[string]any{"kind": "DeriveEd25519Key x2",
			"a": map[string]any{"context": string(a.ctx), "context_hex": hx.Hex(a.ctx), "salt_hex": hx.Hex(a.salt), "key": a.p.desc(), "class": ra.cls},
			"b": map[string]any{"context": string(b.ctx), "context_hex": hx.Hex(b.ctx), "salt_hex": hx.Hex(b.salt), "key": b.p.desc(), "class": rb.cls},
			"same_key": same}
		c.Case(hx.App("DeriveEd2", bz(a.ctx), bz(a.salt), a.p.term(), bz(b.ctx), bz(b.salt), b.p.term(),
			hx.Nat(ra.cls), hx.Nat(rb.cls), hx.Bool(same)), desc)
		c.Class("derive-ed25519")
		if ra.cls == 0 && rb.cls == 0 {
			c.Nontrivial(fmt.Sprint(desc))
		}
		if ra.cls == 9 || rb.cls == 9 {
			c.Failf("c13-derive-ed25519-panics", desc, "DeriveEd25519Key panicked: %v %v", ra.pv, rb.pv)
		}
		if ra.cls == 0 && rb.cls == 0 && same != sameInput(a, b) {
			c.Failf("c13-ed25519-separation", desc, "derived key pairs equal=%v but inputs equal=%v", same, sameInput(a, b))
		}
	}
}

// ---------------------------------------------------------------- C14

var ellOrder, _ = new(big.Int).SetString("7237005577332262213973186563042994240857116359379907606001950938285454250989", 10)

// mulEll computes [l]P by double-and-add: the component of P in the 8-torsion subgroup (times l mod 8).
func mulEll(p *edwards25519.Point) *edwards25519.Point {
	acc := edwards25519.NewIdentityPoint()
	for i := ellOrder.BitLen() - 1; i >= 0; i-- {
		acc = new(edwards25519.Point).Add(acc, acc)
		if ellOrder.Bit(i) == 1 {
			acc = new(edwards25519.Point).Add(acc, p)
		}
	}
	return acc
}

func c14(c *hx.Ctx) {
	c.Type = "c14_case"
	c.ShardSize = 400
	c.Agree = "c14_agree"
	c.Rule = "every input also from a recycled buffer that held another valid key before (overwritten / wiped); IsEdLowOrder and PublicKeyToCurve25519 on: the 7 table rows, their sign-bit variants, every single-bit flip of every row, encodings of all 8-torsion points computed with edwards25519 ([l]P of random points) incl. non-canonical y+p forms, real public keys, random strings, lengths 0..64; X25519 agreement on real key pairs; non-trivial = distinct input that is classified low order or converts"
	rows := extra25519.VerifEdBlacklist()
	identity := edwards25519.NewIdentityPoint()
	seen := map[string]bool{}
	var ru reuseBuf
	lastValid := []byte(ed25519.NewKeyFromSeed(c.RandBytes(32)).Public().(ed25519.PublicKey))
	one := func(ge []byte, class string) {
		if seen[string(ge)] {
			return
		}
		seen[string(ge)] = true
		in := append([]byte{}, ge...)
		// classifier
		var lo bool
		panicked, pv := hx.Catch(func() { lo = extra25519.IsEdLowOrder(in) })
		obs := 0
		if lo {
			obs = 1
		}
		if panicked {
			obs = 2
		}
		desc := map[string]any{"kind": "IsEdLowOrder", "ge": hx.Hex(ge), "len": len(ge), "class": class, "low_order": lo, "panicked": panicked}
		c.Case(hx.App("LowOrd", bz(ge), hx.Nat(obs)), desc)
		c.Class("classifier/" + class)
		if lo {
			c.Nontrivial("lo" + hx.Hex(ge))
		}
		// conversion
		var pt *edwards25519.Point
		isPoint := false
		if len(ge) == 32 {
			p, err := new(edwards25519.Point).SetBytes(ge)
			if err == nil {
				pt, isPoint = p, true
			}
		}
		var conv []byte
		var valid bool
		panicked2, pv2 := hx.Catch(func() { conv, valid = extra25519.PublicKeyToCurve25519(ed25519.PublicKey(in)) })
		cobs := 1
		if valid {
			cobs = 0
		}
		if panicked2 {
			cobs = 2
		}
		desc2 := map[string]any{"kind": "PublicKeyToCurve25519", "ge": hx.Hex(ge), "len": len(ge), "class": class, "is_point": isPoint, "converted": valid, "panicked": panicked2}
		c.Case(hx.App("Convert", bz(ge), hx.Bool(isPoint), hx.Nat(cobs)), desc2)
		c.Class("convert/" + class)
		if valid {
			c.Nontrivial("cv" + hx.Hex(ge))
		}
		if !bytes.Equal(in, ge) {
			c.Failf("c14-input-mutated", desc, "the input slice was modified")
		}
		if !panicked && !panicked2 {
			// same bytes as a sub-slice of a larger patterned buffer (96 bytes spare capacity), called twice with the SAME slice
			sub, g := guardBytes(ge)
			if sub == nil {
				sub, g = guardBytes([]byte{})
			}
			for rep := 0; rep < 2; rep++ {
				var lo2, valid2 bool
				var conv2 []byte
				p3, _ := hx.Catch(func() {
					lo2 = extra25519.IsEdLowOrder(sub)
					conv2, valid2 = extra25519.PublicKeyToCurve25519(ed25519.PublicKey(sub))
				})
				c.Eval()
				if p3 || lo2 != lo || valid2 != valid || !bytes.Equal(conv2, conv) {
					c.Failf("c14-repeated-call-differs", desc2, "repeating the calls on the same bytes as a sub-slice of a larger buffer gave a different result than on an exact-capacity copy")
				}
				if g.argChanged() || g.outsideChanged() {
					c.Failf("c14-input-mutated", desc2, "the input slice or the caller's buffer around it was modified")
				}
			}
		}
		// ---- direct oracle (property text), 32-byte strings ----
		if len(ge) != 32 {
			return
		}
		if panicked || panicked2 {
			c.Failf("c14-panics-on-32-bytes", desc2, "panic on a 32-byte input: %v %v", pv, pv2)
			return
		}
		small := isPoint && new(edwards25519.Point).MultByCofactor(pt).Equal(identity) == 1
		judge := func(when string, lo bool, conv []byte, valid bool) {
			if isPoint && lo != small {
				c.Failf("c14-classifier-not-exact", desc, "%s: IsEdLowOrder=%v but the decoded point has small order=%v", when, lo, small)
			}
			wantRefuse := !isPoint || small
			if valid == wantRefuse {
				c.Failf("c14-convert-not-exact", desc2, "%s: PublicKeyToCurve25519 valid=%v, required refusal=%v (point=%v small-order=%v)", when, valid, wantRefuse, isPoint, small)
			}
			if valid && isPoint && !bytes.Equal(conv, pt.BytesMontgomery()) {
				c.Failf("c14-convert-wrong-value", desc2, "%s: converted value differs from the Montgomery form of the point", when)
			}
		}
		judge("fresh buffer", lo, conv, valid)
		// ---- recycled buffers: another (valid) key is converted from a buffer first ----
		call := func(b []byte) (lo3 bool, conv3 []byte, valid3 bool, p bool) {
			p, _ = hx.Catch(func() {
				lo3 = extra25519.IsEdLowOrder(b)
				conv3, valid3 = extra25519.PublicKeyToCurve25519(ed25519.PublicKey(b))
			})
			c.Eval()
			return
		}
		prev := lastValid
		// (1) convert prev from the buffer, overwrite the buffer with this input, convert again
		call(ru.load(prev))
		lo3, conv3, valid3, p3 := call(ru.load(ge))
		if p3 || lo3 != lo || valid3 != valid || !bytes.Equal(conv3, conv) {
			c.Failf("c14-buffer-reuse-differs", desc2, "after converting key %x from a buffer and overwriting the buffer with this input, the result differs from the one on a fresh buffer", prev)
		}
		judge("buffer that held another key before", lo3, conv3, valid3)
		// (2) convert prev from the buffer, wipe the buffer (callers scrub keys), convert this input from a fresh buffer
		call(ru.load(prev))
		ru.zero()
		lo4, conv4, valid4, p4 := call(append([]byte{}, ge...))
		if p4 || lo4 != lo || valid4 != valid || !bytes.Equal(conv4, conv) {
			c.Failf("c14-buffer-reuse-differs", desc2, "after converting key %x from a buffer and wiping that buffer, converting this input from a fresh buffer gives a different result than before", prev)
		}
		judge("after another key's buffer was wiped", lo4, conv4, valid4)
		if valid && !small {
			lastValid = append([]byte{}, ge...)
		}
	}
	// oracleOnly runs the implementation and the direct oracle without emitting a Coq case
	oracleOnly := func(ge []byte) {
		c.Eval()
		lo := extra25519.IsEdLowOrder(ge)
		_, valid := extra25519.PublicKeyToCurve25519(ed25519.PublicKey(ge))
		p, err := new(edwards25519.Point).SetBytes(ge)
		isPoint := err == nil
		small := isPoint && new(edwards25519.Point).MultByCofactor(p).Equal(identity) == 1
		d := map[string]any{"kind": "oracle-only", "ge": hx.Hex(ge)}
		if isPoint && lo != small {
			c.Failf("c14-classifier-not-exact", d, "IsEdLowOrder=%v but the decoded point has small order=%v", lo, small)
		}
		if valid == (!isPoint || small) {
			c.Failf("c14-convert-not-exact", d, "PublicKeyToCurve25519 valid=%v (point=%v small-order=%v)", valid, isPoint, small)
		}
	}
	flipTop := func(b []byte) []byte {
		o := append([]byte{}, b...)
		o[len(o)-1] ^= 0x80
		return o
	}
	for _, r := range rows {
		one(r, "table-row")
		one(flipTop(r), "table-row-sign")
	}
	// every single-bit flip of every row (sign-bit flips were done above)
	// (all of them in the thorough tier, a seeded sample of about c.N in the quick tier;
	// the implementation is run on all of them in both tiers)
	for _, r := range rows {
		for bit := 0; bit < 255; bit++ {
			o := append([]byte{}, r...)
			o[bit/8] ^= 1 << (bit % 8)
			if c.Tier == "thorough" || c.Rng.Intn(7*255) < c.N {
				one(o, "row-bit-flip")
			} else {
				oracleOnly(o)
			}
		}
	}
	// encodings of 8-torsion points, computed (independent of the table)
	p25519 := new(big.Int).Sub(new(big.Int).Lsh(big.NewInt(1), 255), big.NewInt(19))
	tors := 0
	torsSeen := map[string]bool{}
	for tries := 0; tries < 400 && tors < 60; tries++ {
		b := c.RandBytes(32)
		p, err := new(edwards25519.Point).SetBytes(b)
		if err != nil {
			continue
		}
		t := mulEll(p)
		enc := t.Bytes()
		tors++
		torsSeen[string(enc)] = true
		one(enc, "torsion-computed")
		one(flipTop(enc), "torsion-computed-sign")
		// non-canonical form y + p when it fits in 255 bits
		y := new(big.Int)
		le := append([]byte{}, enc...)
		le[31] &= 0x7f
		for i := 31; i >= 0; i-- {
			y.Lsh(y, 8).Or(y, big.NewInt(int64(le[i])))
		}
		y.Add(y, p25519)
		if y.BitLen() <= 255 {
			nb := make([]byte, 32)
			yb := y.Bytes()
			for i := range yb {
				nb[i] = yb[len(yb)-1-i]
			}
			one(nb, "torsion-noncanonical")
			one(flipTop(nb), "torsion-noncanonical-sign")
		}
		// a torsion point plus a large-order point is not small order
		q := new(edwards25519.Point).Add(t, new(edwards25519.Point).ScalarBaseMult(randScalar(c)))
		one(q.Bytes(), "mixed-order-point")
	}
	c.Extra["distinct_torsion_points_computed"] = len(torsSeen)
	// real public keys
	for i := 0; i < 8+c.N/20; i++ {
		k := ed25519.NewKeyFromSeed(c.RandBytes(32))
		one([]byte(k.Public().(ed25519.PublicKey)), "public-key")
	}
	// random strings and near-misses of rows in several bytes
	for i := 0; i < c.N/3; i++ {
		one(c.RandBytes(32), "random-32")
	}
	for i := 0; i < c.N/6; i++ {
		o := append([]byte{}, rows[c.Rng.Intn(len(rows))]...)
		for k := 0; k < 1+c.Rng.Intn(3); k++ {
			o[c.Rng.Intn(32)] = byte(c.Rng.Intn(256))
		}
		one(o, "row-byte-mutation")
	}
	// other lengths
	for _, n := range []int{0, 1, 16, 30, 31, 33, 40, 64} {
		one(c.RandBytes(n), fmt.Sprintf("len-%d", n))
		if n > 32 {
			for _, r := range rows[:3] {
				one(append(append([]byte{}, r...), c.RandBytes(n-32)...), fmt.Sprintf("row-extended-%d", n))
			}
		}
		if n > 0 && n < 32 {
			one(append([]byte{}, rows[1][:n]...), fmt.Sprintf("row-truncated-%d", n))
		}
	}
	// X25519 agreement on real key pairs (second sentence of C14: a test, not a proof)
	nk := 6
	type kp struct {
		xpriv *ecdh.PrivateKey
		xpub  *ecdh.PublicKey
	}
	kps := make([]kp, nk)
	for i := range kps {
		k := ed25519.NewKeyFromSeed(c.RandBytes(32))
		xp := extra25519.PrivateKeyToCurve25519(k)
		xpriv, err := ecdh.X25519().NewPrivateKey(xp[:32])
		if err != nil {
			panic(err)
		}
		xpubb, ok := extra25519.PublicKeyToCurve25519(k.Public().(ed25519.PublicKey))
		if !ok {
			panic("real public key refused")
		}
		xpub, err := ecdh.X25519().NewPublicKey(xpubb)
		if err != nil {
			panic(err)
		}
		if !bytes.Equal(xpriv.PublicKey().Bytes(), xpubb) {
			c.Failf("c14-conversions-disagree", map[string]any{"key": i}, "X25519 public key of the converted private key differs from the converted public key")
		}
		kps[i] = kp{xpriv, xpub}
	}
	shared := func(a, b int) []byte {
		s, err := kps[a].xpriv.ECDH(kps[b].xpub)
		if err != nil {
			panic(err)
		}
		return s
	}
	for i := 0; i < 40+c.N/10; i++ {
		a, b := c.Rng.Intn(nk), c.Rng.Intn(nk)
		var cc, d int
		if c.Rng.Intn(2) == 0 {
			cc, d = b, a
		} else {
			cc, d = c.Rng.Intn(nk), c.Rng.Intn(nk)
		}
		eq := bytes.Equal(shared(a, b), shared(cc, d))
		desc := map[string]any{"kind": "X25519 agreement", "a": a, "b": b, "c": cc, "d": d, "equal": eq}
		c.Case(hx.App("DhEq", hx.Nat(a), hx.Nat(b), hx.Nat(cc), hx.Nat(d), hx.Bool(eq)), desc)
		c.Class("dh")
		if eq {
			c.Nontrivial(fmt.Sprint("dh", a, b, cc, d))
		}
		if !bytes.Equal(shared(a, b), shared(b, a)) {
			c.Failf("c14-dh-asymmetric", desc, "X25519(conv priv a, conv pub b) != X25519(conv priv b, conv pub a)")
		}
	}
}

func randScalar(c *hx.Ctx) *edwards25519.Scalar {
	s, err := new(edwards25519.Scalar).SetUniformBytes(c.RandBytes(64))
	if err != nil {
		panic(err)
	}
	return s
}
