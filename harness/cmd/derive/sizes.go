package main

import "verifharness/internal/hx"

// sizeClasses: lengths around the block sizes and fixed scratch-buffer sizes a
// refactoring is likely to introduce (32/64/128/256 and those minus the fixed
// parts of the sign body / KDF input).
var sizeClasses = []int{0, 1, 31, 32, 33, 63, 64, 65, 73, 74, 104, 105, 127, 128, 129, 203, 204, 234, 235, 245, 246, 255, 256, 257, 512, 1024}

// patterned returns n printable bytes; different tags give different strings,
// the same tag gives strings that are prefixes of each other.
func patterned(n int, tag int) []byte {
	b := make([]byte, n)
	for i := range b {
		b[i] = byte('a' + (i*7+tag*11+i/26)%26)
	}
	return b
}

// pickSizes: every class in the thorough tier; in the quick tier the mandatory
// ones plus k random others.
func pickSizes(c *hx.Ctx, mandatory []int, k int) []int {
	if c.Tier == "thorough" {
		return append([]int{}, sizeClasses...)
	}
	seen := map[int]bool{}
	var out []int
	for _, m := range mandatory {
		if !seen[m] {
			seen[m] = true
			out = append(out, m)
		}
	}
	for i := 0; i < k; i++ {
		s := sizeClasses[c.Rng.Intn(len(sizeClasses))]
		if !seen[s] {
			seen[s] = true
			out = append(out, s)
		}
	}
	return out
}

// tailVariant returns a copy of b that differs only in the last byte (or one appended byte for the empty string).
func tailVariant(b []byte) []byte {
	o := append([]byte{}, b...)
	if len(o) == 0 {
		return []byte{'#'}
	}
	o[len(o)-1] ^= 0x01
	return o
}

// reuseBuf is one backing array that successive calls are served from, with
// DIFFERENT contents each time (callers that recycle a scratch buffer).
type reuseBuf struct{ back []byte }

func (r *reuseBuf) load(b []byte) []byte {
	if b == nil {
		return nil
	}
	if r.back == nil {
		r.back = make([]byte, 8192)
	}
	n := copy(r.back, b)
	return r.back[:n:len(r.back)]
}

// zero wipes the backing array (callers that scrub a buffer after use).
func (r *reuseBuf) zero() {
	for i := range r.back {
		r.back[i] = 0
	}
}
