package main

import (
	"context"
	"fmt"
	"sort"
	"strconv"
	"sync"
	"sync/atomic"
	"time"

	"github.com/aperturerobotics/bifrost/crypto"
	"github.com/aperturerobotics/bifrost/hash"
	"github.com/aperturerobotics/bifrost/link"
	"github.com/aperturerobotics/bifrost/peer"
	"github.com/aperturerobotics/bifrost/protocol"
	"github.com/aperturerobotics/bifrost/pubsub"
	pubsub_controller "github.com/aperturerobotics/bifrost/pubsub/controller"
	"github.com/aperturerobotics/bifrost/pubsub/floodsub"
	"github.com/aperturerobotics/bifrost/pubsub/util/pubmessage"
	"github.com/aperturerobotics/bifrost/stream"
	"verifharness/internal/hx"
)

// ---- opener rule ----

type fakeLink struct {
	local, remote peer.ID
	opened        int
}

func (l *fakeLink) GetLinkUUID() uint64            { return 7 }
func (l *fakeLink) GetTransportUUID() uint64       { return 1 }
func (l *fakeLink) GetRemoteTransportUUID() uint64 { return 2 }
func (l *fakeLink) GetLocalPeer() peer.ID          { return l.local }
func (l *fakeLink) GetRemotePeer() peer.ID         { return l.remote }
func (l *fakeLink) OpenMountedStream(ctx context.Context, pid protocol.ID, opts stream.OpenOpts) (link.MountedStream, error) {
	l.opened++
	return &fakeMS{conn: nil, pid: l.remote}, nil
}

var _ link.MountedLink = (*fakeLink)(nil)

type fakePubSub struct{ added int }

func (f *fakePubSub) Execute(ctx context.Context) error { return nil }
func (f *fakePubSub) AddPeerStream(tpl pubsub.PeerLinkTuple, initiator bool, ms link.MountedStream) {
	f.added++
}
func (f *fakePubSub) AddSubscription(ctx context.Context, privKey crypto.PrivKey, channelID string) (pubsub.Subscription, error) {
	return nil, nil
}
func (f *fakePubSub) Close() {}

func opensReal(local, remote peer.ID) (bool, error) {
	lnk := &fakeLink{local: local, remote: remote}
	ps := &fakePubSub{}
	err := pubsub_controller.VerifTrackLink(context.Background(), quietLogger(), floodsub.FloodSubID, ps, lnk)
	if err != nil {
		return false, err
	}
	if (lnk.opened == 1) != (ps.added == 1) || lnk.opened > 1 {
		return false, fmt.Errorf("opened %d streams, added %d", lnk.opened, ps.added)
	}
	return lnk.opened == 1, nil
}

func c29Opener(c *hx.Ctx, n int) {
	keys := genKeys(c.Rng, 24)
	ids := []peer.ID{}
	for _, k := range keys {
		ids = append(ids, k.id)
	}
	// arbitrary byte strings as peer ids: String() is the base58 text of the bytes
	for _, s := range []string{"", "a", "ab", "abc", "b", "\x00", "\x00\x00", "\x00a", "\xff", "\xff\xff", "z", "zz"} {
		ids = append(ids, peer.ID(s))
	}
	for i := 0; i < 8; i++ {
		ids = append(ids, peer.ID(c.RandBytes(1+c.Rng.Intn(40))))
	}
	for i := 0; i < n; i++ {
		a := ids[c.Rng.Intn(len(ids))]
		b := ids[c.Rng.Intn(len(ids))]
		if c.Rng.Intn(12) == 0 {
			b = a
		}
		oa, err1 := opensReal(a, b)
		ob, err2 := opensReal(b, a)
		sa, sb := a.String(), b.String()
		desc := map[string]any{"kind": "opener", "a": sa, "b": sb, "a_opens": oa, "b_opens": ob}
		if err1 != nil || err2 != nil {
			c.Failf("c29-opener-error", desc, "trackLink failed: %v %v", err1, err2)
			continue
		}
		c.Case(hx.App("Opener29", hx.Str(sa), hx.Str(sb), hx.Bool(oa), hx.Bool(ob)), desc)
		c.Class("opener")
		if a != b {
			c.Nontrivial("o" + sa + "/" + sb)
			if oa && ob {
				c.Failf("c29-opener-both", desc, "both sides of the link open the pubsub stream")
			}
			if !oa && !ob {
				c.Failf("c29-opener-none", desc, "neither side of the link opens the pubsub stream")
			}
			if sa == sb {
				c.Failf("c29-opener-string-collision", desc, "two different peer ids have the same String()")
			}
		}
	}
}

// c29OpenerSeq: two nodes X and Y, each one controller instance, each hosting several local peer
// identities; every link (Li, Rj) is tracked by X's controller (local Li) and by Y's controller (local
// Rj), in independent random orders. For each link exactly one of the two ends must open the stream.
func c29OpenerSeq(c *hx.Ctx, n int) {
	keys := genKeys(c.Rng, 16)
	ids := make([]peer.ID, len(keys))
	for i, k := range keys {
		ids[i] = k.id
	}
	sort.Slice(ids, func(a, b int) bool { return ids[a].String() < ids[b].String() })
	for it := 0; it < n; it++ {
		// identities of X and of Y, interleaved in String() order (L1 < R < L2 patterns)
		perm := c.Rng.Perm(len(ids))
		nx, ny := 1+c.Rng.Intn(3), 1+c.Rng.Intn(3)
		xs, ys := []peer.ID{}, []peer.ID{}
		for i := 0; i < nx; i++ {
			xs = append(xs, ids[perm[i]])
		}
		for i := 0; i < ny; i++ {
			ys = append(ys, ids[perm[nx+i]])
		}
		type lnk struct{ l, r peer.ID }
		var links []lnk
		for _, l := range xs {
			for _, r := range ys {
				if c.Rng.Intn(4) != 0 {
					links = append(links, lnk{l, r})
				}
			}
		}
		if len(links) == 0 {
			links = append(links, lnk{xs[0], ys[0]})
		}
		run := func(order []int, flip bool) ([]bool, []string, error) {
			ps := &fakePubSub{}
			ctl := pubsub_controller.VerifNewController(quietLogger(), floodsub.FloodSubID, ps)
			opened := make([]bool, len(order))
			var terms []string
			for pos, i := range order {
				local, remote := links[i].l, links[i].r
				if flip {
					local, remote = remote, local
				}
				fl := &fakeLink{local: local, remote: remote}
				before := ps.added
				if err := ctl.VerifTrackLink(context.Background(), quietLogger(), fl); err != nil {
					return nil, nil, err
				}
				if fl.opened > 1 || (fl.opened == 1) != (ps.added == before+1) {
					return nil, nil, fmt.Errorf("opened %d streams, added %d", fl.opened, ps.added-before)
				}
				opened[pos] = fl.opened == 1
				terms = append(terms, "("+hx.Str(local.String())+", "+hx.Str(remote.String())+")")
			}
			return opened, terms, nil
		}
		ox, oy := c.Rng.Perm(len(links)), c.Rng.Perm(len(links))
		openX, termsX, err1 := run(ox, false)
		openY, termsY, err2 := run(oy, true)
		var ls []string
		for _, l := range links {
			ls = append(ls, l.l.String()+" <-> "+l.r.String())
		}
		desc := map[string]any{"kind": "opener-seq", "links(local of X <-> local of Y)": ls, "order_at_X": ox, "order_at_Y": oy, "X_opens": openX, "Y_opens": openY}
		if err1 != nil || err2 != nil {
			c.Failf("c29-opener-error", desc, "trackLink failed: %v %v", err1, err2)
			continue
		}
		bl := func(b []bool) string {
			items := make([]string, len(b))
			for i, x := range b {
				items[i] = hx.Bool(x)
			}
			return hx.List(items)
		}
		c.Case(hx.App("OpenerSeq29", hx.List(termsX), bl(openX)), desc)
		c.Case(hx.App("OpenerSeq29", hx.List(termsY), bl(openY)), desc)
		c.Class("opener-seq")
		if len(xs) > 1 || len(ys) > 1 {
			c.Nontrivial(fmt.Sprint(ls, ox, oy))
		}
		for i := range links {
			var a, b bool
			for pos, j := range ox {
				if j == i {
					a = openX[pos]
				}
			}
			for pos, j := range oy {
				if j == i {
					b = openY[pos]
				}
			}
			if a && b {
				c.Failf("c29-opener-both", desc, "link %s: both ends open the pubsub stream (controllers with several local identities)", ls[i])
			}
			if !a && !b {
				c.Failf("c29-opener-none", desc, "link %s: neither end opens the pubsub stream (controllers with several local identities)", ls[i])
			}
		}
	}
}

// ---- histories ----

type hop struct {
	kind string // sub addh remh rel relagain peer replace msg quiesce
	a, b int
}

func (o hop) term() string {
	switch o.kind {
	case "sub":
		return hx.App("HSub", hx.Nat(o.a), hx.Nat(o.b))
	case "addh":
		return hx.App("HAddH", hx.Nat(o.a), hx.Nat(o.b))
	case "remh":
		return hx.App("HRemH", hx.Nat(o.a), hx.Nat(o.b))
	case "rel":
		return hx.App("HRel", hx.Nat(o.a), hx.Nat(o.b))
	case "relagain":
		return hx.App("HRelAgain", hx.Nat(o.a))
	case "peer":
		return hx.App("HPeer", hx.Nat(o.a))
	case "replace":
		return hx.App("HReplace", hx.Nat(o.a))
	case "msg":
		return hx.App("HMsg", hx.Nat(o.a), hx.Nat(o.b))
	default:
		return "HQuiesce"
	}
}

func (o hop) String() string { return fmt.Sprintf("%s(%d,%d)", o.kind, o.a, o.b) }

const markerCh = 9
const markerSub = 99

type hist struct {
	ops   []hop
	chans []int
	// observations at each quiesce
	told [][][2]int
	inv  [][][3]int
	// oracle findings
	afterRelease []string
	stale        []string
	problem      string
}

func genHist(c *hx.Ctx, idx int) *hist {
	rng := c.Rng
	h := &hist{chans: []int{1, 2, 3, markerCh}}
	if idx%5 == 2 {
		// an announced channel loses its last subscription in the same pass in which the stream of a
		// known tuple is replaced (either order), with an untouched second channel and peer
		ch, ch2 := 1+rng.Intn(3), 1+rng.Intn(3)
		ops := []hop{{"peer", 0, 0}, {"sub", markerSub, markerCh}, {"addh", markerSub, 0}, {"sub", 1, ch}, {"addh", 1, 1}, {"sub", 2, ch2}, {"peer", 1, 0}, {"peer", 2, 0}, {"quiesce", 0, 0}}
		if rng.Intn(2) == 0 {
			ops = append(ops, hop{"replace", 1, 0}, hop{"rel", 1, ch})
		} else {
			ops = append(ops, hop{"rel", 1, ch}, hop{"replace", 1, 0})
		}
		if rng.Intn(2) == 0 {
			ops = append(ops, hop{"msg", ch, 1})
		}
		ops = append(ops, hop{"quiesce", 0, 0})
		h.ops = ops
		return h
	}
	ops := []hop{{"peer", 0, 0}, {"sub", markerSub, markerCh}, {"addh", markerSub, 0}}
	if rng.Intn(2) == 0 {
		ops = append(ops, hop{"quiesce", 0, 0})
	}
	type subSt struct {
		ch       int
		released bool
		handlers []int
	}
	subs := map[int]*subSt{}
	nextSub, nextH, nextPeer, nextMsg := 1, 1, 1, 1
	var subIDs []int
	n := 6 + rng.Intn(9)
	quiesces := 0
	for i := 0; i < n; i++ {
		switch x := rng.Intn(20); {
		case x < 4 && nextSub <= 5:
			ch := 1 + rng.Intn(3)
			subs[nextSub] = &subSt{ch: ch}
			subIDs = append(subIDs, nextSub)
			ops = append(ops, hop{"sub", nextSub, ch})
			if rng.Intn(4) != 0 {
				subs[nextSub].handlers = append(subs[nextSub].handlers, nextH)
				ops = append(ops, hop{"addh", nextSub, nextH})
				nextH++
			}
			nextSub++
		case x < 6 && len(subIDs) > 0:
			s := subIDs[rng.Intn(len(subIDs))]
			if subs[s].released && rng.Intn(4) != 0 {
				continue
			}
			subs[s].handlers = append(subs[s].handlers, nextH)
			ops = append(ops, hop{"addh", s, nextH})
			nextH++
		case x < 8 && len(subIDs) > 0:
			s := subIDs[rng.Intn(len(subIDs))]
			if len(subs[s].handlers) == 0 {
				continue
			}
			k := rng.Intn(len(subs[s].handlers))
			ops = append(ops, hop{"remh", s, subs[s].handlers[k]})
			if rng.Intn(3) != 0 {
				subs[s].handlers = append(subs[s].handlers[:k], subs[s].handlers[k+1:]...)
			} // else: removing twice later is a no-op
		case x < 12 && len(subIDs) > 0:
			s := subIDs[rng.Intn(len(subIDs))]
			if subs[s].released {
				ops = append(ops, hop{"relagain", s, 0})
			} else {
				subs[s].released = true
				subs[s].handlers = nil
				ops = append(ops, hop{"rel", s, subs[s].ch})
			}
		case x < 14 && nextPeer <= 3:
			ops = append(ops, hop{"peer", nextPeer, 0})
			nextPeer++
		case x < 16 && nextPeer > 1:
			// the stream of a known tuple is replaced; often in the same pass as a release
			p := 1 + rng.Intn(nextPeer-1)
			var live []int
			for _, s := range subIDs {
				if !subs[s].released {
					live = append(live, s)
				}
			}
			relFirst := rng.Intn(2) == 0
			doRel := len(live) > 0 && rng.Intn(3) != 0
			rel := func() {
				s := live[rng.Intn(len(live))]
				subs[s].released = true
				subs[s].handlers = nil
				ops = append(ops, hop{"rel", s, subs[s].ch})
			}
			if doRel && relFirst {
				rel()
			}
			ops = append(ops, hop{"replace", p, 0})
			if doRel && !relFirst {
				rel()
			}
		case x < 18:
			ops = append(ops, hop{"msg", 1 + rng.Intn(3), nextMsg})
			nextMsg++
		default:
			if quiesces < 2 && len(ops) > 0 && ops[len(ops)-1].kind != "quiesce" {
				ops = append(ops, hop{"quiesce", 0, 0})
				quiesces++
			}
		}
	}
	if ops[len(ops)-1].kind != "quiesce" {
		ops = append(ops, hop{"quiesce", 0, 0})
	}
	h.ops = ops
	return h
}

func chName(ch int) string { return "c" + strconv.Itoa(ch) }

func runHist(h *hist, keys []keyInfo) {
	ctx, cancel := context.WithCancel(context.Background())
	defer cancel()
	fs := newFloodSub(ctx)
	defer fs.Close()
	go func() { _ = fs.Execute(ctx) }()
	time.Sleep(5 * time.Millisecond) // the first pass of the loop (nothing to do)

	var mu sync.Mutex
	var inv [][3]int
	markerCount := 0
	type subH struct {
		sub      pubsub.Subscription
		ch       int
		released atomic.Bool
		relAt    map[int]bool // handlers registered before the release
		removers map[int]func()
	}
	subs := map[int]*subH{}
	peers := map[int]*rawPeer{}
	older := map[int][]*rawPeer{} // replaced streams of the same tuple, oldest first
	view := func(p int) map[string]bool {
		out := map[string]bool{}
		for _, rp := range append(append([]*rawPeer{}, older[p]...), peers[p]) {
			for ch, on := range rp.told() {
				out[ch] = on
			}
		}
		return out
	}
	var peerIDs []int
	defer func() {
		for _, p := range peers {
			p.close()
		}
		for _, l := range older {
			for _, p := range l {
				p.close()
			}
		}
	}()
	liveSubs := map[int]int{} // channel -> live subscriptions
	lastOp := time.Now()

	sendMsg := func(ch, id int) bool {
		sm, _, err := pubmessage.NewPubMessage(chName(ch), keys[3].priv, hash.HashType_HashType_SHA256, []byte("msg"+strconv.Itoa(id)))
		if err != nil {
			panic(err)
		}
		return peers[0].send(&floodsub.Packet{Publish: []*peer.SignedMsg{sm}}) == nil
	}
	markerID := 1000
	for _, op := range h.ops {
		switch op.kind {
		case "peer":
			peers[op.a] = attachRaw(fs, keys[op.a], uint64(10+op.a))
			peerIDs = append(peerIDs, op.a)
			lastOp = time.Now()
		case "replace":
			// a new stream for the same (peer, link) tuple: the node cancels the old session; what the
			// remote peer knows about our subscriptions is keyed by the tuple and stays
			older[op.a] = append(older[op.a], peers[op.a])
			peers[op.a] = attachRaw(fs, keys[op.a], uint64(10+op.a))
			lastOp = time.Now()
		case "sub":
			sub, err := fs.AddSubscription(ctx, keys[4].priv, chName(op.b))
			if err != nil {
				panic(err)
			}
			subs[op.a] = &subH{sub: sub, ch: op.b, relAt: map[int]bool{}, removers: map[int]func(){}}
			liveSubs[op.b]++
			lastOp = time.Now()
		case "addh":
			sh := subs[op.a]
			s, hd := op.a, op.b
			addedAfterRelease := sh.released.Load()
			rm := sh.sub.AddHandler(func(m pubsub.Message) {
				id, _ := strconv.Atoi(string(m.GetData()[3:]))
				rel := sh.released.Load()
				mu.Lock()
				if s == markerSub {
					markerCount++
				}
				inv = append(inv, [3]int{s, hd, id})
				if rel && !addedAfterRelease {
					h.afterRelease = append(h.afterRelease, fmt.Sprintf("handler %d of subscription %d invoked with message %d after Release returned", hd, s, id))
				}
				mu.Unlock()
			})
			sh.removers[hd] = rm
		case "remh":
			if rm := subs[op.a].removers[op.b]; rm != nil {
				rm()
				delete(subs[op.a].removers, op.b)
			}
		case "rel":
			sh := subs[op.a]
			sh.sub.Release()
			sh.released.Store(true)
			liveSubs[sh.ch]--
			lastOp = time.Now()
		case "relagain":
			subs[op.a].sub.Release()
		case "msg":
			// the message, then a marker on the marker channel; wait for the marker's handler
			mu.Lock()
			before := markerCount
			invBefore := len(inv)
			mu.Unlock()
			// handler invocations this message must cause (plus one for the marker)
			wantInv := 1
			for _, sh := range subs {
				if sh.ch == op.a && !sh.released.Load() {
					wantInv += len(sh.removers)
				}
			}
			if op.a == markerCh {
				wantInv--
			}
			if !sendMsg(op.a, op.b) {
				h.problem = "raw sender could not write"
				return
			}
			if op.a != markerCh {
				markerID++
				if !sendMsg(markerCh, markerID) {
					h.problem = "raw sender could not write"
					return
				}
			}
			ok := waitFor(5*time.Second, 200*time.Microsecond, func() bool {
				mu.Lock()
				defer mu.Unlock()
				return markerCount > before
			})
			if !ok {
				h.problem = "marker message was not delivered within 5s"
				return
			}
			// callbacks of the message itself were spawned before the marker's
			last, stable := -1, 0
			waitFor(300*time.Millisecond, 500*time.Microsecond, func() bool {
				mu.Lock()
				k := len(inv)
				mu.Unlock()
				if k == last {
					stable++
				} else {
					last, stable = k, 0
				}
				return stable >= 6
			})
			// confirm before going on: callbacks that are expected and missing may simply not have been
			// scheduled yet: wait until the count has been unchanged for one second (at most 8 s)
			cnt := func() int {
				mu.Lock()
				defer mu.Unlock()
				return len(inv) - invBefore
			}
			if cnt() < wantInv {
				deadline, stableSince, lastN := time.Now().Add(8*time.Second), time.Now(), cnt()
				for time.Now().Before(deadline) && time.Since(stableSince) < time.Second && lastN < wantInv {
					time.Sleep(5 * time.Millisecond)
					if k := cnt(); k != lastN {
						lastN, stableSince = k, time.Now()
					}
				}
			}
		case "quiesce":
			// the loop re-evaluates at most every 100 ms: two passes may be needed
			waitFor(3*time.Second, 5*time.Millisecond, func() bool {
				if time.Since(lastOp) < 230*time.Millisecond {
					return false
				}
				s := fs.VerifSnapshot()
				if s.IncSessions != 0 || len(s.Pending) != 0 {
					return false
				}
				for _, p := range peers {
					pk, t := p.snapshot()
					// every executing stream is written an initial packet (possibly empty)
					if len(pk) == 0 || time.Since(t) < 130*time.Millisecond {
						return false
					}
				}
				return true
			})
			// on a loaded machine the loop may lag: give a state that differs from
			// "told iff locally subscribed" three more seconds before recording it
			waitFor(3*time.Second, 10*time.Millisecond, func() bool {
				for _, p := range peerIDs {
					t := view(p)
					for _, ch := range h.chans {
						if t[chName(ch)] != (liveSubs[ch] > 0) {
							return false
						}
					}
				}
				return true
			})
			var told [][2]int
			for _, p := range peerIDs {
				t := view(p)
				for _, ch := range h.chans {
					if t[chName(ch)] {
						told = append(told, [2]int{p, ch})
						if liveSubs[ch] == 0 {
							h.stale = append(h.stale, fmt.Sprintf("peer stream %d still holds Subscribe=true for channel %d without a local subscription", p, ch))
						}
					}
				}
			}
			sort.Slice(told, func(a, b int) bool {
				if told[a][0] != told[b][0] {
					return told[a][0] < told[b][0]
				}
				return told[a][1] < told[b][1]
			})
			h.told = append(h.told, told)
			mu.Lock()
			cp := append([][3]int{}, inv...)
			mu.Unlock()
			h.inv = append(h.inv, cp)
		}
	}
}

// expandOps inserts the marker messages the harness sends after every HMsg, so
// that the history given to the model is exactly what the node saw
func (h *hist) modelOps() []hop {
	var out []hop
	markerID := 1000
	for _, op := range h.ops {
		out = append(out, op)
		if op.kind == "msg" && op.a != markerCh {
			markerID++
			out = append(out, hop{"msg", markerCh, markerID})
		}
	}
	return out
}

// ---- stress: Release racing with deliveries (oracle only) ----

func releaseRace(keys []keyInfo, rounds int) []string {
	var bad []string
	var badMu sync.Mutex
	parallel(rounds, 8, func(i int) {
		ctx, cancel := context.WithCancel(context.Background())
		defer cancel()
		fs := newFloodSub(ctx)
		defer fs.Close()
		sub, err := fs.AddSubscription(ctx, keys[4].priv, "race")
		if err != nil {
			panic(err)
		}
		var released atomic.Bool
		var late atomic.Int32
		for k := 0; k < 3; k++ {
			sub.AddHandler(func(m pubsub.Message) {
				if released.Load() {
					late.Add(1)
				}
				time.Sleep(time.Duration(i%5) * 50 * time.Microsecond)
			})
		}
		rp := attachRaw(fs, keys[0], 1)
		defer rp.close()
		go func() { _ = fs.Execute(ctx) }()
		waitFor(2*time.Second, time.Millisecond, func() bool { return len(fs.VerifSnapshot().Started) == 1 })
		done := make(chan struct{})
		go func() {
			defer close(done)
			for k := 0; k < 12; k++ {
				sm, _, err := pubmessage.NewPubMessage("race", keys[3].priv, hash.HashType_HashType_SHA256, []byte("r"+strconv.Itoa(k)))
				if err != nil {
					return
				}
				if rp.send(&floodsub.Packet{Publish: []*peer.SignedMsg{sm}}) != nil {
					return
				}
			}
		}()
		time.Sleep(time.Duration(i%7) * 100 * time.Microsecond)
		sub.Release()
		released.Store(true)
		<-done
		time.Sleep(20 * time.Millisecond)
		if n := late.Load(); n > 0 {
			badMu.Lock()
			bad = append(bad, fmt.Sprintf("round %d: %d handler invocations started after Release had returned", i, n))
			badMu.Unlock()
		}
	})
	return bad
}

func c29(c *hx.Ctx) {
	c.Type = "c29_case"
	c.Agree = "c29_agree"
	c.Rule = "opener: the real trackLink (verif export) on pairs of real ed25519 peer ids and arbitrary byte-string ids, both orientations; sequences of links between two nodes hosting 1-3 local identities each, every link tracked by ONE controller instance per node in random order; histories: subscribe/add-handler/remove-handler/release/release-again/new-peer-stream/incoming-message against a real FloodSub with Execute running, observed at each quiescence point: last subscription state written to every raw peer stream and all handler invocations; plus Release racing with 12 incoming messages (oracle only); non-trivial = distinct pair of different ids / history with a release"
	nOpen := c.N
	c29Opener(c, nOpen)
	c29OpenerSeq(c, c.N/4)

	keys := genKeys(c.Rng, 5)
	nh := c.N / 4
	if nh < 8 {
		nh = 8
	}
	hs := make([]*hist, nh)
	for i := range hs {
		hs[i] = genHist(c, i)
	}
	parallel(nh, 24, func(i int) { runHist(hs[i], keys) })
	for _, h := range hs {
		opsS := []string{}
		for _, o := range h.ops {
			opsS = append(opsS, o.String())
		}
		desc := map[string]any{"kind": "history", "ops": opsS, "told_at_quiescence": h.told, "invocations": h.inv}
		c.Class("history")
		if h.problem != "" {
			c.Failf("c29-harness-timeout", desc, "%s", h.problem)
			continue
		}
		var opsT, obsT, chT []string
		hasRel := false
		for _, o := range h.modelOps() {
			opsT = append(opsT, o.term())
			if o.kind == "rel" {
				hasRel = true
			}
		}
		for _, ch := range h.chans {
			chT = append(chT, hx.Nat(ch))
		}
		for i := range h.told {
			var t, iv []string
			for _, x := range h.told[i] {
				t = append(t, "("+hx.Nat(x[0])+", "+hx.Nat(x[1])+")")
			}
			for _, x := range h.inv[i] {
				iv = append(iv, "("+hx.Nat(x[0])+", "+hx.Nat(x[1])+", "+hx.Nat(x[2])+")")
			}
			obsT = append(obsT, "("+hx.List(t)+", "+hx.List(iv)+")")
		}
		c.Case(hx.App("Hist29", hx.List(opsT), hx.List(chT), hx.List(obsT)), desc)
		if hasRel {
			c.Nontrivial(fmt.Sprint(opsS))
		}
		for _, s := range h.afterRelease {
			c.Failf("c29-handler-after-release", desc, "%s", s)
		}
		for _, s := range h.stale {
			c.Failf("c29-unsub-not-retracted", desc, "%s", s)
		}
	}
	rounds := c.N / 4
	bad := releaseRace(keys, rounds)
	for i := 0; i < rounds; i++ {
		c.Eval()
	}
	c.Class("release-race")
	for _, s := range bad {
		c.Failf("c29-handler-after-release", map[string]any{"kind": "release-race"}, "%s", s)
	}
	// back-pressure: a subscribed peer that does not drain its stream while the last subscription is released
	br := c.N / 100
	if br < 2 {
		br = 2
	}
	bp := backpressureUnsub(keys, br)
	for i := 0; i < br; i++ {
		c.Eval()
	}
	c.Class("backpressure-unsub")
	for _, s := range bp {
		c.Failf("c29-unsub-not-retracted-backpressure", map[string]any{"kind": "backpressure"}, "%s", s)
	}
	// subscribe/release hammering while new streams join: looks for a release between
	// the initial-set pass and the sweep of the Execute loop body (one lock region since
	// /repo 4585b8b, so this must never fire; oracle only)
	gr := c.N / 50
	if gr < 4 {
		gr = 4
	}
	gap := gapRace(keys, gr, 2500*time.Millisecond)
	for i := 0; i < gr; i++ {
		c.Eval()
	}
	c.Class("gap-race")
	for _, s := range gap {
		c.Failf("c29-unsub-not-retracted-gap", map[string]any{"kind": "gap-race",
			"history":       "6 goroutines loop AddSubscription(fresh channel); Release() while a new peer stream is added every 35 ms; after all subscriptions are released and the loop is idle, the stream still holds Subscribe=true",
			"model_witness": "two-region loop body (Pubsub/LoopFine.v, before /repo 4585b8b): gap_trace = [LSubscribe 7; LAddPeer 1; LInit; LRelease 7; LSweep; LWake; LInit; LSweep]; the one-region model Sub.v (theorem c29_unsub) excludes it"}, "%s", s)
	}
}
