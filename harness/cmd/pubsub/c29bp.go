package main

import (
	"context"
	"fmt"
	"strconv"
	"sync"
	"sync/atomic"
	"time"

	"github.com/aperturerobotics/bifrost/hash"
	"github.com/aperturerobotics/bifrost/peer"
	"github.com/aperturerobotics/bifrost/pubsub"
	"github.com/aperturerobotics/bifrost/pubsub/floodsub"
	"github.com/aperturerobotics/bifrost/pubsub/util/pubmessage"
)

// backpressureUnsub: a remote peer that subscribes to the channel stops reading
// its stream; 36..47 messages are forwarded to it (the per-peer send queue holds
// 32, one more sits in the blocked write); then the last local subscription is
// released; then the peer resumes reading. The model's send queue is an
// unbounded FIFO without drops: writePacket blocks, it never drops. At
// quiescence the peer must have been told Subscribe=false. Oracle only.
func backpressureUnsub(keys []keyInfo, rounds int) []string {
	var out []string
	var omu sync.Mutex
	parallel(rounds, 4, func(r int) {
		ctx, cancel := context.WithCancel(context.Background())
		defer cancel()
		fs := newFloodSub(ctx)
		defer func() { go fs.Close() }()
		sub, err := fs.AddSubscription(ctx, keys[4].priv, "bp")
		if err != nil {
			panic(err)
		}
		var released atomic.Bool
		var late atomic.Int32
		sub.AddHandler(func(m pubsub.Message) {
			if released.Load() {
				late.Add(1)
			}
		})
		sender := attachRaw(fs, keys[0], 1)
		slow := attachRaw(fs, keys[1], 2)
		defer sender.close()
		defer slow.close()
		go func() { _ = fs.Execute(ctx) }()
		_ = slow.send(&floodsub.Packet{Subscriptions: []*floodsub.SubscriptionOpts{{Subscribe: true, ChannelId: "bp"}}})
		ok := waitFor(5*time.Second, time.Millisecond, func() bool {
			s := safeSnap(fs)
			return s != nil && len(s.Started) == 2 && len(s.PeerChannels["bp"]) == 1 && slow.told()["bp"] && sender.told()["bp"]
		})
		if !ok {
			return
		}
		k := 36 + (r*5)%12
		slow.gate.shut()
		sent := make(chan struct{})
		go func() {
			defer close(sent)
			for i := 0; i < k; i++ {
				sm, _, err := pubmessage.NewPubMessage("bp", keys[3].priv, hash.HashType_HashType_SHA256, []byte("bp"+strconv.Itoa(i)))
				if err != nil {
					return
				}
				_ = sender.conn.SetWriteDeadline(time.Now().Add(20 * time.Second))
				if sender.sess.SendMsg(&floodsub.Packet{Publish: []*peer.SignedMsg{sm}}) != nil {
					return
				}
			}
		}()
		time.Sleep(200 * time.Millisecond)
		relDone := make(chan struct{})
		go func() {
			defer close(relDone)
			sub.Release()
			released.Store(true)
		}()
		time.Sleep(time.Duration(300+(r%3)*100) * time.Millisecond)
		slow.gate.open()
		<-sent
		<-relDone
		t0 := time.Now()
		waitFor(6*time.Second, 10*time.Millisecond, func() bool {
			if time.Since(t0) < 400*time.Millisecond {
				return false
			}
			_, t := slow.snapshot()
			if time.Since(t) < 200*time.Millisecond {
				return false
			}
			return !slow.told()["bp"] || time.Since(t0) > 3*time.Second
		})
		pk, _ := slow.snapshot()
		got := 0
		for _, p := range pk {
			got += len(p.GetPublish())
		}
		var probs []string
		if slow.told()["bp"] {
			probs = append(probs, "the peer still holds Subscribe=true for \"bp\" after the last local subscription was released")
		}
		if sender.told()["bp"] {
			probs = append(probs, "the sending peer still holds Subscribe=true for \"bp\"")
		}
		if n := late.Load(); n > 0 {
			probs = append(probs, fmt.Sprintf("%d handler invocations started after Release had returned", n))
		}
		if len(probs) > 0 {
			omu.Lock()
			out = append(out, fmt.Sprintf("round %d: peer subscribed to \"bp\" stopped reading, %d messages published (it received %d after resuming), last subscription released while its send queue was full, peer resumed reading: %v", r, k, got, probs))
			omu.Unlock()
		}
	})
	return out
}
