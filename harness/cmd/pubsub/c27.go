package main

import (
	"context"
	"encoding/binary"
	"errors"
	"fmt"
	"sort"
	"sync"
	"time"

	"github.com/aperturerobotics/bifrost/crypto"
	"github.com/aperturerobotics/bifrost/hash"
	"github.com/aperturerobotics/bifrost/peer"
	"github.com/aperturerobotics/bifrost/pubsub"
	"github.com/aperturerobotics/bifrost/pubsub/floodsub"
	"github.com/aperturerobotics/bifrost/pubsub/util/pubmessage"
	"github.com/aperturerobotics/protobuf-go-lite/types/known/timestamppb"
	b58 "github.com/mr-tron/base58/base58"
	"verifharness/internal/hx"
)

// pubCtxPrefix must be the constant of pubsub/util/pubmessage (unexported there);
// the translator regenerates the Coq side from the source, the harness checks it
// against NewPubMessage below.
const pubCtxPrefix = "bifrost/pubsub/pubmessage 2024-06-05T02:38:47.55258Z channel/"

// ---- symbolic messages (mirror of Pubsub/Model.v) ----

type symBody struct {
	junk    bool
	n       int // junk id
	data    []byte
	ch      string
	tsOK    bool
	variant int
}

type symSig struct {
	none bool
	n    int // NoSig variant
	k    int
	ctx  []byte
	body symBody
}

type symFrom struct {
	none bool
	n    int
	k    int
}

// symAtt is Signature.pub_key: 0 nothing, 1 the marshalled public key of key k, 2 bytes that are not a key
type symAtt struct {
	kind int
	k    int
}

func (a symAtt) term() string {
	switch a.kind {
	case 1:
		return hx.App("KeyOf", hx.Nat(a.k))
	case 2:
		return hx.App("BadKey", hx.Nat(a.k))
	default:
		return "NoKey"
	}
}

type symMsg struct {
	from  symFrom
	body  symBody
	sig   symSig
	att   symAtt
	class string // generator class, for the oracle and the histogram
}

func (b symBody) term() string {
	if b.junk {
		return hx.App("Junk", hx.Nat(b.n))
	}
	return hx.App("Enc", hx.Bytes(b.data), hx.Str(b.ch), hx.Bool(b.tsOK), hx.Nat(b.variant))
}

func (s symSig) term() string {
	if s.none {
		return hx.App("NoSig", hx.Nat(s.n))
	}
	return hx.App("Sig", hx.Nat(s.k), hx.Bytes(s.ctx), s.body.term())
}

func (f symFrom) term() string {
	if f.none {
		return hx.App("NoPeer", hx.Nat(f.n))
	}
	return hx.App("Peer", hx.Nat(f.k))
}

func (m symMsg) term() string {
	return hx.App("SMsg", m.from.term(), m.body.term(), m.sig.term(), m.att.term())
}

// bytesOf is the real SignedMsg.Data of a symbolic body: a function of the
// term only, so that equal terms are equal byte strings and different terms
// are different byte strings.
func bytesOf(b symBody) []byte {
	if b.junk {
		// field 1, length 127, one byte of content: truncated
		return []byte{0x0a, 0x7f, byte(b.n)}
	}
	inner := &pubmessage.PubMessageInner{Data: b.data, Channel: b.ch}
	switch {
	case !b.tsOK:
		inner.Timestamp = &timestamppb.Timestamp{Seconds: 1700000000, Nanos: -5 - int32(b.variant)}
	case b.variant == 1:
		// no timestamp at all
	case b.variant == 2:
		// seconds == 0 skips the validity check whatever the nanos are
		inner.Timestamp = &timestamppb.Timestamp{Seconds: 0, Nanos: -7}
	default:
		inner.Timestamp = &timestamppb.Timestamp{Seconds: 1700000000, Nanos: 5 + int32(b.variant)}
	}
	out, err := inner.MarshalVT()
	if err != nil {
		panic(err)
	}
	if b.tsOK && b.variant == 3 {
		// unknown field 15 (varint 1) appended: another encoding of the same inner message
		out = append(out, 0x78, 0x01)
	}
	return out
}

// tsValid asks the protobuf library whether pubmessage.Validate accepts the timestamp.
func tsValid(data []byte) bool {
	in := &pubmessage.PubMessageInner{}
	if err := in.UnmarshalVT(data); err != nil {
		return false
	}
	if ts := in.GetTimestamp(); ts.GetSeconds() != 0 {
		return ts.CheckValid() == nil
	}
	return true
}

type realizer struct {
	keys []keyInfo
}

func (r *realizer) real(m symMsg) *peer.SignedMsg {
	out := &peer.SignedMsg{Data: bytesOf(m.body)}
	if m.from.none {
		switch m.from.n % 4 {
		case 0:
			out.FromPeerId = ""
		case 1:
			out.FromPeerId = "!!not-base58!!"
		case 2:
			out.FromPeerId = b58.Encode([]byte{1, 2, 3, 4, 5, 6, 7, 8, 9, byte(m.from.n)})
		default:
			// well-formed sha2-256 multihash: no embedded key
			mh := append([]byte{0x12, 0x20}, make([]byte, 32)...)
			mh[5] = byte(m.from.n)
			out.FromPeerId = b58.Encode(mh)
		}
	} else {
		out.FromPeerId = r.keys[m.from.k].b58
	}
	if m.sig.none {
		switch m.sig.n % 5 {
		case 0:
			out.Signature = nil
		case 1:
			sd := make([]byte, 64)
			for i := range sd {
				sd[i] = byte(i*7 + m.sig.n)
			}
			out.Signature = &peer.Signature{HashType: hash.HashType_HashType_SHA256, SigData: sd}
		case 2:
			out.Signature = &peer.Signature{HashType: hash.HashType_HashType_SHA256}
		case 3:
			// a correct signature with the hash type field cleared
			s, err := peer.NewSignature(pubCtxPrefix+m.body.ch, r.keys[0].priv, hash.HashType_HashType_SHA256, out.Data, false)
			if err != nil {
				panic(err)
			}
			s.HashType = hash.HashType_HashType_UNKNOWN
			out.Signature = s
		default:
			// a correct signature with one bit flipped
			s, err := peer.NewSignature(pubCtxPrefix+m.body.ch, r.keys[0].priv, hash.HashType_HashType_SHA256, out.Data, false)
			if err != nil {
				panic(err)
			}
			s.SigData[3] ^= 0x10
			out.Signature = s
		}
	} else {
		ht := hash.HashType_HashType_SHA256
		switch (m.sig.k + len(m.sig.ctx)) % 3 {
		case 0:
			ht = hash.HashType_HashType_BLAKE3
		case 2:
			ht = hash.HashType_HashType_SHA1
		}
		s, err := peer.NewSignature(string(m.sig.ctx), r.keys[m.sig.k].priv, ht, bytesOf(m.sig.body), false)
		if err != nil {
			panic(err)
		}
		out.Signature = s
	}
	if out.Signature != nil {
		switch m.att.kind {
		case 1:
			pk, err := crypto.MarshalPublicKey(r.keys[m.att.k].priv.GetPublic())
			if err != nil {
				panic(err)
			}
			out.Signature.PubKey = pk
		case 2:
			out.Signature.PubKey = []byte{0xff, 0x01, byte(m.att.k)}
		}
	}
	return out
}

// ---- generator ----

type gen27 struct {
	c     *hx.Ctx
	seq   int
	chans []string // subscribed channels
	other []string // channels without a subscription
}

func (g *gen27) data(tag string) []byte {
	g.seq++
	return []byte(fmt.Sprintf("%s%d", tag, g.seq))
}

func honest(k int, data []byte, ch string, variant int) symMsg {
	b := symBody{data: data, ch: ch, tsOK: true, variant: variant}
	return symMsg{
		from:  symFrom{k: k},
		body:  b,
		sig:   symSig{k: k, ctx: []byte(pubCtxPrefix + ch), body: b},
		class: "honest",
	}
}

func (g *gen27) pickCh() string { return g.chans[g.c.Rng.Intn(len(g.chans))] }

// attach gives the message a random Signature.pub_key: none, the signing key, the key of the
// claimed sender, another key, or (only if allowBad) bytes that are not a key.
func (g *gen27) attach(m symMsg, allowBad bool) symMsg {
	rng := g.c.Rng
	if m.sig.none && m.sig.n%5 == 0 {
		return m // no signature object at all
	}
	signer := m.from.k
	if !m.sig.none {
		signer = m.sig.k
	}
	switch x := rng.Intn(100); {
	case x < 50:
	case x < 68:
		m.att = symAtt{1, signer}
	case x < 80:
		m.att = symAtt{1, m.from.k}
	case x < 92:
		m.att = symAtt{1, rng.Intn(4)}
	default:
		if allowBad {
			m.att = symAtt{2, rng.Intn(50)}
		}
	}
	return m
}

// forged returns one message of a random forgery class, built around an honest one.
func (g *gen27) forged() symMsg {
	if g.c.Rng.Intn(14) == 0 {
		// an otherwise honest message whose attached public key does not parse
		m := honest(g.c.Rng.Intn(4), g.data("f"), g.pickCh(), g.c.Rng.Intn(4))
		m.att = symAtt{2, g.c.Rng.Intn(50)}
		m.class = "bad-attached-key"
		return m
	}
	b := g.forgedBase()
	return g.attach(b, b.class != "unsubscribed")
}

func (g *gen27) forgedBase() symMsg {
	rng := g.c.Rng
	k := rng.Intn(4)
	ch := g.pickCh()
	h := honest(k, g.data("f"), ch, rng.Intn(4))
	switch rng.Intn(12) {
	case 0: // data changed after signing
		m := h
		m.body.data = append(append([]byte{}, h.body.data...), 'X')
		m.class = "tampered-data"
		return m
	case 1: // encoding / timestamp changed after signing
		m := h
		m.body.variant = (h.body.variant + 1) % 4
		m.class = "tampered-encoding"
		return m
	case 2: // inner channel rewritten to another subscribed channel
		m := h
		for m.body.ch == h.body.ch {
			m.body.ch = g.chans[rng.Intn(len(g.chans))]
			if len(g.chans) == 1 {
				m.body.ch = h.body.ch + "x"
			}
		}
		m.class = "retargeted"
		return m
	case 3: // claimed sender differs from the signing key
		m := h
		m.from.k = (k + 1 + rng.Intn(3)) % 4
		m.class = "foreign-signature"
		return m
	case 4: // signed under the context of another channel
		m := h
		o := g.pickCh()
		if o == ch {
			o = ch + "y"
		}
		m.sig.ctx = []byte(pubCtxPrefix + o)
		m.class = "wrong-context-channel"
		return m
	case 5: // signed under a context with another prefix, or the bare channel, or the bare prefix
		m := h
		switch rng.Intn(3) {
		case 0:
			m.sig.ctx = []byte("bifrost/signaling 2024 session/" + ch)
		case 1:
			m.sig.ctx = []byte(ch)
		default:
			m.sig.ctx = []byte(pubCtxPrefix)
		}
		m.class = "wrong-context-prefix"
		return m
	case 6: // empty channel, correctly signed for the empty channel
		m := honest(k, g.data("f"), "", rng.Intn(4))
		m.class = "empty-channel"
		return m
	case 7: // authentic, but for a channel this node has no subscription for
		m := honest(k, g.data("f"), g.other[rng.Intn(len(g.other))], rng.Intn(4))
		m.class = "unsubscribed"
		return m
	case 8:
		m := h
		m.sig = symSig{none: true, n: rng.Intn(10)}
		m.class = "no-signature"
		return m
	case 9:
		m := h
		m.from = symFrom{none: true, n: rng.Intn(8)}
		m.class = "bad-sender"
		return m
	case 10:
		m := h
		m.body = symBody{junk: true, n: rng.Intn(200)}
		m.class = "junk-body"
		return m
	default: // invalid timestamp, correctly signed
		b := symBody{data: g.data("f"), ch: ch, tsOK: false, variant: rng.Intn(3)}
		return symMsg{from: symFrom{k: k}, body: b, sig: symSig{k: k, ctx: []byte(pubCtxPrefix + ch), body: b}, class: "bad-timestamp"}
	}
}

// ---- direct call of pubmessage.ExtractAndVerify ----

func verifyClass(msg *peer.SignedMsg) (int, error) {
	_, _, _, err := pubmessage.ExtractAndVerify(msg)
	if err == nil {
		return 0, nil
	}
	if errors.Is(err, pubmessage.ErrInvalidChannelID) {
		return 2, err
	}
	in := &pubmessage.PubMessageInner{}
	if in.UnmarshalVT(msg.GetData()) != nil {
		return 1, err
	}
	if in.Validate() != nil {
		return 3, err
	}
	return 4, err
}

func c27(c *hx.Ctx) {
	c.Type = "c27_case"
	c.Agree = "c27_agree"
	c.Rule = "symbolic messages realised with real ed25519 keys; Verify27: pubmessage.ExtractAndVerify decision+class on honest and forged messages; Node27: a real FloodSub (NewFloodSub, AddPeerStream over net.Pipe, Execute) with 3 subscribed channels + marker receives a mix of honest traffic and every forgery class from a raw peer, observed: handler invocations and packets forwarded to two raw observers; non-trivial = case with at least one delivery or an accepted message"
	keys := genKeys(c.Rng, 5)
	r := &realizer{keys: keys}

	// the harness constant must be the one NewPubMessage signs with
	{
		sm, _, err := pubmessage.NewPubMessage("probe", keys[0].priv, hash.HashType_HashType_SHA256, []byte("x"))
		if err != nil {
			panic(err)
		}
		if _, _, err := sm.ExtractAndVerify(pubCtxPrefix + "probe"); err != nil {
			panic("harness context prefix differs from pubmessage.pubMessageEncContext: " + err.Error())
		}
	}

	nNode := c.N / 12
	if nNode < 4 {
		nNode = 4
	}
	nVerify := c.N

	// ---- Verify27 ----
	g := &gen27{c: c, chans: []string{"alpha", "beta", "g"}, other: []string{"zeta", "alph"}}
	for i := 0; i < nVerify; i++ {
		var m symMsg
		if c.Rng.Intn(3) == 0 {
			m = g.attach(honest(c.Rng.Intn(4), g.data("v"), g.pickCh(), c.Rng.Intn(4)), false)
			if c.Rng.Intn(6) == 0 {
				m.body.data, m.sig.body.data = []byte{}, []byte{}
			}
		} else {
			m = g.forged()
		}
		real := r.real(m)
		// the ts_ok bit of the term is what the library says about the bytes
		if !m.body.junk && tsValid(real.Data) != m.body.tsOK {
			panic("timestamp oracle disagrees with the generator")
		}
		cls, err := verifyClass(real)
		desc := map[string]any{"kind": "verify", "class": m.class, "from": real.FromPeerId, "data": hx.Hex(real.Data),
			"sig": hx.Hex(real.GetSignature().GetSigData()), "result": cls, "err": fmt.Sprint(err)}
		c.Case(hx.App("Verify27", m.term(), hx.Nat(cls)), desc)
		c.Class("verify/" + m.class)
		if cls == 0 {
			c.Nontrivial("v" + m.term())
		}
		accepted := cls == 0
		switch m.class {
		case "honest", "unsubscribed":
			if !accepted {
				c.Failf("c27-verify-rejects-honest", desc, "an honestly signed message was rejected: %v", err)
			}
		default:
			if accepted {
				c.Failf("c27-verify-accepts-"+m.class, desc, "ExtractAndVerify accepted a %s message", m.class)
			}
		}
	}

	// ---- Node27 ----
	type scen struct {
		subs       map[string]int // channel -> handlers
		subsL      []string       // order
		pcs        [][2]any       // (peer, channel)
		msgs       []symMsg
		gated      bool     // observer 1 does not read its stream for a while (back-pressure)
		churn      []string // channels subscribed and released at once, long before the traffic
		churnEarly bool     // ... before Execute starts (else right after its first pass)
		result     *node27Result
	}
	scens := make([]*scen, nNode)
	for i := range scens {
		s := &scen{subs: map[string]int{}}
		all := []string{"alpha", "beta", "g", "alph", "zeta", "d"}
		c.Rng.Shuffle(len(all), func(a, b int) { all[a], all[b] = all[b], all[a] })
		nsub := 2 + c.Rng.Intn(2)
		gg := &gen27{c: c, seq: i * 1000, chans: append([]string{}, all[:nsub]...), other: append([]string{}, all[nsub:]...)}
		for _, ch := range gg.chans {
			s.subs[ch] = c.Rng.Intn(4) // 0 handlers: key present, nobody to call
			s.subsL = append(s.subsL, ch)
		}
		s.subs["zz-marker"] = 1
		s.subsL = append(s.subsL, "zz-marker")
		// announcements of the raw peers: 0 = sender R, 1 and 2 observers
		for _, p := range []int{0, 1, 2} {
			for _, ch := range all {
				if c.Rng.Intn(3) != 0 {
					s.pcs = append(s.pcs, [2]any{p, ch})
				}
			}
		}
		s.pcs = append(s.pcs, [2]any{1, "zz-marker"}, [2]any{2, "zz-marker"})
		n := 10 + c.Rng.Intn(14)
		var sent []symMsg
		for j := 0; j < n; j++ {
			switch x := c.Rng.Intn(10); {
			case x < 4:
				sent = append(sent, gg.attach(honest(c.Rng.Intn(4), gg.data("h"), gg.pickCh(), c.Rng.Intn(4)), false))
			case x < 5 && len(sent) > 0:
				m := sent[c.Rng.Intn(len(sent))]
				if m.class == "honest" {
					m.class = "replay"
				}
				sent = append(sent, m)
			default:
				sent = append(sent, gg.forged())
			}
		}
		// an authentic message whose fields are proto3-zero (empty data, no timestamp) right
		// after a rejected one: nothing of the rejected entry may survive into it
		usedEmpty := map[string]bool{}
		for e := 0; e < 2; e++ {
			k, ch := c.Rng.Intn(4), gg.pickCh()
			if usedEmpty[fmt.Sprint(k, ch)] || c.Rng.Intn(4) == 0 {
				continue
			}
			usedEmpty[fmt.Sprint(k, ch)] = true
			hm := gg.attach(honest(k, []byte{}, ch, []int{0, 1, 1, 2}[c.Rng.Intn(4)]), false)
			hm.class = "honest-empty"
			pos := c.Rng.Intn(len(sent) + 1)
			ins := []symMsg{gg.forged(), hm}
			sent = append(sent[:pos], append(ins, sent[pos:]...)...)
		}
		// back-pressure: observer 1 stops reading while more than its send queue holds is forwarded to it
		// subscribe-release churn on a channel without any other subscription; peers announce it and
		// authentic messages for it arrive later
		if i%3 == 1 {
			x := gg.other[c.Rng.Intn(len(gg.other))]
			s.churn = []string{x}
			s.churnEarly = c.Rng.Intn(2) == 0
			for _, p := range []int{1, 2} {
				found := false
				for _, pc := range s.pcs {
					if pc[0].(int) == p && pc[1].(string) == x {
						found = true
					}
				}
				if !found && (p == 2 || c.Rng.Intn(2) == 0) {
					s.pcs = append(s.pcs, [2]any{p, x})
				}
			}
			for j := 0; j < 2+c.Rng.Intn(2); j++ {
				hm := gg.attach(honest([]int{0, 1, 3}[c.Rng.Intn(3)], gg.data("u"), x, c.Rng.Intn(4)), false)
				hm.class = "churned-unsubscribed"
				pos := c.Rng.Intn(len(sent) + 1)
				sent = append(sent[:pos], append([]symMsg{hm}, sent[pos:]...)...)
			}
		}
		if i%8 == 3 {
			s.gated = true
			ch := gg.chans[0]
			found := false
			for _, pc := range s.pcs {
				if pc[0].(int) == 1 && pc[1].(string) == ch {
					found = true
				}
			}
			if !found {
				s.pcs = append(s.pcs, [2]any{1, ch})
			}
			for j := 0; j < 36+c.Rng.Intn(10); j++ {
				sent = append(sent, honest([]int{0, 2, 3}[c.Rng.Intn(3)], gg.data("b"), ch, c.Rng.Intn(4)))
			}
		}
		mk := honest(3, gg.data("marker"), "zz-marker", 0)
		mk.class = "marker"
		sent = append(sent, mk)
		s.msgs = sent
		scens[i] = s
	}

	parallel(len(scens), 8, func(i int) {
		s := scens[i]
		s.result = runNode27(r, s.subs, s.subsL, s.pcs, s.msgs, s.gated, s.churn, s.churnEarly)
	})

	for _, s := range scens {
		res := s.result
		var subsT, pcsT, msgsT, delT, fwdT []string
		for _, ch := range s.subsL {
			subsT = append(subsT, "("+hx.Str(ch)+", "+hx.Nat(s.subs[ch])+")")
		}
		for _, pc := range s.pcs {
			pcsT = append(pcsT, "("+hx.Nat(pc[0].(int))+", "+hx.Str(pc[1].(string))+")")
		}
		classes := []string{}
		for _, m := range s.msgs {
			msgsT = append(msgsT, m.term())
			classes = append(classes, m.class)
			c.Class("node/" + m.class)
		}
		for _, d := range res.delivered {
			delT = append(delT, "("+hx.Str(d.ch)+", "+hx.Nat(d.from)+", "+hx.Bytes(d.data)+", "+hx.Nat(d.count)+")")
		}
		res.forwarded[0] = res.backToSender
		for _, p := range []int{0, 1, 2} {
			fwdT = append(fwdT, "("+hx.Nat(p)+", "+hx.NatList(res.forwarded[p])+")")
		}
		desc := map[string]any{"kind": "node", "subs": s.subs, "announced": s.pcs, "classes": classes,
			"delivered": res.descDelivered(), "forwarded": res.forwarded, "timeout": res.timeout, "observer1_gated": s.gated, "subscribed_and_released_at_once": s.churn, "churn_before_execute": s.churnEarly}
		c.Case(hx.App("Node27", hx.List(subsT), hx.List(pcsT), hx.Nat(0), hx.List(msgsT), hx.List(delT), hx.List(fwdT)), desc)
		if len(res.delivered) > 1 {
			c.Nontrivial(fmt.Sprint(desc))
		}
		if res.timeout {
			c.Failf("c27-marker-timeout", desc, "the marker message was not processed within the deadline")
		}
		// ---- direct oracle on the observed behaviour ----
		byData := map[string][]symMsg{}
		for _, m := range s.msgs {
			if !m.body.junk {
				byData[string(m.body.data)] = append(byData[string(m.body.data)], m)
			}
		}
		isGood := func(cl string) bool {
			return cl == "honest" || cl == "honest-empty" || cl == "marker" || cl == "replay"
		}
		// the sent message a delivery is attributed to: same data, preferably an authentic one for that channel and sender
		lookup := func(d delivery) (symMsg, bool) {
			l := byData[string(d.data)]
			for _, m := range l {
				if isGood(m.class) && m.body.ch == d.ch && m.from.k == d.from {
					return m, true
				}
			}
			for _, m := range l {
				if isGood(m.class) {
					return m, true
				}
			}
			if len(l) > 0 {
				return l[0], true
			}
			return symMsg{}, false
		}
		for _, d := range res.delivered {
			m, ok := lookup(d)
			okClass := ok && (m.class == "honest" || m.class == "honest-empty" || m.class == "marker" || m.class == "replay")
			switch {
			case !okClass:
				cl := "unknown"
				if ok {
					cl = m.class
				}
				c.Failf("c27-forged-delivered-"+cl, desc, "a handler on %q was called with data %q of a %s message", d.ch, d.data, cl)
			case m.body.ch != d.ch:
				c.Failf("c27-delivered-on-other-channel", desc, "message signed for %q handed to a subscription on %q", m.body.ch, d.ch)
			case m.from.k != d.from:
				c.Failf("c27-delivered-wrong-sender", desc, "message of key %d reported as from %d", m.from.k, d.from)
			case d.count != s.subs[d.ch]:
				c.Failf("c27-delivery-count", desc, "message %q handed to %d handlers, %d registered", d.data, d.count, s.subs[d.ch])
			}
		}
		for _, p := range []int{1, 2} {
			seen := map[int]bool{}
			for _, idx := range res.forwarded[p] {
				if idx >= len(s.msgs) {
					c.Failf("c27-forwarded-unknown", desc, "peer %d was sent a packet that was never received", p)
					continue
				}
				m := s.msgs[idx]
				if m.class != "honest" && m.class != "honest-empty" && m.class != "marker" && m.class != "replay" {
					c.Failf("c27-forged-forwarded-"+m.class, desc, "a %s message was forwarded to peer %d", m.class, p)
					continue
				}
				if _, sub := s.subs[m.body.ch]; !sub {
					c.Failf("c27-forwarded-unsubscribed", desc, "message for %q forwarded without a subscription", m.body.ch)
				}
				if m.from.k == p {
					c.Failf("c27-forwarded-to-signer", desc, "message signed by key %d forwarded to that peer", p)
				}
				if seen[idx] {
					c.Failf("c27-forwarded-twice", desc, "message %d forwarded twice to peer %d", idx, p)
				}
				seen[idx] = true
			}
		}
		// what is authentic for a held channel is handed to the handlers and forwarded to every
		// announced peer other than the sender and the signer (nothing is dropped on the way)
		{
			deliveredKey := map[string]bool{}
			for _, d := range res.delivered {
				deliveredKey[fmt.Sprint(d.ch, "/", d.from, "/", string(d.data))] = true
			}
			seenMsg := map[string]bool{}
			for idx, m := range s.msgs {
				if !(m.class == "honest" || m.class == "honest-empty" || m.class == "marker") {
					continue
				}
				id := m.term()
				if seenMsg[id] {
					continue
				}
				seenMsg[id] = true
				if s.subs[m.body.ch] > 0 && !deliveredKey[fmt.Sprint(m.body.ch, "/", m.from.k, "/", string(m.body.data))] {
					c.Failf("c27-honest-not-delivered", desc, "authentic message %d (%q on %q from key %d) was not handed to the %d handlers", idx, m.body.data, m.body.ch, m.from.k, s.subs[m.body.ch])
				}
				for _, p := range []int{1, 2} {
					ann := false
					for _, pc := range s.pcs {
						if pc[0].(int) == p && pc[1].(string) == m.body.ch {
							ann = true
						}
					}
					if !ann || m.from.k == p {
						continue
					}
					n := 0
					for _, x := range res.forwarded[p] {
						if x == idx {
							n++
						}
					}
					if n == 0 {
						c.Failf("c27-honest-not-forwarded", desc, "authentic message %d on %q was not forwarded to announced peer %d (gated=%v)", idx, m.body.ch, p, s.gated)
					}
				}
			}
		}
		for _, u := range res.unsound {
			c.Failf("c27-not-signed-by-reported-sender", desc, "%s", u)
		}
		if len(res.backToSender) > 0 {
			c.Failf("c27-sent-back-to-previous-hop", desc, "packets %v were written back to the peer they came from", res.backToSender)
		}
	}
}

type delivery struct {
	ch    string
	from  int
	data  []byte
	count int
	first int
}

type node27Result struct {
	delivered    []delivery
	forwarded    map[int][]int
	backToSender []int
	timeout      bool
	unsound      []string // raw-crypto check of deliveries and forwards
}

func (r *node27Result) descDelivered() []string {
	var out []string
	for _, d := range r.delivered {
		out = append(out, fmt.Sprintf("%s/from%d/%s x%d", d.ch, d.from, d.data, d.count))
	}
	return out
}

// runNode27 runs one real FloodSub against a raw sender (peer 0) and two raw observers.
func runNode27(r *realizer, subs map[string]int, order []string, pcs [][2]any, msgs []symMsg, gated bool, churn []string, churnEarly bool) *node27Result {
	ctx, cancel := context.WithCancel(context.Background())
	defer cancel()
	fs := newFloodSub(ctx)
	defer fs.Close()

	type rec struct {
		ch   string
		from peer.ID
		data []byte
	}
	var mu sync.Mutex
	var recs []rec
	var markerSeen bool

	for _, ch := range order {
		n := subs[ch]
		// spread the handlers over one or two subscriptions
		nsubs := 1
		if n >= 2 {
			nsubs = 2
		}
		for si := 0; si < nsubs; si++ {
			sub, err := fs.AddSubscription(ctx, r.keys[4].priv, ch)
			if err != nil {
				panic(err)
			}
			cnt := n / nsubs
			if si == 0 {
				cnt = n - (n/nsubs)*(nsubs-1)
			}
			for h := 0; h < cnt; h++ {
				chn := ch
				sub.AddHandler(func(m pubsub.Message) {
					mu.Lock()
					recs = append(recs, rec{ch: chn, from: m.GetFrom(), data: append([]byte{}, m.GetData()...)})
					if chn == "zz-marker" {
						markerSeen = true
					}
					mu.Unlock()
				})
			}
		}
	}
	peers := []*rawPeer{attachRaw(fs, r.keys[0], 1), attachRaw(fs, r.keys[1], 2), attachRaw(fs, r.keys[2], 3)}
	defer func() {
		for _, p := range peers {
			p.close()
		}
	}()
	// subscribe-release churn: the channel is subscribed and released in one go, so it is never
	// announced; two sweep periods later the node has no subscription on it by any reading
	doChurn := func() {
		for _, ch := range churn {
			sub, err := fs.AddSubscription(ctx, r.keys[4].priv, ch)
			if err != nil {
				panic(err)
			}
			sub.AddHandler(func(m pubsub.Message) {
				mu.Lock()
				recs = append(recs, rec{ch: ch, from: m.GetFrom(), data: append([]byte{}, m.GetData()...)})
				mu.Unlock()
			})
			sub.Release()
		}
	}
	if churnEarly {
		doChurn()
	}
	go func() { _ = fs.Execute(ctx) }()
	if len(churn) > 0 {
		if !churnEarly {
			waitFor(5*time.Second, time.Millisecond, func() bool { return len(fs.VerifSnapshot().Started) == 3 })
			doChurn()
		}
		time.Sleep(260 * time.Millisecond) // more than two periods of the Execute loop
	}

	// announcements of the raw peers
	per := map[int][]*floodsub.SubscriptionOpts{}
	want := 0
	for _, pc := range pcs {
		per[pc[0].(int)] = append(per[pc[0].(int)], &floodsub.SubscriptionOpts{Subscribe: true, ChannelId: pc[1].(string)})
		want++
	}
	for p, l := range per {
		if err := peers[p].send(&floodsub.Packet{Subscriptions: l}); err != nil {
			return &node27Result{timeout: true, forwarded: map[int][]int{}}
		}
	}
	okAnn := waitFor(5*time.Second, time.Millisecond, func() bool {
		s := fs.VerifSnapshot()
		got := 0
		for _, l := range s.PeerChannels {
			got += len(l)
		}
		return got == want && len(s.Started) == 3
	})

	// the traffic, one message per packet, sometimes two
	reals := make([]*peer.SignedMsg, len(msgs))
	for i, m := range msgs {
		reals[i] = r.real(m)
	}
	if gated {
		peers[1].gate.shut()
		go func() {
			time.Sleep(250 * time.Millisecond)
			peers[1].gate.open()
		}()
	}
	for i := 0; i < len(reals); i++ {
		pk := &floodsub.Packet{Publish: []*peer.SignedMsg{reals[i]}}
		if i+2 < len(reals) && i%3 == 1 {
			pk.Publish = append(pk.Publish, reals[i+1])
			i++
		}
		var err error
		if i%5 == 2 {
			// the same packet with unknown protobuf fields in every SignedMsg and in the Packet
			err = sendRawWithUnknownFields(peers[0], pk)
		} else {
			err = peers[0].send(pk)
		}
		if err != nil {
			break
		}
	}
	res := &node27Result{forwarded: map[int][]int{}, timeout: !okAnn}
	markerIdx := len(msgs) - 1
	indexOf := func(sm *peer.SignedMsg) int {
		for i, x := range reals {
			// field by field: unknown protobuf fields of the received encoding are not part of the message
			if x.GetFromPeerId() == sm.GetFromPeerId() && string(x.GetData()) == string(sm.GetData()) &&
				string(x.GetSignature().GetSigData()) == string(sm.GetSignature().GetSigData()) &&
				x.GetSignature().GetHashType() == sm.GetSignature().GetHashType() &&
				string(x.GetSignature().GetPubKey()) == string(sm.GetSignature().GetPubKey()) {
				return i
			}
		}
		return 9999
	}
	fwd := func(p int) []int {
		var out []int
		pk, _ := peers[p].snapshot()
		for _, x := range pk {
			for _, sm := range x.GetPublish() {
				out = append(out, indexOf(sm))
			}
		}
		return out
	}
	hasMarker := func(l []int) bool {
		for _, x := range l {
			if x == markerIdx {
				return true
			}
		}
		return false
	}
	done := waitFor(5*time.Second, time.Millisecond, func() bool {
		mu.Lock()
		ms := markerSeen
		mu.Unlock()
		return ms && hasMarker(fwd(1)) && hasMarker(fwd(2))
	})
	if !done {
		res.timeout = true
	}
	// let callback goroutines spawned before the marker finish
	last := -1
	stable := 0
	waitFor(500*time.Millisecond, 2*time.Millisecond, func() bool {
		mu.Lock()
		n := len(recs)
		mu.Unlock()
		if n == last {
			stable++
		} else {
			stable = 0
			last = n
		}
		return stable >= 4
	})
	// confirm before report: if fewer handler invocations were seen than the authentic messages for held
	// channels call for, the callback goroutines may simply not have run yet on a loaded machine: wait
	// until the count has been unchanged for one second (at most 8 s)
	expected := 0
	seenTerm := map[string]bool{}
	for _, m := range msgs {
		if (m.class == "honest" || m.class == "honest-empty" || m.class == "marker") && !seenTerm[m.term()] {
			seenTerm[m.term()] = true
			expected += subs[m.body.ch]
		}
	}
	count := func() int {
		mu.Lock()
		defer mu.Unlock()
		return len(recs)
	}
	if count() < expected {
		deadline, stableSince, lastN := time.Now().Add(8*time.Second), time.Now(), count()
		for time.Now().Before(deadline) && time.Since(stableSince) < time.Second && lastN < expected {
			time.Sleep(10 * time.Millisecond)
			if k := count(); k != lastN {
				lastN, stableSince = k, time.Now()
			}
		}
	}
	res.forwarded[1] = fwd(1)
	res.forwarded[2] = fwd(2)
	res.backToSender = fwd(0)

	keyOf := func(id peer.ID) int {
		for i, k := range r.keys {
			if k.id == id {
				return i
			}
		}
		return 99
	}
	firstIdx := func(ch string, from int, data []byte) int {
		for i, m := range msgs {
			if !m.body.junk && string(m.body.data) == string(data) && m.body.ch == ch && !m.from.none && m.from.k == from {
				return i
			}
		}
		for i, m := range msgs {
			if !m.body.junk && string(m.body.data) == string(data) {
				return i
			}
		}
		return 9999
	}
	mu.Lock()
	agg := map[string]*delivery{}
	for _, rc := range recs {
		k := rc.ch + "\x00" + string(rc.from) + "\x00" + string(rc.data)
		if d, ok := agg[k]; ok {
			d.count++
		} else {
			agg[k] = &delivery{ch: rc.ch, from: keyOf(rc.from), data: rc.data, count: 1, first: firstIdx(rc.ch, keyOf(rc.from), rc.data)}
		}
	}
	mu.Unlock()
	for _, d := range agg {
		res.delivered = append(res.delivered, *d)
	}
	// soundness straight from the property text, with the keys embedded in the REPORTED sender ids:
	// every handler invocation (from, channel of the subscription, data) must be backed by a received
	// SignedMsg whose signature verifies for the key of `from` over an inner message with that channel
	// and data under prefix+channel; every forwarded SignedMsg must verify for its own from_peer_id
	backed := func(from peer.ID, ch string, data []byte) bool {
		pub, err := from.ExtractPublicKey()
		if err != nil {
			return false
		}
		for _, sm := range reals {
			in := &pubmessage.PubMessageInner{}
			if in.UnmarshalVT(sm.GetData()) != nil || in.GetChannel() != ch || string(in.GetData()) != string(data) {
				continue
			}
			if ok, err := sm.GetSignature().VerifyWithPublic(pubCtxPrefix+ch, pub, sm.GetData()); ok && err == nil {
				return true
			}
		}
		return false
	}
	mu.Lock()
	for _, rc := range recs {
		if !backed(rc.from, rc.ch, rc.data) {
			res.unsound = append(res.unsound, fmt.Sprintf("handler on %q called with from=%s data=%q: no received message carries a signature of that peer over that channel and data", rc.ch, rc.from.String(), rc.data))
		}
	}
	mu.Unlock()
	for _, p := range []int{0, 1, 2} {
		pk, _ := peers[p].snapshot()
		for _, x := range pk {
			for _, sm := range x.GetPublish() {
				in := &pubmessage.PubMessageInner{}
				from, err := peer.IDB58Decode(sm.GetFromPeerId())
				if err != nil || in.UnmarshalVT(sm.GetData()) != nil || !backed(from, in.GetChannel(), in.GetData()) {
					res.unsound = append(res.unsound, fmt.Sprintf("packet forwarded to peer %d claims from=%s: its signature does not verify for that peer over its channel", p, sm.GetFromPeerId()))
				}
			}
		}
	}
	sort.Slice(res.delivered, func(a, b int) bool {
		x, y := res.delivered[a], res.delivered[b]
		if x.first != y.first {
			return x.first < y.first
		}
		return x.ch < y.ch
	})
	return res
}

// sendRawWithUnknownFields writes the packet as a hand-made frame: every SignedMsg and the Packet
// itself carry an unknown field (number 15, varint).
func sendRawWithUnknownFields(rp *rawPeer, pk *floodsub.Packet) error {
	var body []byte
	for _, sm := range pk.GetPublish() {
		b, err := sm.MarshalVT()
		if err != nil {
			return err
		}
		b = append(b, 0x78, 0x01)
		body = append(body, 0x12)
		body = binary.AppendUvarint(body, uint64(len(b)))
		body = append(body, b...)
	}
	body = append(body, 0x78, 0x02)
	frame := make([]byte, 4, 4+len(body))
	binary.LittleEndian.PutUint32(frame, uint32(len(body)))
	frame = append(frame, body...)
	_ = rp.conn.SetWriteDeadline(time.Now().Add(5 * time.Second))
	_, err := rp.conn.Write(frame)
	return err
}
