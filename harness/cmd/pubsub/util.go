package main

import (
	"context"
	"io"
	"math/rand"
	"net"
	"sync"
	"time"

	"github.com/aperturerobotics/bifrost/crypto"
	"github.com/aperturerobotics/bifrost/link"
	"github.com/aperturerobotics/bifrost/peer"
	"github.com/aperturerobotics/bifrost/protocol"
	"github.com/aperturerobotics/bifrost/pubsub"
	"github.com/aperturerobotics/bifrost/pubsub/floodsub"
	"github.com/aperturerobotics/bifrost/stream"
	stream_packet "github.com/aperturerobotics/bifrost/stream/packet"
	"github.com/sirupsen/logrus"
)

const maxMsg = 2000000

// keyInfo is one of the real keys behind a symbolic key index.
type keyInfo struct {
	priv crypto.PrivKey
	id   peer.ID
	b58  string
}

type rngReader struct{ r *rand.Rand }

func (r rngReader) Read(p []byte) (int, error) {
	for i := range p {
		p[i] = byte(r.r.Intn(256))
	}
	return len(p), nil
}

func genKeys(rng *rand.Rand, n int) []keyInfo {
	out := make([]keyInfo, n)
	for i := range out {
		priv, _, err := crypto.GenerateKeyPairWithReader(crypto.KeyType_Ed25519, 0, rngReader{rng})
		if err != nil {
			panic(err)
		}
		id, err := peer.IDFromPrivateKey(priv)
		if err != nil {
			panic(err)
		}
		out[i] = keyInfo{priv: priv, id: id, b58: id.String()}
	}
	return out
}

func quietLogger() *logrus.Entry {
	l := logrus.New()
	l.SetOutput(io.Discard)
	l.SetLevel(logrus.PanicLevel)
	return logrus.NewEntry(l)
}

// fakeMS is a link.MountedStream over an in-memory connection.
type fakeMS struct {
	conn net.Conn
	pid  peer.ID
}

func (f *fakeMS) GetStream() stream.Stream     { return f.conn }
func (f *fakeMS) GetProtocolID() protocol.ID   { return floodsub.FloodSubID }
func (f *fakeMS) GetOpenOpts() stream.OpenOpts { return stream.OpenOpts{} }
func (f *fakeMS) GetPeerID() peer.ID           { return f.pid }
func (f *fakeMS) GetLink() link.MountedLink    { return nil }

var _ link.MountedStream = (*fakeMS)(nil)

// newFloodSub builds a real FloodSub and starts Execute.
func newFloodSub(ctx context.Context) *floodsub.FloodSub {
	ps, err := floodsub.NewFloodSub(ctx, quietLogger(), nil, &floodsub.Config{})
	if err != nil {
		panic(err)
	}
	return ps.(*floodsub.FloodSub)
}

// rawPeer speaks the floodsub wire protocol on the far end of a pipe.
type rawPeer struct {
	sess *stream_packet.Session
	conn net.Conn

	mu       sync.Mutex
	pkts     []*floodsub.Packet
	lastRecv time.Time
	closed   bool
	delay    time.Duration // slow reader
	gate     *gate         // read side gated: nothing is read while the gate is shut
}

// attachRaw adds a peer stream to fs whose other end is a raw peer with identity key.
func attachRaw(fs *floodsub.FloodSub, key keyInfo, linkID uint64) *rawPeer {
	return attachRawSlow(fs, key, linkID, 0)
}

func attachRawSlow(fs *floodsub.FloodSub, key keyInfo, linkID uint64, delay time.Duration) *rawPeer {
	a, b := net.Pipe()
	rp := &rawPeer{sess: stream_packet.NewSession(b, maxMsg), conn: b, delay: delay, gate: newGate()}
	go rp.readLoop()
	fs.AddPeerStream(pubsub.PeerLinkTuple{PeerID: key.id, LinkID: linkID}, false, &fakeMS{conn: a, pid: key.id})
	return rp
}

func (r *rawPeer) readLoop() {
	for {
		r.gate.wait()
		p := &floodsub.Packet{}
		if err := r.sess.RecvMsg(p); err != nil {
			r.mu.Lock()
			r.closed = true
			r.mu.Unlock()
			return
		}
		if r.delay > 0 {
			time.Sleep(r.delay)
		}
		r.mu.Lock()
		r.pkts = append(r.pkts, p)
		r.lastRecv = time.Now()
		r.mu.Unlock()
	}
}

func (r *rawPeer) send(p *floodsub.Packet) error {
	_ = r.conn.SetWriteDeadline(time.Now().Add(5 * time.Second))
	return r.sess.SendMsg(p)
}

func (r *rawPeer) snapshot() ([]*floodsub.Packet, time.Time) {
	r.mu.Lock()
	defer r.mu.Unlock()
	out := make([]*floodsub.Packet, len(r.pkts))
	copy(out, r.pkts)
	return out, r.lastRecv
}

// told returns the last subscription state received per channel.
func (r *rawPeer) told() map[string]bool {
	pk, _ := r.snapshot()
	out := map[string]bool{}
	for _, p := range pk {
		for _, s := range p.GetSubscriptions() {
			out[s.GetChannelId()] = s.GetSubscribe()
		}
	}
	return out
}

func (r *rawPeer) close() { _ = r.conn.Close() }

// waitFor polls cond every step until it holds or the deadline passes.
func waitFor(d time.Duration, step time.Duration, cond func() bool) bool {
	end := time.Now().Add(d)
	for {
		if cond() {
			return true
		}
		if time.Now().After(end) {
			return false
		}
		time.Sleep(step)
	}
}

// parallel runs jobs on w workers, preserving nothing but completion.
func parallel(n, w int, job func(i int)) {
	var wg sync.WaitGroup
	ch := make(chan int)
	for k := 0; k < w; k++ {
		wg.Add(1)
		go func() {
			defer wg.Done()
			for i := range ch {
				job(i)
			}
		}()
	}
	for i := 0; i < n; i++ {
		ch <- i
	}
	close(ch)
	wg.Wait()
}

// safeSnap is VerifSnapshot with a timeout: nil when the router mutex can not be taken
// (an Execute goroutine that panicked leaves it locked).
func safeSnap(fs *floodsub.FloodSub) *floodsub.VerifSnapshot {
	ch := make(chan *floodsub.VerifSnapshot, 1)
	go func() { ch <- fs.VerifSnapshot() }()
	select {
	case s := <-ch:
		return s
	case <-time.After(1500 * time.Millisecond):
		return nil
	}
}

// gate models back-pressure: a reader waits while the gate is shut.
type gate struct {
	mu sync.Mutex
	ch chan struct{} // closed = open gate
}

func newGate() *gate {
	g := &gate{ch: make(chan struct{})}
	close(g.ch)
	return g
}

func (g *gate) shut() {
	g.mu.Lock()
	select {
	case <-g.ch:
		g.ch = make(chan struct{})
	default:
	}
	g.mu.Unlock()
}

func (g *gate) open() {
	g.mu.Lock()
	select {
	case <-g.ch:
	default:
		close(g.ch)
	}
	g.mu.Unlock()
}

func (g *gate) wait() {
	g.mu.Lock()
	c := g.ch
	g.mu.Unlock()
	<-c
}
