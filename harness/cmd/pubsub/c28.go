package main

import (
	"context"
	"encoding/binary"
	"encoding/json"
	"fmt"
	"net"
	"os"
	"os/exec"
	"path/filepath"
	"sort"
	"strconv"
	"strings"
	"sync"
	"sync/atomic"
	"time"

	"github.com/aperturerobotics/bifrost/pubsub"
	"github.com/aperturerobotics/bifrost/pubsub/floodsub"
	"verifharness/internal/hx"
)

// countingConn counts, per publish index, the Publish entries of the frames written through it.
type countingConn struct {
	net.Conn
	mu     *sync.Mutex
	counts map[int]int // publish index -> packets
	last   *time.Time
	rgate  *gate         // back-pressure: reads wait while the gate is shut
	busy   *atomic.Int32 // writes entered and not yet returned (all links of the mesh)
}

func (c *countingConn) Read(b []byte) (int, error) {
	if c.rgate != nil {
		c.rgate.wait()
	}
	return c.Conn.Read(b)
}

func (c *countingConn) Write(b []byte) (int, error) {
	// stream_packet.Session.SendMsg writes one whole frame per Write call
	if len(b) >= 4 && int(binary.LittleEndian.Uint32(b)) == len(b)-4 {
		p := &floodsub.Packet{}
		if err := p.UnmarshalVT(b[4:]); err == nil {
			for _, sm := range p.GetPublish() {
				if idx, ok := pubIndexOfData(sm.GetData()); ok {
					c.mu.Lock()
					c.counts[idx]++
					*c.last = time.Now()
					c.mu.Unlock()
				}
			}
		}
	}
	if c.busy != nil {
		c.busy.Add(1)
		defer c.busy.Add(-1)
	}
	return c.Conn.Write(b)
}

// the data of the i-th publish is "pub<i>."; the inner message contains it verbatim
func pubIndexOfData(inner []byte) (int, bool) {
	s := string(inner)
	i := strings.Index(s, "pub")
	if i < 0 {
		return 0, false
	}
	j := strings.Index(s[i:], ".")
	if j < 0 {
		return 0, false
	}
	n, err := strconv.Atoi(s[i+3 : i+j])
	if err != nil {
		return 0, false
	}
	return n, true
}

type mev struct {
	kind    string // pub down up burst congest
	a, b, c int    // pub: origin, channel; down/up: u, v, link id; burst: origin, channel, id of the link whose far end does not read
	// congest: router a, channel b; neighbours d (link e) and f (link g) stop reading, a publishes twice,
	// f publishes once, then d (c == 0) or f (c == 1) resumes first
	d, e, f, g int
}

func (e mev) term() string {
	switch e.kind {
	case "pub":
		return hx.App("EPub", hx.Nat(e.a), hx.Nat(e.b))
	case "down":
		return hx.App("EDown", hx.Nat(e.a), hx.Nat(e.b), hx.Nat(e.c))
	case "congest":
		return strings.Join([]string{hx.App("EPub", hx.Nat(e.a), hx.Nat(e.b)), hx.App("EPub", hx.Nat(e.a), hx.Nat(e.b)), hx.App("EPub", hx.Nat(e.f), hx.Nat(e.b))}, "; ")
	case "burst":
		// for the model a burst is a sequence of publishes: the send queues are unbounded FIFOs
		items := make([]string, burstLen(e.c))
		for i := range items {
			items[i] = hx.App("EPub", hx.Nat(e.a), hx.Nat(e.b))
		}
		return strings.Join(items, "; ")
	default:
		return hx.App("EUp", hx.Nat(e.a), hx.Nat(e.b), hx.Nat(e.c))
	}
}

// burstLen is the number of publishes of a burst over link lid: more than the
// per-peer send queue (32) plus the packet in the blocked write.
func burstLen(lid int) int { return 36 + lid%8 }

func (e mev) String() string {
	if e.kind == "congest" {
		return fmt.Sprintf("congest(router %d, ch %d, gated %d via link %d and %d via link %d, first to resume %d)", e.a, e.b, e.d, e.e, e.f, e.g, []int{e.d, e.f}[e.c])
	}
	return fmt.Sprintf("%s(%d,%d,%d)", e.kind, e.a, e.b, e.c)
}

type mesh struct {
	n     int
	kind  string
	links [][3]int // (u, v, link id); several links may join the same two nodes
	subs  [][2]int // (node, channel)
	evs   []mev
	order []int // interleaving of setup operations: index into setup ops
	early int   // number of setup operations performed before Execute is started

	// per publish
	pubs    [][2]int
	upAt    [][][3]int // links up when the publish was issued
	handed  [][]int
	wire    [][][4]int // (u, v, link id, count)
	problem string
}

// meshJSON carries a mesh scenario to a child process and its observations back: the code under test
// runs goroutines the harness does not own, a panic there kills the process.
type meshJSON struct {
	N       int
	Kind    string
	Links   [][3]int
	Subs    [][2]int
	Evs     [][8]int // kind code, a..g
	Order   []int
	Early   int
	Pubs    [][2]int
	UpAt    [][][3]int
	Handed  [][]int
	Wire    [][][4]int
	Problem string
}

var evKinds = []string{"pub", "down", "up", "burst", "congest"}

func (m *mesh) toJSON() *meshJSON {
	j := &meshJSON{N: m.n, Kind: m.kind, Links: m.links, Subs: m.subs, Order: m.order, Early: m.early,
		Pubs: m.pubs, UpAt: m.upAt, Handed: m.handed, Wire: m.wire, Problem: m.problem}
	for _, e := range m.evs {
		k := 0
		for i, n := range evKinds {
			if n == e.kind {
				k = i
			}
		}
		j.Evs = append(j.Evs, [8]int{k, e.a, e.b, e.c, e.d, e.e, e.f, e.g})
	}
	return j
}

func (j *meshJSON) toMesh() *mesh {
	m := &mesh{n: j.N, kind: j.Kind, links: j.Links, subs: j.Subs, order: j.Order, early: j.Early,
		pubs: j.Pubs, upAt: j.UpAt, handed: j.Handed, wire: j.Wire, problem: j.Problem}
	for _, e := range j.Evs {
		m.evs = append(m.evs, mev{kind: evKinds[e[0]], a: e[1], b: e[2], c: e[3], d: e[4], e: e[5], f: e[6], g: e[7]})
	}
	return m
}

// c28Batch is the child side: run the meshes of a batch file, write the observations next to it.
func c28Batch(c *hx.Ctx) {
	c.Type, c.Agree = "c28_case", "c28_agree"
	raw, err := os.ReadFile(c.Replay)
	if err != nil {
		panic(err)
	}
	var js []*meshJSON
	if err := json.Unmarshal(raw, &js); err != nil {
		panic(err)
	}
	keys := genKeys(c.Rng, 6)
	ms := make([]*mesh, len(js))
	for i := range js {
		ms[i] = js[i].toMesh()
	}
	parallel(len(ms), 6, func(i int) { runMesh(ms[i], keys) })
	out := make([]*meshJSON, len(ms))
	for i := range ms {
		out[i] = ms[i].toJSON()
	}
	b, _ := json.Marshal(out)
	if err := os.WriteFile(c.Replay+".out", b, 0o644); err != nil {
		panic(err)
	}
}

// runMeshesInChildren runs the meshes in child processes (batches); a batch whose process died is
// re-run mesh by mesh, a mesh whose own process dies gets problem "process crashed: ...".
func runMeshesInChildren(c *hx.Ctx, meshes []*mesh) {
	_ = os.MkdirAll(c.Out, 0o755)
	dir, err := os.MkdirTemp(c.Out, "c28batch")
	if err != nil {
		panic(err)
	}
	defer os.RemoveAll(dir)
	runBatch := func(name string, idx []int) (bool, string) {
		js := make([]*meshJSON, len(idx))
		for k, i := range idx {
			js[k] = meshes[i].toJSON()
		}
		b, _ := json.Marshal(js)
		f := filepath.Join(dir, name+".json")
		if err := os.WriteFile(f, b, 0o644); err != nil {
			panic(err)
		}
		cmd := exec.Command(os.Args[0], "-prop", "C28BATCH", "-seed", strconv.FormatInt(c.Seed, 10), "-replay", f, "-out", filepath.Join(dir, name+".d"))
		cmd.Env = append(os.Environ(), "PUBSUB_CHILD=1")
		outb, err := cmd.CombinedOutput()
		res, rerr := os.ReadFile(f + ".out")
		if err != nil || rerr != nil {
			tail := string(outb)
			if i := strings.Index(tail, "panic:"); i >= 0 {
				tail = tail[i:]
			}
			if len(tail) > 900 {
				tail = tail[:900]
			}
			return false, tail
		}
		var got []*meshJSON
		if json.Unmarshal(res, &got) != nil || len(got) != len(idx) {
			return false, "unreadable child output"
		}
		for k, i := range idx {
			r := got[k].toMesh()
			meshes[i].pubs, meshes[i].upAt, meshes[i].handed, meshes[i].wire, meshes[i].problem = r.pubs, r.upAt, r.handed, r.wire, r.problem
		}
		return true, ""
	}
	const bs = 16
	nb := (len(meshes) + bs - 1) / bs
	failed := make([]bool, nb)
	parallel(nb, 3, func(b int) {
		var idx []int
		for i := b * bs; i < (b+1)*bs && i < len(meshes); i++ {
			idx = append(idx, i)
		}
		ok, _ := runBatch("b"+strconv.Itoa(b), idx)
		failed[b] = !ok
	})
	for b := range failed {
		if !failed[b] {
			continue
		}
		for i := b * bs; i < (b+1)*bs && i < len(meshes); i++ {
			if ok, tail := runBatch("m"+strconv.Itoa(i), []int{i}); !ok {
				meshes[i].problem = "process crashed: " + tail
			}
		}
	}
}

func genMesh(c *hx.Ctx) *mesh {
	rng := c.Rng
	m := &mesh{n: 3 + rng.Intn(4)}
	n := m.n
	has := map[[2]int]bool{}
	lid := 0
	add := func(a, b int, parallel bool) {
		if a == b {
			return
		}
		if a > b {
			a, b = b, a
		}
		if !has[[2]int{a, b}] || parallel {
			has[[2]int{a, b}] = true
			lid++
			m.links = append(m.links, [3]int{a, b, lid})
		}
	}
	perm := rng.Perm(n)
	switch rng.Intn(5) {
	case 0:
		m.kind = "line"
		for i := 0; i+1 < n; i++ {
			add(perm[i], perm[i+1], false)
		}
	case 1:
		m.kind = "star"
		for i := 1; i < n; i++ {
			add(perm[0], perm[i], false)
		}
	case 2:
		m.kind = "ring"
		for i := 0; i < n; i++ {
			add(perm[i], perm[(i+1)%n], false)
		}
	case 3:
		m.kind = "tree"
		for i := 1; i < n; i++ {
			add(perm[i], perm[rng.Intn(i)], false)
		}
	default:
		m.kind = "random"
		for i := 1; i < n; i++ {
			add(perm[i], perm[rng.Intn(i)], false)
		}
		extra := 1 + rng.Intn(n)
		for k := 0; k < extra; k++ {
			add(rng.Intn(n), rng.Intn(n), false)
		}
	}
	// parallel links: a second (sometimes third) link between some connected pairs
	if rng.Intn(2) == 0 {
		m.kind += "+parallel"
		np := 1 + rng.Intn(2)
		base := len(m.links)
		for k := 0; k < np; k++ {
			e := m.links[rng.Intn(base)]
			add(e[0], e[1], true)
		}
	}
	// subscriber subsets for two channels
	for ch := 0; ch < 2; ch++ {
		mode := rng.Intn(4)
		for v := 0; v < n; v++ {
			in := false
			switch mode {
			case 0:
				in = true
			case 1:
				in = rng.Intn(4) != 0
			default:
				in = rng.Intn(2) == 0
			}
			if in {
				m.subs = append(m.subs, [2]int{v, ch})
			}
		}
	}
	if len(m.subs) == 0 {
		m.subs = append(m.subs, [2]int{0, 0})
	}
	// history: publishes interleaved with links going down and (re)appearing
	up := map[int][3]int{}
	for _, l := range m.links {
		up[l[2]] = l
	}
	var downed [][3]int
	pub := func() {
		if rng.Intn(5) != 0 {
			s := m.subs[rng.Intn(len(m.subs))]
			m.evs = append(m.evs, mev{kind: "pub", a: s[0], b: s[1], c: 0})
		} else {
			m.evs = append(m.evs, mev{kind: "pub", a: rng.Intn(n), b: rng.Intn(2), c: 0})
		}
	}
	pubNear := func(l [3]int) {
		// publish from either end of the link that just changed
		o := l[rng.Intn(2)]
		m.evs = append(m.evs, mev{kind: "pub", a: o, b: rng.Intn(2), c: 0})
	}
	steps := 2 + rng.Intn(4)
	bursted := false
	congested := false
	for i := 0; i < steps; i++ {
		switch x := rng.Intn(10); {
		case x < 5 || len(up) == 0:
			if len(up) > 1 && !congested && rng.Intn(6) == 0 {
				// congestion at a router: two subscribed neighbours stop reading, the router floods, one of the
				// two publishes, they resume one after the other (wire-level: nothing goes back to its source)
				var ups [][3]int
				for _, l := range up {
					ups = append(ups, l)
				}
				sort.Slice(ups, func(a, b int) bool { return ups[a][2] < ups[b][2] })
				type cand struct{ n, ch, a, la, b, lb int }
				var cands []cand
				for ch := 0; ch < 2; ch++ {
					for r := 0; r < n; r++ {
						if !m.isSub(r, ch) {
							continue
						}
						var nb [][2]int // neighbour, link
						for _, l := range ups {
							o := -1
							if l[0] == r {
								o = l[1]
							} else if l[1] == r {
								o = l[0]
							}
							if o >= 0 && m.isSub(o, ch) {
								nb = append(nb, [2]int{o, l[2]})
							}
						}
						for i := range nb {
							for j := range nb {
								if nb[i][0] != nb[j][0] {
									cands = append(cands, cand{r, ch, nb[i][0], nb[i][1], nb[j][0], nb[j][1]})
								}
							}
						}
					}
				}
				if len(cands) > 0 {
					x := cands[rng.Intn(len(cands))]
					m.evs = append(m.evs, mev{kind: "congest", a: x.n, b: x.ch, c: rng.Intn(2), d: x.a, e: x.la, f: x.b, g: x.lb})
					congested = true
					continue
				}
			}
			if len(up) > 0 && !bursted && rng.Intn(16) == 0 {
				// back-pressure: the far end of one link stops reading while more messages than its
				// peer's send queue holds are published, then resumes
				var cands [][3]int
				for _, l := range up {
					cands = append(cands, l)
				}
				sort.Slice(cands, func(a, b int) bool { return cands[a][2] < cands[b][2] })
				l := cands[rng.Intn(len(cands))]
				o, far := l[0], l[1]
				if rng.Intn(2) == 0 {
					o, far = far, o
				}
				for ch := 0; ch < 2; ch++ {
					if m.isSub(far, ch) && !bursted {
						m.evs = append(m.evs, mev{kind: "burst", a: o, b: ch, c: l[2]})
						bursted = true
					}
				}
				if bursted {
					continue
				}
			}
			pub()
		case x < 8:
			// take a link down: prefer one of a parallel pair, else any
			var cands [][3]int
			for _, l := range up {
				for _, o := range up {
					if o[2] != l[2] && o[0] == l[0] && o[1] == l[1] {
						cands = append(cands, l)
					}
				}
			}
			if len(cands) == 0 || rng.Intn(3) == 0 {
				cands = cands[:0]
				for _, l := range up {
					cands = append(cands, l)
				}
			}
			sort.Slice(cands, func(a, b int) bool { return cands[a][2] < cands[b][2] })
			l := cands[rng.Intn(len(cands))]
			delete(up, l[2])
			downed = append(downed, l)
			m.evs = append(m.evs, mev{kind: "down", a: l[0], b: l[1], c: l[2]})
			pubNear(l)
		default:
			// a link comes up: a downed one again (same tuple), or a new parallel/new link
			var l [3]int
			if len(downed) > 0 && rng.Intn(2) == 0 {
				k := rng.Intn(len(downed))
				l = downed[k]
				downed = append(downed[:k], downed[k+1:]...)
			} else {
				a, b := rng.Intn(n), rng.Intn(n)
				if a == b {
					b = (a + 1) % n
				}
				if a > b {
					a, b = b, a
				}
				lid++
				l = [3]int{a, b, lid}
			}
			up[l[2]] = l
			m.evs = append(m.evs, mev{kind: "up", a: l[0], b: l[1], c: l[2]})
			pubNear(l)
		}
	}
	if k := m.evs[len(m.evs)-1].kind; k != "pub" && k != "burst" && k != "congest" {
		pub()
	}
	m.order = rng.Perm(len(m.links) + len(m.subs))
	m.early = rng.Intn(len(m.order) + 1)
	return m
}

func (m *mesh) isSub(v, ch int) bool {
	for _, s := range m.subs {
		if s[0] == v && s[1] == ch {
			return true
		}
	}
	return false
}

func adjOf(n int, links [][3]int) [][]int {
	a := make([][]int, n)
	for _, e := range links {
		a[e[0]] = append(a[e[0]], e[1])
		a[e[1]] = append(a[e[1]], e[0])
	}
	return a
}

// reachable: nodes connected to origin by a path over the given links whose nodes after the origin subscribe to ch
func (m *mesh) reachable(links [][3]int, origin, ch int) []bool {
	seen := make([]bool, m.n)
	seen[origin] = true
	q := []int{origin}
	adj := adjOf(m.n, links)
	for len(q) > 0 {
		u := q[0]
		q = q[1:]
		for _, v := range adj[u] {
			if !seen[v] && m.isSub(v, ch) {
				seen[v] = true
				q = append(q, v)
			}
		}
	}
	return seen
}

func runMesh(m *mesh, keys []keyInfo) {
	ctx, cancel := context.WithCancel(context.Background())
	defer cancel()
	n := m.n
	nodes := make([]*floodsub.FloodSub, n)
	for i := range nodes {
		nodes[i] = newFloodSub(ctx)
	}
	defer func() {
		// not waited for: after a panic of an Execute goroutine the router mutex stays locked
		for _, fs := range nodes {
			go fs.Close()
		}
	}()
	var mu sync.Mutex
	var crashed atomic.Value
	dead := func() bool { return crashed.Load() != nil }
	lastEvent := time.Now()
	handed := map[[2]int]int{} // (publish, node) -> handler invocations
	linkCounts := map[[3]int]map[int]int{}
	conns := map[int][2]net.Conn{}
	gates := map[[2]int]*gate{} // (reading node, link id)
	var busy atomic.Int32
	defer func() {
		for _, c := range conns {
			_ = c[0].Close()
			_ = c[1].Close()
		}
	}()
	up := map[int][3]int{}
	upList := func() [][3]int {
		var out [][3]int
		for _, l := range up {
			out = append(out, l)
		}
		sort.Slice(out, func(a, b int) bool { return out[a][2] < out[b][2] })
		return out
	}
	linkUp := func(l [3]int) {
		u, v, lid := l[0], l[1], l[2]
		a, b := net.Pipe()
		conns[lid] = [2]net.Conn{a, b}
		mu.Lock()
		if linkCounts[[3]int{u, v, lid}] == nil {
			linkCounts[[3]int{u, v, lid}] = map[int]int{}
			linkCounts[[3]int{v, u, lid}] = map[int]int{}
		}
		gates[[2]int{u, lid}], gates[[2]int{v, lid}] = newGate(), newGate()
		cu := &countingConn{Conn: a, mu: &mu, counts: linkCounts[[3]int{u, v, lid}], last: &lastEvent, rgate: gates[[2]int{u, lid}], busy: &busy}
		cv := &countingConn{Conn: b, mu: &mu, counts: linkCounts[[3]int{v, u, lid}], last: &lastEvent, rgate: gates[[2]int{v, lid}], busy: &busy}
		mu.Unlock()
		up[lid] = l
		nodes[u].AddPeerStream(pubsub.PeerLinkTuple{PeerID: keys[v].id, LinkID: uint64(lid)}, true, &fakeMS{conn: cu, pid: keys[v].id})
		nodes[v].AddPeerStream(pubsub.PeerLinkTuple{PeerID: keys[u].id, LinkID: uint64(lid)}, false, &fakeMS{conn: cv, pid: keys[u].id})
	}
	hasTuple := func(node int, peer int, lid int) bool {
		s := safeSnap(nodes[node])
		if s == nil {
			return true
		}
		for _, t := range append(s.Started, s.Pending...) {
			if t.PeerID == keys[peer].id && t.LinkID == uint64(lid) {
				return true
			}
		}
		return false
	}
	// every subscription is announced over every link that is up, every session is executing
	waitAnnounced := func() bool {
		return waitFor(8*time.Second, 2*time.Millisecond, func() bool {
			if dead() {
				return true
			}
			snaps := make([]*floodsub.VerifSnapshot, n)
			for u := 0; u < n; u++ {
				snaps[u] = safeSnap(nodes[u])
				if snaps[u] == nil {
					return false
				}
				if snaps[u].IncSessions != 0 || len(snaps[u].Pending) != 0 {
					return false
				}
			}
			for _, l := range up {
				for _, d := range [][2]int{{l[0], l[1]}, {l[1], l[0]}} {
					u, v := d[0], d[1]
					for ch := 0; ch < 2; ch++ {
						if !m.isSub(v, ch) {
							continue
						}
						found := false
						for _, t := range snaps[u].PeerChannels["ch"+strconv.Itoa(ch)] {
							if t.PeerID == keys[v].id && t.LinkID == uint64(l[2]) {
								found = true
							}
						}
						if !found {
							return false
						}
					}
				}
			}
			return true
		})
	}

	doSetup := func(op int) {
		if op < len(m.links) {
			linkUp(m.links[op])
			return
		}
		s := m.subs[op-len(m.links)]
		v, ch := s[0], s[1]
		sub, err := nodes[v].AddSubscription(ctx, keys[v].priv, "ch"+strconv.Itoa(ch))
		if err != nil {
			panic(err)
		}
		sub.AddHandler(func(msg pubsub.Message) {
			idx, ok := pubIndexOfData(msg.GetData())
			if !ok {
				return
			}
			mu.Lock()
			handed[[2]int{idx, v}]++
			lastEvent = time.Now()
			mu.Unlock()
		})
	}
	for i := 0; i < m.early; i++ {
		doSetup(m.order[i])
	}
	for _, fs := range nodes {
		fs := fs
		go func() {
			defer func() {
				if r := recover(); r != nil {
					crashed.Store(fmt.Sprint(r))
				}
			}()
			_ = fs.Execute(ctx)
		}()
	}
	for i := m.early; i < len(m.order); i++ {
		doSetup(m.order[i])
	}
	if !waitAnnounced() && !dead() {
		m.problem = "subscriptions were not announced over all links within 8s"
		return
	}

	quiet := func() {
		// nothing pending anywhere, continuously for 120 ms: between a dequeue and the write (or the
		// lock) a goroutine of the implementation holds a packet that no counter sees; on a loaded
		// machine it may stay descheduled for tens of milliseconds
		var since time.Time
		waitFor(10*time.Second, 4*time.Millisecond, func() bool {
			if dead() {
				return true
			}
			idle := busy.Load() == 0
			if idle {
				for _, fs := range nodes {
					if sn := safeSnap(fs); sn == nil || sn.PublishQueue != 0 || fs.VerifQueued() != 0 {
						idle = false
						break
					}
				}
			}
			if idle {
				mu.Lock()
				idle = time.Since(lastEvent) > 120*time.Millisecond
				mu.Unlock()
			}
			if !idle {
				since = time.Time{}
				return false
			}
			if since.IsZero() {
				since = time.Now()
			}
			return time.Since(since) > 120*time.Millisecond
		})
	}
	// snapshot copies the observation counters into m.handed / m.wire and returns a fingerprint of them
	snapshot := func() string {
		mu.Lock()
		defer mu.Unlock()
		m.handed, m.wire = nil, nil
		for i := range m.pubs {
			row := make([]int, n)
			for v := 0; v < n; v++ {
				row[v] = handed[[2]int{i, v}]
			}
			m.handed = append(m.handed, row)
			var w [][4]int
			for lk, cnt := range linkCounts {
				if cnt[i] > 0 {
					w = append(w, [4]int{lk[0], lk[1], lk[2], cnt[i]})
				}
			}
			sort.Slice(w, func(a, b int) bool {
				for k := 0; k < 3; k++ {
					if w[a][k] != w[b][k] {
						return w[a][k] < w[b][k]
					}
				}
				return false
			})
			m.wire = append(m.wire, w)
		}
		return fmt.Sprint(m.handed, m.wire)
	}
	// checkpoint is a quiescence point: take the observation; if the property text would be violated
	// on it (e.g. an expected delivery or forward is missing) do not believe it yet: flooding may simply
	// still be in progress on a loaded machine. Keep waiting until the observation has been unchanged
	// for one second (at most 8 s), and leave the final observation in m.handed / m.wire.
	checkpoint := func() {
		time.Sleep(30 * time.Millisecond)
		fp := snapshot()
		if f, _ := meshFindings(m); len(f) == 0 || dead() {
			return
		}
		deadline := time.Now().Add(8 * time.Second)
		stableSince := time.Now()
		for time.Now().Before(deadline) && time.Since(stableSince) < time.Second {
			time.Sleep(20 * time.Millisecond)
			if nfp := snapshot(); nfp != fp {
				fp, stableSince = nfp, time.Now()
				if f, _ := meshFindings(m); len(f) == 0 {
					// complete now: still require the usual short idleness
					quiet()
					snapshot()
					return
				}
			}
		}
		snapshot()
	}
	for _, ev := range m.evs {
		switch ev.kind {
		case "down":
			c := conns[ev.c]
			_ = c[0].Close()
			_ = c[1].Close()
			delete(up, ev.c)
			// the property speaks about the mesh after it has stabilised: both sessions have ended
			ok := waitFor(5*time.Second, time.Millisecond, func() bool {
				return dead() || (!hasTuple(ev.a, ev.b, ev.c) && !hasTuple(ev.b, ev.a, ev.c))
			})
			if !ok && !dead() {
				m.problem = "the sessions of a closed link did not end within 5s"
				return
			}
			time.Sleep(5 * time.Millisecond)
		case "up":
			linkUp([3]int{ev.a, ev.b, ev.c})
			if !waitAnnounced() && !dead() {
				m.problem = "subscriptions were not announced over a new link within 8s"
				return
			}
		case "congest":
			r, ch := ev.a, ev.b
			first := len(m.pubs)
			cur := upList()
			origins := []int{r, r, ev.f}
			for _, o := range origins {
				m.pubs = append(m.pubs, [2]int{o, ch})
				m.upAt = append(m.upAt, cur)
			}
			ga, gb := gates[[2]int{ev.d, ev.e}], gates[[2]int{ev.f, ev.g}]
			ga.shut()
			gb.shut()
			pubAsync := func(o, idx int) {
				go func() {
					_ = nodes[o].Publish(ctx, "ch"+strconv.Itoa(ch), keys[o].priv, []byte(fmt.Sprintf("pub%d.", idx)))
				}()
			}
			pubAsync(r, first) // occupies both writers
			time.Sleep(40 * time.Millisecond)
			pubAsync(r, first+1) // queued for both neighbours
			time.Sleep(40 * time.Millisecond)
			pubAsync(ev.f, first+2) // comes back to the router, is queued for the other neighbour only
			time.Sleep(60 * time.Millisecond)
			if ev.c == 0 {
				ga.open()
				time.Sleep(50 * time.Millisecond)
				gb.open()
			} else {
				gb.open()
				time.Sleep(50 * time.Millisecond)
				ga.open()
			}
			for j, o := range origins {
				reach := m.reachable(cur, o, ch)
				idx := first + j
				waitFor(5*time.Second, time.Millisecond, func() bool {
					if dead() {
						return true
					}
					mu.Lock()
					defer mu.Unlock()
					for v := 0; v < n; v++ {
						if reach[v] && m.isSub(v, ch) && handed[[2]int{idx, v}] == 0 {
							return false
						}
					}
					return true
				})
			}
			quiet()
			checkpoint()
		case "burst":
			origin, ch, lid := ev.a, ev.b, ev.c
			l := up[lid]
			far := l[0]
			if far == origin {
				far = l[1]
			}
			k := burstLen(lid)
			first := len(m.pubs)
			cur := upList()
			for j := 0; j < k; j++ {
				m.pubs = append(m.pubs, [2]int{origin, ch})
				m.upAt = append(m.upAt, cur)
			}
			g := gates[[2]int{far, lid}]
			g.shut()
			pubDone := make(chan error, 1)
			go func() {
				for j := 0; j < k; j++ {
					if err := nodes[origin].Publish(ctx, "ch"+strconv.Itoa(ch), keys[origin].priv, []byte(fmt.Sprintf("pub%d.", first+j))); err != nil {
						pubDone <- err
						return
					}
				}
				pubDone <- nil
			}()
			time.Sleep(250 * time.Millisecond)
			g.open()
			select {
			case err := <-pubDone:
				if err != nil {
					m.problem = "publish failed: " + err.Error()
					return
				}
			case <-time.After(10 * time.Second):
				if !dead() {
					m.problem = "burst of publishes blocked for 10s after the reader resumed"
					return
				}
			}
			reach := m.reachable(cur, origin, ch)
			waitFor(6*time.Second, time.Millisecond, func() bool {
				if dead() {
					return true
				}
				mu.Lock()
				defer mu.Unlock()
				for j := first; j < first+k; j++ {
					for v := 0; v < n; v++ {
						if reach[v] && m.isSub(v, ch) && handed[[2]int{j, v}] == 0 {
							return false
						}
					}
				}
				return true
			})
			quiet()
			checkpoint()
		case "pub":
			i := len(m.pubs)
			origin, ch := ev.a, ev.b
			m.pubs = append(m.pubs, [2]int{origin, ch})
			cur := upList()
			m.upAt = append(m.upAt, cur)
			data := []byte(fmt.Sprintf("pub%d.", i))
			pubDone := make(chan error, 1)
			go func() { pubDone <- nodes[origin].Publish(ctx, "ch"+strconv.Itoa(ch), keys[origin].priv, data) }()
			select {
			case err := <-pubDone:
				if err != nil {
					m.problem = "publish failed: " + err.Error()
					return
				}
			case <-time.After(5 * time.Second):
				if !dead() {
					m.problem = "publish blocked for 5s"
					return
				}
			}
			reach := m.reachable(cur, origin, ch)
			// wait for the expected deliveries (bounded), then for silence
			waitFor(4*time.Second, time.Millisecond, func() bool {
				if dead() {
					return true
				}
				mu.Lock()
				defer mu.Unlock()
				for v := 0; v < n; v++ {
					if reach[v] && m.isSub(v, ch) && handed[[2]int{i, v}] == 0 {
						return false
					}
				}
				return true
			})
			quiet()
			checkpoint()
		}
		if c := crashed.Load(); c != nil {
			m.problem = "Execute panicked: " + c.(string)
			return
		}
	}
	// everything of every publish is counted at the very end (late duplicates included)
	checkpoint()
}

func pairList(l [][2]int) string {
	items := make([]string, len(l))
	for i, p := range l {
		items[i] = "(" + hx.Nat(p[0]) + ", " + hx.Nat(p[1]) + ")"
	}
	return hx.List(items)
}

func tripleList(l [][3]int) string {
	items := make([]string, len(l))
	for i, p := range l {
		items[i] = "(" + hx.Nat(p[0]) + ", " + hx.Nat(p[1]) + ", " + hx.Nat(p[2]) + ")"
	}
	return hx.List(items)
}

func c28(c *hx.Ctx) {
	c.Type = "c28_case"
	c.Agree = "c28_agree"
	c.Rule = "meshes of 3-6 real FloodSub nodes (Execute running) wired by net.Pipe: lines, stars, rings, trees, random connected graphs, half of them with 1-2 parallel links (same two nodes, different link ids); random subscriber subsets on two channels; links and subscriptions established in random order, partly before Execute starts; histories of 3-8 events: publishes (from subscribers, sometimes from a non-subscriber), a link closed (preferably one of a parallel pair, also cycle links and bridges) followed by a publish from either end, a link (re-)established (same tuple again, or a new link) followed by a publish; observed per publish: handler invocations per node and packets per directed link; non-trivial = distinct mesh with a delivery to a node other than the publisher"
	keys := genKeys(c.Rng, 6)
	nm := c.N
	meshes := make([]*mesh, nm)
	for i := range meshes {
		meshes[i] = genMesh(c)
	}
	runMeshesInChildren(c, meshes)
	for _, m := range meshes {
		evS := []string{}
		var evT []string
		downs := 0
		for _, e := range m.evs {
			evS = append(evS, e.String())
			evT = append(evT, e.term())
			if e.kind == "down" {
				downs++
			}
			if e.kind == "burst" {
				c.Class("with-backpressure-burst")
			}
			if e.kind == "congest" {
				c.Class("with-congested-router")
			}
		}
		desc := map[string]any{"kind": m.kind, "n": m.n, "links(u,v,id)": m.links, "subs(node,ch)": m.subs, "events": evS,
			"setup_order": m.order, "setup_before_execute": m.early, "handed": m.handed, "wire(u,v,id,count)": m.wire}
		c.Class(m.kind + "/" + strconv.Itoa(m.n))
		if downs > 0 {
			c.Class("with-link-down")
		}
		if m.problem != "" {
			key := "c28-harness-timeout"
			if strings.HasPrefix(m.problem, "Execute panicked") {
				key = "c28-execute-panic"
			}
			if strings.HasPrefix(m.problem, "process crashed") {
				key = "c28-process-crash"
			}
			c.Failf(key, desc, "%s", m.problem)
			continue
		}
		var handedT, wireT []string
		for i := range m.pubs {
			handedT = append(handedT, hx.NatList(m.handed[i]))
			var w []string
			for _, e := range m.wire[i] {
				w = append(w, "("+hx.Nat(e[0])+", "+hx.Nat(e[1])+", "+hx.Nat(e[2])+", "+hx.Nat(e[3])+")")
			}
			wireT = append(wireT, hx.List(w))
		}
		c.Case(hx.App("Mesh28", hx.Nat(m.n), tripleList(m.links), pairList(m.subs), hx.List(evT), hx.List(handedT), hx.List(wireT)), desc)
		// ---- direct oracle, straight from the property text ----
		findings, nontriv := meshFindings(m)
		for _, f := range findings {
			c.Failf(f[0], desc, "%s", f[1])
		}
		if nontriv {
			c.Nontrivial(fmt.Sprint(m.kind, m.n, m.links, m.subs, evS))
		}
	}
	// a link with stale peerChannels entries is re-established with the same tuple while the
	// node keeps publishing: execPublish must skip the stream until it has a context (oracle only)
	rr := c.N / 80
	if rr < 2 {
		rr = 2
	}
	_ = keys
	relink := relinkInChild(c, rr)
	for i := 0; i < rr; i++ {
		c.Eval()
	}
	c.Class("relink-probe")
	for _, b := range relink {
		c.Failf("c28-execute-panic-relink", map[string]any{"kind": "relink-probe",
			"history": "subscribe ch; peer 1 over link 1 announces ch; second slow subscribed peer; link 1 closed (peerChannels entry of the tuple stays); 16 goroutines publish on ch; AddPeerStream with the same tuple"}, "%s", b)
	}
}

// relinkInChild runs the relink probe in a child process (it runs 16 publishing goroutines against
// goroutines of the implementation; a panic there must not take the other observations with it).
func relinkInChild(c *hx.Ctx, rounds int) []string {
	_ = os.MkdirAll(c.Out, 0o755)
	dir, err := os.MkdirTemp(c.Out, "c28relink")
	if err != nil {
		panic(err)
	}
	defer os.RemoveAll(dir)
	cmd := exec.Command(os.Args[0], "-prop", "C28RELINK", "-seed", strconv.FormatInt(c.Seed, 10), "-n", strconv.Itoa(rounds), "-out", dir)
	cmd.Env = append(os.Environ(), "PUBSUB_CHILD=1")
	outb, err := cmd.CombinedOutput()
	raw, rerr := os.ReadFile(filepath.Join(dir, "result.json"))
	if err != nil || rerr != nil {
		tail := string(outb)
		if i := strings.Index(tail, "panic:"); i >= 0 {
			tail = tail[i:]
		}
		if len(tail) > 900 {
			tail = tail[:900]
		}
		return []string{"the relink probe process died: " + tail}
	}
	var res struct {
		Failures []struct {
			What string `json:"what"`
		} `json:"failures"`
	}
	_ = json.Unmarshal(raw, &res)
	var out []string
	for _, f := range res.Failures {
		out = append(out, f.What)
	}
	return out
}

// meshFindings evaluates the property text on the observations of a mesh (m.pubs, m.upAt, m.handed,
// m.wire): (key, what) per violation, and whether a message reached a node other than its publisher.
// Pure: used by the child to decide whether to keep waiting (confirm before report) and by the
// parent to report.
func meshFindings(m *mesh) ([][2]string, bool) {
	var out [][2]string
	add := func(key, format string, a ...any) { out = append(out, [2]string{key, fmt.Sprintf(format, a...)}) }
	nontriv := false
	for i, p := range m.pubs {
		origin, ch := p[0], p[1]
		links := m.upAt[i]
		reach := m.reachable(links, origin, ch)
		for v := 0; v < m.n; v++ {
			got := m.handed[i][v]
			want := 0
			if reach[v] && m.isSub(v, ch) {
				want = 1
			}
			if got > 1 {
				add("c28-duplicate-delivery", "publish %d: node %d was handed the message %d times", i, v, got)
			} else if got < want {
				add("c28-not-delivered", "publish %d (from %d on channel %d): subscriber %d is reachable through subscribers over the links that are up %v and was not handed the message", i, origin, ch, v, links)
			} else if got > want {
				add("c28-unexpected-delivery", "publish %d: node %d was handed a message it should not get", i, v)
			}
			if got == 1 && v != origin {
				nontriv = true
			}
		}
		isUp := map[int]bool{}
		for _, l := range links {
			isUp[l[2]] = true
		}
		sent := map[[3]int]int{}
		for _, e := range m.wire[i] {
			sent[[3]int{e[0], e[1], e[2]}] = e[3]
			if e[1] == origin {
				add("c28-echo-origin", "publish %d: node %d sent the message back to its publisher %d", i, e[0], origin)
			}
			if e[3] > 1 {
				add("c28-link-duplicate", "publish %d: %d copies on link %d->%d (id %d)", i, e[3], e[0], e[1], e[2])
			}
			if !reach[e[0]] {
				add("c28-forward-by-unreached", "publish %d: node %d forwarded a message it should never have accepted", i, e[0])
			}
			if !m.isSub(e[1], ch) {
				add("c28-sent-to-non-subscriber", "publish %d: sent to %d which does not subscribe", i, e[1])
			}
			if !isUp[e[2]] {
				add("c28-sent-on-closed-link", "publish %d: written on link %d which had been closed", i, e[2])
			}
		}
		// a holder other than the origin leaves out exactly the links to one peer, its previous hop
		// (which wrote to it); if it left out nothing, its previous hop must be the origin
		for u := 0; u < m.n; u++ {
			if u == origin || !reach[u] || m.handed[i][u] == 0 {
				continue
			}
			missingPeers := map[int]bool{}
			for _, l := range links {
				for _, d := range [][2]int{{l[0], l[1]}, {l[1], l[0]}} {
					if d[0] == u && d[1] != origin && m.isSub(d[1], ch) && sent[[3]int{u, d[1], l[2]}] == 0 {
						missingPeers[d[1]] = true
					}
				}
			}
			fromPeer := func(w int) bool {
				for k, v := range sent {
					if k[0] == w && k[1] == u && v > 0 {
						return true
					}
				}
				return false
			}
			switch len(missingPeers) {
			case 0:
				if !fromPeer(origin) {
					add("c28-echo-prevhop", "publish %d: node %d wrote the message to every announced neighbour, including the one it got it from", i, u)
				}
			case 1:
				for w := range missingPeers {
					for k, v := range sent {
						if k[0] == u && k[1] == w && v > 0 {
							add("c28-echo-prevhop", "publish %d: node %d wrote to %d on link %d but left out another link to the same peer", i, u, w, k[2])
						}
					}
					if !fromPeer(w) {
						add("c28-not-forwarded", "publish %d: node %d did not forward to announced subscriber %d although it did not get the message from it", i, u, w)
					}
				}
			default:
				add("c28-not-forwarded", "publish %d: node %d left out several announced subscribers %v", i, u, missingPeers)
			}
		}
	}
	return out, nontriv
}
