package main

import (
	"context"
	"encoding/binary"
	"fmt"
	"net"
	"sort"
	"strconv"
	"strings"
	"sync"
	"time"

	"github.com/aperturerobotics/bifrost/pubsub"
	"github.com/aperturerobotics/bifrost/pubsub/floodsub"
	"verifharness/internal/hx"
)

// countingConn counts, per publish index, the Publish entries of the frames written through it.
type countingConn struct {
	net.Conn
	mu     *sync.Mutex
	counts map[int]int // publish index -> packets
	last   *time.Time
}

func (c *countingConn) Write(b []byte) (int, error) {
	// stream_packet.Session.SendMsg writes one whole frame per Write call
	if len(b) >= 4 && int(binary.LittleEndian.Uint32(b)) == len(b)-4 {
		p := &floodsub.Packet{}
		if err := p.UnmarshalVT(b[4:]); err == nil {
			for _, sm := range p.GetPublish() {
				if idx, ok := pubIndexOfData(sm.GetData()); ok {
					c.mu.Lock()
					c.counts[idx]++
					*c.last = time.Now()
					c.mu.Unlock()
				}
			}
		}
	}
	return c.Conn.Write(b)
}

// the data of the i-th publish is "pub<i>."; the inner message contains it verbatim
func pubIndexOfData(inner []byte) (int, bool) {
	s := string(inner)
	i := strings.Index(s, "pub")
	if i < 0 {
		return 0, false
	}
	j := strings.Index(s[i:], ".")
	if j < 0 {
		return 0, false
	}
	n, err := strconv.Atoi(s[i+3 : i+j])
	if err != nil {
		return 0, false
	}
	return n, true
}

type mesh struct {
	n     int
	kind  string
	edges [][2]int
	subs  [][2]int // (node, channel)
	pubs  [][2]int // (origin, channel)
	order []int    // interleaving of setup operations: index into setup ops
	early int      // number of setup operations performed before Execute is started

	handed  [][]int       // per publish, per node
	wire    [][][3]int    // per publish: (u, v, count)
	problem string
}

func genMesh(c *hx.Ctx) *mesh {
	rng := c.Rng
	m := &mesh{n: 3 + rng.Intn(4)}
	n := m.n
	has := map[[2]int]bool{}
	add := func(a, b int) {
		if a == b {
			return
		}
		if a > b {
			a, b = b, a
		}
		if !has[[2]int{a, b}] {
			has[[2]int{a, b}] = true
			m.edges = append(m.edges, [2]int{a, b})
		}
	}
	perm := rng.Perm(n)
	switch rng.Intn(5) {
	case 0:
		m.kind = "line"
		for i := 0; i+1 < n; i++ {
			add(perm[i], perm[i+1])
		}
	case 1:
		m.kind = "star"
		for i := 1; i < n; i++ {
			add(perm[0], perm[i])
		}
	case 2:
		m.kind = "ring"
		for i := 0; i < n; i++ {
			add(perm[i], perm[(i+1)%n])
		}
	case 3:
		m.kind = "tree"
		for i := 1; i < n; i++ {
			add(perm[i], perm[rng.Intn(i)])
		}
	default:
		m.kind = "random"
		for i := 1; i < n; i++ {
			add(perm[i], perm[rng.Intn(i)])
		}
		extra := 1 + rng.Intn(n)
		for k := 0; k < extra; k++ {
			add(rng.Intn(n), rng.Intn(n))
		}
	}
	// subscriber subsets for two channels
	for ch := 0; ch < 2; ch++ {
		mode := rng.Intn(4)
		for v := 0; v < n; v++ {
			in := false
			switch mode {
			case 0:
				in = true
			case 1:
				in = rng.Intn(4) != 0
			default:
				in = rng.Intn(2) == 0
			}
			if in {
				m.subs = append(m.subs, [2]int{v, ch})
			}
		}
	}
	if len(m.subs) == 0 {
		m.subs = append(m.subs, [2]int{0, 0})
	}
	np := 2 + rng.Intn(3)
	for i := 0; i < np; i++ {
		if rng.Intn(5) != 0 {
			s := m.subs[rng.Intn(len(m.subs))]
			m.pubs = append(m.pubs, [2]int{s[0], s[1]})
		} else {
			m.pubs = append(m.pubs, [2]int{rng.Intn(n), rng.Intn(2)})
		}
	}
	m.order = rng.Perm(len(m.edges) + len(m.subs))
	m.early = rng.Intn(len(m.order) + 1)
	return m
}

func (m *mesh) isSub(v, ch int) bool {
	for _, s := range m.subs {
		if s[0] == v && s[1] == ch {
			return true
		}
	}
	return false
}

func (m *mesh) adj() [][]int {
	a := make([][]int, m.n)
	for _, e := range m.edges {
		a[e[0]] = append(a[e[0]], e[1])
		a[e[1]] = append(a[e[1]], e[0])
	}
	return a
}

// reachable: nodes connected to origin by a path whose nodes after the origin subscribe to ch
func (m *mesh) reachable(origin, ch int) []bool {
	seen := make([]bool, m.n)
	seen[origin] = true
	q := []int{origin}
	adj := m.adj()
	for len(q) > 0 {
		u := q[0]
		q = q[1:]
		for _, v := range adj[u] {
			if !seen[v] && m.isSub(v, ch) {
				seen[v] = true
				q = append(q, v)
			}
		}
	}
	return seen
}

func (m *mesh) acyclic() bool { return len(m.edges) == m.n-1 }

func runMesh(m *mesh, keys []keyInfo) {
	ctx, cancel := context.WithCancel(context.Background())
	defer cancel()
	n := m.n
	nodes := make([]*floodsub.FloodSub, n)
	for i := range nodes {
		nodes[i] = newFloodSub(ctx)
	}
	defer func() {
		for _, fs := range nodes {
			fs.Close()
		}
	}()
	var mu sync.Mutex
	lastEvent := time.Now()
	handed := map[[2]int]int{} // (publish, node) -> handler invocations
	linkCounts := map[[2]int]map[int]int{}
	var conns []net.Conn
	defer func() {
		for _, c := range conns {
			_ = c.Close()
		}
	}()

	doSetup := func(op int) {
		if op < len(m.edges) {
			e := m.edges[op]
			u, v := e[0], e[1]
			a, b := net.Pipe()
			conns = append(conns, a, b)
			mu.Lock()
			linkCounts[[2]int{u, v}] = map[int]int{}
			linkCounts[[2]int{v, u}] = map[int]int{}
			cu := &countingConn{Conn: a, mu: &mu, counts: linkCounts[[2]int{u, v}], last: &lastEvent}
			cv := &countingConn{Conn: b, mu: &mu, counts: linkCounts[[2]int{v, u}], last: &lastEvent}
			mu.Unlock()
			lid := uint64(op + 1)
			nodes[u].AddPeerStream(pubsub.PeerLinkTuple{PeerID: keys[v].id, LinkID: lid}, true, &fakeMS{conn: cu, pid: keys[v].id})
			nodes[v].AddPeerStream(pubsub.PeerLinkTuple{PeerID: keys[u].id, LinkID: lid}, false, &fakeMS{conn: cv, pid: keys[u].id})
			return
		}
		s := m.subs[op-len(m.edges)]
		v, ch := s[0], s[1]
		sub, err := nodes[v].AddSubscription(ctx, keys[v].priv, "ch"+strconv.Itoa(ch))
		if err != nil {
			panic(err)
		}
		sub.AddHandler(func(msg pubsub.Message) {
			idx, ok := pubIndexOfData(msg.GetData())
			if !ok {
				return
			}
			mu.Lock()
			handed[[2]int{idx, v}]++
			lastEvent = time.Now()
			mu.Unlock()
		})
	}
	for i := 0; i < m.early; i++ {
		doSetup(m.order[i])
	}
	for _, fs := range nodes {
		fs := fs
		go func() { _ = fs.Execute(ctx) }()
	}
	for i := m.early; i < len(m.order); i++ {
		doSetup(m.order[i])
	}

	// wait until every subscription is announced over every link
	announced := waitFor(8*time.Second, 2*time.Millisecond, func() bool {
		for u := 0; u < n; u++ {
			s := nodes[u].VerifSnapshot()
			if s.IncSessions != 0 || len(s.Pending) != 0 {
				return false
			}
			for _, e := range m.edges {
				var v int
				switch u {
				case e[0]:
					v = e[1]
				case e[1]:
					v = e[0]
				default:
					continue
				}
				for ch := 0; ch < 2; ch++ {
					if !m.isSub(v, ch) {
						continue
					}
					found := false
					for _, t := range s.PeerChannels["ch"+strconv.Itoa(ch)] {
						if t.PeerID == keys[v].id {
							found = true
						}
					}
					if !found {
						return false
					}
				}
			}
		}
		return true
	})
	if !announced {
		m.problem = "subscriptions were not announced over all links within 8s"
		return
	}

	for i, p := range m.pubs {
		origin, ch := p[0], p[1]
		data := []byte(fmt.Sprintf("pub%d.", i))
		if err := nodes[origin].Publish(ctx, "ch"+strconv.Itoa(ch), keys[origin].priv, data); err != nil {
			m.problem = "publish failed: " + err.Error()
			return
		}
		reach := m.reachable(origin, ch)
		// wait for the expected deliveries, then for silence
		waitFor(6*time.Second, time.Millisecond, func() bool {
			mu.Lock()
			defer mu.Unlock()
			for v := 0; v < n; v++ {
				if reach[v] && m.isSub(v, ch) && handed[[2]int{i, v}] == 0 {
					return false
				}
			}
			return true
		})
		waitFor(3*time.Second, 2*time.Millisecond, func() bool {
			for _, fs := range nodes {
				if fs.VerifSnapshot().PublishQueue != 0 {
					return false
				}
			}
			mu.Lock()
			quiet := time.Since(lastEvent) > 40*time.Millisecond
			mu.Unlock()
			return quiet
		})
	}
	// everything of every publish is counted at the very end (late duplicates included)
	time.Sleep(30 * time.Millisecond)
	mu.Lock()
	defer mu.Unlock()
	for i := range m.pubs {
		row := make([]int, n)
		for v := 0; v < n; v++ {
			row[v] = handed[[2]int{i, v}]
		}
		m.handed = append(m.handed, row)
		var w [][3]int
		for lk, cnt := range linkCounts {
			if cnt[i] > 0 {
				w = append(w, [3]int{lk[0], lk[1], cnt[i]})
			}
		}
		sort.Slice(w, func(a, b int) bool {
			if w[a][0] != w[b][0] {
				return w[a][0] < w[b][0]
			}
			return w[a][1] < w[b][1]
		})
		m.wire = append(m.wire, w)
	}
}

func pairList(l [][2]int) string {
	items := make([]string, len(l))
	for i, p := range l {
		items[i] = "(" + hx.Nat(p[0]) + ", " + hx.Nat(p[1]) + ")"
	}
	return hx.List(items)
}

func c28(c *hx.Ctx) {
	c.Type = "c28_case"
	c.Agree = "c28_agree"
	c.Rule = "meshes of 3-6 real FloodSub nodes (Execute running) wired by net.Pipe: lines, stars, rings, trees, random connected graphs; random subscriber subsets on two channels; links and subscriptions established in random order, partly before Execute starts; 2-4 publishes from subscribers (sometimes from a non-subscriber); observed per publish: handler invocations per node and packets per directed link; non-trivial = distinct mesh with a delivery to a node other than the publisher"
	keys := genKeys(c.Rng, 6)
	nm := c.N
	meshes := make([]*mesh, nm)
	for i := range meshes {
		meshes[i] = genMesh(c)
	}
	parallel(nm, 12, func(i int) { runMesh(meshes[i], keys) })
	for _, m := range meshes {
		desc := map[string]any{"kind": m.kind, "n": m.n, "edges": m.edges, "subs": m.subs, "pubs": m.pubs,
			"setup_order": m.order, "setup_before_execute": m.early, "handed": m.handed, "wire": m.wire}
		c.Class(m.kind + "/" + strconv.Itoa(m.n))
		if m.problem != "" {
			c.Failf("c28-harness-timeout", desc, "%s", m.problem)
			continue
		}
		var handedT, wireT []string
		for i := range m.pubs {
			handedT = append(handedT, hx.NatList(m.handed[i]))
			var w []string
			for _, e := range m.wire[i] {
				w = append(w, "("+hx.Nat(e[0])+", "+hx.Nat(e[1])+", "+hx.Nat(e[2])+")")
			}
			wireT = append(wireT, hx.List(w))
		}
		c.Case(hx.App("Mesh28", hx.Nat(m.n), pairList(m.edges), pairList(m.subs), pairList(m.pubs), hx.List(handedT), hx.List(wireT)), desc)
		// ---- direct oracle ----
		nontriv := false
		for i, p := range m.pubs {
			origin, ch := p[0], p[1]
			reach := m.reachable(origin, ch)
			for v := 0; v < m.n; v++ {
				got := m.handed[i][v]
				want := 0
				if reach[v] && m.isSub(v, ch) {
					want = 1
				}
				if got > 1 {
					c.Failf("c28-duplicate-delivery", desc, "publish %d: node %d was handed the message %d times", i, v, got)
				} else if got < want {
					c.Failf("c28-not-delivered", desc, "publish %d: subscriber %d is reachable through subscribers and was not handed the message", i, v)
				} else if got > want {
					c.Failf("c28-unexpected-delivery", desc, "publish %d: node %d was handed a message it should not get", i, v)
				}
				if got == 1 && v != origin {
					nontriv = true
				}
			}
			dir := map[[2]int]int{}
			for _, e := range m.wire[i] {
				dir[[2]int{e[0], e[1]}] = e[2]
				if e[1] == origin {
					c.Failf("c28-echo-origin", desc, "publish %d: node %d sent the message back to its publisher %d", i, e[0], origin)
				}
				if e[2] > 1 {
					c.Failf("c28-link-duplicate", desc, "publish %d: %d copies on link %d->%d", i, e[2], e[0], e[1])
				}
				if !reach[e[0]] {
					c.Failf("c28-forward-by-unreached", desc, "publish %d: node %d forwarded a message it should never have accepted", i, e[0])
				}
				if !m.isSub(e[1], ch) {
					c.Failf("c28-sent-to-non-subscriber", desc, "publish %d: sent to %d which does not subscribe", i, e[1])
				}
			}
			// general graphs: a holder other than the origin leaves out exactly its previous hop
			// (which wrote to it); if it left out nobody, its previous hop must be the origin
			adj := m.adj()
			for u := 0; u < m.n; u++ {
				if u == origin || !reach[u] || m.handed[i][u] == 0 {
					continue
				}
				missing := 0
				for _, v := range adj[u] {
					if v != origin && m.isSub(v, ch) && dir[[2]int{u, v}] == 0 {
						missing++
					}
				}
				if missing == 0 && dir[[2]int{origin, u}] == 0 {
					c.Failf("c28-echo-prevhop", desc, "publish %d: node %d wrote the message to every announced neighbour, including the one it got it from", i, u)
				}
			}
			if m.acyclic() {
				for k, v := range dir {
					if v > 0 && dir[[2]int{k[1], k[0]}] > 0 {
						c.Failf("c28-echo-prevhop", desc, "publish %d: on the tree link %d-%d the message went both ways", i, k[0], k[1])
					}
				}
			}
		}
		if nontriv {
			c.Nontrivial(fmt.Sprint(m.kind, m.n, m.edges, m.subs, m.pubs))
		}
	}
}
