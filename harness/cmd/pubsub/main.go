// Harness for pubsub (C27, C28, C29): drives real FloodSub routers, the real
// pubmessage verification and the real pubsub controller link tracker, and
// emits correspondence cases for Pubsub/Run.v plus direct property oracles.
package main

import (
	"verifharness/internal/hx"
)

func main() { hx.Main(run) }

func run(c *hx.Ctx) {
	c.Imports = "Pubsub.Model Pubsub.Net Pubsub.Sub Pubsub.Run"
	switch c.Prop {
	case "C27":
		c27(c)
	case "C28":
		c28(c)
	case "C29":
		c29(c)
	default:
		panic("unknown property " + c.Prop)
	}
}
