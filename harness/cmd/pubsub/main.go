// Harness for pubsub (C27, C28, C29): drives real FloodSub routers, the real
// pubmessage verification and the real pubsub controller link tracker, and
// emits correspondence cases for Pubsub/Run.v plus direct property oracles.
package main

import (
	"time"

	"verifharness/internal/hx"
)

func main() { hx.Main(run) }

func run(c *hx.Ctx) {
	c.Imports = "Pubsub.Model Pubsub.Net Pubsub.Sub Pubsub.Run"
	switch c.Prop {
	case "C27":
		c27(c)
	case "C28":
		c28(c)
	case "C29":
		c29(c)
	case "C28RELINK":
		c.Type, c.Agree = "c28_case", "c28_agree"
		for _, b := range relinkProbe(genKeys(c.Rng, 5), c.N) {
			c.Failf("c28-execute-panic-relink", map[string]any{"kind": "relink-probe"}, "%s", b)
		}
	case "C29GAP":
		c.Type, c.Agree = "c29_case", "c29_agree"
		for _, b := range gapRace(genKeys(c.Rng, 5), c.N, 3*time.Second) {
			c.Failf("c29-unsub-not-retracted-gap", map[string]any{"kind": "gap-race"}, "%s", b)
		}
	default:
		panic("unknown property " + c.Prop)
	}
}
