// Harness for pubsub (C27, C28, C29): drives real FloodSub routers, the real
// pubmessage verification and the real pubsub controller link tracker, and
// emits correspondence cases for Pubsub/Run.v plus direct property oracles.
package main

import (
	"os"
	"os/exec"
	"strings"
	"time"

	"verifharness/internal/hx"
)

// The code under test starts goroutines of its own: a panic in one of them kills the process and
// would leave the runner without any result. The top-level invocation therefore supervises a child
// that does the work; if the child dies, the supervisor itself produces a result.json whose only
// content is the crash (stack trace) as a failing observation.
func main() {
	if os.Getenv("PUBSUB_CHILD") == "" {
		cmd := exec.Command(os.Args[0], os.Args[1:]...)
		cmd.Env = append(os.Environ(), "PUBSUB_CHILD=1")
		cmd.Stdout = os.Stdout
		var errb strings.Builder
		cmd.Stderr = &errb
		if err := cmd.Run(); err == nil {
			os.Stderr.WriteString(errb.String())
			return
		}
		tail := errb.String()
		if i := strings.Index(tail, "panic:"); i >= 0 {
			tail = tail[i:]
		} else if i := strings.Index(tail, "fatal error:"); i >= 0 {
			tail = tail[i:]
		}
		if len(tail) > 1500 {
			tail = tail[:1500]
		}
		os.Setenv("PUBSUB_CRASH", tail)
	}
	hx.Main(run)
}

func run(c *hx.Ctx) {
	c.Imports = "Pubsub.Model Pubsub.Net Pubsub.Sub Pubsub.Run"
	if crash := os.Getenv("PUBSUB_CRASH"); crash != "" {
		c.Type, c.Agree = strings.ToLower(c.Prop)+"_case", strings.ToLower(c.Prop)+"_agree"
		c.Failf(strings.ToLower(c.Prop)+"-process-crash", map[string]any{"kind": "process-crash", "seed": c.Seed, "n": c.N},
			"the harness process died while running the implementation (seed %d, n %d): %s", c.Seed, c.N, crash)
		return
	}
	switch c.Prop {
	case "C27":
		c27(c)
	case "C28":
		c28(c)
	case "C29":
		c29(c)
	case "C28BATCH":
		c28Batch(c)
	case "C28RELINK":
		c.Type, c.Agree = "c28_case", "c28_agree"
		for _, b := range relinkProbe(genKeys(c.Rng, 5), c.N) {
			c.Failf("c28-execute-panic-relink", map[string]any{"kind": "relink-probe"}, "%s", b)
		}
	case "C29GAP":
		c.Type, c.Agree = "c29_case", "c29_agree"
		for _, b := range gapRace(genKeys(c.Rng, 5), c.N, 3*time.Second) {
			c.Failf("c29-unsub-not-retracted-gap", map[string]any{"kind": "gap-race"}, "%s", b)
		}
	default:
		panic("unknown property " + c.Prop)
	}
}
