package main

import (
	"context"
	"fmt"
	"os"
	"sync"
	"sync/atomic"
	"time"

	"github.com/aperturerobotics/bifrost/pubsub/floodsub"
)

// relinkProbe: a link to a subscribed peer goes down (its peerChannels entries
// stay), the node keeps publishing, the link is re-established with the same
// PeerLinkTuple. Looks for a panic of the Execute goroutine (execPublish ->
// writePacket on a stream that has no context yet; guarded since /repo
// 0d866bc). Oracle only; part of the default C28 run.
func relinkProbe(keys []keyInfo, rounds int) []string {
	var out []string
	var mu sync.Mutex
	parallel(rounds, 4, func(r int) {
		ctx, cancel := context.WithCancel(context.Background())
		defer cancel()
		fs := newFloodSub(ctx)
		wedged := false
		defer func() {
			if !wedged {
				fs.Close()
			}
		}()
		if _, err := fs.AddSubscription(ctx, keys[4].priv, "ch"); err != nil {
			panic(err)
		}
		var crashed atomic.Value
		go func() {
			defer func() {
				if x := recover(); x != nil {
					crashed.Store(fmt.Sprint(x))
				}
			}()
			_ = fs.Execute(ctx)
		}()
		rp := attachRaw(fs, keys[1], 1)
		_ = rp.send(&floodsub.Packet{Subscriptions: []*floodsub.SubscriptionOpts{{Subscribe: true, ChannelId: "ch"}}})
		ok := waitFor(3*time.Second, time.Millisecond, func() bool {
			s := fs.VerifSnapshot()
			return len(s.Started) == 1 && len(s.PeerChannels["ch"]) == 1
		})
		if !ok {
			return
		}
		// a second subscribed peer that reads slowly keeps the loop busy and the publish queue full
		slow := attachRawSlow(fs, keys[2], 2, 300*time.Microsecond)
		defer slow.close()
		_ = slow.send(&floodsub.Packet{Subscriptions: []*floodsub.SubscriptionOpts{{Subscribe: true, ChannelId: "ch"}}})
		waitFor(3*time.Second, time.Millisecond, func() bool {
			s := fs.VerifSnapshot()
			return len(s.Started) == 2 && len(s.PeerChannels["ch"]) == 2
		})
		rp.close()
		waitFor(3*time.Second, time.Millisecond, func() bool {
			s := fs.VerifSnapshot()
			return len(s.Started)+len(s.Pending) == 1
		})
		// let the loop consume the wake token that lags one pass behind and return to its select
		time.Sleep(260 * time.Millisecond)
		stale := len(fs.VerifSnapshot().PeerChannels["ch"]) - 1
		var stop atomic.Bool
		var wg sync.WaitGroup
		for g := 0; g < 16; g++ {
			wg.Add(1)
			g := g
			go func() {
				defer wg.Done()
				for i := 0; !stop.Load(); i++ {
					_ = fs.Publish(ctx, "ch", keys[4].priv, []byte(fmt.Sprintf("p%d-%d-%d", r, g, i)))
				}
			}()
		}
		time.Sleep(time.Duration(5+r%20) * time.Millisecond)
		rp2 := attachRaw(fs, keys[1], 1) // same tuple again
		// until the new stream has its context (or the loop died)
		snapOK := func() *floodsub.VerifSnapshot {
			ch := make(chan *floodsub.VerifSnapshot, 1)
			go func() { ch <- fs.VerifSnapshot() }()
			select {
			case sn := <-ch:
				return sn
			case <-time.After(2 * time.Second):
				return nil
			}
		}
		for k := 0; k < 100 && crashed.Load() == nil; k++ {
			time.Sleep(10 * time.Millisecond)
			if k%10 == 9 {
				sn := snapOK()
				if sn == nil || len(sn.Pending) == 0 {
					break
				}
			}
		}
		time.Sleep(20 * time.Millisecond)
		if c := crashed.Load(); c != nil {
			// the panic left m.mtx locked: the router is wedged, nothing can be cleaned up
			wedged = true
			stop.Store(true)
			mu.Lock()
			out = append(out, fmt.Sprintf("round %d: link (peer 1, id 1) subscribed to \"ch\" went down, %d stale peerChannels entry of the dead tuple stayed; while 16 goroutines keep publishing on \"ch\" the same tuple is re-added with AddPeerStream; Execute panicked in execPublish -> writePacket (stream without context): %s", r, stale, c.(string)))
			mu.Unlock()
			return
		}
		stop.Store(true)
		cancel()
		wg.Wait()
		rp2.close()
		if os.Getenv("RELINK_DEBUG") != "" {
			fmt.Fprintln(os.Stderr, "round", r, "stale", stale, "no panic")
		}
	})
	return out
}
