package main

import (
	"runtime/pprof"
	"os"
	"context"
	"fmt"
	"sync"
	"sync/atomic"
	"time"

	"github.com/aperturerobotics/bifrost/pubsub"
	"github.com/aperturerobotics/bifrost/pubsub/floodsub"
)

// relinkProbe: a link to a subscribed peer goes down (its peerChannels entries
// stay), the node keeps publishing, the link is re-established with the same
// PeerLinkTuple. Looks for a panic of the Execute goroutine (execPublish ->
// writePacket on a stream that has no context yet). Probe only, not part of
// the default C28 run.
func relinkProbe(keys []keyInfo, rounds int) []string {
	var out []string
	var mu sync.Mutex
	parallel(rounds, 4, func(r int) {
		ctx, cancel := context.WithCancel(context.Background())
		defer cancel()
		fs := newFloodSub(ctx)
		defer fs.Close()
		if _, err := fs.AddSubscription(ctx, keys[4].priv, "ch"); err != nil {
			panic(err)
		}
		var crashed atomic.Value
		go func() {
			defer func() {
				if x := recover(); x != nil {
					crashed.Store(fmt.Sprint(x))
				}
			}()
			_ = fs.Execute(ctx)
		}()
		tpl := pubsub.PeerLinkTuple{PeerID: keys[1].id, LinkID: 1}
		rp := attachRaw(fs, keys[1], 1)
		_ = rp.send(&floodsub.Packet{Subscriptions: []*floodsub.SubscriptionOpts{{Subscribe: true, ChannelId: "ch"}}})
		ok := waitFor(3*time.Second, time.Millisecond, func() bool {
			s := fs.VerifSnapshot()
			return len(s.Started) == 1 && len(s.PeerChannels["ch"]) == 1
		})
		if !ok {
			return
		}
		// a second subscribed peer that reads slowly keeps the loop busy and the publish queue full
		slow := attachRawSlow(fs, keys[2], 2, 300*time.Microsecond)
		defer slow.close()
		_ = slow.send(&floodsub.Packet{Subscriptions: []*floodsub.SubscriptionOpts{{Subscribe: true, ChannelId: "ch"}}})
		waitFor(3*time.Second, time.Millisecond, func() bool {
			s := fs.VerifSnapshot()
			return len(s.Started) == 2 && len(s.PeerChannels["ch"]) == 2
		})
		rp.close()
		waitFor(3*time.Second, time.Millisecond, func() bool {
			s := fs.VerifSnapshot()
			return len(s.Started)+len(s.Pending) == 1
		})
		// let the loop consume the wake token that lags one pass behind and return to its select
		time.Sleep(260 * time.Millisecond)
		stale := len(fs.VerifSnapshot().PeerChannels["ch"]) - 1
		var stop atomic.Bool
		var wg sync.WaitGroup
		for g := 0; g < 16; g++ {
			wg.Add(1)
			g := g
			go func() {
				defer wg.Done()
				for i := 0; !stop.Load(); i++ {
					_ = fs.Publish(ctx, "ch", keys[4].priv, []byte(fmt.Sprintf("p%d-%d-%d", r, g, i)))
				}
			}()
		}
		time.Sleep(time.Duration(5+r%20) * time.Millisecond)
		rp2 := attachRaw(fs, keys[1], 1) // same tuple again
		if os.Getenv("RELINK_DEBUG") != "" {
			sn := fs.VerifSnapshot()
			fmt.Fprintln(os.Stderr, "after relink: pending", len(sn.Pending), "started", len(sn.Started), "queue", sn.PublishQueue, "seen", sn.Seen, "pc", sn.PeerChannels["ch"])
		}
		_ = tpl
		time.Sleep(150 * time.Millisecond)
		if os.Getenv("RELINK_DEBUG") != "" {
			done := make(chan *floodsub.VerifSnapshot, 1)
			go func() { done <- fs.VerifSnapshot() }()
			select {
			case sn := <-done:
				fmt.Fprintln(os.Stderr, "150ms later: pending", len(sn.Pending), "started", len(sn.Started), "queue", sn.PublishQueue, "seen", sn.Seen)
			case <-time.After(time.Second):
				fmt.Fprintln(os.Stderr, "150ms later: router mutex is held (snapshot blocked)")
			}
		}
		if os.Getenv("RELINK_DEBUG") == "2" && r == 0 {
			pprof.Lookup("goroutine").WriteTo(os.Stderr, 2)
		}
		stop.Store(true)
		cancel()
		wg.Wait()
		rp2.close()
		if os.Getenv("RELINK_DEBUG") != "" {
			fmt.Fprintln(os.Stderr, "round", r, "stale", stale, "crashed", crashed.Load())
		}
		if c := crashed.Load(); c != nil {
			mu.Lock()
			out = append(out, fmt.Sprintf("round %d: stale peerChannels entries of the dead tuple: %d; Execute panicked: %s", r, stale, c.(string)))
			mu.Unlock()
		}
	})
	return out
}
