package main

import (
	"context"
	"fmt"
	"runtime"
	"sort"
	"sync"
	"sync/atomic"
	"time"
)

// gapRace hammers AddSubscription/Release while new peer streams join, looking
// for a channel that was announced to a new stream by the initial set only and
// released between the two lock regions of the Execute loop body. Oracle only.
func gapRace(keys []keyInfo, rounds int, spin time.Duration) []string {
	var bad []string
	var badMu sync.Mutex
	parallel(rounds, 4, func(r int) {
		ctx, cancel := context.WithCancel(context.Background())
		defer cancel()
		fs := newFloodSub(ctx)
		defer fs.Close()
		go func() { _ = fs.Execute(ctx) }()
		var stop atomic.Bool
		var wg sync.WaitGroup
		for g := 0; g < 6; g++ {
			wg.Add(1)
			g := g
			go func() {
				defer wg.Done()
				for i := 0; !stop.Load(); i++ {
					sub, err := fs.AddSubscription(ctx, keys[4].priv, fmt.Sprintf("g%d-%d-%d", r, g, i))
					if err != nil {
						return
					}
					if i%3 == 0 {
						runtime.Gosched()
					}
					sub.Release()
				}
			}()
		}
		var peers []*rawPeer
		end := time.Now().Add(spin)
		for k := 0; time.Now().Before(end); k++ {
			peers = append(peers, attachRaw(fs, keys[k%4], uint64(100+k)))
			time.Sleep(35 * time.Millisecond)
		}
		stop.Store(true)
		wg.Wait()
		t0 := time.Now()
		waitFor(4*time.Second, 10*time.Millisecond, func() bool {
			if time.Since(t0) < 450*time.Millisecond {
				return false
			}
			s := fs.VerifSnapshot()
			if s.IncSessions != 0 || len(s.Pending) != 0 || len(s.Channels) != 0 {
				return false
			}
			for _, p := range peers {
				if _, t := p.snapshot(); time.Since(t) < 200*time.Millisecond {
					return false
				}
			}
			return true
		})
		for i, p := range peers {
			var stale []string
			for ch, on := range p.told() {
				if on {
					stale = append(stale, ch)
				}
			}
			sort.Strings(stale)
			if len(stale) > 0 {
				pk, _ := p.snapshot()
				first := ""
				if len(pk) > 0 {
					first = fmt.Sprint(pk[0].GetSubscriptions())
				}
				badMu.Lock()
				bad = append(bad, fmt.Sprintf("round %d stream %d: Subscribe=true never retracted for %v although every subscription was released (first packet: %s)", r, i, stale, first))
				badMu.Unlock()
			}
			p.close()
		}
	})
	return bad
}
