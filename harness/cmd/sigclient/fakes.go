// Fakes used to drive the real signaling client (and the real relay server)
// in-process: an unbounded FIFO, a scripted relay behind a fake
// SRPCSignalingClient, and an adapter that wires real Clients to a real
// signaling_rpc_server.Server through paired fake streams.
package main

import (
	"context"
	"errors"
	"io"
	"sync"
	"time"

	"github.com/aperturerobotics/bifrost/peer"
	signaling_rpc "github.com/aperturerobotics/bifrost/signaling/rpc"
	sigsrv "github.com/aperturerobotics/bifrost/signaling/rpc/server"
	"github.com/aperturerobotics/starpc/srpc"
	"github.com/sirupsen/logrus"
)

var errStreamFailed = errors.New("verif: stream failed")

// ---------------------------------------------------------------- fifo

// fifo is an unbounded FIFO queue with a failure state.
type fifo[T any] struct {
	mu     sync.Mutex
	items  []T
	err    error
	notify chan struct{}
}

func newFifo[T any]() *fifo[T] { return &fifo[T]{notify: make(chan struct{})} }

func (q *fifo[T]) wake() {
	close(q.notify)
	q.notify = make(chan struct{})
}

// push appends v; returns false when the queue has failed.
func (q *fifo[T]) push(v T) bool {
	q.mu.Lock()
	defer q.mu.Unlock()
	if q.err != nil {
		return false
	}
	q.items = append(q.items, v)
	q.wake()
	return true
}

// fail makes every pending and later pop return err (queued items are lost).
func (q *fifo[T]) fail(err error) {
	q.mu.Lock()
	defer q.mu.Unlock()
	if q.err == nil {
		q.err = err
		q.items = nil
		q.wake()
	}
}

func (q *fifo[T]) size() int {
	q.mu.Lock()
	defer q.mu.Unlock()
	return len(q.items)
}

// pop blocks until an item is available, the queue failed or ctx is done.
func (q *fifo[T]) pop(ctx context.Context) (T, error) {
	var zero T
	for {
		q.mu.Lock()
		if q.err != nil {
			err := q.err
			q.mu.Unlock()
			return zero, err
		}
		if len(q.items) > 0 {
			v := q.items[0]
			q.items = q.items[1:]
			q.mu.Unlock()
			return v, nil
		}
		ch := q.notify
		q.mu.Unlock()
		select {
		case <-ctx.Done():
			return zero, context.Canceled
		case <-ch:
		}
	}
}

// ---------------------------------------------------------------- scripted relay

// scriptStream is the client side of a Session RPC whose responses are
// scripted by the harness and whose requests are recorded.
type scriptStream struct {
	id     int
	ctx    context.Context
	cancel context.CancelFunc
	in     *fifo[[]byte] // marshalled SessionResponse messages, as on the wire

	mu     sync.Mutex
	reqs   []*signaling_rpc.SessionRequest
	closed bool
	taken  int           // responses handed to the client by Recv
	hold   bool          // Send blocks (after recording the request) while set: relay back pressure
	holdCh chan struct{} // closed when hold is released
}

// pushResp puts a response on the wire.
func (s *scriptStream) pushResp(r *signaling_rpc.SessionResponse) {
	b, err := r.MarshalVT()
	if err != nil {
		panic(err)
	}
	s.in.push(b)
}

func (s *scriptStream) setHold(h bool) {
	s.mu.Lock()
	defer s.mu.Unlock()
	if h == s.hold {
		return
	}
	s.hold = h
	if h {
		s.holdCh = make(chan struct{})
	} else {
		close(s.holdCh)
	}
}

// recvBytes takes the next wire message.
func (s *scriptStream) recvBytes() ([]byte, error) {
	b, err := s.in.pop(s.ctx)
	if err != nil {
		return nil, err
	}
	s.mu.Lock()
	s.taken++
	s.mu.Unlock()
	return b, nil
}

func (s *scriptStream) Context() context.Context { return s.ctx }
func (s *scriptStream) MsgSend(m srpc.Message) error {
	r, ok := m.(*signaling_rpc.SessionRequest)
	if !ok {
		return errors.New("verif: unexpected message type")
	}
	return s.Send(r)
}

// MsgRecv decodes the next wire message INTO m, like srpc.MsgStream.MsgRecv:
// UnmarshalVT without a reset (merge semantics).
func (s *scriptStream) MsgRecv(m srpc.Message) error {
	b, err := s.recvBytes()
	if err != nil {
		return err
	}
	return m.UnmarshalVT(b)
}
func (s *scriptStream) CloseSend() error { return nil }
func (s *scriptStream) Close() error {
	s.mu.Lock()
	s.closed = true
	s.mu.Unlock()
	s.cancel()
	s.in.fail(io.EOF)
	return nil
}

func (s *scriptStream) Send(r *signaling_rpc.SessionRequest) error {
	b, err := r.MarshalVT()
	if err != nil {
		return err
	}
	c := &signaling_rpc.SessionRequest{}
	if err := c.UnmarshalVT(b); err != nil {
		return err
	}
	s.mu.Lock()
	if s.closed {
		s.mu.Unlock()
		return io.ErrClosedPipe
	}
	s.reqs = append(s.reqs, c)
	s.mu.Unlock()
	// back pressure: the write does not return while the relay holds the stream
	for {
		s.mu.Lock()
		if !s.hold {
			s.mu.Unlock()
			return nil
		}
		ch := s.holdCh
		s.mu.Unlock()
		select {
		case <-s.ctx.Done():
			return context.Canceled
		case <-ch:
		}
	}
}

func (s *scriptStream) Recv() (*signaling_rpc.SessionResponse, error) {
	m := &signaling_rpc.SessionResponse{}
	if err := s.MsgRecv(m); err != nil {
		return nil, err
	}
	return m, nil
}

func (s *scriptStream) RecvTo(m *signaling_rpc.SessionResponse) error { return s.MsgRecv(m) }

func (s *scriptStream) isClosed() bool {
	s.mu.Lock()
	defer s.mu.Unlock()
	return s.closed
}

func (s *scriptStream) requests() []*signaling_rpc.SessionRequest {
	s.mu.Lock()
	defer s.mu.Unlock()
	return append([]*signaling_rpc.SessionRequest(nil), s.reqs...)
}

func (s *scriptStream) takenCount() int {
	s.mu.Lock()
	defer s.mu.Unlock()
	return s.taken
}

// scriptClient is a fake SRPCSignalingClient: every Session call yields a new
// scriptStream.
type scriptClient struct {
	mu      sync.Mutex
	streams []*scriptStream
}

func (c *scriptClient) SRPCClient() srpc.Client { return nil }
func (c *scriptClient) Listen(ctx context.Context, in *signaling_rpc.ListenRequest) (signaling_rpc.SRPCSignaling_ListenClient, error) {
	return nil, errors.New("verif: Listen unused")
}

func (c *scriptClient) Session(ctx context.Context) (signaling_rpc.SRPCSignaling_SessionClient, error) {
	c.mu.Lock()
	defer c.mu.Unlock()
	sctx, cancel := context.WithCancel(ctx)
	s := &scriptStream{id: len(c.streams), ctx: sctx, cancel: cancel, in: newFifo[[]byte]()}
	c.streams = append(c.streams, s)
	return s, nil
}

func (c *scriptClient) count() int {
	c.mu.Lock()
	defer c.mu.Unlock()
	return len(c.streams)
}

func (c *scriptClient) stream(i int) *scriptStream {
	c.mu.Lock()
	defer c.mu.Unlock()
	if i < 0 || i >= len(c.streams) {
		return nil
	}
	return c.streams[i]
}

func (c *scriptClient) last() *scriptStream {
	c.mu.Lock()
	defer c.mu.Unlock()
	if len(c.streams) == 0 {
		return nil
	}
	return c.streams[len(c.streams)-1]
}

// ---------------------------------------------------------------- real relay adapter

type pidKey struct{}

// relayNet wires clients to one real relay server.
type relayNet struct {
	srv *sigsrv.Server
}

func newRelayNet(le *logrus.Entry) *relayNet {
	return &relayNet{srv: sigsrv.NewServerWithIdentify(le, func(ctx context.Context) (peer.ID, error) {
		pid, ok := ctx.Value(pidKey{}).(peer.ID)
		if !ok {
			return "", errors.New("verif: no identity")
		}
		return pid, nil
	})}
}

// relayConn is one Session RPC between a client and the real relay.
type relayConn struct {
	owner  *relayClient
	id     int
	ctx    context.Context
	cancel context.CancelFunc
	c2r    *fifo[[]byte] // marshalled SessionRequest
	r2c    *fifo[[]byte] // marshalled SessionResponse

	mu       sync.Mutex
	holdResp bool          // relay-side Send blocks while set (back pressure)
	holdCh   chan struct{} // closed when holdResp is released
	resps    []*signaling_rpc.SessionResponse
	reqs     []*signaling_rpc.SessionRequest
	holdReq  bool     // requests written by the client are delayed on the uplink
	heldReqs [][]byte // the delayed requests, in order
	done     bool
	srvErr   error
}

// client side
type relayCliStream struct{ c *relayConn }

func (s relayCliStream) Context() context.Context { return s.c.ctx }
func (s relayCliStream) MsgSend(m srpc.Message) error {
	r, ok := m.(*signaling_rpc.SessionRequest)
	if !ok {
		return errors.New("verif: unexpected message type")
	}
	return s.Send(r)
}
func (s relayCliStream) MsgRecv(m srpc.Message) error {
	b, err := s.c.r2c.pop(s.c.ctx)
	if err != nil {
		return err
	}
	return m.UnmarshalVT(b)
}
func (s relayCliStream) CloseSend() error { return nil }
func (s relayCliStream) Close() error {
	s.c.owner.mu.Lock()
	linger := s.c.owner.linger
	s.c.owner.mu.Unlock()
	if linger {
		// only the client side goes away
		s.c.r2c.fail(io.EOF)
		return nil
	}
	s.c.failConn(io.EOF)
	return nil
}
func (s relayCliStream) Send(r *signaling_rpc.SessionRequest) error {
	c := s.c
	r = r.CloneVT()
	c.mu.Lock()
	c.reqs = append(c.reqs, r)
	c.mu.Unlock()
	if f := c.owner.dropReq; f != nil && f(r) {
		return nil
	}
	b, err := r.MarshalVT()
	if err != nil {
		return err
	}
	c.mu.Lock()
	if c.holdReq {
		// in flight on the uplink: the write has returned, the relay has not read it yet
		c.heldReqs = append(c.heldReqs, b)
		c.mu.Unlock()
		return nil
	}
	c.mu.Unlock()
	if !c.c2r.push(b) {
		return io.ErrClosedPipe
	}
	return nil
}
func (s relayCliStream) Recv() (*signaling_rpc.SessionResponse, error) {
	m := &signaling_rpc.SessionResponse{}
	if err := s.MsgRecv(m); err != nil {
		return nil, err
	}
	return m, nil
}
func (s relayCliStream) RecvTo(m *signaling_rpc.SessionResponse) error { return s.MsgRecv(m) }

// relay side
type relaySrvStream struct{ c *relayConn }

func (s relaySrvStream) Context() context.Context { return s.c.ctx }
func (s relaySrvStream) MsgSend(m srpc.Message) error {
	r, ok := m.(*signaling_rpc.SessionResponse)
	if !ok {
		return errors.New("verif: unexpected message type")
	}
	return s.Send(r)
}
func (s relaySrvStream) MsgRecv(m srpc.Message) error {
	b, err := s.c.c2r.pop(s.c.ctx)
	if err != nil {
		return err
	}
	return m.UnmarshalVT(b)
}
func (s relaySrvStream) CloseSend() error { return nil }
func (s relaySrvStream) Close() error     { s.c.failConn(io.EOF); return nil }
func (s relaySrvStream) Send(r *signaling_rpc.SessionResponse) error {
	c := s.c
	for {
		c.mu.Lock()
		if !c.holdResp {
			c.mu.Unlock()
			break
		}
		ch := c.holdCh
		c.mu.Unlock()
		select {
		case <-c.ctx.Done():
			return context.Canceled
		case <-ch:
		}
	}
	r = r.CloneVT()
	c.mu.Lock()
	c.resps = append(c.resps, r)
	c.mu.Unlock()
	if f := c.owner.dropResp; f != nil && f(r) {
		return nil
	}
	b, err := r.MarshalVT()
	if err != nil {
		return err
	}
	if !c.r2c.push(b) {
		return io.ErrClosedPipe
	}
	return nil
}
func (s relaySrvStream) SendAndClose(r *signaling_rpc.SessionResponse) error { return s.Send(r) }
func (s relaySrvStream) Recv() (*signaling_rpc.SessionRequest, error) {
	m := &signaling_rpc.SessionRequest{}
	if err := s.MsgRecv(m); err != nil {
		return nil, err
	}
	return m, nil
}
func (s relaySrvStream) RecvTo(m *signaling_rpc.SessionRequest) error { return s.MsgRecv(m) }

// failConn breaks the connection in both directions.
func (c *relayConn) failConn(err error) {
	c.cancel()
	c.c2r.fail(err)
	c.r2c.fail(err)
}

func (c *relayConn) setHold(h bool) {
	c.mu.Lock()
	defer c.mu.Unlock()
	if h == c.holdResp {
		return
	}
	c.holdResp = h
	if h {
		c.holdCh = make(chan struct{})
	} else {
		close(c.holdCh)
	}
}

// setHoldReq delays (true) or delivers (false) the requests on the client->relay direction.
func (c *relayConn) setHoldReq(h bool) {
	c.mu.Lock()
	c.holdReq = h
	var flush [][]byte
	if !h {
		flush, c.heldReqs = c.heldReqs, nil
	}
	c.mu.Unlock()
	for _, b := range flush {
		c.c2r.push(b)
	}
}

func (c *relayConn) heldCount() int {
	c.mu.Lock()
	defer c.mu.Unlock()
	return len(c.heldReqs)
}

func (c *relayConn) responses() []*signaling_rpc.SessionResponse {
	c.mu.Lock()
	defer c.mu.Unlock()
	return append([]*signaling_rpc.SessionResponse(nil), c.resps...)
}

func (c *relayConn) isDone() bool {
	c.mu.Lock()
	defer c.mu.Unlock()
	return c.done
}

// relayClient is the SRPCSignalingClient of one peer on a relayNet.
type relayClient struct {
	net *relayNet
	pid peer.ID

	mu     sync.Mutex
	conns  []*relayConn
	refuse bool // Session() fails while set (peer stays detached)
	linger bool // a stream closed by the client stays registered at the relay (the relay has not noticed yet)

	dropReq  func(*signaling_rpc.SessionRequest) bool
	dropResp func(*signaling_rpc.SessionResponse) bool
}

func (n *relayNet) client(pid peer.ID) *relayClient { return &relayClient{net: n, pid: pid} }

func (c *relayClient) SRPCClient() srpc.Client { return nil }
func (c *relayClient) Listen(ctx context.Context, in *signaling_rpc.ListenRequest) (signaling_rpc.SRPCSignaling_ListenClient, error) {
	return nil, errors.New("verif: Listen unused")
}

func (c *relayClient) Session(ctx context.Context) (signaling_rpc.SRPCSignaling_SessionClient, error) {
	c.mu.Lock()
	if c.refuse {
		c.mu.Unlock()
		return nil, errStreamFailed
	}
	base := ctx
	if c.linger {
		// the relay side of the stream outlives the client side
		base = context.Background()
	}
	cctx, cancel := context.WithCancel(context.WithValue(base, pidKey{}, c.pid))
	conn := &relayConn{owner: c, id: len(c.conns), ctx: cctx, cancel: cancel,
		c2r: newFifo[[]byte](), r2c: newFifo[[]byte]()}
	c.conns = append(c.conns, conn)
	c.mu.Unlock()
	go func() {
		err := c.net.srv.Session(relaySrvStream{conn})
		if err == nil {
			err = io.EOF
		}
		conn.mu.Lock()
		conn.done, conn.srvErr = true, err
		conn.mu.Unlock()
		conn.failConn(err)
	}()
	return relayCliStream{conn}, nil
}

func (c *relayClient) setLinger(l bool) {
	c.mu.Lock()
	c.linger = l
	c.mu.Unlock()
}

// killAll breaks every connection of this peer (both directions).
func (c *relayClient) killAll() {
	c.mu.Lock()
	conns := append([]*relayConn(nil), c.conns...)
	c.mu.Unlock()
	for _, cn := range conns {
		cn.setHold(false)
		cn.failConn(errStreamFailed)
	}
}

func (c *relayClient) setRefuse(r bool) {
	c.mu.Lock()
	c.refuse = r
	c.mu.Unlock()
}

func (c *relayClient) count() int {
	c.mu.Lock()
	defer c.mu.Unlock()
	return len(c.conns)
}

func (c *relayClient) last() *relayConn {
	c.mu.Lock()
	defer c.mu.Unlock()
	if len(c.conns) == 0 {
		return nil
	}
	return c.conns[len(c.conns)-1]
}

// ---------------------------------------------------------------- helpers

// waitUntil polls cond until it holds or the timeout expires.
func waitUntil(timeout time.Duration, cond func() bool) bool {
	deadline := time.Now().Add(timeout)
	for {
		if cond() {
			return true
		}
		if time.Now().After(deadline) {
			return false
		}
		time.Sleep(200 * time.Microsecond)
	}
}
