// Sequential scripts against the real client behind a scripted relay.
//
// The Client's context is never set, so the keyed routine does not run; the
// harness runs clientPeerTracker.execute itself (verif hook VerifExecute), one
// instance at a time.  The whole phase runs with GOMAXPROCS(1): the driver
// yields with runtime.Gosched until every other goroutine has blocked, which
// makes "run to quiescence" exact and independent of wall-clock time.
package main

import (
	"bytes"
	"context"
	"crypto/ed25519"
	"crypto/sha1"
	"crypto/sha256"
	"errors"
	"fmt"
	"os"
	"path/filepath"
	"regexp"
	"runtime"
	"strconv"
	"strings"
	"sync"

	"github.com/aperturerobotics/bifrost/crypto"
	"github.com/zeebo/blake3"

	"github.com/aperturerobotics/bifrost/hash"
	"github.com/aperturerobotics/bifrost/peer"
	signaling_rpc "github.com/aperturerobotics/bifrost/signaling/rpc"
	sigcli "github.com/aperturerobotics/bifrost/signaling/rpc/client"
	"verifharness/internal/hx"
)

const (
	eVerify       = 1
	ePeer         = 2
	eStream       = 3
	eUnrecognized = 4
	eCtx          = 5
	eOther        = 9
)

// symbolic message table: signed part (marshalled) -> Coq term pieces
type symSigned struct {
	from, data, sig string // Coq terms
	ht, att         string // hash type and attached public key (Coq terms)
	class           string
	honest          bool // signed by A under the signaling context over this body, claiming A
}

var derivedVariants = []string{"changed-body", "changed-body", "changed-ht", "att-third", "att-garbage", "changed-seq", "replay"}

// derive builds a variant of an earlier (honest) message that keeps some
// fields of that same message and changes others: the stateful adversary.
func (t *symtab) derive(orig *signaling_rpc.SessionMsg, variant string, k int) *signaling_rpc.SessionMsg {
	s0 := t.lookup(orig)
	if s0 == nil {
		panic("derive: unknown message")
	}
	m := orig.CloneVT()
	s := *s0
	switch variant {
	case "changed-body":
		// same signature, sender and sequence number, another body
		d := append([]byte{}, m.SignedMsg.Data...)
		if k%3 == 0 {
			d = append(d, byte(97+k%4))
		} else {
			d[k%len(d)] ^= 1 << uint(k%7)
		}
		m.SignedMsg.Data = d
		s.data = hx.Bytes(d)
		s.honest = false
	case "changed-ht":
		if m.SignedMsg.Signature.HashType == hash.HashType_HashType_BLAKE3 {
			m.SignedMsg.Signature.HashType = hash.HashType_HashType_SHA256
		} else {
			m.SignedMsg.Signature.HashType = hash.HashType_HashType_BLAKE3
		}
		s.ht = hx.U(uint64(m.SignedMsg.Signature.HashType))
		s.honest = false
	case "att-third":
		pk, err := crypto.MarshalPublicKey(t.ids[2].priv.GetPublic())
		if err != nil {
			panic(err)
		}
		m.SignedMsg.Signature.PubKey = pk
		s.att = hx.App("AttKey", hx.Nat(2))
	case "att-garbage":
		m.SignedMsg.Signature.PubKey = []byte{0xfe, byte(k), 0x01}
		s.att = "AttBad"
		s.honest = false
	case "changed-seq":
		m.Seqno = m.Seqno + 1 + uint64(k%3)
	case "replay":
	default:
		panic("unknown variant " + variant)
	}
	s.class = s0.class + "~" + variant
	t.add(m, &s)
	return m
}

type symtab struct {
	ids []*identity
	tab map[string]*symSigned
}

func signedKey(m *peer.SignedMsg) string {
	b, err := m.MarshalVT()
	if err != nil {
		panic(err)
	}
	return string(b)
}

func (t *symtab) add(m *signaling_rpc.SessionMsg, s *symSigned) {
	t.tab[signedKey(m.GetSignedMsg())] = s
}

// term renders a SessionMsg as a Coq smsg term.
func (t *symtab) term(m *signaling_rpc.SessionMsg) string {
	if s, ok := t.tab[signedKey(m.GetSignedMsg())]; ok {
		return hx.App("mkMsg", s.from, s.data, s.sig, hx.U(m.GetSeqno()), s.ht, s.att)
	}
	// not crafted by the harness: a message produced by the client itself
	// (checked with the primitives, not with the code under test).
	for _, k := range t.ids {
		if m.GetSignedMsg().GetFromPeerId() == k.str && len(m.GetSignedMsg().GetSignature().GetPubKey()) == 0 &&
			cryptoAuthentic(m, k) {
			d := hx.Bytes(m.GetSignedMsg().GetData())
			ht := hx.U(uint64(m.GetSignedMsg().GetSignature().GetHashType()))
			return hx.App("mkMsg", hx.App("FromKey", hx.Nat(k.idx)), d,
				hx.App("SigOf", hx.Nat(k.idx), "sig_ctx", ht, d), hx.U(m.GetSeqno()), ht, "AttNone")
		}
	}
	return hx.App("mkMsg", "FromBad", hx.Bytes(m.GetSignedMsg().GetData()), "SigJunk", hx.U(m.GetSeqno()), "0", "AttNone")
}

func (t *symtab) lookup(m *signaling_rpc.SessionMsg) *symSigned {
	return t.tab[signedKey(m.GetSignedMsg())]
}

func (t *symtab) optTerm(m *signaling_rpc.SessionMsg) string {
	if m == nil {
		return "None"
	}
	return "(Some " + t.term(m) + ")"
}

// encoding is how the signature object is put on the wire: the optional
// attached public key and extra unknown protobuf fields.
type encoding struct {
	att   string // "" | "third" | "a" | "self" | "garbage"
	extra bool   // unknown fields appended to Signature and SignedMsg
}

var attChoices = []string{"", "", "third", "a", "self", "garbage"}

// craft builds a relay-side message of the given class claiming (mostly) to
// come from A = ids[1]; the local peer is ids[0], the third party ids[2].
func (t *symtab) craft(class string, body []byte, seq uint64, flipAt int, enc encoding) *signaling_rpc.SessionMsg {
	self, A, third := t.ids[0], t.ids[1], t.ids[2]
	b3, s256 := hash.HashType_HashType_BLAKE3, hash.HashType_HashType_SHA256
	mkH := func(id *identity, ht hash.HashType) *signaling_rpc.SessionMsg {
		m, err := signaling_rpc.NewSessionMsg(id.priv, ht, body, seq)
		if err != nil {
			panic(err)
		}
		return m
	}
	mk := func(id *identity) *signaling_rpc.SessionMsg { return mkH(id, b3) }
	fromK := func(id *identity) string { return hx.App("FromKey", hx.Nat(id.idx)) }
	sigOfH := func(id *identity, ctx string, ht hash.HashType, b []byte) string {
		return hx.App("SigOf", hx.Nat(id.idx), ctx, hx.U(uint64(ht)), hx.Bytes(b))
	}
	sigOf := func(id *identity, ctx string, b []byte) string { return sigOfH(id, ctx, b3, b) }
	var m *signaling_rpc.SessionMsg
	var s *symSigned
	switch class {
	case "honest", "honest-seq0":
		m = mk(A)
		s = &symSigned{from: fromK(A), data: hx.Bytes(body), sig: sigOf(A, "sig_ctx", body), honest: true}
	case "honest-sha256":
		// a genuine signature of A over the SHA-256 sign body
		m = mkH(A, s256)
		s = &symSigned{from: fromK(A), data: hx.Bytes(body), sig: sigOfH(A, "sig_ctx", s256, body), honest: true}
	case "ht-changed":
		// A's BLAKE3 signature relabelled as SHA-256
		m = mk(A)
		m.SignedMsg.Signature.HashType = s256
		s = &symSigned{from: fromK(A), data: hx.Bytes(body), sig: sigOf(A, "sig_ctx", body)}
	case "ht-unknown":
		m = mk(A)
		m.SignedMsg.Signature.HashType = hash.HashType(7 + flipAt%50)
		s = &symSigned{from: fromK(A), data: hx.Bytes(body), sig: sigOf(A, "sig_ctx", body)}
	case "ht-zero":
		m = mk(A)
		m.SignedMsg.Signature.HashType = hash.HashType_HashType_UNKNOWN
		s = &symSigned{from: fromK(A), data: hx.Bytes(body), sig: sigOf(A, "sig_ctx", body)}
	case "flip-body":
		m = mk(A)
		d := append([]byte{}, body...)
		d[flipAt%len(d)] ^= 1 << uint(flipAt%8)
		m.SignedMsg.Data = d
		s = &symSigned{from: fromK(A), data: hx.Bytes(d), sig: sigOf(A, "sig_ctx", body)}
	case "flip-sig":
		m = mk(A)
		sd := append([]byte{}, m.SignedMsg.Signature.SigData...)
		sd[flipAt%len(sd)] ^= 1 << uint(flipAt%8)
		m.SignedMsg.Signature.SigData = sd
		s = &symSigned{from: fromK(A), data: hx.Bytes(body), sig: "SigJunk"}
	case "third-claims-a":
		m = mk(third)
		m.SignedMsg.FromPeerId = A.str
		s = &symSigned{from: fromK(A), data: hx.Bytes(body), sig: sigOf(third, "sig_ctx", body)}
	case "third-claims-a-sha256":
		m = mkH(third, s256)
		m.SignedMsg.FromPeerId = A.str
		s = &symSigned{from: fromK(A), data: hx.Bytes(body), sig: sigOfH(third, "sig_ctx", s256, body)}
	case "self-claims-a":
		// the local peer's own signature re-attributed to A
		m = mk(self)
		m.SignedMsg.FromPeerId = A.str
		s = &symSigned{from: fromK(A), data: hx.Bytes(body), sig: sigOf(self, "sig_ctx", body)}
	case "third-own":
		m = mk(third)
		s = &symSigned{from: fromK(third), data: hx.Bytes(body), sig: sigOf(third, "sig_ctx", body)}
	case "reflect-self":
		m = mk(self)
		s = &symSigned{from: fromK(self), data: hx.Bytes(body), sig: sigOf(self, "sig_ctx", body)}
	case "other-context":
		octx := "bifrost/verif other context"
		sm, err := peer.NewSignedMsg(octx, A.priv, b3, body)
		if err != nil {
			panic(err)
		}
		m = &signaling_rpc.SessionMsg{SignedMsg: sm, Seqno: seq}
		s = &symSigned{from: fromK(A), data: hx.Bytes(body), sig: sigOf(A, hx.Str(octx), body)}
	case "third-other-context-claims-a":
		octx := "bifrost/verif other context"
		sm, err := peer.NewSignedMsg(octx, third.priv, b3, body)
		if err != nil {
			panic(err)
		}
		sm.FromPeerId = A.str
		m = &signaling_rpc.SessionMsg{SignedMsg: sm, Seqno: seq}
		s = &symSigned{from: fromK(A), data: hx.Bytes(body), sig: sigOf(third, hx.Str(octx), body)}
	case "transplant":
		// signature of another honest message of A on this body
		other := append([]byte("x"), body...)
		mo, err := signaling_rpc.NewSessionMsg(A.priv, b3, other, seq)
		if err != nil {
			panic(err)
		}
		m = mk(A)
		m.SignedMsg.Signature = mo.SignedMsg.Signature
		s = &symSigned{from: fromK(A), data: hx.Bytes(body), sig: sigOf(A, "sig_ctx", other)}
	case "empty-body":
		m = mk(A)
		m.SignedMsg.Data = nil
		s = &symSigned{from: fromK(A), data: "[]", sig: sigOf(A, "sig_ctx", body)}
	case "empty-from":
		m = mk(A)
		m.SignedMsg.FromPeerId = ""
		s = &symSigned{from: "FromBad", data: hx.Bytes(body), sig: sigOf(A, "sig_ctx", body)}
	default:
		panic("unknown class " + class)
	}
	s.ht = hx.U(uint64(m.SignedMsg.Signature.HashType))
	// the encoding of the signature object
	s.att = "AttNone"
	attach := func(id *identity) {
		pk, err := crypto.MarshalPublicKey(id.priv.GetPublic())
		if err != nil {
			panic(err)
		}
		m.SignedMsg.Signature.PubKey = pk
		s.att = hx.App("AttKey", hx.Nat(id.idx))
	}
	switch enc.att {
	case "third":
		attach(third)
	case "a":
		attach(A)
	case "self":
		attach(self)
	case "garbage":
		m.SignedMsg.Signature.PubKey = []byte{0xff, 0x01, byte(flipAt), 0x7f, 0x00, 0x13}
		s.att = "AttBad"
		s.honest = false
	}
	if enc.extra {
		m.SignedMsg.Signature = withUnknownField(m.SignedMsg.Signature, &peer.Signature{}, 14, uint64(flipAt))
		m.SignedMsg = withUnknownField(m.SignedMsg, &peer.SignedMsg{}, 15, uint64(flipAt)+1)
	}
	s.class = class
	if enc.att != "" {
		s.class += "+pubkey-" + enc.att
	}
	if enc.extra {
		s.class += "+unknown-fields"
	}
	t.add(m, s)
	return m
}

type vtMsg interface {
	MarshalVT() ([]byte, error)
	UnmarshalVT([]byte) error
}

// withUnknownField re-parses m with an extra varint field appended on the wire.
func withUnknownField[T vtMsg](m T, fresh T, field int, v uint64) T {
	b, err := m.MarshalVT()
	if err != nil {
		panic(err)
	}
	b = append(b, byte(field<<3), byte(v&0x7f))
	if err := fresh.UnmarshalVT(b); err != nil {
		panic(err)
	}
	return fresh
}

// encContext of the signaling messages, read from the source under test (the
// constant is unexported); used only by the independent oracle.
var encContextOnce struct {
	sync.Once
	v string
}

func signalingContext() string {
	encContextOnce.Do(func() {
		repo := os.Getenv("VERIF_REPO")
		if repo == "" {
			repo = "/repo"
		}
		src, err := os.ReadFile(filepath.Join(repo, "signaling/rpc/signaling.go"))
		if err != nil {
			panic(err)
		}
		mm := regexp.MustCompile(`const encContext = "([^"]*)"`).FindSubmatch(src)
		if mm == nil {
			panic("encContext not found")
		}
		encContextOnce.v = string(mm[1])
	})
	return encContextOnce.v
}

// cryptoAuthentic is the independent check of the property: the message's
// signature verifies under the Ed25519 key of identity id (NOT a key taken
// from the message) over context, hash type and hash of exactly its body.
// Uses crypto/ed25519 and the hash primitives directly.
func cryptoAuthentic(m *signaling_rpc.SessionMsg, id *identity) bool {
	sm := m.GetSignedMsg()
	if len(sm.GetData()) == 0 {
		return false
	}
	ht := sm.GetSignature().GetHashType()
	var h []byte
	switch ht {
	case hash.HashType_HashType_BLAKE3:
		x := blake3.Sum256(sm.GetData())
		h = x[:]
	case hash.HashType_HashType_SHA256:
		x := sha256.Sum256(sm.GetData())
		h = x[:]
	case hash.HashType_HashType_SHA1:
		x := sha1.Sum(sm.GetData())
		h = x[:]
	default:
		return false
	}
	body := bytes.Join([][]byte{[]byte(signalingContext()), []byte(strconv.Itoa(int(ht))), h}, []byte(" - SIGN - "))
	raw, err := id.priv.GetPublic().Raw()
	if err != nil || len(raw) != ed25519.PublicKeySize {
		return false
	}
	return ed25519.Verify(ed25519.PublicKey(raw), body, sm.GetSignature().GetSigData())
}

var badClasses = []string{"flip-body", "flip-sig", "third-claims-a", "third-claims-a", "third-claims-a-sha256",
	"self-claims-a", "third-own", "reflect-self", "other-context", "third-other-context-claims-a", "transplant",
	"empty-body", "empty-from", "ht-changed", "ht-unknown", "ht-zero"}

// ------------------------------------------------------------------ script ops

type sop struct {
	kind  string // conn resp abort send cancelsend recv cancelrecv
	resp  *signaling_rpc.SessionResponse
	fail  bool                           // resp: the stream fails instead
	extra *signaling_rpc.SessionResponse // resp: a second response queued before the client runs
	body  []byte
	idx   int
	note  string
}

func (o *sop) coq(t *symtab) string {
	switch o.kind {
	case "conn":
		return "OpConn"
	case "abort":
		return "OpAbort"
	case "send":
		return hx.App("OpSend", hx.Bytes(o.body))
	case "cancelsend":
		return hx.App("OpCancelSend", hx.Nat(o.idx))
	case "recv":
		return "OpRecv"
	case "cancelrecv":
		return hx.App("OpCancelRecv", hx.Nat(o.idx))
	case "recvc":
		return "OpRecvC"
	case "sendc":
		return hx.App("OpSendC", hx.Bytes(o.body))
	case "hold":
		return "OpHold"
	case "release":
		return "OpRelease"
	case "resp":
		if o.fail {
			return "(OpResp PFail)"
		}
		if o.extra != nil {
			return hx.App("OpResp2", respTerm(t, o.resp), respTerm(t, o.extra))
		}
		return hx.App("OpResp", respTerm(t, o.resp))
	}
	panic("bad op " + o.kind)
}

func respTerm(t *symtab, r *signaling_rpc.SessionResponse) string {
	switch b := r.GetBody().(type) {
	case *signaling_rpc.SessionResponse_Opened:
		return hx.App("POpened", hx.U(b.Opened))
	case *signaling_rpc.SessionResponse_Closed:
		return hx.App("PClosed", hx.Bool(b.Closed))
	case *signaling_rpc.SessionResponse_RecvMsg:
		return hx.App("PRecv", t.optTerm(b.RecvMsg))
	case *signaling_rpc.SessionResponse_AckMsg:
		return hx.App("PAck", hx.U(b.AckMsg))
	case *signaling_rpc.SessionResponse_ClearMsg:
		return hx.App("PClear", hx.U(b.ClearMsg))
	default:
		return "PUnknown"
	}
}

func reqTerm(t *symtab, r *signaling_rpc.SessionRequest) string {
	switch b := r.GetBody().(type) {
	case *signaling_rpc.SessionRequest_Init:
		return "RInit"
	case *signaling_rpc.SessionRequest_SendMsg:
		return hx.App("RSend", hx.U(r.GetSessionSeqno()), t.term(b.SendMsg))
	case *signaling_rpc.SessionRequest_AckMsg:
		return hx.App("RAck", hx.U(r.GetSessionSeqno()), hx.U(b.AckMsg))
	case *signaling_rpc.SessionRequest_ClearMsg:
		return hx.App("RClear", hx.U(r.GetSessionSeqno()), hx.U(b.ClearMsg))
	}
	return "RInit"
}

func rOpened(n uint64) *signaling_rpc.SessionResponse {
	return &signaling_rpc.SessionResponse{Body: &signaling_rpc.SessionResponse_Opened{Opened: n}}
}
func rClosed(b bool) *signaling_rpc.SessionResponse {
	return &signaling_rpc.SessionResponse{Body: &signaling_rpc.SessionResponse_Closed{Closed: b}}
}
func rRecv(m *signaling_rpc.SessionMsg) *signaling_rpc.SessionResponse {
	return &signaling_rpc.SessionResponse{Body: &signaling_rpc.SessionResponse_RecvMsg{RecvMsg: m}}
}
func rAck(n uint64) *signaling_rpc.SessionResponse {
	return &signaling_rpc.SessionResponse{Body: &signaling_rpc.SessionResponse_AckMsg{AckMsg: n}}
}
func rClear(n uint64) *signaling_rpc.SessionResponse {
	return &signaling_rpc.SessionResponse{Body: &signaling_rpc.SessionResponse_ClearMsg{ClearMsg: n}}
}

// ------------------------------------------------------------------ runner

// execRun is one run of execute.
type execRun struct {
	cancel context.CancelFunc
	mu     sync.Mutex
	done   bool
	err    error
	stream *scriptStream
}

type scriptRunner struct {
	ids   []*identity
	tab   *symtab
	sc    *scriptClient
	cl    *sigcli.Client
	ref   *sigcli.ClientPeerRef
	ctx   context.Context
	stop  context.CancelFunc
	cur   *execRun
	sends []*call
	recvs []*call

	reqSeen    int // requests of the current stream already reported
	lastResp   *signaling_rpc.SessionResponse
	lastResp2  *signaling_rpc.SessionResponse // second response of a back-to-back pair
	endStreams []*scriptStream
	descOps    []string
	obsTerms   []string
	opTerms    []string
	lastEnds   []int
	lastUp     bool
	violations []string
}

func settleSched() {
	for i := 0; i < 300; i++ {
		runtime.Gosched()
	}
}

func newScriptRunner(ids []*identity) *scriptRunner {
	r := &scriptRunner{ids: ids, tab: &symtab{ids: ids, tab: map[string]*symSigned{}}, sc: &scriptClient{}}
	r.cl = newClient(quietLogger(), r.sc, ids[0])
	r.ctx, r.stop = context.WithCancel(context.Background())
	r.ref = r.cl.AddPeerRef(ids[1].str)
	return r
}

func (r *scriptRunner) close() {
	r.stop()
	settleSched()
	r.ref.Release()
}

// badResp: a RecvMsg whose message the implementation's own verification refuses, or an unknown body.
func badResp(r *signaling_rpc.SessionResponse) bool {
	switch b := r.GetBody().(type) {
	case *signaling_rpc.SessionResponse_RecvMsg:
		if b.RecvMsg == nil {
			return false
		}
		_, _, err := b.RecvMsg.ExtractAndVerify()
		return err != nil
	case nil:
		return true
	}
	return false
}

func classifyEnd(err error, last *signaling_rpc.SessionResponse) int {
	switch {
	case err == nil:
		return eOther
	case errors.Is(err, context.Canceled):
		return eCtx
	case errors.Is(err, errStreamFailed):
		return eStream
	}
	if last != nil {
		switch b := last.GetBody().(type) {
		case *signaling_rpc.SessionResponse_RecvMsg:
			if b.RecvMsg != nil {
				if _, _, verr := b.RecvMsg.ExtractAndVerify(); verr != nil {
					return eVerify
				}
				return ePeer
			}
		case nil:
			return eUnrecognized
		}
	}
	return eOther
}

// apply performs one script operation, runs to quiescence and records the observation.
func (r *scriptRunner) apply(o *sop) {
	if o.kind == "resp" && !o.fail {
		// the operation is what arrives on the wire (a nil RecvMsg, for instance, cannot be
		// expressed there: it arrives as an empty message)
		o.resp = wireForm(o.resp)
		if o.extra != nil {
			o.extra = wireForm(o.extra)
		}
	}
	switch o.kind {
	case "conn":
		if r.cur == nil {
			ectx, cancel := context.WithCancel(r.ctx)
			run := &execRun{cancel: cancel}
			n := r.sc.count()
			r.cur = run
			r.reqSeen = 0
			go func() {
				err := r.ref.VerifExecute(ectx)
				run.mu.Lock()
				run.done, run.err = true, err
				run.mu.Unlock()
			}()
			settleSched()
			if r.sc.count() > n {
				run.stream = r.sc.stream(n)
			}
		}
	case "abort":
		if r.cur != nil {
			r.cur.cancel()
		}
	case "resp":
		if r.cur != nil && r.cur.stream != nil {
			if o.fail {
				r.lastResp = nil
				r.cur.stream.in.fail(errStreamFailed)
			} else {
				r.lastResp = o.resp
				r.cur.stream.pushResp(o.resp)
				if o.extra != nil {
					r.cur.stream.pushResp(o.extra)
					r.lastResp2 = o.extra
				} else {
					r.lastResp2 = nil
				}
			}
		}
	case "send":
		r.sends = append(r.sends, startSend(r.ctx, r.ref, o.body, nil))
	case "cancelsend":
		if o.idx < len(r.sends) {
			r.sends[o.idx].cancel()
		}
	case "recv":
		r.recvs = append(r.recvs, startRecv(r.ctx, r.ref, nil))
	case "recvc":
		cctx, cancel := context.WithCancel(r.ctx)
		cancel()
		r.recvs = append(r.recvs, startRecv(cctx, r.ref, nil))
	case "sendc":
		cctx, cancel := context.WithCancel(r.ctx)
		cancel()
		r.sends = append(r.sends, startSend(cctx, r.ref, o.body, nil))
	case "hold":
		if r.cur != nil && r.cur.stream != nil {
			r.cur.stream.setHold(true)
		}
	case "release":
		if r.cur != nil && r.cur.stream != nil {
			r.cur.stream.setHold(false)
		}
	case "cancelrecv":
		if o.idx < len(r.recvs) {
			r.recvs[o.idx].cancel()
		}
	}
	settleSched()

	var reqs []string
	var ends []int
	if r.cur != nil {
		if r.cur.stream != nil {
			all := r.cur.stream.requests()
			for _, q := range all[r.reqSeen:] {
				reqs = append(reqs, reqTerm(r.tab, q))
			}
			r.reqSeen = len(all)
		}
		r.cur.mu.Lock()
		done, err := r.cur.done, r.cur.err
		r.cur.mu.Unlock()
		if done {
			last := r.lastResp
			if r.lastResp2 != nil && r.cur.stream != nil && badResp(r.lastResp2) && !badResp(r.lastResp) {
				last = r.lastResp2
			}
			ends = append(ends, classifyEnd(err, last))
			r.endStreams = append(r.endStreams, r.cur.stream)
			r.cur = nil
		}
	}
	up := r.cur != nil
	st := r.ref.VerifState()
	tk := hx.App("mkT", optU(st.Open), r.tab.optTerm(st.Out), hx.Bool(st.OutSent), hx.Bool(st.OutAcked),
		hx.Bool(st.OutCancel), r.tab.optTerm(st.Recv), hx.Bool(st.RecvProcessed))
	var sc, rc []string
	for _, c := range r.sends {
		done, ok, _ := c.result()
		code := 0
		switch {
		case done && ok:
			code = 1
		case done && errors.Is(c.err, context.Canceled):
			code = 2
		case done:
			code = 3
		}
		sc = append(sc, hx.Nat(code))
	}
	for _, c := range r.recvs {
		done, ok, m := c.result()
		switch {
		case done && ok:
			rc = append(rc, "(1%nat, "+r.tab.optTerm(m)+")")
		case done:
			rc = append(rc, "(2%nat, None)")
		default:
			rc = append(rc, "(0%nat, None)")
		}
	}
	endT := make([]string, len(ends))
	for i, e := range ends {
		endT[i] = hx.Nat(e)
	}
	r.opTerms = append(r.opTerms, o.coq(r.tab))
	r.obsTerms = append(r.obsTerms, hx.App("mkO", hx.List(reqs), hx.List(endT), hx.Bool(up), tk, hx.List(sc), hx.List(rc)))
	d := o.kind
	if o.kind == "resp" {
		if o.fail {
			d = "resp:fail"
		} else {
			d = "resp:" + strings.TrimPrefix(respTerm(r.tab, o.resp), "(")
			if len(d) > 60 {
				d = d[:60]
			}
		}
	}
	if o.note != "" {
		d += "[" + o.note + "]"
	}
	r.descOps = append(r.descOps, fmt.Sprintf("%s -> reqs=%d ends=%v up=%v", d, len(reqs), ends, up))
	r.lastEnds, r.lastUp = ends, up
	if st.Recv != nil {
		if sy := r.tab.lookup(st.Recv); sy == nil || !sy.honest || !cryptoAuthentic(st.Recv, r.ids[1]) {
			cl := "unknown"
			if sy != nil {
				cl = sy.class
			}
			r.violations = append(r.violations, "tracker.recv holds a message of class "+cl)
		}
	}
}

func optU(p *uint64) string {
	if p == nil {
		return "None"
	}
	return "(Some " + hx.U(*p) + ")"
}

func (r *scriptRunner) caseTerm() string {
	return hx.App("Script", hx.Nat(0), hx.Nat(1), hx.List(r.opTerms), hx.List(r.obsTerms))
}

// recvGot lists the messages returned by finished Recv calls.
func (r *scriptRunner) recvGot() []*signaling_rpc.SessionMsg {
	var out []*signaling_rpc.SessionMsg
	for _, c := range r.recvs {
		if done, ok, m := c.result(); done && ok {
			out = append(out, m)
		}
	}
	return out
}

func (r *scriptRunner) allStreams() []*scriptStream {
	r.sc.mu.Lock()
	defer r.sc.mu.Unlock()
	return append([]*scriptStream(nil), r.sc.streams...)
}

// wireForm is the response as the receiver decodes it into a fresh object.
func wireForm(r *signaling_rpc.SessionResponse) *signaling_rpc.SessionResponse {
	b, err := r.MarshalVT()
	if err != nil {
		panic(err)
	}
	out := &signaling_rpc.SessionResponse{}
	if err := out.UnmarshalVT(b); err != nil {
		panic(err)
	}
	return out
}
