package main

import (
	"context"
	"fmt"
	"time"

	"verifharness/internal/hx"
)

// reopenDuringSend: deterministic history on the real relay in which the
// session is re-opened while a Send is in flight and the client only learns of
// the new epoch (Opened n directly followed by Opened n') after the fact.
// Returns a description of what went wrong, if anything.
func reopenDuringSend(ids []*identity, viaDetach bool) (string, []string) {
	var steps []string
	le := quietLogger()
	ctx, cancel := context.WithCancel(context.Background())
	defer cancel()
	net := newRelayNet(le)
	A, B := ids[0], ids[1]
	ncA, ncB := net.client(A.pid), net.client(B.pid)
	cA, cB := newClient(le, ncA, A), newClient(le, ncB, B)
	cA.SetContext(ctx)
	cB.SetContext(ctx)
	refA, refB := cA.AddPeerRef(B.str), cB.AddPeerRef(A.str)
	if !waitUntil(5*time.Second, func() bool { return refA.VerifState().Open != nil && refB.VerifState().Open != nil }) {
		return "setup: sessions did not open within 5s", steps
	}
	e0 := *refA.VerifState().Open
	steps = append(steps, fmt.Sprintf("A and B attached (epoch %d)", e0))
	// A's Send is in flight: B's application is not receiving yet
	connA := ncA.last()
	connA.setHold(true)
	// B sends something to A: A's write loop at the relay blocks in strm.Send and
	// therefore sees the re-open only after the fact (Opened n directly followed by Opened n')
	startSend(ctx, refB, []byte("from-b"), nil)
	time.Sleep(5 * time.Millisecond)
	sA := startSend(ctx, refA, []byte("in-flight"), nil)
	time.Sleep(5 * time.Millisecond)
	steps = append(steps, "relay->A stream back-pressured (write loop blocked), A.Send(in-flight) pending")
	nB := ncB.count()
	if viaDetach {
		ncB.setRefuse(true)
		ncB.last().failConn(errStreamFailed)
		time.Sleep(10 * time.Millisecond)
		ncB.setRefuse(false)
		steps = append(steps, "B detached for 10ms, then re-attaches")
	} else {
		ncB.last().failConn(errStreamFailed)
		steps = append(steps, "B's stream failed, B retries")
	}
	if !waitUntil(5*time.Second, func() bool { return ncB.count() > nB && refB.VerifState().Open != nil }) {
		return "setup: B did not re-attach within 5s", steps
	}
	time.Sleep(5 * time.Millisecond)
	connA.setHold(false)
	steps = append(steps, "back pressure released: A learns of the new epoch while its Send is pending")
	// stable suffix: B's application receives
	rB := startRecv(ctx, refB, nil)
	if !rB.wait(5 * time.Second) {
		return "B's Recv did not return the in-flight message within 5s of the stable suffix", steps
	}
	if _, ok, m := rB.result(); !ok || string(m.GetSignedMsg().GetData()) != "in-flight" {
		return "B's Recv returned something else than the in-flight message", steps
	}
	if !sA.wait(5 * time.Second) {
		return "A's Send did not return within 5s of the stable suffix although B received the message", steps
	}
	if _, ok, _ := sA.result(); !ok {
		return "A's Send failed", steps
	}
	return "", steps
}

func c23(c *hx.Ctx) {
	c.Type = "c23_case"
	c.Agree = "c23_agree"
	c.Rule = "(a) sequential scripts against the real client behind a scripted relay, weighted towards re-opens (Opened n, Opened n'), Closed, stream failures and restarts of execute while Sends are pending, compared step by step with the model, incl. the fixed script of the repaired re-open-during-send defect; (b) real relay + 2 or 3 real clients: random reconnect histories (stream failures, detach/re-attach, back pressure, gated receivers, cancellations) followed by a stable suffix in which every pending Send must succeed and its message be received within 5 s (timing observation); (c) deterministic re-open-during-send histories on the real relay; non-trivial = script with a Send or a returned Recv"
	nfixed := len(fixedC23())
	runScripts(c, c.N*2/3, &profC23, fixedC23(), true, func(g *genState, desc map[string]any) {
		if idx, _ := desc["index"].(int); idx < nfixed {
			if done, ok, _ := g.r.sends[0].result(); !done || !ok {
				c.Failf("c23-reopen-during-send-stuck", desc, "scripted relay: the session was re-opened while the Send was pending, the message was acknowledged in the new epoch, but Send did not return")
			}
		}
	})
	// composition scripts with many stream failures and restarts; the fixed one is a
	// reconnect of the receiver while a Send is pending, then a stable suffix
	fixedW := [][][3]any{{
		{"conn", 0, ""}, {"conn", 1, ""}, {"send", 0, "xy"}, {"fail", 1, ""}, {"conn", 1, ""}, {"recv", 1, ""},
	}, {
		{"conn", 0, ""}, {"conn", 1, ""}, {"send", 0, "xy"}, {"fail", 0, ""}, {"conn", 0, ""}, {"recv", 1, ""},
	}}
	runWorldScripts(c, c.N/3, 8, 1, fixedW, func(r *worldRunner, desc map[string]any) {
		if idx, _ := desc["index"].(int); idx < len(fixedW) {
			if done, ok, _ := r.sends[0][0].result(); !done || !ok {
				c.Failf("c23-reconnect-during-send-stuck", desc, "the pending Send did not complete after the reconnect and the partner's Recv")
			}
		}
	})
	ids := newIdentities(c.Rng, 3)
	for i := 0; i < 2; i++ {
		what, steps := reopenDuringSend(ids, i == 1)
		c.Eval()
		c.Class("net:reopen-during-send")
		if what != "" {
			c.Failf("c23-reopen-during-send-stuck", map[string]any{"history": steps}, "%s", what)
		}
	}
	nh := c.N / 10
	if nh < 6 {
		nh = 6
	}
	for i := 0; i < nh; i++ {
		h := &history{peers: 2 + c.Rng.Intn(2)}
		s := runHistory(c.Rng, ids, h, 25+c.Rng.Intn(35))
		s.stabilise()
		t0 := time.Now()
		s.mu.Lock()
		sends := append([]*netSend(nil), s.sends...)
		s.mu.Unlock()
		var stuck []string
		pending := 0
		for _, ns := range sends {
			if ns.cancelAt {
				continue
			}
			if !ns.call.finished() {
				pending++
			}
			left := 5*time.Second - time.Since(t0)
			if left < 0 {
				left = 0
			}
			if !ns.call.wait(left) {
				stuck = append(stuck, fmt.Sprintf("Send %q %d->%d still pending 5s after stabilisation", ns.body, ns.from, ns.to))
			} else if _, ok, _ := ns.call.result(); !ok {
				stuck = append(stuck, fmt.Sprintf("Send %q %d->%d failed although it was never cancelled", ns.body, ns.from, ns.to))
			}
		}
		allOpen := s.allOpen()
		s.close()
		c.Eval()
		c.Class(fmt.Sprintf("net:history-%dpeers-pending%d", h.peers, min(pending, 3)))
		desc := map[string]any{"peers": h.peers, "history": h.steps}
		for _, b := range stuck {
			c.Failf("c23-send-stuck-after-stabilisation", desc, "%s (all sessions open: %v)", b, allOpen)
		}
		for _, b := range s.checkAckOrder() {
			c.Failf("c23-send-ok-without-partner-recv", desc, "%s", b)
		}
	}
}

// fixedC23: the scripted-relay form of the re-open-during-send history
// (Opened 1, Opened 2, Ack): the Send must return.
func fixedC23() [][]*sop {
	return [][]*sop{
		{
			{kind: "conn"}, {kind: "resp", resp: rOpened(1)}, {kind: "send", body: []byte("x")},
			{kind: "resp", resp: rOpened(2)}, {kind: "resp", resp: rAck(1)},
		},
		{
			{kind: "conn"}, {kind: "resp", resp: rOpened(1)}, {kind: "send", body: []byte("x")},
			{kind: "resp", resp: rClosed(true)}, {kind: "resp", resp: rOpened(3)}, {kind: "resp", resp: rAck(1)},
		},
		{
			{kind: "conn"}, {kind: "resp", resp: rOpened(1)}, {kind: "send", body: []byte("x")},
			{kind: "resp", fail: true}, {kind: "conn"}, {kind: "resp", resp: rOpened(3)}, {kind: "resp", resp: rAck(1)},
		},
	}
}
