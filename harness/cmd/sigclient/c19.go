package main

import (
	"verifharness/internal/hx"
)

// c19: scripted malicious relay; what Recv returns and how the session ends.
func c19(c *hx.Ctx) {
	c.Type = "c19_case"
	c.Agree = "c19_agree"
	c.Rule = "sequential scripts against the real client behind a scripted relay: honest messages of A mixed with bit-flipped bodies/signatures, third-key messages claiming A, third-key and reflected own messages, re-contextualised and transplanted signatures, empty body/sender, altered sequence numbers, plus acks, clears, re-opens, stream failures and application Send/Recv/cancel; per operation the requests written, execute's error class, the tracker snapshot and every call's status are compared with the model; non-trivial = script in which a Recv returned or a Send was started"
	// the re-attribution classes in every encoding of the attached key, always present
	targeted := [][2]string{{"third-claims-a", "third"}, {"third-claims-a", "a"}, {"third-claims-a", "garbage"},
		{"third-claims-a-sha256", "third"}, {"self-claims-a", "self"}, {"third-other-context-claims-a", "third"},
		{"flip-body", "a"}, {"other-context", "a"}, {"honest", "third"}, {"honest", "self"}}
	preScript = func(g *genState, i int) {
		if i < 0 || i >= 2*len(targeted) {
			return
		}
		t := targeted[i%len(targeted)]
		g.r.apply(&sop{kind: "conn"})
		g.epoch++
		g.r.apply(&sop{kind: "resp", resp: rOpened(g.epoch)})
		g.r.apply(&sop{kind: "recv"})
		m := g.r.tab.craft(t[0], g.body(), g.nextSeq, i, encoding{att: t[1], extra: i >= len(targeted)})
		g.nextSeq++
		cls := g.r.tab.lookup(m).class
		strm := g.r.cur.stream
		before := strm.takenCount()
		g.r.apply(&sop{kind: "resp", resp: rRecv(m), note: cls})
		g.class("targeted:" + cls)
		if t[0] != "honest" {
			g.badChecks = append(g.badChecks, badCheck{class: cls, up: g.r.lastUp, ends: g.r.lastEnds,
				taken: strm.takenCount() - before, closed: strm.isClosed()})
		}
	}
	// stateful sequences: a genuine message at a given stage, optionally a re-open or a
	// reconnect, then a derived variant of that same message
	stages := []string{"delivered", "returned", "acked"}
	between := []string{"", "reopen", "reconnect"}
	nTargeted := 2 * len(targeted)
	nStateful := len(stages) * len(between) * len(derivedVariants)
	stateless := preScript
	preScript = func(g *genState, i int) {
		if i < nTargeted {
			stateless(g, i)
			return
		}
		j := i - nTargeted
		if j >= nStateful {
			return
		}
		st, bt, va := stages[j%len(stages)], between[(j/len(stages))%len(between)], derivedVariants[j/(len(stages)*len(between))]
		r := g.r
		r.apply(&sop{kind: "conn"})
		g.epoch++
		r.apply(&sop{kind: "resp", resp: rOpened(g.epoch)})
		hm := r.tab.craft("honest", g.body(), g.nextSeq, 0, encoding{})
		g.nextSeq++
		g.lastHonest = hm
		if st == "acked" {
			r.apply(&sop{kind: "recv"})
		}
		r.apply(&sop{kind: "resp", resp: rRecv(hm), note: "honest"})
		if st == "returned" {
			// Recv returns it; the ack is written in the same quiescence run
			r.apply(&sop{kind: "recv"})
		}
		switch bt {
		case "reopen":
			g.epoch++
			r.apply(&sop{kind: "resp", resp: rOpened(g.epoch)})
		case "reconnect":
			r.apply(&sop{kind: "resp", fail: true})
			r.apply(&sop{kind: "conn"})
			g.epoch++
			r.apply(&sop{kind: "resp", resp: rOpened(g.epoch)})
		}
		r.apply(&sop{kind: "recv"})
		m := r.tab.derive(hm, va, j)
		cls := r.tab.lookup(m).class + "@" + st
		if bt != "" {
			cls += "+" + bt
		}
		strm := r.cur.stream
		before := strm.takenCount()
		r.apply(&sop{kind: "resp", resp: rRecv(m), note: cls})
		g.class("stateful:" + r.tab.lookup(m).class)
		if n, _ := g.runningRecvs(); n == 0 && r.cur != nil {
			// whatever was stored is handed to the application
			r.apply(&sop{kind: "recv"})
		}
		if !r.tab.lookup(m).honest {
			g.badChecks = append(g.badChecks, badCheck{class: cls, up: r.lastUp, ends: r.lastEnds,
				taken: strm.takenCount() - before, closed: strm.isClosed()})
		}
	}
	// back-to-back RecvMsg responses: a genuine message that the application has not read
	// yet, immediately followed by a forgery decoded by the same receive goroutine, (a) with a
	// Recv call already waiting, (b) with the client's main loop blocked in a stream write
	// (relay back pressure) so that the application reads after the forgery has arrived
	forgedAfter := []string{"third-claims-a", "flip-body", "self-claims-a", "other-context", "third-own", "transplant"}
	nB2B := 2 * len(forgedAfter)
	prev2 := preScript
	preScript = func(g *genState, i int) {
		base := nTargeted + nStateful
		if i < base {
			prev2(g, i)
			return
		}
		j := i - base
		if j >= nB2B {
			return
		}
		r := g.r
		cls := forgedAfter[j%len(forgedAfter)]
		att := []string{"", "third", "a"}[j%3]
		r.apply(&sop{kind: "conn"})
		g.epoch++
		r.apply(&sop{kind: "resp", resp: rOpened(g.epoch)})
		hm := r.tab.craft("honest", g.body(), g.nextSeq, 0, encoding{})
		g.nextSeq++
		fm := r.tab.craft(cls, g.body(), g.nextSeq, j, encoding{att: att})
		g.nextSeq++
		if j < len(forgedAfter) {
			r.apply(&sop{kind: "recv"})
			r.apply(&sop{kind: "resp", resp: rRecv(hm), extra: rRecv(fm), note: "honest then " + cls})
			g.class("b2b:pending-recv:" + cls)
		} else {
			r.apply(&sop{kind: "hold"})
			r.apply(&sop{kind: "send", body: g.body()})
			r.apply(&sop{kind: "resp", resp: rRecv(hm), extra: rRecv(fm), note: "honest then " + cls})
			r.apply(&sop{kind: "recv"})
			r.apply(&sop{kind: "release"})
			g.class("b2b:loop-held:" + cls)
		}
	}
	defer func() { preScript = nil }()
	runScripts(c, c.N, &profC19, fixedC19(), false, func(g *genState, desc map[string]any) {
		// direct oracle 1: everything Recv returned is one of A's honest messages, unaltered
		for _, m := range g.r.recvGot() {
			// independent check with the primitives: signed by A's key (taken from the session
			// peer id, never from the message) under the signaling context over exactly this body
			if m.GetSignedMsg().GetFromPeerId() != g.r.ids[1].str || !cryptoAuthentic(m, g.r.ids[1]) {
				cl := "unknown"
				if sy := g.r.tab.lookup(m); sy != nil {
					cl = sy.class
				}
				c.Failf("c19-recv-not-signed-by-peer", desc, "Recv returned a message (class %s, data %x, claimed sender %s) whose signature does not verify under the session peer's key", cl, m.GetSignedMsg().GetData(), m.GetSignedMsg().GetFromPeerId())
			}
			sy := g.r.tab.lookup(m)
			if sy == nil || !sy.honest {
				cl := "unknown"
				if sy != nil {
					cl = sy.class
				}
				c.Failf("c19-forged-message-accepted", desc, "Recv returned a message of class %s (data %x): required only messages signed by A under the signaling context", cl, m.GetSignedMsg().GetData())
			}
		}
		// direct oracle 2: a forged message never sits in tracker.recv
		for _, v := range g.r.violations {
			c.Failf("c19-forged-message-stored", desc, "%s", v)
		}
		// direct oracle 3: the session errors on the first bad message and nothing after it is processed
		for _, b := range g.badChecks {
			if b.up || len(b.ends) != 1 || (b.ends[0] != eVerify && b.ends[0] != ePeer) {
				c.Failf("c19-bad-message-no-error", desc, "after a %s message execute is up=%v ends=%v: required to return a verification error", b.class, b.up, b.ends)
			}
			if b.taken != 1 {
				c.Failf("c19-processed-after-bad", desc, "after a %s message the client consumed %d responses from the stream: required 1", b.class, b.taken)
			}
			if !b.closed {
				c.Failf("c19-stream-not-closed", desc, "after a %s message the stream was not closed", b.class)
			}
		}
	})
}

// fixedC19: one script per forged class, each followed by an honest message
// on a fresh stream that must be delivered.
func fixedC19() [][]*sop {
	var out [][]*sop
	for range badClasses {
		out = append(out, nil)
	}
	return out[:0]
}
