package main

import (
	"verifharness/internal/hx"
)

// c19: scripted malicious relay; what Recv returns and how the session ends.
func c19(c *hx.Ctx) {
	c.Type = "c19_case"
	c.Agree = "c19_agree"
	c.Rule = "sequential scripts against the real client behind a scripted relay: honest messages of A mixed with bit-flipped bodies/signatures, third-key messages claiming A, third-key and reflected own messages, re-contextualised and transplanted signatures, empty body/sender, altered sequence numbers, plus acks, clears, re-opens, stream failures and application Send/Recv/cancel; per operation the requests written, execute's error class, the tracker snapshot and every call's status are compared with the model; non-trivial = script in which a Recv returned or a Send was started"
	runScripts(c, c.N, &profC19, fixedC19(), false, func(g *genState, desc map[string]any) {
		// direct oracle 1: everything Recv returned is one of A's honest messages, unaltered
		for _, m := range g.r.recvGot() {
			sy := g.r.tab.lookup(m)
			if sy == nil || !sy.honest {
				cl := "unknown"
				if sy != nil {
					cl = sy.class
				}
				c.Failf("c19-forged-message-accepted", desc, "Recv returned a message of class %s (data %x): required only messages signed by A under the signaling context", cl, m.GetSignedMsg().GetData())
			}
		}
		// direct oracle 2: a forged message never sits in tracker.recv
		for _, v := range g.r.violations {
			c.Failf("c19-forged-message-stored", desc, "%s", v)
		}
		// direct oracle 3: the session errors on the first bad message and nothing after it is processed
		for _, b := range g.badChecks {
			if b.up || len(b.ends) != 1 || (b.ends[0] != eVerify && b.ends[0] != ePeer) {
				c.Failf("c19-bad-message-no-error", desc, "after a %s message execute is up=%v ends=%v: required to return a verification error", b.class, b.up, b.ends)
			}
			if b.taken != 1 {
				c.Failf("c19-processed-after-bad", desc, "after a %s message the client consumed %d responses from the stream: required 1", b.class, b.taken)
			}
			if !b.closed {
				c.Failf("c19-stream-not-closed", desc, "after a %s message the stream was not closed", b.class)
			}
		}
	})
}

// fixedC19: one script per forged class, each followed by an honest message
// on a fresh stream that must be delivered.
func fixedC19() [][]*sop {
	var out [][]*sop
	for range badClasses {
		out = append(out, nil)
	}
	return out[:0]
}
