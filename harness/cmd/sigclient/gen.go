package main

import (
	"fmt"
	"runtime"

	signaling_rpc "github.com/aperturerobotics/bifrost/signaling/rpc"
	sigcli "github.com/aperturerobotics/bifrost/signaling/rpc/client"
	"verifharness/internal/hx"
)

// scriptProfile weights the operation classes of a generated script.
type scriptProfile struct {
	name                                                string
	wRecvHonest, wRecvBad, wAckClear, wReopen, wConnBrk int
	wSend, wCancel, wRecvCall, wOdd                     int
}

var (
	profC19 = scriptProfile{"c19", 22, 14, 8, 5, 4, 8, 4, 22, 5}
	profC21 = scriptProfile{"c21", 12, 2, 30, 6, 3, 20, 12, 12, 3}
	profC23 = scriptProfile{"c23", 10, 2, 16, 24, 12, 18, 4, 10, 2}
)

type genState struct {
	c       *hx.Ctx
	r       *scriptRunner
	epoch   uint64
	nextSeq uint64 // sequence numbers the relay uses for A's messages
	classes map[string]int
	sawBad  bool

	lastHonest *signaling_rpc.SessionMsg // the last genuine message of A delivered to the client

	badChecks []badCheck
	named     []string // acks / clears that touched a message they do not name
	earlyOk   []string // Sends that reported success without an ack naming them
}

// badCheck is what was observed right after a forged message was delivered.
type badCheck struct {
	class  string
	up     bool
	ends   []int
	taken  int
	closed bool
}

func (g *genState) runningSends() (n int, idx []int) {
	for i, s := range g.r.sends {
		if !s.finished() {
			n++
			idx = append(idx, i)
		}
	}
	return
}

func (g *genState) runningRecvs() (n int, idx []int) {
	for i, s := range g.r.recvs {
		if !s.finished() {
			n++
			idx = append(idx, i)
		}
	}
	return
}

func (g *genState) body() []byte {
	n := 1 + g.c.Rng.Intn(6)
	b := make([]byte, n)
	for i := range b {
		b[i] = byte(97 + g.c.Rng.Intn(4))
	}
	return b
}

// interestingSeq picks a message sequence number that is likely to matter.
func (g *genState) interestingSeq() uint64 {
	st := g.r.ref.VerifState()
	var cands []uint64
	if st.Out != nil {
		cands = append(cands, st.Out.Seqno, st.Out.Seqno, st.Out.Seqno)
	}
	if st.Recv != nil {
		cands = append(cands, st.Recv.Seqno, st.Recv.Seqno)
	}
	cands = append(cands, uint64(g.c.Rng.Intn(4)), g.nextSeq)
	return cands[g.c.Rng.Intn(len(cands))]
}

// okSends is the set of Send calls that have reported success.
func (g *genState) okSends() map[int]bool {
	out := map[int]bool{}
	for i, s := range g.r.sends {
		if done, ok, _ := s.result(); done && ok {
			out[i] = true
		}
	}
	return out
}

// slotRefilled: a waiting Send took the freed slot during the same quiescence
// run (then the before/after comparison of the send slot is not meaningful).
func (g *genState) slotRefilled(before, after sigcli.VerifTrackerState) bool {
	return after.Out != nil && (before.Out == nil || before.Out.Seqno != after.Out.Seqno)
}

func (g *genState) class(k string) {
	g.classes[k]++
	g.c.Class(k)
}

// next generates and applies the next operation.
func (g *genState) next(p *scriptProfile) {
	rng := g.c.Rng
	r := g.r
	if r.cur == nil {
		r.apply(&sop{kind: "conn"})
		g.class("op:conn")
		if rng.Intn(8) != 0 {
			g.epoch += 1 + uint64(rng.Intn(2))
			r.apply(&sop{kind: "resp", resp: rOpened(g.epoch)})
			g.class("op:opened")
		}
		return
	}
	nS, sIdx := g.runningSends()
	nR, rIdx := g.runningRecvs()
	two := nS >= 2
	total := p.wRecvHonest + p.wRecvBad + p.wAckClear + p.wReopen + p.wConnBrk + p.wSend + p.wCancel + p.wRecvCall + p.wOdd
	x := rng.Intn(total)
	pick := func(w int) bool {
		if x < w {
			x = total // consumed
			return true
		}
		x -= w
		return false
	}
	switch {
	case pick(p.wRecvHonest):
		cls := "honest"
		seq := g.nextSeq
		g.nextSeq++
		switch rng.Intn(12) {
		case 0:
			cls, seq = "honest-seq0", 0
		case 1:
			// replayed / altered sequence number (not covered by the signature)
			seq = uint64(rng.Intn(3))
		case 2:
			cls = "honest-sha256"
		}
		enc := encoding{}
		if rng.Intn(3) == 0 {
			// honest content in the other encodings the wire format allows
			enc = encoding{att: attChoices[rng.Intn(len(attChoices))], extra: rng.Intn(2) == 0}
			if two && enc.att == "garbage" {
				// an unparsable attached key ends the session; with two Sends pending both would
				// race for the slot after the re-open (scheduler dependent, not observable
				// deterministically): same restriction as for every other session-ending operation
				enc.att = ""
			}
		}
		m := r.tab.craft(cls, g.body(), seq, rng.Intn(512), enc)
		if sy := r.tab.lookup(m); sy != nil {
			cls = sy.class
			if sy.honest {
				g.lastHonest = m
			}
		}
		r.apply(&sop{kind: "resp", resp: rRecv(m), note: cls})
		g.class("resp:recv-" + cls)
	case pick(p.wRecvBad):
		if two {
			return
		}
		cls := badClasses[rng.Intn(len(badClasses))]
		var m *signaling_rpc.SessionMsg
		if g.lastHonest != nil && rng.Intn(2) == 0 {
			// stateful adversary: a variant of a message the client has already verified
			// (whatever stage it is in now: pending, returned by Recv, acknowledged, before or
			// after a re-open / reconnect)
			m = r.tab.derive(g.lastHonest, derivedVariants[rng.Intn(len(derivedVariants))], rng.Intn(512))
			if r.tab.lookup(m).honest {
				// byte-identical replay, other sequence number, well-formed attached key: accepted
				cls = r.tab.lookup(m).class
				r.apply(&sop{kind: "resp", resp: rRecv(m), note: cls})
				g.class("resp:recv-" + cls)
				return
			}
		} else {
			// every forged class in every encoding of the signature object
			enc := encoding{att: attChoices[rng.Intn(len(attChoices))], extra: rng.Intn(4) == 0}
			m = r.tab.craft(cls, g.body(), g.nextSeq, rng.Intn(512), enc)
			g.nextSeq++
		}
		cls = r.tab.lookup(m).class
		o := &sop{kind: "resp", resp: rRecv(m), note: cls}
		// a later honest message on the same stream must not be processed
		if rng.Intn(2) == 0 {
			m2 := r.tab.craft("honest", g.body(), g.nextSeq, 0, encoding{})
			g.nextSeq++
			o.extra = rRecv(m2)
			g.class("resp:honest-queued-after-bad")
		}
		strm := r.cur.stream
		before := strm.takenCount()
		r.apply(o)
		g.class("resp:recv-" + cls)
		g.sawBad = true
		g.badChecks = append(g.badChecks, badCheck{class: cls, up: r.lastUp, ends: r.lastEnds,
			taken: strm.takenCount() - before, closed: strm.isClosed()})
	case pick(p.wAckClear):
		n := g.interestingSeq()
		before := r.ref.VerifState()
		okBefore := g.okSends()
		kind := "ack"
		if rng.Intn(3) == 0 {
			kind = "clear"
			r.apply(&sop{kind: "resp", resp: rClear(n)})
		} else {
			r.apply(&sop{kind: "resp", resp: rAck(n)})
		}
		g.class("resp:" + kind)
		// the Send that completes on this ack must be the one whose message it names
		for i := range g.okSends() {
			if okBefore[i] {
				continue
			}
			_, _, m := r.sends[i].result()
			if kind != "ack" || m == nil || m.Seqno != n {
				g.earlyOk = append(g.earlyOk, fmt.Sprintf("Send %d reported success during %s %d but its message has another sequence number", i, kind, n))
			}
			// Send's own region clears the acknowledged slot: compare against that
			before.Out, before.OutSent, before.OutAcked = nil, false, false
			if m != nil && m.Seqno == n {
				before.Out = nil
			}
		}
		after := r.ref.VerifState()
		if len(g.okSends()) == len(okBefore) && !g.slotRefilled(before, after) {
			if v := namedCheck(kind, n, before, after); v != "" {
				g.named = append(g.named, v)
			}
		}
	case pick(p.wReopen):
		switch rng.Intn(6) {
		case 0:
			if two {
				return
			}
			r.apply(&sop{kind: "resp", resp: rClosed(true)})
			g.class("resp:closed")
		case 1:
			r.apply(&sop{kind: "resp", resp: rOpened(g.epoch)})
			g.class("resp:opened-same")
		default:
			g.epoch += 1 + uint64(rng.Intn(2))
			r.apply(&sop{kind: "resp", resp: rOpened(g.epoch)})
			g.class("resp:opened-new")
		}
	case pick(p.wConnBrk):
		if two {
			return
		}
		if rng.Intn(2) == 0 {
			r.apply(&sop{kind: "resp", fail: true})
			g.class("op:stream-fail")
		} else {
			r.apply(&sop{kind: "abort"})
			g.class("op:abort")
		}
	case pick(p.wSend):
		st := r.ref.VerifState()
		if nS <= 1 && rng.Intn(6) == 0 && (st.Open == nil || st.Out != nil) {
			// Send with an already cancelled context.  Only where it cannot place its message
			// (session closed or slot busy): if it places the message, whether the loop transmits
			// it before the Send notices the cancellation is a genuine race (the Go runtime may
			// preempt the Send goroutine between its lock region and its select under load)
			r.apply(&sop{kind: "sendc", body: g.body()})
			g.class("op:send-cancelled-ctx")
		} else if nS == 0 || (nS == 1 && st.Out != nil && st.Open != nil && p.name != "c19") {
			b := g.body()
			if rng.Intn(25) == 0 {
				b = nil
			}
			r.apply(&sop{kind: "send", body: b})
			g.class("op:send")
		}
	case pick(p.wCancel):
		if nS > 0 && rng.Intn(3) != 0 {
			r.apply(&sop{kind: "cancelsend", idx: sIdx[rng.Intn(len(sIdx))]})
			g.class("op:cancel-send")
		} else if nR > 0 {
			r.apply(&sop{kind: "cancelrecv", idx: rIdx[rng.Intn(len(rIdx))]})
			g.class("op:cancel-recv")
		} else if len(r.sends) > 0 {
			// cancelling a finished call is a no-op
			r.apply(&sop{kind: "cancelsend", idx: rng.Intn(len(r.sends))})
			g.class("op:cancel-finished")
		}
	case pick(p.wRecvCall):
		if nR == 0 {
			if rng.Intn(4) == 0 {
				// Recv with an already cancelled context: returns the pending message or an
				// error, and must not consume anything when it returns an error
				r.apply(&sop{kind: "recvc"})
				g.class("op:recv-cancelled-ctx")
			} else {
				r.apply(&sop{kind: "recv"})
				g.class("op:recv")
			}
		}
	case pick(p.wOdd):
		if two {
			return
		}
		switch rng.Intn(3) {
		case 0:
			r.apply(&sop{kind: "resp", resp: rClosed(false)})
			g.class("resp:closed-false")
		case 1:
			r.apply(&sop{kind: "resp", resp: rRecv(nil)})
			g.class("resp:recv-nil")
		default:
			r.apply(&sop{kind: "resp", resp: &signaling_rpc.SessionResponse{}})
			g.class("resp:unknown")
		}
	}
}

// runScripts generates n scripts with the given profile, emits them as
// correspondence cases and calls check on each finished script.
// preScript, if set, runs targeted operations at the start of script i.
var preScript func(g *genState, i int)

func runScripts(c *hx.Ctx, n int, p *scriptProfile, fixed [][]*sop, wrap bool, check func(g *genState, desc map[string]any)) {
	prev := runtime.GOMAXPROCS(1)
	defer runtime.GOMAXPROCS(prev)
	ids := newIdentities(c.Rng, 3)
	for i := 0; i < n+len(fixed); i++ {
		g := &genState{c: c, r: newScriptRunner(ids), epoch: uint64(c.Rng.Intn(3)), nextSeq: 1 + uint64(c.Rng.Intn(3)),
			classes: map[string]int{}}
		if i < len(fixed) {
			for _, o := range fixed[i] {
				g.r.apply(o)
			}
			g.class("fixed-script")
		} else {
			if preScript != nil {
				preScript(g, i-len(fixed))
			}
			steps := 6 + c.Rng.Intn(12)
			for k := 0; k < steps; k++ {
				g.next(p)
			}
		}
		desc := map[string]any{"profile": p.name, "script": g.r.descOps, "index": i}
		if wrap {
			c.Case(hx.App("SC", g.r.caseTerm()), desc)
		} else {
			c.Case(g.r.caseTerm(), desc)
		}
		key := fmt.Sprint(g.r.opTerms)
		if len(g.r.recvGot()) > 0 || len(g.r.sends) > 0 {
			c.Nontrivial(key)
		}
		check(g, desc)
		g.r.close()
	}
}
