package main

import (
	"context"
	"fmt"
	"time"

	signaling_rpc "github.com/aperturerobotics/bifrost/signaling/rpc"
	sigcli "github.com/aperturerobotics/bifrost/signaling/rpc/client"
	"verifharness/internal/hx"
)

// namedCheck compares the tracker before and after an Ack/Clear response:
// only state whose message carries that sequence number may change.
func namedCheck(kind string, n uint64, before, after sigcli.VerifTrackerState) string {
	sameMsg := func(a, b *signaling_rpc.SessionMsg) bool {
		if (a == nil) != (b == nil) {
			return false
		}
		return a == nil || a.EqualVT(b)
	}
	outSame := sameMsg(before.Out, after.Out) && before.OutSent == after.OutSent &&
		before.OutAcked == after.OutAcked && before.OutCancel == after.OutCancel
	recvSame := sameMsg(before.Recv, after.Recv) && before.RecvProcessed == after.RecvProcessed
	openSame := (before.Open == nil) == (after.Open == nil) && (before.Open == nil || *before.Open == *after.Open)
	if !openSame {
		return "the session epoch changed"
	}
	switch kind {
	case "ack":
		if !recvSame {
			return "an ack changed the receive slot"
		}
		if (before.Out == nil || before.Out.Seqno != n) && !outSame {
			return fmt.Sprintf("ack %d changed the pending message with another sequence number", n)
		}
	case "clear":
		if !outSame {
			return "a clear changed the send slot"
		}
		if (before.Recv == nil || before.Recv.Seqno != n) && !recvSame {
			return fmt.Sprintf("clear %d changed the received message with another sequence number", n)
		}
	}
	return ""
}

// staleAckScenario: the back-pressure history that made a Send succeed in a new
// epoch on the strength of an ack produced in the old one (fixed in the relay
// by dropping pending acks/clears on every epoch change).  Returns a non-empty
// description if the violation is observed.
func staleAckBackPressureScenario(ids []*identity, restartB bool) (string, []string) {
	var steps []string
	le := quietLogger()
	ctx, cancel := context.WithCancel(context.Background())
	defer cancel()
	net := newRelayNet(le)
	A, B := ids[0], ids[1]
	ncA, ncB := net.client(A.pid), net.client(B.pid)
	cA, cB := newClient(le, ncA, A), newClient(le, ncB, B)
	cA.SetContext(ctx)
	cB.SetContext(ctx)
	refA, refB := cA.AddPeerRef(B.str), cB.AddPeerRef(A.str)
	if !waitUntil(5*time.Second, func() bool { return refA.VerifState().Open != nil && refB.VerifState().Open != nil }) {
		return "", append(steps, "setup: sessions did not open")
	}
	steps = append(steps, "A and B attached")
	connA := ncA.last()
	connA.setHold(true)
	steps = append(steps, "relay->A stream is back-pressured")
	startSend(ctx, refB, []byte("from-b"), nil)
	time.Sleep(10 * time.Millisecond)
	sA := startSend(ctx, refA, []byte("m1"), nil)
	rB := startRecv(ctx, refB, nil)
	if !rB.wait(3 * time.Second) {
		return "", append(steps, "setup: B did not receive m1")
	}
	steps = append(steps, "A.Send(m1) pending; B.Recv returned m1; B acks")
	time.Sleep(10 * time.Millisecond)
	nB := ncB.count()
	ncB.last().failConn(errStreamFailed)
	if !waitUntil(5*time.Second, func() bool { return ncB.count() > nB && refB.VerifState().Open != nil }) {
		return "", append(steps, "setup: B did not re-attach")
	}
	time.Sleep(10 * time.Millisecond)
	epochB := *refB.VerifState().Open
	steps = append(steps, fmt.Sprintf("B's stream failed and B re-attached (epoch %d)", epochB))
	gotInNewEpoch := func() bool {
		st := refB.VerifState()
		return st.Recv != nil && string(st.Recv.GetSignedMsg().GetData()) == "m1"
	}
	connA.setHold(false)
	steps = append(steps, "back pressure released")
	// B's application does not call Recv in the new epoch: Send must not succeed
	if sA.wait(150 * time.Millisecond) {
		if _, ok, _ := sA.result(); ok {
			return fmt.Sprintf("A.Send(m1) reported success in epoch %d although B's Recv has not returned m1 in that epoch (m1 pending at B: %v)", epochB, gotInNewEpoch()), steps
		}
	}
	// now B receives in the new epoch and the send must complete
	rB2 := startRecv(ctx, refB, nil)
	if !rB2.wait(3*time.Second) || !sA.wait(3*time.Second) {
		return "", append(steps, "note: send did not complete after B received in the new epoch")
	}
	return "", steps
}

// staleAckScenario: an ack of the OLD session epoch is still in flight on B's
// uplink when A has restarted (message sequence numbers restart at 1), the
// session was re-opened and the new message (seqno 1 again) has been delivered
// to B's client but not yet to B's application.  The late ack must not make
// A.Send(m_new) succeed.
func staleAckScenario(ids []*identity) (string, []string) {
	var steps []string
	le := quietLogger()
	ctx, cancel := context.WithCancel(context.Background())
	defer cancel()
	net := newRelayNet(le)
	A, B := ids[0], ids[1]
	ncA, ncB := net.client(A.pid), net.client(B.pid)
	defer ncA.killAll()
	defer ncB.killAll()
	ctxA, cancelA := context.WithCancel(ctx)
	cA, cB := newClient(le, ncA, A), newClient(le, ncB, B)
	cA.SetContext(ctxA)
	cB.SetContext(ctx)
	refA, refB := cA.AddPeerRef(B.str), cB.AddPeerRef(A.str)
	if !waitUntil(5*time.Second, func() bool { return refA.VerifState().Open != nil && refB.VerifState().Open != nil }) {
		return "", append(steps, "setup: sessions did not open")
	}
	e0 := *refB.VerifState().Open
	steps = append(steps, fmt.Sprintf("A and B attached (epoch %d)", e0))
	startSend(ctx, refA, []byte("m_old"), nil)
	if !waitUntil(3*time.Second, func() bool { return refB.VerifState().Recv != nil }) {
		return "", append(steps, "setup: m_old did not reach B's client")
	}
	// B's uplink is slow from now on: the ack stays in flight
	connB := ncB.last()
	connB.setHoldReq(true)
	rOld := startRecv(ctx, refB, nil)
	if !rOld.wait(3*time.Second) || !waitUntil(3*time.Second, func() bool { return connB.heldCount() > 0 }) {
		return "", append(steps, "setup: B did not receive m_old / did not write the ack")
	}
	steps = append(steps, fmt.Sprintf("A.Send(m_old) seqno 1; B.Recv returned it; B's ack(1, epoch %d) is in flight on B's uplink", e0))
	// A gives up and restarts with a fresh Client: message sequence numbers restart
	cancelA()
	cA.ClearContext()
	cA2 := newClient(le, ncA, A)
	cA2.SetContext(ctx)
	refA2 := cA2.AddPeerRef(B.str)
	if !waitUntil(5*time.Second, func() bool {
		st := refB.VerifState()
		return st.Open != nil && *st.Open != e0 && refA2.VerifState().Open != nil && *refA2.VerifState().Open == *st.Open
	}) {
		return "", append(steps, "setup: the restarted A did not attach")
	}
	steps = append(steps, fmt.Sprintf("A restarted with a fresh Client; session re-opened (epoch %d)", *refB.VerifState().Open))
	sNew := startSend(ctx, refA2, []byte("m_new"), nil)
	if !waitUntil(3*time.Second, func() bool {
		st := refB.VerifState()
		return st.Recv != nil && string(st.Recv.GetSignedMsg().GetData()) == "m_new"
	}) {
		return "", append(steps, "setup: m_new did not reach B's client")
	}
	steps = append(steps, "A.Send(m_new) (seqno 1 again) delivered to B's client; B's application does not call Recv")
	connB.setHoldReq(false)
	steps = append(steps, "the delayed ack of the old epoch arrives at the relay")
	if sNew.wait(200 * time.Millisecond) {
		if _, ok, _ := sNew.result(); ok {
			return "A.Send(m_new) reported success although B's application has not been handed m_new (only the late ack of m_old arrived)", steps
		}
	}
	rNew := startRecv(ctx, refB, nil)
	if !rNew.wait(3*time.Second) || !sNew.wait(3*time.Second) {
		return "", append(steps, "note: Send(m_new) / Recv did not complete after B's application called Recv")
	}
	return "", steps
}

// staleRecvScenario: the sender restarts with a message pending (fresh tracker,
// message sequence numbers restart at 1) and re-attaches over its older call,
// which is still registered at the relay, so the receiver sees Opened n
// directly followed by Opened n'; the new message is still queued relay->B
// (back pressure) when B's application calls Recv.  A Send must not succeed
// unless B's application was handed exactly that message.
func staleRecvScenario(ids []*identity) (string, []string) {
	var steps []string
	le := quietLogger()
	ctx, cancel := context.WithCancel(context.Background())
	defer cancel()
	net := newRelayNet(le)
	A, B := ids[0], ids[1]
	ncA, ncB := net.client(A.pid), net.client(B.pid)
	// A's streams stay registered at the relay after A closed them (the relay has not noticed)
	ncA.setLinger(true)
	defer ncA.killAll()
	defer ncB.killAll()
	ctxA, cancelA := context.WithCancel(ctx)
	cA, cB := newClient(le, ncA, A), newClient(le, ncB, B)
	cA.SetContext(ctxA)
	cB.SetContext(ctx)
	refA, refB := cA.AddPeerRef(B.str), cB.AddPeerRef(A.str)
	if !waitUntil(5*time.Second, func() bool { return refA.VerifState().Open != nil && refB.VerifState().Open != nil }) {
		return "", append(steps, "setup: sessions did not open")
	}
	steps = append(steps, fmt.Sprintf("A and B attached (epoch %d)", *refB.VerifState().Open))
	// x is delivered to B's client, B's application does not read it
	startSend(ctx, refA, []byte("x"), nil)
	if !waitUntil(3*time.Second, func() bool { return refB.VerifState().Recv != nil }) {
		return "", append(steps, "setup: x did not reach B's client")
	}
	steps = append(steps, "A.Send(x) pending (seqno 1); x buffered in B's client, B's application has not called Recv")
	// A restarts: its old stream stays registered at the relay
	e0 := *refB.VerifState().Open
	cancelA()
	cA.ClearContext()
	time.Sleep(5 * time.Millisecond)
	cA2 := newClient(le, ncA, A)
	cA2.SetContext(ctx)
	refA2 := cA2.AddPeerRef(B.str)
	if !waitUntil(5*time.Second, func() bool {
		st := refB.VerifState()
		return st.Open != nil && *st.Open != e0 && refA2.VerifState().Open != nil
	}) {
		return "", append(steps, "setup: the restarted A did not attach")
	}
	steps = append(steps, fmt.Sprintf("A restarted with a fresh tracker and re-attached over its older call: B sees Opened %d directly after Opened %d", *refB.VerifState().Open, e0))
	// back pressure relay->B, then the new message y (seqno 1 again)
	connB := ncB.last()
	connB.setHold(true)
	sY := startSend(ctx, refA2, []byte("y"), nil)
	time.Sleep(20 * time.Millisecond)
	steps = append(steps, "relay->B back-pressured; A.Send(y) (seqno 1 of the fresh tracker) in flight, y queued relay->B")
	rB := startRecv(ctx, refB, nil)
	steps = append(steps, "B's application calls Recv")
	handedY := func() bool {
		done, ok, m := rB.result()
		return done && ok && string(m.GetSignedMsg().GetData()) == "y"
	}
	if sY.wait(200 * time.Millisecond) {
		if _, ok, _ := sY.result(); ok && !handedY() {
			got := "nothing"
			if done, ok2, m := rB.result(); done && ok2 {
				got = fmt.Sprintf("%q", m.GetSignedMsg().GetData())
			}
			return fmt.Sprintf("A.Send(y) reported success while y was still queued relay->B; B's application was handed %s", got), steps
		}
	}
	connB.setHold(false)
	if !sY.wait(3*time.Second) || !handedY() {
		return "", append(steps, "note: after releasing the back pressure Send(y) / Recv did not complete with y")
	}
	return "", steps
}

func c21(c *hx.Ctx) {
	c.Type = "c21_case"
	c.Agree = "c21_agree"
	c.Rule = "(a) sequential scripts against the real client behind a scripted relay, weighted towards acks, clears, cancellations and overlapping Sends, compared step by step with the model; (b) real relay server + 2 or 3 real clients, concurrent histories with reconnects, detach/re-attach, back pressure, gated receivers, cancellations, honest and message-dropping relays: every successful Send must be preceded by the partner's Recv returning the same body; (c) the back-pressure history of the stale-ack defect as a regression; non-trivial = script with a Send or a returned Recv"
	ackSeen := map[int]bool{}
	// a message pending (or not) and a Recv / Send with an already cancelled context
	preScript = func(g *genState, i int) {
		if i < 0 || i >= 8 {
			return
		}
		r := g.r
		r.apply(&sop{kind: "conn"})
		g.epoch++
		r.apply(&sop{kind: "resp", resp: rOpened(g.epoch)})
		if i%2 == 0 {
			hm := r.tab.craft("honest", g.body(), g.nextSeq, 0, encoding{})
			g.nextSeq++
			r.apply(&sop{kind: "resp", resp: rRecv(hm), note: "honest"})
		}
		switch (i / 2) % 4 {
		case 0:
			r.apply(&sop{kind: "recvc"})
		case 1:
			r.apply(&sop{kind: "recvc"})
			r.apply(&sop{kind: "recv"})
		case 2:
			// (slot busy, see gen.go for why an empty slot is not used)
			r.apply(&sop{kind: "send", body: g.body()})
			r.apply(&sop{kind: "sendc", body: g.body()})
			r.apply(&sop{kind: "sendc", body: g.body()})
		case 3:
			r.apply(&sop{kind: "send", body: g.body()})
			r.apply(&sop{kind: "sendc", body: g.body()})
		}
		g.class("targeted:cancelled-ctx")
	}
	defer func() { preScript = nil }()
	runScripts(c, c.N*2/3, &profC21, fixedC21(), true, func(g *genState, desc map[string]any) {
		for _, v := range g.named {
			c.Failf("c21-ack-clear-not-named", desc, "%s", v)
		}
		for _, v := range g.earlyOk {
			c.Failf("c21-send-ok-without-ack", desc, "%s", v)
		}
		// every ack the client wrote names a message that a Recv call RETURNED to the application
		returned := map[uint64]bool{}
		for _, m := range g.r.recvGot() {
			returned[m.GetSeqno()] = true
		}
		for _, strm := range g.r.allStreams() {
			for _, q := range strm.requests() {
				if n := q.GetAckMsg(); n != 0 && !returned[n] {
					c.Failf("c21-ack-without-handoff", desc, "the client acknowledged message %d although no Recv call returned it to the application", n)
				}
			}
		}
		_ = ackSeen
	})
	// composition scripts: real relay between two real clients, step by step against the composed model
	fixedW21 := [][][3]any{
		// a message is pending at B when B's application calls Recv with an already cancelled context
		{{"conn", 0, ""}, {"conn", 1, ""}, {"send", 0, "pq"}, {"recvc", 1, ""}, {"recv", 1, ""}},
		// the same with nothing pending, then the message arrives
		{{"conn", 0, ""}, {"conn", 1, ""}, {"recvc", 1, ""}, {"send", 0, "pq"}, {"recvc", 1, ""}, {"recvc", 1, ""}},
		// Send with an already cancelled context never transmits
		{{"conn", 0, ""}, {"sendc", 0, "zz"}, {"conn", 1, ""}, {"send", 0, "pq"}, {"sendc", 0, "zz"}, {"recv", 1, ""}},
	}
	runWorldScripts(c, c.N/3, 3, 4, fixedW21, func(r *worldRunner, desc map[string]any) {
		// a finished Send must have been received by the partner (any earlier Recv result with the same body)
		for x := 0; x < 2; x++ {
			for _, s := range r.sends[x] {
				if done, ok, m := s.result(); done && ok {
					found := false
					for _, rc := range r.recvs[1-x] {
						if d2, ok2, m2 := rc.result(); d2 && ok2 && m2.GetSignedMsg().EqualVT(m.GetSignedMsg()) {
							found = true
						}
					}
					if !found {
						c.Failf("c21-send-ok-before-partner-recv", desc, "a Send of side %d reported success but no Recv of the partner returned its message", x)
					}
				}
			}
		}
	})
	// (c) regression of the stale-ack history
	ids := newIdentities(c.Rng, 3)
	for i := 0; i < 2; i++ {
		what, steps := staleAckBackPressureScenario(ids, i == 1)
		c.Eval()
		c.Class("net:stale-ack-regression")
		if what != "" {
			c.Failf("c21-stale-ack-across-reopen", map[string]any{"history": steps}, "%s", what)
		}
	}
	for i := 0; i < 2; i++ {
		what, steps := staleAckScenario(ids)
		c.Eval()
		c.Class("net:late-ack-of-old-epoch")
		if what != "" {
			c.Failf("c21-send-ok-before-partner-recv", map[string]any{"history": steps}, "%s", what)
		} else if n := len(steps); n > 0 && (len(steps[n-1]) > 5 && (steps[n-1][:5] == "setup" || steps[n-1][:4] == "note")) {
			c.Class("net:late-ack-scenario-incomplete")
			c.Extra["late-ack-scenario"] = steps
		}
	}
	for i := 0; i < 2; i++ {
		what, steps := staleRecvScenario(ids)
		c.Eval()
		c.Class("net:stale-recv-across-reopen")
		if what != "" {
			c.Failf("c21-send-ok-before-partner-recv", map[string]any{"history": steps}, "%s", what)
		} else if n := len(steps); n > 0 && (len(steps[n-1]) > 5 && (steps[n-1][:5] == "setup" || steps[n-1][:4] == "note")) {
			c.Class("net:stale-recv-scenario-incomplete")
			c.Extra["stale-recv-scenario"] = steps
		}
	}
	// (b) concurrent histories
	nh := c.N / 12
	if nh < 6 {
		nh = 6
	}
	modes := []string{"", "", "drop-recv", "drop-send", "drop-ack", ""}
	for i := 0; i < nh; i++ {
		h := &history{peers: 2 + c.Rng.Intn(2), dropMode: modes[i%len(modes)]}
		s := runHistory(c.Rng, ids, h, 30+c.Rng.Intn(30))
		s.stabilise()
		time.Sleep(30 * time.Millisecond)
		s.close()
		c.Eval()
		c.Class("net:history-" + fmt.Sprint(h.peers) + "peers-" + map[bool]string{true: "honest", false: h.dropMode}[h.dropMode == ""])
		for _, b := range s.checkAckOrder() {
			c.Failf("c21-send-ok-before-partner-recv", map[string]any{"peers": h.peers, "relay": h.dropMode, "history": h.steps}, "%s", b)
		}
	}
}

func fixedC21() [][]*sop { return nil }
