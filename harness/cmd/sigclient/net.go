// Real relay server wired in-process to two or three real Clients; concurrent
// histories with reconnects, cancellations, back pressure and message drops,
// followed by a stable suffix.  Used by the C21 and C23 oracles.
package main

import (
	"context"
	"fmt"
	"math/rand"
	"sync"
	"sync/atomic"
	"time"

	signaling_rpc "github.com/aperturerobotics/bifrost/signaling/rpc"
	sigcli "github.com/aperturerobotics/bifrost/signaling/rpc/client"
)

type netEvent struct {
	stamp int64
	kind  string // send-start send-ok send-cancelled recv-call recv-got
	from  int
	to    int
	body  string
	call  int64 // id of the Recv call
}

type link struct {
	from, to int
	ref      *sigcli.ClientPeerRef
	gate     atomic.Bool // receiver calls Recv only while open
}

type netNode struct {
	id *identity
	nc *relayClient
	cl *sigcli.Client
}

type netSim struct {
	ctx    context.Context
	cancel context.CancelFunc
	net    *relayNet
	nodes  []*netNode
	links  map[[2]int]*link
	clock  atomic.Int64
	mu     sync.Mutex
	events []netEvent
	sends  []*netSend
	wg     sync.WaitGroup
}

type netSend struct {
	from, to int
	body     string
	call     *call
	cancelAt bool
}

func (s *netSim) log(e netEvent) int64 {
	e.stamp = s.clock.Add(1)
	s.mu.Lock()
	s.events = append(s.events, e)
	s.mu.Unlock()
	return e.stamp
}

func newNetSim(ids []*identity, pairs [][2]int) *netSim {
	le := quietLogger()
	ctx, cancel := context.WithCancel(context.Background())
	s := &netSim{ctx: ctx, cancel: cancel, net: newRelayNet(le), links: map[[2]int]*link{}}
	for _, id := range ids {
		nc := s.net.client(id.pid)
		cl := newClient(le, nc, id)
		cl.SetContext(ctx)
		s.nodes = append(s.nodes, &netNode{id: id, nc: nc, cl: cl})
	}
	for _, p := range pairs {
		for _, d := range [][2]int{{p[0], p[1]}, {p[1], p[0]}} {
			l := &link{from: d[0], to: d[1], ref: s.nodes[d[0]].cl.AddPeerRef(ids[d[1]].str)}
			l.gate.Store(true)
			s.links[d] = l
			s.wg.Add(1)
			go s.receiver(l)
		}
	}
	return s
}

// receiver is the application of node l.from reading messages of l.to.
func (s *netSim) receiver(l *link) {
	defer s.wg.Done()
	var n int64
	for s.ctx.Err() == nil {
		if !l.gate.Load() {
			time.Sleep(300 * time.Microsecond)
			continue
		}
		n++
		id := int64(l.from)<<40 | int64(l.to)<<32 | n
		s.log(netEvent{kind: "recv-call", from: l.to, to: l.from, call: id})
		cctx, cancel := context.WithTimeout(s.ctx, 3*time.Millisecond)
		if n%5 == 0 {
			// the application polls with an already cancelled context: it gets the pending
			// message or an error, never both
			cancel()
		}
		m, err := l.ref.Recv(cctx)
		cancel()
		if err == nil {
			s.log(netEvent{kind: "recv-got", from: l.to, to: l.from, body: string(m.GetSignedMsg().GetData()), call: id})
		}
	}
}

func (s *netSim) send(from, to int, body string) *netSend {
	l := s.links[[2]int{from, to}]
	ns := &netSend{from: from, to: to, body: body}
	s.log(netEvent{kind: "send-start", from: from, to: to, body: body})
	ns.call = startSend(s.ctx, l.ref, []byte(body), func(ok bool, m *signaling_rpc.SessionMsg) {
		k := "send-cancelled"
		if ok {
			k = "send-ok"
		}
		s.log(netEvent{kind: k, from: from, to: to, body: body})
	})
	s.mu.Lock()
	s.sends = append(s.sends, ns)
	s.mu.Unlock()
	return ns
}

// connsOf lists the live relay connections of node i (all its sessions).
func (s *netSim) connsOf(i int) []*relayConn {
	nc := s.nodes[i].nc
	nc.mu.Lock()
	defer nc.mu.Unlock()
	var out []*relayConn
	for _, c := range nc.conns {
		if !c.isDone() && c.ctx.Err() == nil {
			out = append(out, c)
		}
	}
	return out
}

func (s *netSim) close() {
	s.cancel()
	for _, n := range s.nodes {
		n.nc.setRefuse(true)
	}
	s.wg.Wait()
	s.mu.Lock()
	sends := append([]*netSend(nil), s.sends...)
	s.mu.Unlock()
	for _, ns := range sends {
		ns.call.wait(2 * time.Second)
	}
	for _, l := range s.links {
		l.ref.Release()
	}
	for _, n := range s.nodes {
		n.cl.ClearContext()
	}
}

// allOpen reports whether every link's tracker has an open session.
func (s *netSim) allOpen() bool {
	for _, l := range s.links {
		if l.ref.VerifState().Open == nil {
			return false
		}
	}
	return true
}

// checkAckOrder is the direct C21 oracle on the event log: every successful
// Send(b) from X to Y is preceded by a Recv call of Y on its session with X
// that returned b (the call's start stamp is used, which can only make the
// check weaker, never produce a false alarm).
func (s *netSim) checkAckOrder() []string {
	s.mu.Lock()
	defer s.mu.Unlock()
	type key struct {
		from, to int
		body     string
	}
	callStart := map[int64]int64{}
	gotAt := map[key]int64{} // earliest start stamp of a Recv call that returned the body
	for _, e := range s.events {
		switch e.kind {
		case "recv-call":
			callStart[e.call] = e.stamp
		case "recv-got":
			k := key{e.from, e.to, e.body}
			st := callStart[e.call]
			if old, ok := gotAt[k]; !ok || st < old {
				gotAt[k] = st
			}
		}
	}
	var bad []string
	for _, e := range s.events {
		if e.kind != "send-ok" {
			continue
		}
		st, ok := gotAt[key{e.from, e.to, e.body}]
		if !ok {
			bad = append(bad, fmt.Sprintf("Send %q %d->%d reported success but the partner's Recv never returned it", e.body, e.from, e.to))
		} else if st > e.stamp {
			bad = append(bad, fmt.Sprintf("Send %q %d->%d reported success (stamp %d) before the partner's Recv call that returned it had started (stamp %d)", e.body, e.from, e.to, e.stamp, st))
		}
	}
	return bad
}

// history is a generated concurrent scenario.
type history struct {
	peers    int
	steps    []string
	dropMode string
}

// runHistory executes a random history; returns the sim (still running) after
// the unstable prefix.
func runHistory(rng *rand.Rand, ids []*identity, h *history, nsteps int) *netSim {
	var pairs [][2]int
	if h.peers == 2 {
		pairs = [][2]int{{0, 1}}
	} else {
		pairs = [][2]int{{0, 1}, {0, 2}, {1, 2}}
	}
	s := newNetSim(ids[:h.peers], pairs)
	// message-dropping relay
	switch h.dropMode {
	case "drop-recv":
		for _, n := range s.nodes {
			n.nc.dropResp = dropEvery(3, func(r *signaling_rpc.SessionResponse) bool { return r.GetRecvMsg() != nil })
		}
	case "drop-send":
		for _, n := range s.nodes {
			n.nc.dropReq = dropEveryReq(3, func(r *signaling_rpc.SessionRequest) bool { return r.GetSendMsg() != nil })
		}
	case "drop-ack":
		for _, n := range s.nodes {
			n.nc.dropReq = dropEveryReq(2, func(r *signaling_rpc.SessionRequest) bool { return r.GetAckMsg() != 0 })
		}
	}
	waitUntil(3*time.Second, s.allOpen)
	var dirs [][2]int
	for d := range s.links {
		dirs = append(dirs, d)
	}
	// deterministic order of map keys
	for i := range dirs {
		for j := i + 1; j < len(dirs); j++ {
			if dirs[j][0] < dirs[i][0] || (dirs[j][0] == dirs[i][0] && dirs[j][1] < dirs[i][1]) {
				dirs[i], dirs[j] = dirs[j], dirs[i]
			}
		}
	}
	cnt := 0
	for k := 0; k < nsteps; k++ {
		d := dirs[rng.Intn(len(dirs))]
		switch x := rng.Intn(20); {
		case x < 7:
			cnt++
			body := fmt.Sprintf("m%d-%d>%d", cnt, d[0], d[1])
			s.send(d[0], d[1], body)
			h.steps = append(h.steps, "send "+body)
		case x < 9:
			// cancel a pending send
			s.mu.Lock()
			var pend []*netSend
			for _, ns := range s.sends {
				if !ns.call.finished() {
					pend = append(pend, ns)
				}
			}
			s.mu.Unlock()
			if len(pend) > 0 {
				ns := pend[rng.Intn(len(pend))]
				ns.cancelAt = true
				ns.call.cancel()
				h.steps = append(h.steps, "cancel "+ns.body)
			}
		case x < 12:
			// the stream of one session fails (client retries)
			cs := s.connsOf(d[0])
			if len(cs) > 0 {
				cs[rng.Intn(len(cs))].failConn(errStreamFailed)
				h.steps = append(h.steps, fmt.Sprintf("fail-conn %d", d[0]))
			}
		case x < 13:
			// a peer stays detached for a while
			s.nodes[d[0]].nc.setRefuse(true)
			for _, c := range s.connsOf(d[0]) {
				c.failConn(errStreamFailed)
			}
			h.steps = append(h.steps, fmt.Sprintf("detach %d", d[0]))
		case x < 15:
			s.nodes[d[0]].nc.setRefuse(false)
			h.steps = append(h.steps, fmt.Sprintf("reattach %d", d[0]))
		case x < 16:
			// back pressure on the relay->client direction
			for _, c := range s.connsOf(d[0]) {
				c.setHold(true)
			}
			h.steps = append(h.steps, fmt.Sprintf("hold %d", d[0]))
		case x < 17:
			for _, c := range s.connsOf(d[0]) {
				c.setHold(false)
			}
			h.steps = append(h.steps, fmt.Sprintf("unhold %d", d[0]))
		case x < 18:
			s.links[d].gate.Store(false)
			h.steps = append(h.steps, fmt.Sprintf("app %d stops receiving from %d", d[0], d[1]))
		default:
			s.links[d].gate.Store(true)
			h.steps = append(h.steps, fmt.Sprintf("app %d receives from %d", d[0], d[1]))
		}
		time.Sleep(time.Duration(rng.Intn(1500)) * time.Microsecond)
	}
	return s
}

// stabilise ends the unstable prefix: everybody may attach, nothing is held,
// every application receives.
func (s *netSim) stabilise() {
	for _, n := range s.nodes {
		n.nc.setRefuse(false)
		n.nc.mu.Lock()
		conns := append([]*relayConn(nil), n.nc.conns...)
		n.nc.mu.Unlock()
		for _, c := range conns {
			c.setHold(false)
		}
	}
	for _, l := range s.links {
		l.gate.Store(true)
	}
}

func dropEvery(n int, sel func(*signaling_rpc.SessionResponse) bool) func(*signaling_rpc.SessionResponse) bool {
	var k atomic.Int64
	return func(r *signaling_rpc.SessionResponse) bool {
		if !sel(r) {
			return false
		}
		return k.Add(1)%int64(n) == 0
	}
}

func dropEveryReq(n int, sel func(*signaling_rpc.SessionRequest) bool) func(*signaling_rpc.SessionRequest) bool {
	var k atomic.Int64
	return func(r *signaling_rpc.SessionRequest) bool {
		if !sel(r) {
			return false
		}
		return k.Add(1)%int64(n) == 0
	}
}
