package main

import (
	"context"
	"io"
	"math/rand"
	"sync"
	"time"

	"github.com/aperturerobotics/bifrost/crypto"
	"github.com/aperturerobotics/bifrost/peer"
	signaling_rpc "github.com/aperturerobotics/bifrost/signaling/rpc"
	sigcli "github.com/aperturerobotics/bifrost/signaling/rpc/client"
	"github.com/aperturerobotics/util/backoff"
	"github.com/sirupsen/logrus"
)

// identity is one key pair of the harness universe.
type identity struct {
	idx  int
	priv crypto.PrivKey
	pid  peer.ID
	str  string
}

func quietLogger() *logrus.Entry {
	l := logrus.New()
	l.SetOutput(io.Discard)
	l.SetLevel(logrus.PanicLevel)
	return logrus.NewEntry(l)
}

// newIdentities generates n Ed25519 identities from the seeded PRNG.
func newIdentities(rng *rand.Rand, n int) []*identity {
	out := make([]*identity, n)
	for i := range out {
		priv, _, err := crypto.GenerateKeyPairWithReader(crypto.KeyType_Ed25519, 0, rng)
		if err != nil {
			panic(err)
		}
		pid, err := peer.IDFromPrivateKey(priv)
		if err != nil {
			panic(err)
		}
		out[i] = &identity{idx: i, priv: priv, pid: pid, str: pid.String()}
	}
	return out
}

// fastBackoff retries after 1 ms.
func fastBackoff() *backoff.Backoff {
	return &backoff.Backoff{
		BackoffKind: backoff.BackoffKind_BackoffKind_CONSTANT,
		Constant:    &backoff.Constant{Interval: 1},
	}
}

func newClient(le *logrus.Entry, c signaling_rpc.SRPCSignalingClient, id *identity) *sigcli.Client {
	cl, err := sigcli.NewClient(le, c, id.priv, fastBackoff())
	if err != nil {
		panic(err)
	}
	return cl
}

// call is one application call (Send or Recv) running in its own goroutine.
type call struct {
	mu     sync.Mutex
	done   bool
	ok     bool
	msg    *signaling_rpc.SessionMsg
	err    error
	cancel context.CancelFunc
	doneCh chan struct{}
	// time stamps from the global event counter
	endEv int64
}

func (c *call) finished() bool {
	c.mu.Lock()
	defer c.mu.Unlock()
	return c.done
}

func (c *call) result() (done, ok bool, msg *signaling_rpc.SessionMsg) {
	c.mu.Lock()
	defer c.mu.Unlock()
	return c.done, c.ok, c.msg
}

func startSend(ctx context.Context, ref *sigcli.ClientPeerRef, body []byte, onDone func(ok bool, m *signaling_rpc.SessionMsg)) *call {
	cctx, cancel := context.WithCancel(ctx)
	c := &call{cancel: cancel, doneCh: make(chan struct{})}
	go func() {
		m, err := ref.Send(cctx, body)
		if onDone != nil {
			onDone(err == nil, m)
		}
		c.mu.Lock()
		c.done, c.ok, c.msg, c.err = true, err == nil, m, err
		c.mu.Unlock()
		close(c.doneCh)
	}()
	return c
}

func startRecv(ctx context.Context, ref *sigcli.ClientPeerRef, onDone func(ok bool, m *signaling_rpc.SessionMsg)) *call {
	cctx, cancel := context.WithCancel(ctx)
	c := &call{cancel: cancel, doneCh: make(chan struct{})}
	go func() {
		m, err := ref.Recv(cctx)
		if onDone != nil {
			onDone(err == nil, m)
		}
		c.mu.Lock()
		c.done, c.ok, c.msg, c.err = true, err == nil, m, err
		c.mu.Unlock()
		close(c.doneCh)
	}()
	return c
}

func (c *call) wait(d time.Duration) bool {
	select {
	case <-c.doneCh:
		return true
	case <-time.After(d):
		return false
	}
}
