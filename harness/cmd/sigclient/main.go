// Harness for the signaling client (C19, C21, C23): drives the real
// signaling_rpc_client.Client against a scripted relay, and real clients
// against the real relay server, and emits correspondence cases for
// SignalClient/Run.v.
package main

import (
	"verifharness/internal/hx"
)

func main() { hx.Main(run) }

func run(c *hx.Ctx) {
	c.Imports = "SignalClient.Run"
	c.ShardSize = 25
	switch c.Prop {
	case "C19":
		c19(c)
	case "C21":
		c21(c)
	case "C23":
		c23(c)
	default:
		panic("unknown property " + c.Prop)
	}
}
