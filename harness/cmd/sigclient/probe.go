package main

import (
	"context"
	"fmt"
	"time"

	signaling_rpc "github.com/aperturerobotics/bifrost/signaling/rpc"
	"verifharness/internal/hx"
)

func lastOpened(c *relayConn) (uint64, bool) {
	var v uint64
	ok := false
	for _, r := range c.responses() {
		switch b := r.GetBody().(type) {
		case *signaling_rpc.SessionResponse_Opened:
			v, ok = b.Opened, true
		case *signaling_rpc.SessionResponse_Closed:
			ok = false
		}
	}
	return v, ok
}

func probe(c *hx.Ctx) {
	ids := newIdentities(c.Rng, 3)
	le := quietLogger()
	ctx, cancel := context.WithCancel(context.Background())
	defer cancel()
	net := newRelayNet(le)
	A, B := ids[0], ids[1]
	ncA, ncB := net.client(A.pid), net.client(B.pid)
	cA, cB := newClient(le, ncA, A), newClient(le, ncB, B)
	cA.SetContext(ctx)
	cB.SetContext(ctx)
	refA := cA.AddPeerRef(B.str)
	refB := cB.AddPeerRef(A.str)
	ok := waitUntil(5*time.Second, func() bool {
		return refA.VerifState().Open != nil && refB.VerifState().Open != nil
	})
	fmt.Println("both open:", ok, *refA.VerifState().Open, *refB.VerifState().Open)
	// hold responses to A, then let B send something to A so that A's relay loop blocks in Send
	connA := ncA.last()
	connA.setHold(true)
	sB := startSend(ctx, refB, []byte("from-b"), nil)
	time.Sleep(20 * time.Millisecond)
	// A sends m1, B receives and acks
	sA := startSend(ctx, refA, []byte("m1"), nil)
	rB := startRecv(ctx, refB, nil)
	fmt.Println("B recv done:", rB.wait(2*time.Second))
	time.Sleep(20 * time.Millisecond)
	fmt.Println("A send finished early?", sA.finished())
	// B's connection fails and B re-attaches
	nB := ncB.count()
	ncB.last().failConn(errStreamFailed)
	ok = waitUntil(5*time.Second, func() bool { return ncB.count() > nB })
	time.Sleep(30 * time.Millisecond)
	stB := refB.VerifState()
	fmt.Println("B reattached:", ok, "B open:", stB.Open != nil, "B recv nil:", stB.Recv == nil)
	if stB.Open != nil {
		fmt.Println("B epoch", *stB.Open)
	}
	// release A
	connA.setHold(false)
	fmt.Println("A send done:", sA.wait(2*time.Second))
	d, okk, _ := sA.result()
	stA := refA.VerifState()
	fmt.Println("A send result done/ok:", d, okk, "A open", *stA.Open)
	stB = refB.VerifState()
	fmt.Println("B state after: recv nil?", stB.Recv == nil, "epoch", *stB.Open)
	for _, r := range connA.responses() {
		fmt.Println("  A<-relay:", r.String())
	}
	_ = sB
}
