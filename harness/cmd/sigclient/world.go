// Composition scripts: the real relay server between two real clients, driven
// sequentially (GOMAXPROCS(1), run to quiescence after every operation) and
// compared with the composed model (SignalClient/Compose.v, wsettle).
package main

import (
	"context"
	"errors"
	"fmt"
	"runtime"

	sigcli "github.com/aperturerobotics/bifrost/signaling/rpc/client"
	"verifharness/internal/hx"
)

type worldRunner struct {
	ids   []*identity
	tab   *symtab
	ctx   context.Context
	stop  context.CancelFunc
	nc    [2]*relayClient
	cl    [2]*sigcli.Client
	ref   [2]*sigcli.ClientPeerRef
	cur   [2]*execRun
	sends [2][]*call
	recvs [2][]*call

	opTerms, obsTerms, desc []string
}

func sideBool(x int) string {
	if x == 0 {
		return "true"
	}
	return "false"
}

func newWorldRunner(ids []*identity) *worldRunner {
	le := quietLogger()
	r := &worldRunner{ids: ids, tab: &symtab{ids: ids[:2], tab: map[string]*symSigned{}}}
	r.ctx, r.stop = context.WithCancel(context.Background())
	net := newRelayNet(le)
	for x := 0; x < 2; x++ {
		r.nc[x] = net.client(ids[x].pid)
		r.cl[x] = newClient(le, r.nc[x], ids[x])
		r.ref[x] = r.cl[x].AddPeerRef(ids[1-x].str)
	}
	return r
}

func (r *worldRunner) close() {
	r.stop()
	settleSched()
	for x := 0; x < 2; x++ {
		r.ref[x].Release()
	}
}

func (r *worldRunner) running(cs []*call) (n int, idx []int) {
	for i, c := range cs {
		if !c.finished() {
			n++
			idx = append(idx, i)
		}
	}
	return
}

func (r *worldRunner) apply(kind string, x int, body []byte, idx int) {
	var term string
	switch kind {
	case "conn":
		term = hx.App("WoConn", sideBool(x))
		if r.cur[x] == nil {
			ectx, cancel := context.WithCancel(r.ctx)
			run := &execRun{cancel: cancel}
			r.cur[x] = run
			ref := r.ref[x]
			go func() {
				err := ref.VerifExecute(ectx)
				run.mu.Lock()
				run.done, run.err = true, err
				run.mu.Unlock()
			}()
		}
	case "fail":
		term = hx.App("WoFail", sideBool(x))
		if r.cur[x] != nil {
			if c := r.nc[x].last(); c != nil {
				c.failConn(errStreamFailed)
			}
		}
	case "send":
		term = hx.App("WoSend", sideBool(x), hx.Bytes(body))
		r.sends[x] = append(r.sends[x], startSend(r.ctx, r.ref[x], body, nil))
	case "cancelsend":
		term = hx.App("WoCancelSend", sideBool(x), hx.Nat(idx))
		if idx < len(r.sends[x]) {
			r.sends[x][idx].cancel()
		}
	case "recv":
		term = hx.App("WoRecv", sideBool(x))
		r.recvs[x] = append(r.recvs[x], startRecv(r.ctx, r.ref[x], nil))
	case "recvc":
		term = hx.App("WoRecvC", sideBool(x))
		cctx, cancel := context.WithCancel(r.ctx)
		cancel()
		r.recvs[x] = append(r.recvs[x], startRecv(cctx, r.ref[x], nil))
	case "sendc":
		term = hx.App("WoSendC", sideBool(x), hx.Bytes(body))
		cctx, cancel := context.WithCancel(r.ctx)
		cancel()
		r.sends[x] = append(r.sends[x], startSend(cctx, r.ref[x], body, nil))
	case "cancelrecv":
		term = hx.App("WoCancelRecv", sideBool(x), hx.Nat(idx))
		if idx < len(r.recvs[x]) {
			r.recvs[x][idx].cancel()
		}
	}
	settleSched()
	var sides [2]string
	var d string
	for s := 0; s < 2; s++ {
		if r.cur[s] != nil {
			r.cur[s].mu.Lock()
			done := r.cur[s].done
			r.cur[s].mu.Unlock()
			if done {
				r.cur[s] = nil
			}
		}
		st := r.ref[s].VerifState()
		tk := hx.App("mkT", optU(st.Open), r.tab.optTerm(st.Out), hx.Bool(st.OutSent), hx.Bool(st.OutAcked),
			hx.Bool(st.OutCancel), r.tab.optTerm(st.Recv), hx.Bool(st.RecvProcessed))
		var sc, rc []string
		for _, c := range r.sends[s] {
			done, ok, _ := c.result()
			code := 0
			switch {
			case done && ok:
				code = 1
			case done && errors.Is(c.err, context.Canceled):
				code = 2
			case done:
				code = 3
			}
			sc = append(sc, hx.Nat(code))
		}
		for _, c := range r.recvs[s] {
			done, ok, m := c.result()
			switch {
			case done && ok:
				rc = append(rc, "(1%nat, "+r.tab.optTerm(m)+")")
			case done:
				rc = append(rc, "(2%nat, None)")
			default:
				rc = append(rc, "(0%nat, None)")
			}
		}
		sides[s] = hx.App("mkSO", hx.Bool(r.cur[s] != nil), tk, hx.List(sc), hx.List(rc))
		op := "-"
		if st.Open != nil {
			op = fmt.Sprint(*st.Open)
		}
		d += fmt.Sprintf(" %s{up=%v open=%s out=%v recv=%v}", []string{"A", "B"}[s], r.cur[s] != nil, op, st.Out != nil, st.Recv != nil)
	}
	r.opTerms = append(r.opTerms, term)
	r.obsTerms = append(r.obsTerms, "("+sides[0]+", "+sides[1]+")")
	r.desc = append(r.desc, fmt.Sprintf("%s %s ->%s", kind, []string{"A", "B"}[x], d))
}

func (r *worldRunner) caseTerm() string {
	return hx.App("WC", hx.List(r.opTerms), hx.List(r.obsTerms))
}

// runWorldScripts generates n composition scripts; wFail weights stream failures.
func runWorldScripts(c *hx.Ctx, n int, wFail, wCancel int, fixed [][][3]any, check func(r *worldRunner, desc map[string]any)) {
	prev := runtime.GOMAXPROCS(1)
	defer runtime.GOMAXPROCS(prev)
	ids := newIdentities(c.Rng, 2)
	for i := 0; i < n+len(fixed); i++ {
		r := newWorldRunner(ids)
		if i < len(fixed) {
			for _, o := range fixed[i] {
				b, _ := o[2].(string)
				r.apply(o[0].(string), o[1].(int), []byte(b), 0)
			}
			c.Class("world:fixed-script")
		} else {
			steps := 8 + c.Rng.Intn(14)
			for k := 0; k < steps; k++ {
				x := c.Rng.Intn(2)
				if r.cur[x] == nil && c.Rng.Intn(4) != 0 {
					r.apply("conn", x, nil, 0)
					c.Class("world:conn")
					continue
				}
				nS, sIdx := r.running(r.sends[x])
				nR, rIdx := r.running(r.recvs[x])
				switch v := c.Rng.Intn(20 + wFail + wCancel); {
				case v < 8:
					if nS == 0 {
						b := []byte{byte(97 + c.Rng.Intn(4)), byte(97 + c.Rng.Intn(4))}
						r.apply("send", x, b, 0)
						c.Class("world:send")
					}
				case v < 16:
					if nR == 0 {
						if c.Rng.Intn(3) == 0 {
							r.apply("recvc", x, nil, 0)
							c.Class("world:recv-cancelled-ctx")
						} else {
							r.apply("recv", x, nil, 0)
							c.Class("world:recv")
						}
					} else if st := r.ref[x].VerifState(); nS <= 1 && c.Rng.Intn(3) == 0 && (st.Open == nil || st.Out != nil) {
						r.apply("sendc", x, []byte{byte(97 + c.Rng.Intn(4))}, 0)
						c.Class("world:send-cancelled-ctx")
					}
				case v < 18:
					if r.cur[x] == nil {
						r.apply("conn", x, nil, 0)
						c.Class("world:conn")
					}
				case v < 20+wFail:
					r.apply("fail", x, nil, 0)
					c.Class("world:fail")
				default:
					if nS > 0 && c.Rng.Intn(2) == 0 {
						r.apply("cancelsend", x, nil, sIdx[0])
						c.Class("world:cancel-send")
					} else if nR > 0 {
						r.apply("cancelrecv", x, nil, rIdx[0])
						c.Class("world:cancel-recv")
					}
				}
			}
		}
		desc := map[string]any{"kind": "composition", "script": r.desc, "index": i}
		c.Case(r.caseTerm(), desc)
		c.Nontrivial(fmt.Sprint(r.opTerms))
		if check != nil {
			check(r, desc)
		}
		r.close()
	}
}
