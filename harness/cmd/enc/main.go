// Harness for peer.EncryptToPubKey / DecryptWithPrivKey (C12) and the WebRTC
// signalling use of them (C26): runs the real code on real keys and emits
// correspondence cases for Enc/Run.v plus the direct property oracle.
package main

import (
	"bytes"
	"errors"
	"fmt"
	"math/rand"
	"strings"

	"github.com/aperturerobotics/bifrost/crypto"
	"github.com/aperturerobotics/bifrost/peer"
	"github.com/aperturerobotics/bifrost/transport/webrtc"
	"verifharness/internal/hx"
)

func main() { hx.Main(run) }

func run(c *hx.Ctx) {
	c.Imports = "Enc.Model Enc.Run"
	c.ShardSize = 40
	switch c.Prop {
	case "C12":
		c12(c)
	case "C26":
		c26(c)
	default:
		panic("unknown property " + c.Prop)
	}
}

type rngReader struct{ r *rand.Rand }

func (r rngReader) Read(p []byte) (int, error) {
	for i := range p {
		p[i] = byte(r.r.Intn(256))
	}
	return len(p), nil
}

type keypair struct {
	priv crypto.PrivKey
	pub  crypto.PubKey
}

func genKeys(c *hx.Ctx, n int) []keypair {
	out := make([]keypair, n)
	for i := range out {
		priv, pub, err := crypto.GenerateEd25519Key(rngReader{c.Rng})
		if err != nil {
			panic(err)
		}
		out[i] = keypair{priv, pub}
	}
	return out
}

// ---- mutations (mirrors Enc/Run.v mutation) ----

type encSpec struct {
	k   int
	ctx string
	msg []byte
	// atom: message represented by an opaque atom in Coq (large messages)
	atom bool
}

type mutation struct {
	kind  string // none flip set trunc ext raw splice
	pos   int
	d     byte
	extra []byte
	other *encSpec
	oct   []byte
}

func (m mutation) apply(ct []byte) []byte {
	out := append([]byte{}, ct...)
	switch m.kind {
	case "none":
	case "flip":
		if m.pos < len(out) {
			out[m.pos] ^= m.d
		}
	case "set":
		if m.pos < len(out) {
			out[m.pos] = m.d
		}
	case "trunc":
		if m.pos < len(out) {
			out = out[:m.pos]
		}
	case "ext":
		out = append(out, m.extra...)
	case "raw":
		out = append([]byte{}, m.extra...)
	case "splice":
		n := m.pos
		a := out
		if n < len(a) {
			a = a[:n]
		}
		var b []byte
		if n < len(m.oct) {
			b = m.oct[n:]
		}
		out = append(append([]byte{}, a...), b...)
	}
	return out
}

func msgTerm(e encSpec, id int) string {
	if e.atom {
		return hx.App("MA", hx.Nat(id), hx.Nat(8))
	}
	return hx.App("MB", hx.Bytes(e.msg))
}

func specTerm(e encSpec, ctLen int, id int) string {
	s2n := ctLen - 36 - 16 - 1
	if e.atom {
		s2n = 10
	}
	if s2n < 0 {
		s2n = 0
	}
	return "(" + hx.Nat(e.k) + ", " + hx.Str(e.ctx) + ", " + msgTerm(e, id) + ", " + hx.Nat(s2n) + ")"
}

func (m mutation) term(ctLen int) string {
	switch m.kind {
	case "none":
		return "MNone"
	case "flip":
		return hx.App("MFlip", hx.Nat(m.pos), hx.Z(int64(m.d)))
	case "set":
		return hx.App("MSet", hx.Nat(m.pos), hx.Z(int64(m.d)))
	case "trunc":
		return hx.App("MTrunc", hx.Nat(m.pos))
	case "ext":
		return hx.App("MExt", hx.Bytes(m.extra))
	case "raw":
		return hx.App("MRaw", hx.Bytes(m.extra))
	case "splice":
		return hx.App("MSplice", hx.Nat(m.pos), specTerm(*m.other, len(m.oct), 2))
	}
	panic("bad mutation")
}

func classify(err error) int {
	switch {
	case errors.Is(err, peer.ErrShortMessage):
		return 1
	case errors.Is(err, peer.ErrInvalidEd25519PubKeyForCurve25519):
		return 2
	default:
		return 3
	}
}

type obs struct {
	panicked bool
	err      error
	out      []byte
}

func decrypt(priv crypto.PrivKey, ctx string, ct []byte) obs {
	var o obs
	p, v := hx.Catch(func() { o.out, o.err = peer.DecryptWithPrivKey(priv, ctx, ct) })
	if p {
		o.panicked = true
		o.err = fmt.Errorf("panic: %v", v)
	}
	return o
}

func (o obs) term(same bool) string {
	switch {
	case o.panicked:
		return "ObsPanic"
	case o.err != nil:
		return hx.App("ObsErr", hx.Nat(classify(o.err)))
	default:
		return hx.App("ObsOk", hx.Bool(same))
	}
}

// vbit: the oracle bit "the unwrapped block is a usable curve point" that
// reproduces the observed error (DESIGN 4.3): false exactly when the
// implementation reported the invalid-point error.
func (o obs) vbit() bool {
	return !(o.err != nil && !o.panicked && errors.Is(o.err, peer.ErrInvalidEd25519PubKeyForCurve25519))
}

// pickMutation draws a mutation of a ciphertext of length n by region.
func pickMutation(c *hx.Ctx, n int, mkOther func() (*encSpec, []byte)) mutation {
	nz := func() byte { return byte(1 + c.Rng.Intn(255)) }
	switch c.Rng.Intn(16) {
	case 0: // nonce prefix
		return mutation{kind: "flip", pos: c.Rng.Intn(4), d: nz()}
	case 1: // AES-wrapped half of the message key
		return mutation{kind: "flip", pos: 4 + c.Rng.Intn(16), d: nz()}
	case 2: // clear half of the message key, incl. the sign bit
		if c.Rng.Intn(3) == 0 {
			return mutation{kind: "flip", pos: 35, d: 0x80}
		}
		return mutation{kind: "flip", pos: 20 + c.Rng.Intn(16), d: nz()}
	case 3: // body
		if n > 52 {
			return mutation{kind: "flip", pos: 36 + c.Rng.Intn(n-52), d: nz()}
		}
		return mutation{kind: "flip", pos: n - 1, d: nz()}
	case 4: // tag
		return mutation{kind: "flip", pos: n - 1 - c.Rng.Intn(16), d: nz()}
	case 5, 6:
		ts := []int{0, 1, 3, 4, 33, 34, 35, 36, 37, 51, 52, n - 17, n - 16, n - 1}
		t := ts[c.Rng.Intn(len(ts))]
		if t < 0 {
			t = 0
		}
		if t >= n {
			t = n - 1
		}
		return mutation{kind: "trunc", pos: t}
	case 7:
		return mutation{kind: "ext", extra: c.RandBytes(1 + c.Rng.Intn(5))}
	case 8:
		return mutation{kind: "set", pos: c.Rng.Intn(n), d: byte(c.Rng.Intn(256))}
	case 9, 10:
		o, oct := mkOther()
		ps := []int{0, 4, 20, 36, n - 16}
		p := ps[c.Rng.Intn(len(ps))]
		if p < 0 {
			p = 0
		}
		return mutation{kind: "splice", pos: p, other: o, oct: oct}
	case 11:
		return mutation{kind: "raw", extra: c.RandBytes(c.Rng.Intn(61))}
	default:
		return mutation{kind: "none"}
	}
}

func c12(c *hx.Ctx) {
	c.Type = "c12_case"
	c.Agree = "c12_agree"
	c.Rule = "EncryptToPubKey then DecryptWithPrivKey on 3 key pairs x 3 contexts (one a KDF-label collision candidate) x messages (empty, 1 byte, short, few hundred bytes, one 100KB as an atom); decryption key/context equal or different; ciphertext mutated by region (nonce prefix, AES-wrapped key half, clear key half incl. sign bit, body, tag), truncations 0/33/34/35/36/51/.., extensions, splices with another honest ciphertext, raw random bytes of every length 0..60; observed = ok+same / error class / panic; non-trivial = distinct (input, mutation) with a decryption attempt on >= 36 bytes"
	keys := genKeys(c, 3)
	ctxs := []string{"app v1", "nonce app v1", ""}
	text := []byte(strings.Repeat("the quick brown fox jumps over the lazy dog. ", 7))
	msgs := [][]byte{{}, {7}, c.RandBytes(5 + c.Rng.Intn(30)), text[:300], c.RandBytes(200)}
	encrypt := func(e encSpec) []byte {
		var ct []byte
		var err error
		p, v := hx.Catch(func() { ct, err = peer.EncryptToPubKey(keys[e.k].pub, e.ctx, e.msg) })
		if p {
			c.Failf("encrypt-panic", map[string]any{"key": e.k, "ctx": e.ctx, "msg": hx.Hex(e.msg)}, "EncryptToPubKey panicked: %v", v)
			return nil
		}
		if err != nil {
			c.Failf("encrypt-failed", map[string]any{"key": e.k, "ctx": e.ctx, "msg": hx.Hex(e.msg)}, "EncryptToPubKey to an honest key failed: %v", err)
			return nil
		}
		return ct
	}
	ncases := 0
	one := func(e encSpec, mu mutation, kD int, ctxD string) {
		ct := encrypt(e)
		if ct == nil {
			return
		}
		ncases++
		if mu.kind == "set" && mu.pos < len(ct) && ct[mu.pos] == mu.d {
			mu.d ^= 1
		}
		ct2 := mu.apply(ct)
		ct2orig := append([]byte{}, ct2...)
		o := decrypt(keys[kD].priv, ctxD, ct2)
		checkPure(c, keys[kD].priv, ctxD, ct2, ct2orig, o)
		same := o.err == nil && bytes.Equal(o.out, e.msg)
		changed := !bytes.Equal(ct, ct2)
		desc := map[string]any{"kind": "enc", "key": e.k, "ctx": e.ctx, "msg": hx.Hex(trunc(e.msg)), "msg_len": len(e.msg),
			"mutation": mu.kind, "pos": mu.pos, "d": mu.d, "extra": hx.Hex(mu.extra), "dec_key": kD, "dec_ctx": ctxD,
			"ct_len": len(ct), "result": o.term(same)}
		c.Case(hx.App("Enc12", specTerm(e, len(ct), 1), mu.term(len(ct)), hx.Nat(kD), hx.Str(ctxD), hx.Bool(o.vbit()), o.term(same)), desc)
		c.Class("mut-" + mu.kind)
		if len(ct2) >= 36 {
			c.Nontrivial(fmt.Sprint(e.k, e.ctx, hx.Hex(trunc(e.msg)), mu.kind, mu.pos, mu.d, hx.Hex(mu.extra), kD, ctxD))
		}
		// ---- direct property oracle ----
		if mu.kind == "splice" && bytes.Equal(ct2, mu.oct) {
			// the whole ciphertext was replaced by another honest one: judge against that one
			e, ct, changed = *mu.other, mu.oct, false
			same = o.err == nil && bytes.Equal(o.out, e.msg)
		}
		switch {
		case o.panicked:
			c.Failf("decrypt-panic", desc, "DecryptWithPrivKey panicked: %v", o.err)
		case !changed && kD == e.k && ctxD == e.ctx:
			if o.err != nil {
				c.Failf("roundtrip-error", desc, "decrypting an untouched ciphertext with the matching key and context failed: %v", o.err)
			} else if !same {
				c.Failf("roundtrip-other-plaintext", desc, "round trip returned %x", trunc(o.out))
			}
		case o.err == nil && !same:
			c.Failf("other-plaintext", desc, "decryption returned a plaintext different from the encrypted message: %x", trunc(o.out))
		case o.err == nil && changed:
			c.Failf("mutated-ciphertext-accepted", desc, "a modified ciphertext decrypted without error")
		case o.err == nil && kD != e.k:
			c.Failf("wrong-key-accepted", desc, "decryption with a different private key succeeded")
		case o.err == nil && ctxD != e.ctx:
			c.Failf("wrong-context-accepted", desc, "decryption with a different context succeeded")
		}
	}
	pickSpec := func() encSpec {
		return encSpec{k: c.Rng.Intn(3), ctx: ctxs[c.Rng.Intn(3)], msg: msgs[c.Rng.Intn(len(msgs))]}
	}
	mkOther := func(base encSpec) func() (*encSpec, []byte) {
		return func() (*encSpec, []byte) {
			o := base
			switch c.Rng.Intn(3) {
			case 0:
				o.msg = append(append([]byte{}, base.msg...), 1)
			case 1:
				o.k = (base.k + 1) % 3
			default:
				o.ctx = ctxs[(indexOf(ctxs, base.ctx)+1)%3]
			}
			return &o, encrypt(o)
		}
	}
	// fixed grid first: every key x context x small message, untouched and crossed
	for k := 0; k < 3; k++ {
		for ci := range ctxs {
			e := encSpec{k: k, ctx: ctxs[ci], msg: msgs[(k+ci)%3]}
			one(e, mutation{kind: "none"}, k, ctxs[ci])
			one(e, mutation{kind: "none"}, (k+1)%3, ctxs[ci])
			one(e, mutation{kind: "none"}, k, ctxs[(ci+1)%3])
		}
	}
	// every truncation of one ciphertext around the header boundary
	{
		e := encSpec{k: 0, ctx: ctxs[0], msg: msgs[2]}
		for _, t := range []int{0, 33, 34, 35, 36, 51} {
			one(e, mutation{kind: "trunc", pos: t}, 0, ctxs[0])
		}
	}
	// the large message: decisions only (an atom on the Coq side)
	{
		big := c.RandBytes(100 * 1024)
		e := encSpec{k: 1, ctx: ctxs[0], msg: big, atom: true}
		one(e, mutation{kind: "none"}, 1, ctxs[0])
		one(e, mutation{kind: "none"}, 2, ctxs[0])
		one(e, mutation{kind: "none"}, 1, ctxs[1])
		c.Class("large")
	}
	// content classes x size classes: compressibility matters to the s2 layer.
	// Sizes above 64 bytes are atoms on the Coq side (decisions only); the oracle
	// compares the full plaintext.
	for ci, class := range contentClasses {
		for _, size := range []int{0, 1, 15, 16, 17, 4095, 4096, 4097, 8 << 10, 64 << 10, 1 << 20} {
			k, ctx := (ci+size)%3, ctxs[(ci+size/3)%3]
			e := encSpec{k: k, ctx: ctx, msg: content(c, class, size), atom: size > 64}
			one(e, mutation{kind: "none"}, k, ctx)
			c.Class("content-" + class)
			c.Class(fmt.Sprintf("size-%d", size))
			if size >= 4095 && size < 1<<20 {
				one(e, mutation{kind: "none"}, (k+1)%3, ctx)
			}
			if size == 8<<10 || size == 16 {
				one(e, mutation{kind: "none"}, k, ctxs[(indexOf(ctxs, ctx)+1)%3])
				one(e, mutation{kind: "flip", pos: 4 + c.Rng.Intn(32), d: byte(1 + c.Rng.Intn(255))}, k, ctx)
				one(e, mutation{kind: "ext", extra: []byte{0}}, k, ctx)
			}
		}
	}
	// string classes for the context: (encrypt context, decrypt context) pairs.
	// Decryption must succeed iff the two contexts are equal byte for byte.
	for i, pr := range stringPairs(c) {
		e := encSpec{k: i % 3, ctx: pr.a, msg: msgs[2]}
		c.Class("ctxpair-" + pr.class)
		if pr.coq {
			one(e, mutation{kind: "none"}, e.k, pr.b)
			continue
		}
		ct := encrypt(e)
		if ct == nil {
			continue
		}
		o := decrypt(keys[e.k].priv, pr.b, ct)
		c.Eval()
		in := map[string]any{"kind": "ctxpair", "class": pr.class, "enc_ctx": hx.Hex([]byte(pr.a)), "dec_ctx": hx.Hex([]byte(pr.b))}
		switch {
		case o.panicked:
			c.Failf("decrypt-panic", in, "DecryptWithPrivKey panicked: %v", o.err)
		case pr.a == pr.b && (o.err != nil || !bytes.Equal(o.out, e.msg)):
			c.Failf("roundtrip-error", in, "round trip under a %d-byte context failed: %v", len(pr.a), o.err)
		case pr.a != pr.b && o.err == nil:
			c.Failf("wrong-context-accepted", in, "decryption under a different context (%s) succeeded", pr.class)
		}
	}
	// raw random ciphertexts of every length 0..60
	for n := 0; n <= 60; n++ {
		e := encSpec{k: n % 3, ctx: ctxs[n%3], msg: msgs[1]}
		one(e, mutation{kind: "raw", extra: c.RandBytes(n)}, n%3, ctxs[n%3])
	}
	// encryption to unusable public keys (low-order points)
	for _, pb := range [][]byte{make([]byte, 32), append([]byte{1}, make([]byte, 31)...)} {
		pk, err := crypto.UnmarshalEd25519PublicKey(pb)
		if err != nil {
			continue
		}
		var eerr error
		p, v := hx.Catch(func() { _, eerr = peer.EncryptToPubKey(pk, ctxs[0], []byte{1, 2}) })
		o := obs{panicked: p, err: eerr}
		if p {
			o.err = fmt.Errorf("panic %v", v)
			c.Failf("encrypt-panic", hx.Hex(pb), "EncryptToPubKey panicked on a low-order key")
		}
		c.Case(hx.App("EncBad", hx.Bytes(pb), hx.Str(ctxs[0]), hx.Bytes([]byte{1, 2}), hx.Bool(o.vbit()), o.term(true)),
			map[string]any{"kind": "encbad", "pub": hx.Hex(pb), "result": o.term(true)})
		c.Class("enc-bad-key")
	}
	// random structured cases
	for ncases < c.N {
		e := pickSpec()
		ct := encrypt(e)
		if ct == nil {
			break
		}
		mu := pickMutation(c, len(ct), mkOther(e))
		kD, ctxD := e.k, e.ctx
		switch c.Rng.Intn(6) {
		case 0:
			kD = (e.k + 1 + c.Rng.Intn(2)) % 3
		case 1:
			ctxD = ctxs[(indexOf(ctxs, e.ctx)+1+c.Rng.Intn(2))%3]
		}
		one(e, mu, kD, ctxD)
	}
	// volume without Coq: random and mutated ciphertexts, oracle only
	extra := c.N * 4
	for i := 0; i < extra; i++ {
		e := pickSpec()
		ct := encrypt(e)
		if ct == nil {
			break
		}
		var ct2 []byte
		if i%2 == 0 {
			ct2 = c.RandBytes(c.Rng.Intn(120))
		} else {
			mu := pickMutation(c, len(ct), mkOther(e))
			ct2 = mu.apply(ct)
			if mu.kind == "splice" && bytes.Equal(ct2, mu.oct) {
				continue
			}
		}
		ct2orig := append([]byte{}, ct2...)
		o := decrypt(keys[e.k].priv, e.ctx, ct2)
		checkPure(c, keys[e.k].priv, e.ctx, ct2, ct2orig, o)
		c.Eval()
		if o.panicked {
			c.Failf("decrypt-panic", map[string]any{"key": e.k, "ctx": e.ctx, "ct": hx.Hex(ct2)}, "DecryptWithPrivKey panicked: %v", o.err)
		} else if o.err == nil && !bytes.Equal(ct, ct2) {
			c.Failf("mutated-ciphertext-accepted", map[string]any{"key": e.k, "ctx": e.ctx, "ct": hx.Hex(ct2)}, "a modified/random ciphertext decrypted without error")
		}
	}
}

var contentClasses = []string{"random", "zeros", "one-byte", "pattern8", "prefix-run", "text"}

// content builds a message of the given size and compressibility class.
func content(c *hx.Ctx, class string, n int) []byte {
	out := make([]byte, n)
	switch class {
	case "random":
		copy(out, c.RandBytes(n))
	case "zeros":
	case "one-byte":
		for i := range out {
			out[i] = 0xaa
		}
	case "pattern8":
		pat := c.RandBytes(8)
		for i := range out {
			out[i] = pat[i%8]
		}
	case "prefix-run": // incompressible prefix followed by a long run
		p := 512
		if p > n/2 {
			p = n / 2
		}
		copy(out, c.RandBytes(p))
	default: // text-like
		words := []string{"offer ", "answer ", "candidate:1 udp ", "v=0\r\n", "a=group:BUNDLE 0 ", "peer ", "the quick brown fox "}
		i := 0
		for i < n {
			i += copy(out[i:], words[c.Rng.Intn(len(words))])
		}
	}
	return out
}

// checkPure: decryption is a function of (key, context, ciphertext bytes): it
// must not modify the caller's ciphertext and must give the same answer again.
func checkPure(c *hx.Ctx, priv crypto.PrivKey, ctx string, ct, orig []byte, first obs) {
	in := map[string]any{"ctx": ctx, "ct": hx.Hex(trunc(orig)), "ct_len": len(orig)}
	if !bytes.Equal(ct, orig) {
		c.Failf("decrypt-modifies-ciphertext", in, "DecryptWithPrivKey changed the caller's ciphertext buffer")
	}
	second := decrypt(priv, ctx, ct)
	if (first.err == nil) != (second.err == nil) || (first.err == nil && !bytes.Equal(first.out, second.out)) {
		c.Failf("decrypt-not-repeatable", in, "decrypting the same buffer twice gave different results: first err=%v, second err=%v", first.err, second.err)
	}
	if third := decrypt(priv, ctx, append([]byte{}, orig...)); (first.err == nil) != (third.err == nil) {
		c.Failf("decrypt-not-repeatable", in, "decrypting a copy of the original bytes gave a different result: first err=%v, copy err=%v", first.err, third.err)
	}
}

func indexOf(l []string, s string) int {
	for i, x := range l {
		if x == s {
			return i
		}
	}
	return 0
}

func trunc(b []byte) []byte {
	if len(b) > 48 {
		return b[:48]
	}
	return b
}

// ---- C26 ----

func c26(c *hx.Ctx) {
	c.Type = "c26_case"
	c.Agree = "c26_agree"
	c.Rule = "EncodeWebRtcSignal/DecodeWebRtcSignal on signals of every kind (request_offer, sdp offer/answer, ice, empty) x 3 key pairs; decoding with the right/other key, under the WebRTC context or another context, payload mutated by region or replaced by random bytes; isOfferer on pairs from a 200-string universe (real peer ids, prefixes of each other, equal strings); non-trivial = distinct signal/mutation/key tuple or distinct id pair"
	keys := genKeys(c, 3)
	// the context constant the code uses is the one the model was generated from
	c.Case(hx.App("Ctx26", hx.Str(webrtc.SignalingCryptContext)), map[string]any{"kind": "ctx", "ctx": webrtc.SignalingCryptContext})
	otherCtxs := []string{"", "github.com/aperturerobotics/bifrost 2024-01-15 17:58:55 webrtc signaling ", "bifrost/signaling/rpc", "some other application context"}
	mkSignal := func() *webrtc.WebRtcSignal {
		switch c.Rng.Intn(6) {
		case 0:
			return &webrtc.WebRtcSignal{Body: &webrtc.WebRtcSignal_RequestOffer{RequestOffer: uint64(c.Rng.Intn(1 << 20))}}
		case 1:
			return &webrtc.WebRtcSignal{Body: &webrtc.WebRtcSignal_Sdp{Sdp: &webrtc.WebRtcSdp{TxSeqno: uint64(c.Rng.Intn(100)), SdpType: "offer",
				Sdp: "v=0\r\no=- " + fmt.Sprint(c.Rng.Int63()) + " 2 IN IP4 127.0.0.1\r\ns=-\r\nt=0 0\r\na=group:BUNDLE 0\r\n"}}}
		case 2:
			return &webrtc.WebRtcSignal{Body: &webrtc.WebRtcSignal_Sdp{Sdp: &webrtc.WebRtcSdp{TxSeqno: uint64(c.Rng.Intn(100)), SdpType: "answer", Sdp: "v=0\r\n"}}}
		case 3:
			return &webrtc.WebRtcSignal{Body: &webrtc.WebRtcSignal_Ice{Ice: &webrtc.WebRtcIce{Candidate: fmt.Sprintf(`{"candidate":"candidate:1 1 udp %d 10.0.0.%d 5000 typ host","sdpMid":"0","sdpMLineIndex":0}`, c.Rng.Intn(1<<30), c.Rng.Intn(255))}}}
		case 4:
			return &webrtc.WebRtcSignal{}
		default:
			return &webrtc.WebRtcSignal{Body: &webrtc.WebRtcSignal_RequestOffer{RequestOffer: 0}}
		}
	}
	nSig := c.N * 2 / 3
	for i := 0; i < nSig; i++ {
		s := mkSignal()
		kE := c.Rng.Intn(3)
		wire, err := s.MarshalVT()
		if err != nil {
			panic(err)
		}
		var ct []byte
		p, v := hx.Catch(func() { ct, err = webrtc.EncodeWebRtcSignal(s, keys[kE].pub) })
		if p || err != nil {
			c.Failf("encode-failed", map[string]any{"signal": s.String()}, "EncodeWebRtcSignal failed: %v %v", err, v)
			continue
		}
		mu := mutation{kind: "none"}
		if c.Rng.Intn(2) == 0 {
			mu = pickMutation(c, len(ct), func() (*encSpec, []byte) {
				// another honest signal payload for the same key
				o := encSpec{k: kE, ctx: webrtc.SignalingCryptContext, msg: append(append([]byte{}, wire...), 0x08, 0x01)}
				oct, _ := peer.EncryptToPubKey(keys[kE].pub, o.ctx, o.msg)
				return &o, oct
			})
		}
		if mu.kind == "set" && mu.pos < len(ct) && ct[mu.pos] == mu.d {
			mu.d ^= 1
		}
		ct2 := mu.apply(ct)
		kD := kE
		ctxD := ""
		useOther := false
		switch c.Rng.Intn(5) {
		case 0:
			kD = (kE + 1 + c.Rng.Intn(2)) % 3
		case 1:
			useOther = true
			ctxD = otherCtxs[c.Rng.Intn(len(otherCtxs))]
		}
		var o obs
		var dec *webrtc.WebRtcSignal
		p, v = hx.Catch(func() {
			if !useOther {
				dec, o.err = webrtc.DecodeWebRtcSignal(ct2, keys[kD].priv)
				return
			}
			var raw []byte
			raw, o.err = peer.DecryptWithPrivKey(keys[kD].priv, ctxD, ct2)
			if o.err == nil {
				dec = &webrtc.WebRtcSignal{}
				o.err = dec.UnmarshalVT(raw)
			}
		})
		if p {
			o.panicked = true
			o.err = fmt.Errorf("panic: %v", v)
		}
		same := o.err == nil && dec != nil && dec.EqualVT(s)
		changed := !bytes.Equal(ct, ct2)
		ctxTerm := "None"
		if useOther {
			ctxTerm = "(Some " + hx.Str(ctxD) + ")"
		}
		desc := map[string]any{"kind": "signal", "signal": s.String(), "enc_key": kE, "dec_key": kD, "other_ctx": useOther, "ctx": ctxD,
			"mutation": mu.kind, "pos": mu.pos, "d": mu.d, "extra": hx.Hex(mu.extra), "result": o.term(same)}
		muTerm := mu.term(len(ct))
		c.Case(hx.App("Sig26", hx.Nat(kE), hx.Bytes(wire), hx.Nat(max0(len(ct)-36-16-1)), muTerm, hx.Nat(kD), ctxTerm, hx.Bool(o.vbit()), o.term(same)), desc)
		c.Class("signal-" + mu.kind)
		c.Nontrivial(fmt.Sprint(hx.Hex(wire), kE, kD, useOther, ctxD, mu.kind, mu.pos, mu.d, hx.Hex(mu.extra)))
		if mu.kind == "splice" && bytes.Equal(ct2, mu.oct) {
			// replaced by another honest payload: not a tampering of this one
			if o.panicked {
				c.Failf("decode-panic", desc, "DecodeWebRtcSignal panicked: %v", o.err)
			}
			continue
		}
		switch {
		case o.panicked:
			c.Failf("decode-panic", desc, "DecodeWebRtcSignal panicked: %v", o.err)
		case !changed && kD == kE && !useOther:
			if o.err != nil {
				c.Failf("signal-roundtrip-error", desc, "decoding an untouched payload with the recipient key failed: %v", o.err)
			} else if !same {
				c.Failf("signal-roundtrip-differs", desc, "decoded signal differs from the original: %v", dec.String())
			}
		case o.err == nil && kD != kE:
			c.Failf("signal-other-key", desc, "payload decoded with a key other than the recipient's")
		case o.err == nil && useOther:
			c.Failf("signal-other-context", desc, "payload decoded under a non-WebRTC context")
		case o.err == nil && changed:
			c.Failf("signal-tampered-accepted", desc, "modified payload decoded without error")
		}
	}
	// arbitrary payload bytes: oracle only
	for i := 0; i < c.N*3; i++ {
		b := c.RandBytes(c.Rng.Intn(150))
		var err error
		p, v := hx.Catch(func() { _, err = webrtc.DecodeWebRtcSignal(b, keys[i%3].priv) })
		c.Eval()
		if p {
			c.Failf("decode-panic", hx.Hex(b), "DecodeWebRtcSignal panicked on arbitrary bytes: %v", v)
		} else if err == nil {
			c.Failf("random-payload-accepted", hx.Hex(b), "arbitrary bytes decoded as a signal")
		}
	}
	// roles
	var uni []string
	for i := 0; i < 40; i++ {
		_, pub, _ := crypto.GenerateEd25519Key(rngReader{c.Rng})
		id, err := peer.IDFromPublicKey(pub)
		if err != nil {
			panic(err)
		}
		uni = append(uni, id.String())
	}
	for _, k := range keys {
		id, _ := peer.IDFromPublicKey(k.pub)
		uni = append(uni, id.String())
	}
	base := uni[0]
	for i := 0; i <= len(base) && len(uni) < 100; i += 1 + i/8 {
		uni = append(uni, base[:i])
	}
	uni = append(uni, "", "a", "A", "aa", "ab", "b", "\x00", "\xff", "\xff\xff", "12D3KooW", "12D3KooX", "z")
	for len(uni) < 200 {
		x := []byte(uni[c.Rng.Intn(len(uni))])
		if len(x) > 0 {
			x[c.Rng.Intn(len(x))] = byte(c.Rng.Intn(256))
		}
		uni = append(uni, string(x))
	}
	for i, a := range uni {
		for j, b := range uni {
			ab, ba := webrtc.VerifIsOfferer(a, b), webrtc.VerifIsOfferer(b, a)
			c.Eval()
			in := map[string]any{"a": hx.Hex([]byte(a)), "b": hx.Hex([]byte(b))}
			if a != b && ab == ba {
				c.Failf("roles-not-exclusive", in, "isOfferer(a,b)=%v and isOfferer(b,a)=%v for distinct ids", ab, ba)
			}
			if a == b && (ab || ba) {
				c.Failf("roles-self-offerer", in, "isOfferer(a,a) is true")
			}
			_ = i
			_ = j
		}
	}
	c26Links(c)
	c26Negotiation(c)
	nRole := c.N - nSig
	for i := 0; i < nRole; i++ {
		a := uni[c.Rng.Intn(len(uni))]
		b := uni[c.Rng.Intn(len(uni))]
		if c.Rng.Intn(8) == 0 {
			b = a
		}
		ab, ba := webrtc.VerifIsOfferer(a, b), webrtc.VerifIsOfferer(b, a)
		c.Case(hx.App("Role26", hx.Str(a), hx.Str(b), hx.Bool(ab), hx.Bool(ba)),
			map[string]any{"kind": "role", "a": hx.Hex([]byte(a)), "b": hx.Hex([]byte(b)), "ab": ab, "ba": ba})
		c.Class("role")
		c.Nontrivial("role" + a + "/" + b)
	}
}

func max0(x int) int {
	if x < 0 {
		return 0
	}
	return x
}
