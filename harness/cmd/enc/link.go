package main

import (
	"context"
	"io"
	"sync"
	"time"

	"github.com/aperturerobotics/bifrost/crypto"
	p2ptls "github.com/aperturerobotics/bifrost/crypto/tls"
	"github.com/aperturerobotics/bifrost/link"
	"github.com/aperturerobotics/bifrost/peer"
	transport_quic "github.com/aperturerobotics/bifrost/transport/common/quic"
	"github.com/aperturerobotics/bifrost/transport/webrtc"
	"github.com/aperturerobotics/bifrost/util/rwc"
	"github.com/sirupsen/logrus"
	"verifharness/internal/hx"
)

// dcPipe is one end of an in-memory message-preserving pipe standing in for a
// detached WebRTC data channel.
type dcPipe struct {
	rx        <-chan []byte
	tx        chan<- []byte
	closed    chan struct{}
	closeOnce sync.Once
}

func newDcPipe() (*dcPipe, *dcPipe) {
	ab, ba := make(chan []byte, 256), make(chan []byte, 256)
	return &dcPipe{rx: ba, tx: ab, closed: make(chan struct{})}, &dcPipe{rx: ab, tx: ba, closed: make(chan struct{})}
}

func (p *dcPipe) Read(b []byte) (int, error) {
	select {
	case <-p.closed:
		return 0, io.EOF
	case pkt := <-p.rx:
		return copy(b, pkt), nil
	}
}

func (p *dcPipe) Write(b []byte) (int, error) {
	pkt := append([]byte{}, b...)
	select {
	case <-p.closed:
		return 0, io.ErrClosedPipe
	case p.tx <- pkt:
		return len(b), nil
	}
}

func (p *dcPipe) ReadDataChannel(b []byte) (int, bool, error) {
	n, err := p.Read(b)
	return n, false, err
}
func (p *dcPipe) WriteDataChannel(b []byte, _ bool) (int, error) { return p.Write(b) }
func (p *dcPipe) Close() error {
	p.closeOnce.Do(func() { close(p.closed) })
	return nil
}

type linkHandler struct{ established chan link.Link }

func (h *linkHandler) HandleLinkEstablished(l link.Link) {
	select {
	case h.established <- l:
	default:
	}
}
func (h *linkHandler) HandleLinkLost(l link.Link) {}

func genID(c *hx.Ctx) (crypto.PrivKey, peer.ID) {
	priv, _, err := crypto.GenerateEd25519Key(rngReader{c.Rng})
	if err != nil {
		panic(err)
	}
	id, err := peer.IDFromPrivateKey(priv)
	if err != nil {
		panic(err)
	}
	return priv, id
}

// linkScenario runs the real session tracker link routine of the local peer for
// signalled peer R in the given role, against a counterpart on the data channel
// that authenticates as R (honest) or as another identity M (impostor).
// Returns: established, remote peer of the established link, conclusive.
func linkScenario(c *hx.Ctx, wantOfferer, impostor bool) (bool, string, string, bool) {
	ctx, cancel := context.WithCancel(context.Background())
	defer cancel()
	log := logrus.New()
	log.SetOutput(io.Discard)
	le := logrus.NewEntry(log)

	localPriv, localID := genID(c)
	remotePriv, remoteID := genID(c)
	for webrtc.VerifIsOfferer(localID.String(), remoteID.String()) != wantOfferer {
		remotePriv, remoteID = genID(c)
	}
	otherPriv, otherID := genID(c)
	cpPriv, cpID := remotePriv, remoteID
	if impostor {
		cpPriv, cpID = otherPriv, otherID
	}

	h := &linkHandler{established: make(chan link.Link, 4)}
	w, err := webrtc.NewWebRTC(ctx, le, nil, &webrtc.Config{}, localPriv, h)
	if err != nil {
		panic(err)
	}
	localEnd, remoteEnd := newDcPipe()
	defer localEnd.Close()
	defer remoteEnd.Close()
	offerer, runLink := webrtc.VerifExecuteLink(ctx, w, remoteID.String(), localEnd)
	if offerer != wantOfferer {
		panic("role mismatch")
	}
	linkErr := make(chan error, 1)
	go func() { linkErr <- runLink() }()

	ident, err := p2ptls.NewIdentity(cpPriv)
	if err != nil {
		panic(err)
	}
	localAddr := peer.NewNetAddr(localID)
	pc := rwc.NewRwcPacketConn(remoteEnd, peer.NewNetAddr(cpID), localAddr)
	opts := &transport_quic.Opts{DisableDatagrams: true, DisableKeepAlive: true, DisablePathMtuDiscovery: true, MaxIdleTimeoutDur: "60s"}
	cpCtx, cpCancel := context.WithTimeout(ctx, 10*time.Second)
	defer cpCancel()
	cpDone := make(chan error, 1)
	go func() {
		if offerer { // local listens, counterpart dials
			sess, _, derr := transport_quic.DialSession(cpCtx, le, opts, pc, ident, localAddr, localID)
			if derr == nil {
				defer sess.CloseWithError(0, "done")
				select {
				case <-sess.Context().Done():
				case <-cpCtx.Done():
				}
			}
			cpDone <- derr
		} else { // local dials, counterpart listens and accepts the local peer
			sess, lerr := transport_quic.ListenSession(cpCtx, le, opts, pc, ident, localID)
			if lerr == nil {
				defer sess.CloseWithError(0, "done")
				select {
				case <-sess.Context().Done():
				case <-cpCtx.Done():
				}
			}
			cpDone <- lerr
		}
	}()
	wait := 10 * time.Second
	if impostor {
		wait = 3 * time.Second
	}
	select {
	case l := <-h.established:
		return true, l.GetRemotePeer().String(), remoteID.String(), true
	case <-linkErr:
		return false, "", remoteID.String(), true
	case <-time.After(wait):
		// an honest counterpart that did not get a link in time is inconclusive
		return false, "", remoteID.String(), impostor
	}
}

func c26Links(c *hx.Ctx) {
	for _, sc := range []struct{ offerer, impostor bool }{{true, false}, {true, true}, {false, false}, {false, true}} {
		var est, conclusive bool
		var got, signalled string
		p, v := hx.Catch(func() { est, got, signalled, conclusive = linkScenario(c, sc.offerer, sc.impostor) })
		in := map[string]any{"kind": "link", "local_is_offerer": sc.offerer, "counterpart_is_impostor": sc.impostor,
			"established": est, "link_remote": got, "signalled": signalled}
		if p {
			c.Failf("link-scenario-panic", in, "panic: %v", v)
			continue
		}
		if est && got != signalled {
			c.Failf("link-from-unsignalled-peer", in, "the session tracker for signalled peer %s established a link whose remote peer is %s", signalled, got)
		}
		if !conclusive {
			c.Class("link-inconclusive")
			continue
		}
		c.Case(hx.App("Link26", hx.Bool(sc.offerer), hx.Bool(!sc.impostor), hx.Bool(est)), in)
		c.Class("link")
		c.Nontrivial("link" + hx.Bool(sc.offerer) + hx.Bool(sc.impostor))
	}
}
