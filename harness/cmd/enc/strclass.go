package main

import (
	"strings"

	"verifharness/internal/hx"
)

// ctxPair is a (first, second) string pair used e.g. as (seal context, unseal
// context); coq says whether the pair is small enough to be evaluated in Coq.
type ctxPair struct {
	a, b  string
	class string
	coq   bool
}

var strLengths = []int{0, 1, 15, 16, 17, 31, 32, 33, 63, 64, 65, 127, 128, 129, 255, 256, 257, 1024}

func randString(c *hx.Ctx, n int) string {
	const alpha = "abcdefghijklmnopqrstuvwxyzABCDEFGHIJKLMNOPQRSTUVWXYZ0123456789/-_.:"
	b := make([]byte, n)
	for i := range b {
		b[i] = alpha[c.Rng.Intn(len(alpha))]
	}
	return string(b)
}

func flipAt(s string, i int) string {
	b := []byte(s)
	if b[i] == 'x' {
		b[i] = 'y'
	} else {
		b[i] = 'x'
	}
	return string(b)
}

// stringPairs: a deterministic sweep of string classes: lengths around the
// block sizes, pairs that are equal / differ in the first, last or a middle
// byte / by a suffix or a dropped byte / only by surrounding white space, NUL,
// case / share a long prefix / are Unicode look-alikes.
func stringPairs(c *hx.Ctx) []ctxPair {
	var out []ctxPair
	add := func(a, b, class string) {
		out = append(out, ctxPair{a: a, b: b, class: class, coq: len(a) <= 65 && len(b) <= 70})
	}
	full := map[int]bool{0: true, 1: true, 16: true, 64: true, 65: true, 256: true}
	for _, n := range strLengths {
		a := randString(c, n)
		add(a, a, "equal")
		add(a, a+" ", "trailing-space")
		if n >= 1 {
			add(a, flipAt(a, n-1), "last-byte")
		}
		if !full[n] {
			continue
		}
		add(a, a+"x", "suffix")
		add(a, a+"\x00", "trailing-nul")
		add(a, "\x00"+a, "leading-nul")
		add(a, " "+a, "leading-space")
		add(a, "\t"+a, "leading-tab")
		add(a, a+"\n", "trailing-newline")
		add(a, a+"\r\n", "trailing-crlf")
		add(" "+a+"\t", a, "surrounding-space-reversed")
		add(a+"\n", a+" ", "different-whitespace")
		if n >= 1 {
			add(a, flipAt(a, 0), "first-byte")
			add(a, a[:n-1], "dropped-last")
			if u := strings.ToUpper(a); u != a {
				add(a, u, "case")
			}
		}
		if n >= 3 {
			add(a, flipAt(a, n/2), "middle-byte")
			add(a, a[:n/2]+" "+a[n/2:], "inner-space")
		}
	}
	// long shared prefixes
	for _, p := range []int{16, 32, 63, 64, 65, 128, 256, 1024} {
		pre := randString(c, p)
		add(pre+"/tenant-a", pre+"/tenant-b", "shared-prefix")
		add(pre+"v1", pre+"v2"+randString(c, 40), "shared-prefix")
		add(pre+randString(c, 70), pre+randString(c, 70), "shared-prefix-long-tails")
	}
	// Unicode look-alikes (different bytes)
	add("caf\u00e9 ctx", "cafe\u0301 ctx", "unicode-nfc-nfd")
	add("Kelvin", "\u212aelvin", "unicode-compat")
	add("ctx", "\uff43\uff54\uff58", "unicode-fullwidth")
	add("a b", "a\u00a0b", "unicode-nbsp")
	add("ctx", "ctx\u200b", "unicode-zero-width")
	return out
}
