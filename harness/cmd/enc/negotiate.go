package main

import (
	"context"
	"fmt"
	"io"
	"sync"
	"time"

	"github.com/aperturerobotics/bifrost/crypto"
	"github.com/aperturerobotics/bifrost/link"
	"github.com/aperturerobotics/bifrost/peer"
	"github.com/aperturerobotics/bifrost/signaling"
	"github.com/aperturerobotics/bifrost/transport/webrtc"
	"github.com/aperturerobotics/controllerbus/bus"
	"github.com/aperturerobotics/controllerbus/controller"
	"github.com/aperturerobotics/controllerbus/core"
	"github.com/aperturerobotics/controllerbus/directive"
	"github.com/blang/semver/v4"
	pion "github.com/pion/webrtc/v4"
	"github.com/sirupsen/logrus"
	"verifharness/internal/hx"
)

// fakeSignalSession: the harness plays the remote peer of a signaling session.
type fakeSignalSession struct {
	local, remote peer.ID
	rx, tx        chan []byte
}

func (s *fakeSignalSession) GetLocalPeerID() peer.ID  { return s.local }
func (s *fakeSignalSession) GetRemotePeerID() peer.ID { return s.remote }
func (s *fakeSignalSession) Send(ctx context.Context, msg []byte) error {
	select {
	case s.tx <- append([]byte(nil), msg...):
		return nil
	case <-ctx.Done():
		return ctx.Err()
	}
}
func (s *fakeSignalSession) Recv(ctx context.Context) ([]byte, error) {
	select {
	case m := <-s.rx:
		return m, nil
	case <-ctx.Done():
		return nil, ctx.Err()
	}
}

type fakeSignaling struct{ sess *fakeSignalSession }

func (c *fakeSignaling) GetControllerInfo() *controller.Info {
	return controller.NewInfo("verif/fake-signaling", semver.MustParse("0.0.1"), "fake signaling")
}
func (c *fakeSignaling) Execute(ctx context.Context) error { return nil }
func (c *fakeSignaling) Close() error                      { return nil }
func (c *fakeSignaling) HandleDirective(ctx context.Context, di directive.Instance) ([]directive.Resolver, error) {
	if _, ok := di.GetDirective().(signaling.SignalPeer); ok {
		return directive.R(directive.NewValueResolver([]signaling.SignalPeerValue{c.sess}), nil)
	}
	return nil, nil
}

type negScenario struct {
	offerer bool
	script  string
	// filled by the setup (sequential, uses the case PRNG)
	localPriv, remotePriv crypto.PrivKey
	localID, remoteID     peer.ID
	// results
	events                  string
	txAnswer, txOffer, txRq bool
	conclusive              bool
	note                    string
}

func newRemotePC() (*pion.PeerConnection, error) {
	se := pion.SettingEngine{}
	se.DetachDataChannels()
	pc, err := pion.NewAPI(pion.WithSettingEngine(se)).NewPeerConnection(pion.Configuration{})
	if err != nil {
		return nil, err
	}
	negotiated, ordered := true, false
	var chID uint16 = 1
	label := webrtc.VerifDataChannelID()
	if _, err := pc.CreateDataChannel(label, &pion.DataChannelInit{Negotiated: &negotiated, Protocol: &label, ID: &chID, Ordered: &ordered}); err != nil {
		return nil, err
	}
	return pc, nil
}

func (sc *negScenario) run() {
	ctx, cancel := context.WithCancel(context.Background())
	defer cancel()
	log := logrus.New()
	log.SetOutput(io.Discard)
	le := logrus.NewEntry(log)
	sess := &fakeSignalSession{local: sc.localID, remote: sc.remoteID, rx: make(chan []byte, 8), tx: make(chan []byte, 256)}
	b, _, err := core.NewCoreBus(ctx, le)
	if err != nil {
		sc.note = err.Error()
		return
	}
	rel, err := b.AddController(ctx, &fakeSignaling{sess: sess}, nil)
	if err != nil {
		sc.note = err.Error()
		return
	}
	defer rel()
	w, err := webrtc.NewWebRTC(ctx, le, bus.Bus(b), &webrtc.Config{SignalingId: "verif", AllPeers: true}, sc.localPriv, &linkHandler{established: make(chan link.Link, 1)})
	if err != nil {
		sc.note = err.Error()
		return
	}
	defer w.Close()
	rpc, err := newRemotePC()
	if err != nil {
		sc.note = err.Error()
		return
	}
	defer rpc.Close()

	send := func(sig *webrtc.WebRtcSignal) bool {
		enc, err := webrtc.EncodeWebRtcSignal(sig, sc.localPriv.GetPublic())
		if err != nil {
			sc.note = err.Error()
			return false
		}
		sess.rx <- enc
		return true
	}
	sdpSig := func(d *pion.SessionDescription, ty string) *webrtc.WebRtcSignal {
		return &webrtc.WebRtcSignal{Body: &webrtc.WebRtcSignal_Sdp{Sdp: &webrtc.WebRtcSdp{TxSeqno: 1, SdpType: ty, Sdp: d.SDP}}}
	}
	newOffer := func() *pion.SessionDescription {
		o, err := rpc.CreateOffer(nil)
		if err == nil {
			err = rpc.SetLocalDescription(o)
		}
		if err != nil {
			sc.note = "remote offer: " + err.Error()
			return nil
		}
		return &o
	}
	// watch decodes what the local peer transmits until the deadline or until stop says so.
	var lastOffer *webrtc.WebRtcSdp
	watch := func(d time.Duration, stop func() bool) {
		deadline := time.After(d)
		for {
			select {
			case <-deadline:
				return
			case msg := <-sess.tx:
				sig, err := webrtc.DecodeWebRtcSignal(msg, sc.remotePriv)
				if err != nil {
					sc.note = "undecodable signal from the local peer"
					continue
				}
				switch body := sig.GetBody().(type) {
				case *webrtc.WebRtcSignal_Sdp:
					switch body.Sdp.GetSdpType() {
					case "answer":
						sc.txAnswer = true
					case "offer":
						sc.txOffer = true
						lastOffer = body.Sdp
					}
				case *webrtc.WebRtcSignal_RequestOffer:
					sc.txRq = true
				}
				if stop != nil && stop() {
					return
				}
			}
		}
	}

	// the first signal is queued before the handler starts: it is the first
	// thing the (not yet started) session sees
	first := func(sig *webrtc.WebRtcSignal) bool { return sig != nil && send(sig) }
	var wg sync.WaitGroup
	start := func() {
		wg.Add(1)
		go func() {
			defer wg.Done()
			_ = webrtc.VerifRunSignalHandler(ctx, w, sess)
		}()
	}
	defer wg.Wait()
	defer cancel()

	const quiet = 1500 * time.Millisecond
	switch sc.script {
	case "first-offer":
		o := newOffer()
		if o == nil || !first(sdpSig(o, "offer")) {
			return
		}
		sc.events = "[RxSdp KOffer true; LocalReady true; Restart; LocalReady true]"
		start()
		if sc.offerer {
			watch(quiet, func() bool { return sc.txAnswer })
		} else {
			watch(5*time.Second, func() bool { return sc.txAnswer })
		}
	case "first-answer":
		o := newOffer()
		if o == nil || !first(sdpSig(o, "answer")) {
			return
		}
		sc.events = "[RxSdp KAnswer false; LocalReady true; Restart; LocalReady true]"
		start()
		watch(quiet, func() bool { return sc.txAnswer })
	case "first-request":
		if !first(&webrtc.WebRtcSignal{Body: &webrtc.WebRtcSignal_RequestOffer{RequestOffer: 1}}) {
			return
		}
		sc.events = "[RxRequestOffer; LocalReady true; Restart; LocalReady true]"
		start()
		watch(quiet, func() bool { return sc.txAnswer })
	case "first-ice":
		ice := &webrtc.WebRtcIce{Candidate: `{"candidate":"candidate:1 1 udp 2130706431 127.0.0.1 5000 typ host","sdpMid":"0","sdpMLineIndex":0}`}
		if !first(&webrtc.WebRtcSignal{Body: &webrtc.WebRtcSignal_Ice{Ice: ice}}) {
			return
		}
		sc.events = "[RxIce true; LocalReady true]"
		start()
		watch(quiet, func() bool { return sc.txAnswer })
	case "after-negotiation":
		if sc.offerer {
			// request an offer, answer it, then send an offer although we are the answerer
			if !first(&webrtc.WebRtcSignal{Body: &webrtc.WebRtcSignal_RequestOffer{RequestOffer: 1}}) {
				return
			}
			start()
			watch(8*time.Second, func() bool { return lastOffer != nil })
			if lastOffer == nil {
				sc.note = "the local offerer did not offer in time"
				return
			}
			if err := rpc.SetRemoteDescription(pion.SessionDescription{Type: pion.SDPTypeOffer, SDP: lastOffer.GetSdp()}); err != nil {
				sc.note = "remote: " + err.Error()
				return
			}
			ans, err := rpc.CreateAnswer(nil)
			if err == nil {
				err = rpc.SetLocalDescription(ans)
			}
			if err != nil {
				sc.note = "remote answer: " + err.Error()
				return
			}
			if !send(sdpSig(&ans, "answer")) {
				return
			}
			watch(400*time.Millisecond, nil)
			o := newOffer()
			if o == nil || !send(sdpSig(o, "offer")) {
				return
			}
			sc.events = "[RxRequestOffer; LocalReady true; RxSdp KAnswer true; RxSdp KOffer true; Restart; LocalReady true]"
			watch(quiet, func() bool { return sc.txAnswer })
		} else {
			// offer, receive the answer, then send an answer although we are the offerer side
			o := newOffer()
			if o == nil || !first(sdpSig(o, "offer")) {
				return
			}
			start()
			watch(8*time.Second, func() bool { return sc.txAnswer })
			if !sc.txAnswer {
				sc.note = "the local answerer did not answer in time"
				return
			}
			if !send(sdpSig(o, "answer")) {
				return
			}
			sc.events = "[RxSdp KOffer true; LocalReady true; RxSdp KAnswer true; Restart; LocalReady true]"
			watch(quiet, nil)
		}
	}
	sc.conclusive = true
}

func c26Negotiation(c *hx.Ctx) {
	var scs []*negScenario
	for _, offerer := range []bool{true, false} {
		for _, script := range []string{"first-offer", "first-answer", "first-request", "first-ice", "after-negotiation"} {
			sc := &negScenario{offerer: offerer, script: script}
			sc.localPriv, sc.localID = genID(c)
			sc.remotePriv, sc.remoteID = genID(c)
			for webrtc.VerifIsOfferer(sc.localID.String(), sc.remoteID.String()) != offerer {
				sc.remotePriv, sc.remoteID = genID(c)
			}
			scs = append(scs, sc)
		}
	}
	var wg sync.WaitGroup
	for _, sc := range scs {
		wg.Add(1)
		go func(sc *negScenario) {
			defer wg.Done()
			if p, v := hx.Catch(sc.run); p {
				sc.note = fmt.Sprintf("panic: %v", v)
				sc.conclusive = false
			}
		}(sc)
	}
	wg.Wait()
	for _, sc := range scs {
		in := map[string]any{"kind": "negotiation", "local_is_offerer": sc.offerer, "script": sc.script, "local": sc.localID.String(),
			"remote": sc.remoteID.String(), "tx_answer": sc.txAnswer, "tx_offer": sc.txOffer, "tx_request_offer": sc.txRq, "note": sc.note}
		// the property text: an SDP answer only from the peer that is NOT the offerer of the pair, an offer only from the one that is
		if sc.offerer && sc.txAnswer {
			c.Failf("offerer-transmitted-answer", in, "%s is the offerer for the pair but transmitted an SDP answer (script %s): both peers act in both roles", sc.localID, sc.script)
		}
		if !sc.offerer && sc.txOffer {
			c.Failf("answerer-transmitted-offer", in, "%s is the answerer for the pair but transmitted an SDP offer (script %s)", sc.localID, sc.script)
		}
		if sc.offerer && sc.txRq {
			c.Failf("offerer-requested-offer", in, "the offerer transmitted a request for an offer (script %s)", sc.script)
		}
		if !sc.conclusive {
			c.Class("negotiation-inconclusive")
			continue
		}
		c.Case(hx.App("Neg26", hx.Bool(sc.offerer), sc.events, hx.Bool(sc.txAnswer), hx.Bool(sc.txOffer), hx.Bool(sc.txRq)), in)
		c.Class("negotiation-" + sc.script)
		c.Nontrivial("neg" + sc.script + hx.Bool(sc.offerer))
	}
}
