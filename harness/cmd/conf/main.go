// Harness for C38: configuration parsers (util/confparse, protocol.ID, tptaddr,
// tptaddr/static) on random, near-valid and adversarial strings with panic capture.
package main

import (
	"errors"
	"fmt"
	"net/url"
	"regexp"
	"sort"
	"strconv"
	"strings"
	"time"
	"unicode/utf8"

	"github.com/aperturerobotics/bifrost/peer"
	"github.com/aperturerobotics/bifrost/protocol"
	"github.com/aperturerobotics/bifrost/tptaddr"
	tptaddr_static "github.com/aperturerobotics/bifrost/tptaddr/static"
	"github.com/aperturerobotics/bifrost/util/confparse"
	"github.com/aperturerobotics/protobuf-go-lite/types/known/timestamppb"
	"verifharness/cmd/handlers/fk"
	"verifharness/internal/hx"
)

func main() { hx.Main(run) }

func run(c *hx.Ctx) {
	c.Imports = "Conf.Run"
	switch c.Prop {
	case "C38":
		c38(c)
	default:
		panic("unknown property " + c.Prop)
	}
}

func outcomeBytes(panicked bool, err error, val string, class func(error) int) string {
	switch {
	case panicked:
		return "Panic"
	case err != nil:
		return hx.App("Err", hx.Nat(class(err)))
	}
	return hx.App("Ok", hx.Str(val))
}

func pidClass(err error) int {
	switch {
	case errors.Is(err, protocol.ErrEmptyProtocolID):
		return 1
	case errors.Is(err, protocol.ErrInvalidProtocolID):
		return 2
	}
	return 9
}

func strList(l []string) string {
	it := make([]string, len(l))
	for i := range l {
		it[i] = hx.Str(l[i])
	}
	return hx.List(it)
}

// validRunes: the boundary code points of every encoding length and the special ones.
var validRunes = []string{
	"\u0000", "\u007f", "\u0080", "\u07ff", "\u0800", "\ud7ff", "\ue000", "\ufffd", "\ufffe", "\uffff",
	"\U00010000", "\U0010ffff", "a", "/", "\u0085", "\u00a0", "\u20ac", "\U0001f600",
}

// invalidPieces: the classic near misses: overlong forms, surrogates, above U+10FFFF, lone
// continuation bytes, invalid lead bytes (truncations are derived from validRunes).
var invalidPieces = []string{
	"\xc0\x80", "\xc1\xbf", "\xe0\x80\x80", "\xe0\x9f\xbf", "\xf0\x80\x80\x80", "\xf0\x8f\xbf\xbf",
	"\xed\xa0\x80", "\xed\xaf\xbf", "\xed\xb0\x80", "\xed\xbf\xbf", "\xf4\x90\x80\x80", "\xf5\x80\x80\x80",
	"\x80", "\xbf", "\xfe", "\xff", "\xf8\x88\x80\x80\x80", "\xe2\x28\xa1", "\xf0\x28\x8c\xbc", "\xf0\x90\x28\xbc",
}

// utfSweep is the deterministic part of the UTF-8 universe: every valid boundary rune alone and
// embedded, every truncation of it, every near miss alone and embedded.
func utfSweep() []string {
	var out []string
	for _, r := range validRunes {
		out = append(out, r, "p/"+r+"/v1", r+r, r+"a", "a"+r)
		for k := 1; k < len(r); k++ {
			out = append(out, r[:k], "a"+r[:k], r[:k]+"a", r[:k]+r)
		}
	}
	for _, q := range invalidPieces {
		out = append(out, q, "p/"+q+"/v1", q+"a", "a"+q, "\ufffd"+q, q+"\ufffd")
	}
	return out
}

var utfPieces = append(append([]string{""}, validRunes...), invalidPieces...)

func genUTF(c *hx.Ctx) string {
	switch c.Rng.Intn(5) {
	case 0:
		return string(c.RandBytes(c.Rng.Intn(8)))
	case 1: // valid text
		var sb strings.Builder
		for i, n := 0, c.Rng.Intn(6); i < n; i++ {
			sb.WriteString(validRunes[c.Rng.Intn(len(validRunes))])
		}
		return sb.String()
	default: // mostly valid with ill-formed pieces mixed in, sometimes truncated
		var sb strings.Builder
		for i, n := 0, 1+c.Rng.Intn(5); i < n; i++ {
			sb.WriteString(utfPieces[c.Rng.Intn(len(utfPieces))])
		}
		s := sb.String()
		if len(s) > 0 && c.Rng.Intn(3) == 0 {
			s = s[:c.Rng.Intn(len(s)+1)]
		}
		return s
	}
}

// junk returns a non-ASCII fragment (valid boundary rune or near miss) for embedding into other parsers' inputs.
func junk(c *hx.Ctx) string {
	if c.Rng.Intn(2) == 0 {
		return validRunes[c.Rng.Intn(12)]
	}
	return invalidPieces[c.Rng.Intn(len(invalidPieces))]
}

var spacePieces = []string{" ", "\t", "\n", "\v", "\f", "\r", "\u0085", "\u00a0", "\u1680", "\u2000", "\u2003", "\u200a", "\u2028", "\u2029", "\u202f", "\u205f", "\u3000",
	"a", "|", "b", "\xc2", "\x85", "\xa0", "\xe2\x80", "\xe2", "\x80", "\u200b", "\u180e", "\xe1\x9a", "\u3001", "\u00a1", "\x1c", "\x1f", "\x00", "\ufeff", "\ufffd"}

func genSpaced(c *hx.Ctx) string {
	var sb strings.Builder
	for i, n := 0, c.Rng.Intn(7); i < n; i++ {
		if c.Rng.Intn(6) == 0 {
			sb.WriteString(junk(c))
		} else {
			sb.WriteString(spacePieces[c.Rng.Intn(len(spacePieces))])
		}
	}
	return sb.String()
}

func tsTerm(t *timestamppb.Timestamp) string {
	return "(" + hx.Z(t.GetSeconds()) + ", " + hx.Z(int64(t.GetNanos())) + ")"
}

// numericEdges: numeric-looking inputs for every parser that may take a number.
var numericEdges = []string{
	"0", "1", "-1", "+1", "999", "-999", "1000", "-1000", "1001", "-1001", "1500", "-1500", "-0", "007", "-007", "00",
	"2147483647", "2147483648", "-2147483648", "-2147483649", "4294967295", "4294967296",
	"9223372036854775807", "9223372036854775808", "-9223372036854775808", "-9223372036854775809",
	"1e3", "-1e3", "1.5", "-1.5", ".5", "1.", "0x10", "1_000", " 1", "1 ", "1577934245", "1577934245123", "-62135596800", "-62135596801", "-62135596800000",
	"253402300799", "253402300800", "253402300799999", "253402300800000", "-1577934245123", "1577934245123456789",
}

func c38(c *hx.Ctx) {
	c.Type = "c38_case"
	c.Agree = "c38_agree"
	c.Rule = "per parser: random bytes, structured near-valid strings and adversarial ones (ill-formed UTF-8 of every kind, Unicode white space and fragments of it, separators in every position, duplicate/whitespace-padded/malformed address entries over 3 peers x 4 addresses, durations/timestamps/urls/regexps/peer ids valid and damaged); panics captured; non-trivial = an accepted, non-empty input"
	unit := c.N / 10
	// ---- utf8.ValidString (tie for Lib/Utf8) and ParseProtocolID ----
	sweep := utfSweep()
	for i := 0; i < len(sweep)+2*unit; i++ {
		var s string
		if i < len(sweep) {
			s = sweep[i] // every boundary code point / near miss, alone and embedded, in every run
		} else {
			s = genUTF(c)
		}
		v := utf8.ValidString(s)
		c.Class(fmt.Sprintf("utf8-%v", v))
		c.Case(hx.App("Utf", hx.Str(s), hx.Bool(v)), map[string]any{"parser": "utf8.ValidString", "s": hx.Hex([]byte(s)), "valid": v})
		ae := c.Rng.Intn(3) == 0
		var id protocol.ID
		var err error
		pn, _ := hx.Catch(func() { id, err = confparse.ParseProtocolID(s, ae) })
		desc := map[string]any{"parser": "ParseProtocolID", "s": hx.Hex([]byte(s)), "allow_empty": ae, "err": fmt.Sprint(err), "panic": pn}
		want := (s != "" && v) || (s == "" && ae)
		switch {
		case pn:
			c.Failf("protocol-id-panic", desc, "ParseProtocolID panicked")
		case (err == nil) != want:
			c.Failf("protocol-id-accept", desc, "accepted=%v, but non-empty=%v valid-utf8=%v allow_empty=%v", err == nil, s != "", v, ae)
		case err == nil && string(id) != s:
			c.Failf("protocol-id-value", desc, "parsed id %q differs from the input", string(id))
		case err == nil:
			id2, err2 := confparse.ParseProtocolID(id.String(), ae)
			if err2 != nil || id2 != id {
				c.Failf("protocol-id-roundtrip", desc, "parse(format(parse s)) = %q, %v", string(id2), err2)
			}
			if s != "" {
				c.Nontrivial("pid" + s)
			}
		}
		c.Class("protocol-id")
		c.Case(hx.App("Pid", hx.Str(s), hx.Bool(ae), outcomeBytes(pn, err, string(id), pidClass)), desc)
	}
	// ---- ParseProtocolIDs / Unique ----
	for i := 0; i < unit/2; i++ {
		n := c.Rng.Intn(5)
		l := make([]string, n)
		pool := []string{"a", "b", "a", "p/x", "", "\xff", "\u20ac", "\ufffd", "x\ufffdy", "\ufffd", "\xed\xa0\x80", "\u0000", "\U0010ffff"}
		for j := range l {
			if c.Rng.Intn(6) == 0 {
				l[j] = genUTF(c)
			} else {
				l[j] = pool[c.Rng.Intn(len(pool))]
			}
		}
		ae, uniq := c.Rng.Intn(2) == 0, c.Rng.Intn(2) == 0
		var ids []protocol.ID
		var err error
		if i < 6 {
			l = [][]string{{"a", "b", "a"}, {"b", "a", "b", "a"}, {"a", "", "b", "", "a"}, {"p/x", "a", "p/x", "b", "a"}, {"a", "a", "b", "a"}, {"€", "a", "€"}}[i]
		}
		lcopy := append([]string{}, l...)
		pn, _ := hx.Catch(func() {
			if uniq {
				ids, err = confparse.ParseProtocolIDsUnique(l, ae)
			} else {
				ids, err = confparse.ParseProtocolIDs(l, ae)
			}
		})
		obs := "Panic"
		if !pn && err != nil {
			obs = hx.App("Err", hx.Nat(pidClass(err)))
		} else if !pn {
			obs = hx.App("Ok", strList(protocol.IDsToString(ids)))
		}
		desc := map[string]any{"parser": "ParseProtocolIDs", "list": l, "allow_empty": ae, "unique": uniq, "err": fmt.Sprint(err)}
		if pn {
			c.Failf("protocol-ids-panic", desc, "panicked")
		}
		if fmt.Sprintf("%q", l) != fmt.Sprintf("%q", lcopy) {
			c.Failf("protocol-ids-mutates-input", desc, "the argument slice was modified: %q", l)
		}
		if err == nil && uniq {
			seen := map[protocol.ID]bool{}
			for _, id := range ids {
				if seen[id] {
					c.Failf("protocol-ids-dup", desc, "duplicate %q in the unique result", string(id))
				}
				seen[id] = true
			}
		}
		c.Class("protocol-ids")
		c.Case(hx.App("Pids", strList(l), hx.Bool(ae), hx.Bool(uniq), obs), desc)
	}
	// ---- ParseTptAddr ----
	for i := 0; i < unit; i++ {
		var s string
		switch c.Rng.Intn(4) {
		case 0:
			s = string(c.RandBytes(c.Rng.Intn(8)))
		default:
			al := []string{"a", "|", "b", " ", "udp", "1.2.3.4:5", ":0", ":65535", ":65536", ":-1", ":+1", ":007"}
			for j, n := 0, c.Rng.Intn(6); j < n; j++ {
				if c.Rng.Intn(5) == 0 {
					s += junk(c) // boundary code points and ill-formed bytes around the delimiter
				} else {
					s += al[c.Rng.Intn(len(al))]
				}
			}
		}
		var tid, addr string
		var err error
		pn, _ := hx.Catch(func() { tid, addr, err = tptaddr.ParseTptAddr(s) })
		desc := map[string]any{"parser": "ParseTptAddr", "s": hx.Hex([]byte(s)), "err": fmt.Sprint(err)}
		idx := strings.IndexByte(s, '|')
		want := idx > 0 && idx < len(s)-1
		obs := "Panic"
		switch {
		case pn:
			c.Failf("tptaddr-panic", desc, "ParseTptAddr panicked")
		case (err == nil) != want:
			c.Failf("tptaddr-accept", desc, "accepted=%v, expected %v", err == nil, want)
		case err == nil && (tid+"|"+addr != s || strings.Contains(tid, "|")):
			c.Failf("tptaddr-roundtrip", desc, "(%q,%q) does not format back to the input", tid, addr)
		}
		if !pn && err != nil {
			obs = hx.App("Err", hx.Nat(2))
		} else if !pn {
			obs = hx.App("Ok", "("+hx.Str(tid)+", "+hx.Str(addr)+")")
			c.Nontrivial("tpt" + s)
		}
		c.Class("tptaddr")
		c.Case(hx.App("Tpt", hx.Str(s), obs), desc)
	}
	// ---- strings.TrimSpace (tie for the model's trim_space) ----
	for i := 0; i < unit; i++ {
		s := genSpaced(c)
		t := strings.TrimSpace(s)
		c.Class("trimspace")
		if t != s {
			c.Nontrivial("trim" + s)
		}
		c.Case(hx.App("Trim", hx.Str(s), hx.Str(t)), map[string]any{"parser": "strings.TrimSpace", "s": hx.Hex([]byte(s)), "trimmed": hx.Hex([]byte(t))})
	}
	// ---- ParsePeerAddressMap ----
	peers := []string{fk.PeerID("p1").String(), fk.PeerID("p2").String(), fk.PeerID("p3").String()}
	addrs := []string{"t|a", "t|b", "u|a", "t|a|x"}
	badPeers := []string{"", "zzz", "0OIl", peers[0][:len(peers[0])-1], "11", peers[1] + "x"}
	ws := []string{"", "", " ", "\t", " \n", "\u00a0", "\u2003", "\u3000 "}
	for i := 0; i < 2*unit; i++ {
		n := c.Rng.Intn(9)
		entries := make([]string, n)
		if i < 12 {
			// crafted: non-adjacent duplicates, interleaved peers, padded repeats
			P, Q := peers[i%3], peers[(i+1)%3]
			crafted := [][]string{
				{P + "|t|a", P + "|t|b", P + "|t|a"},
				{P + "|t|b", P + "|t|a", P + "|t|b", P + "|t|a"},
				{P + "|t|a", Q + "|t|a", P + "|t|a", Q + "|t|b", P + "|t|a"},
				{P + "| t|a", P + "|t|b", " " + P + " |t|a ", P + "|u|a", P + "|t|a\t"},
				{P + "|t|b", P + "|t|a|x", P + "|t|a", P + "|t|b", P + "|t|a|x", P + "|t|a"},
				{P + "|t|a", "garbage", P + "|t|a", Q + "|noinner", P + "|t|a"},
			}
			entries = append([]string{}, crafted[i%len(crafted)]...)
			n = 0
		}
		for j := 0; j < n; j++ {
			p := peers[c.Rng.Intn(len(peers))]
			a := addrs[c.Rng.Intn(len(addrs))]
			w := func() string { return ws[c.Rng.Intn(len(ws))] }
			switch c.Rng.Intn(12) {
			case 0:
				entries[j] = p // no separator
			case 1:
				entries[j] = p + "|" + w() + "noinner" + w() // address without separator
			case 2:
				entries[j] = w() + badPeers[c.Rng.Intn(len(badPeers))] + w() + "|" + a
			case 3:
				entries[j] = string(c.RandBytes(c.Rng.Intn(10)))
			case 4:
				entries[j] = p + "|" + w() + "|" + w() // empty parts
			case 5:
				entries[j] = w() + p + w() + "|" + w() + "t|" + junk(c) + w() // non-ASCII / ill-formed address
			case 6:
				entries[j] = w() + p + junk(c) + "|" + a // junk glued to the peer id
			default:
				entries[j] = w() + p + w() + "|" + w() + a + w()
			}
		}
		var m map[string][]string
		var errs []error
		in := append([]string{}, entries...)
		pn, _ := hx.Catch(func() { m, errs = tptaddr_static.ParsePeerAddressMap(in) })
		desc := map[string]any{"parser": "ParsePeerAddressMap", "entries": entries, "result": m, "errors": len(errs)}
		if fmt.Sprintf("%q", in) != fmt.Sprintf("%q", entries) {
			c.Failf("addrmap-mutates-input", desc, "ParsePeerAddressMap modified its argument slice: %q", in)
		}
		if pn {
			c.Failf("addrmap-panic", desc, "ParsePeerAddressMap panicked")
			continue
		}
		// oracle table for the peer-id decoder and reference result straight from the property text
		var tbl []string
		seenTok := map[string]bool{}
		ref := map[string]map[string]bool{}
		var order []string
		for _, e := range entries {
			before, after, found := strings.Cut(e, "|")
			if !found {
				continue
			}
			tok := strings.TrimSpace(before)
			id, derr := peer.IDB58Decode(tok)
			if !seenTok[tok] {
				seenTok[tok] = true
				if derr != nil {
					tbl = append(tbl, "("+hx.Str(tok)+", None)")
				} else {
					tbl = append(tbl, "("+hx.Str(tok)+", Some "+hx.Str(id.String())+")")
				}
			}
			a := strings.TrimSpace(after)
			if derr != nil || !strings.Contains(a, "|") {
				continue
			}
			k := id.String()
			if ref[k] == nil {
				ref[k] = map[string]bool{}
				order = append(order, k)
			}
			ref[k][a] = true
		}
		// direct oracle: each peer -> sorted duplicate-free set of exactly its addresses, nothing else
		if len(m) != len(ref) {
			c.Failf("addrmap-keys", desc, "result has %d peers, the list names %d", len(m), len(ref))
		}
		for k, set := range ref {
			var want []string
			for a := range set {
				want = append(want, a)
			}
			sort.Strings(want)
			if fmt.Sprint(m[k]) != fmt.Sprint(want) || len(m[k]) != len(want) {
				c.Failf("addrmap-values", desc, "peer %s -> %q, expected %q", k, m[k], want)
			}
		}
		var om []string
		for _, k := range order {
			if v, ok := m[k]; ok {
				om = append(om, "("+hx.Str(k)+", "+strList(v)+")")
			}
		}
		for k, v := range m { // keys the reference did not predict (disagreement material)
			if _, ok := ref[k]; !ok {
				om = append(om, "("+hx.Str(k)+", "+strList(v)+")")
			}
		}
		c.Class("addrmap")
		if len(m) > 0 {
			c.Nontrivial(fmt.Sprint("am", entries))
		}
		c.Case(hx.App("AddrMap", strList(entries), hx.List(tbl), hx.List(om), hx.Nat(len(errs))), desc)
	}
	// ---- durations ----
	durs := []string{"", "0", "0s", "1s", "1h2m3s", "-5ms", "1.5h", "1ns", "abc", "1", "1d", " 1s", "1s ", "9223372036854775807ns", "9223372036854775808ns", "2562047h47m16.854775807s", ".5s", "1e3s", "+3m", "1µs", "1us"}
	var durSweep []string
	for _, n := range numericEdges {
		durSweep = append(durSweep, n, n+"ns", n+"ms", n+"s", n+"h")
	}
	for i := 0; i < len(durSweep)+unit; i++ {
		s := durs[c.Rng.Intn(len(durs))]
		if i < len(durSweep) {
			s = durSweep[i]
		} else if c.Rng.Intn(4) == 0 {
			s = time.Duration(c.Rng.Int63() - c.Rng.Int63()).String()
			if c.Rng.Intn(3) == 0 && len(s) > 0 {
				s = s[:c.Rng.Intn(len(s))]
			}
		} else if c.Rng.Intn(6) == 0 {
			s = string(c.RandBytes(c.Rng.Intn(6)))
		}
		od, oerr := time.ParseDuration(s)
		var d time.Duration
		var err error
		pn, _ := hx.Catch(func() { d, err = confparse.ParseDuration(s) })
		desc := map[string]any{"parser": "ParseDuration", "s": s, "err": fmt.Sprint(err)}
		o := func(e error, v time.Duration) string {
			if e != nil {
				return hx.App("Err", hx.Nat(1))
			}
			return hx.App("Ok", hx.Z(int64(v)))
		}
		obs := "Panic"
		if pn {
			c.Failf("duration-panic", desc, "ParseDuration panicked")
		} else {
			obs = o(err, d)
			if err == nil {
				for _, ie := range []bool{false, true} {
					f := confparse.MarshalDuration(d, ie)
					d2, err2 := confparse.ParseDuration(f)
					if err2 != nil || d2 != d {
						c.Failf("duration-roundtrip", desc, "parse(format(%v, ignoreEmpty=%v)=%q) = %v, %v", d, ie, f, d2, err2)
					}
				}
				ie := c.Rng.Intn(2) == 0
				c.Case(hx.App("DurM", hx.Z(int64(d)), hx.Bool(ie), hx.Str(d.String()), hx.Str(confparse.MarshalDuration(d, ie))), map[string]any{"parser": "MarshalDuration", "d": int64(d), "ignore_empty": ie})
				c.Class("duration-marshal")
				if s != "" {
					c.Nontrivial("dur" + s)
				}
			}
		}
		c.Class("duration")
		c.Case(hx.App("Dur", hx.Str(s), o(oerr, od), obs), desc)
	}
	// ---- timestamps ----
	tss := []string{"", "2020-01-02T03:04:05Z", "2020-01-02T03:04:05.123456789Z", "2020-01-02T03:04:05.5+02:00", "\"2021-06-01T00:00:00.000000001Z\"", "0001-01-01T00:00:00Z", "9999-12-31T23:59:59.999999999Z", "10000-01-01T00:00:00Z", "2020-13-01T00:00:00Z", "null", "{}", "\"", "2020-01-02", "1970-01-01T00:00:00.1Z", "1969-12-31T23:59:59.9Z", "\"\"", "abc"}
	tsSweep := append(append([]string{}, numericEdges...),
		"0001-01-01T00:00:00Z", "0001-01-01T00:00:00.000000001Z", "0000-12-31T23:59:59Z", "1969-12-31T23:59:59.999999999Z", "1969-12-31T23:59:58.5Z",
		"1970-01-01T00:00:00Z", "1970-01-01T00:00:00.000000001Z", "9999-12-31T23:59:59Z", "9999-12-31T23:59:59.999999999Z", "10000-01-01T00:00:00Z",
		"1960-06-01T12:00:00.25Z", "1969-12-31T23:59:59.001-01:00", "\"-1\"", "\"1500\"")
	for i := 0; i < len(tsSweep)+unit; i++ {
		s := tss[c.Rng.Intn(len(tss))]
		if i < len(tsSweep) {
			s = tsSweep[i]
		}
		switch map[bool]int{true: -1, false: c.Rng.Intn(5)}[i < len(tsSweep)] {
		case 0:
			s = time.Unix(c.Rng.Int63n(4e9)-1e9, c.Rng.Int63n(1e9)).UTC().Format(time.RFC3339Nano)
		case 1:
			if len(s) > 0 {
				b := []byte(s)
				b[c.Rng.Intn(len(b))] = byte(c.Rng.Intn(256))
				s = string(b)
			}
		}
		oracle := func(in string) string {
			t := &timestamppb.Timestamp{}
			var e error
			if pn, _ := hx.Catch(func() { e = t.UnmarshalJSON([]byte(in)) }); pn || e != nil {
				return "None"
			}
			return "(Some " + tsTerm(t) + ")"
		}
		oq, or := oracle(strconv.Quote(s)), oracle(s)
		var t *timestamppb.Timestamp
		var err error
		pn, _ := hx.Catch(func() { t, err = confparse.ParseTimestamp(s) })
		desc := map[string]any{"parser": "ParseTimestamp", "s": s, "err": fmt.Sprint(err)}
		obs := "Panic"
		switch {
		case pn:
			c.Failf("timestamp-panic", desc, "ParseTimestamp panicked")
		case err != nil:
			obs = hx.App("Err", hx.Nat(2))
		case t == nil:
			obs = "(Ok None)"
			if f := confparse.MarshalTimestamp(nil); f != "" {
				c.Failf("timestamp-nil-format", desc, "MarshalTimestamp(nil) = %q", f)
			}
		default:
			obs = "(Ok (Some " + tsTerm(t) + "))"
			const minSec, maxSec = -62135596800, 253402300799 // 0001-01-01T00:00:00Z .. 9999-12-31T23:59:59Z
			switch {
			case t.GetNanos() < 0 || t.GetNanos() >= 1e9:
				c.Failf("timestamp-invalid-nanos", desc, "ParseTimestamp returned nanos=%d (seconds=%d): not a normalised timestamp", t.GetNanos(), t.GetSeconds())
			case t.GetSeconds() < minSec || t.GetSeconds() > maxSec:
				// outside the range RFC 3339 / Timestamp can express: formatting is not invertible there
				f := confparse.MarshalTimestamp(t)
				t2, err2 := confparse.ParseTimestamp(f)
				c.Class("timestamp-out-of-range-accepted")
				if err2 != nil || t2 == nil || t2.GetSeconds() != t.GetSeconds() || t2.GetNanos() != t.GetNanos() {
					c.Failf("timestamp-out-of-range-roundtrip", desc, "ParseTimestamp accepted seconds=%d, outside 0001-01-01..9999-12-31 (CheckValid: %v); it formats as %q which parses back as %v (err %v), not the same value", t.GetSeconds(), t.CheckValid(), f, t2, err2)
				}
			default:
				var f string
				var t2 *timestamppb.Timestamp
				var err2 error
				pn2, _ := hx.Catch(func() {
					f = confparse.MarshalTimestamp(t)
					t2, err2 = confparse.ParseTimestamp(f)
				})
				desc["formatted"] = f
				if pn2 || err2 != nil || t2 == nil || t2.GetSeconds() != t.GetSeconds() || t2.GetNanos() != t.GetNanos() {
					c.Failf("timestamp-roundtrip", desc, "parse(format(parse s)) = %v (err %v panic %v), parse s = %v", t2, err2, pn2, t)
				}
			}
			c.Nontrivial("ts" + s)
		}
		c.Class("timestamp")
		c.Case(hx.App("Ts", hx.Str(s), oq, or, obs), desc)
	}
	// ---- "" -> zero value wrappers: urls, regexps, peer ids ----
	urls := []string{"", "http://a/b", "/a b", "a", "http://[::1]:80/", "http://a/%zz", ":", "#", "?", "//h", "http://u:p@h/p?q#f", "\x7f", "http://a b/", "%", "mailto:x@y"}
	res := []string{"", "a+", "(", "[a-", "^a$|b", "\\", "(?P<n>a)", "a{2,1}", "\xff", "(?i)x"}
	pids := []string{"", peers[0], peers[1], "zzz", "0", peers[0][:10], peers[0] + "1", "11", " " + peers[0]}
	for i := 0; i < unit; i++ {
		mut := func(s string) string {
			if c.Rng.Intn(4) == 0 {
				return s + string(c.RandBytes(1+c.Rng.Intn(3)))
			}
			return s
		}
		switch i % 3 {
		case 0:
			s := mut(urls[c.Rng.Intn(len(urls))])
			_, oerr := url.Parse(s)
			var u *url.URL
			var err error
			pn, _ := hx.Catch(func() { u, err = confparse.ParseURL(s) })
			desc := map[string]any{"parser": "ParseURL", "s": s, "err": fmt.Sprint(err)}
			cls := 3
			switch {
			case pn:
				c.Failf("url-panic", desc, "ParseURL panicked")
			case err != nil:
				cls = 2
			case u == nil:
				cls = 0
			default:
				cls = 1
				f := u.String()
				if f == "" {
					c.Class("url-renders-empty") // e.g. "#": net/url renders it as "", which the wrapper reads as "no url"
				} else if u2, err2 := confparse.ParseURL(f); err2 != nil || u2 == nil || u2.String() != f {
					c.Failf("url-roundtrip", desc, "parse(format(parse s)): format %q reparsed to %v, %v", f, u2, err2)
				}
				c.Nontrivial("url" + s)
			}
			if pn2, _ := hx.Catch(func() { _ = confparse.ValidateURL(s, c.Rng.Intn(2) == 0) }); pn2 {
				c.Failf("url-validate-panic", desc, "ValidateURL panicked")
			}
			c.Class("url")
			c.Case(hx.App("Wrap", hx.Str(s), hx.Bool(oerr == nil), hx.Nat(cls)), desc)
		case 1:
			s := mut(res[c.Rng.Intn(len(res))])
			_, oerr := regexp.Compile(s)
			var r *regexp.Regexp
			var err error
			pn, _ := hx.Catch(func() { r, err = confparse.ParseRegexp(s) })
			desc := map[string]any{"parser": "ParseRegexp", "s": s, "err": fmt.Sprint(err)}
			cls := 3
			switch {
			case pn:
				c.Failf("regexp-panic", desc, "ParseRegexp panicked")
			case err != nil:
				cls = 2
			case r == nil:
				cls = 0
			default:
				cls = 1
				if r2, err2 := confparse.ParseRegexp(r.String()); err2 != nil || r2 == nil || r2.String() != r.String() {
					c.Failf("regexp-roundtrip", desc, "parse(format(parse s)) failed: %v", err2)
				}
				c.Nontrivial("re" + s)
			}
			c.Class("regexp")
			c.Case(hx.App("Wrap", hx.Str(s), hx.Bool(oerr == nil), hx.Nat(cls)), desc)
		default:
			s := mut(pids[c.Rng.Intn(len(pids))])
			_, oerr := peer.IDB58Decode(s)
			var id peer.ID
			var err error
			pn, _ := hx.Catch(func() { id, err = confparse.ParsePeerID(s) })
			desc := map[string]any{"parser": "ParsePeerID", "s": s, "err": fmt.Sprint(err)}
			cls := 3
			switch {
			case pn:
				c.Failf("peerid-panic", desc, "ParsePeerID panicked")
			case err != nil:
				cls = 2
			case id == "":
				cls = 0
			default:
				cls = 1
				if id2, err2 := confparse.ParsePeerID(id.String()); err2 != nil || id2 != id {
					c.Failf("peerid-roundtrip", desc, "parse(format(parse s)) = %q, %v", id2.String(), err2)
				}
				c.Nontrivial("pid" + s)
			}
			// ParsePeerIDsUnique: non-adjacent duplicates collapse, argument untouched
			{
				in := []string{peers[0], peers[1], " " + peers[0], "", peers[1], peers[0]}
				cp := append([]string{}, in...)
				out, uerr := confparse.ParsePeerIDsUnique(in, true)
				if uerr != nil || len(out) != 2 || out[0].String() != peers[0] || out[1].String() != peers[1] {
					c.Failf("peerids-unique", desc, "ParsePeerIDsUnique(%q) = %v, %v", in, out, uerr)
				}
				if fmt.Sprintf("%q", in) != fmt.Sprintf("%q", cp) {
					c.Failf("peerids-mutates-input", desc, "ParsePeerIDsUnique modified its argument")
				}
				pem := []byte("-----BEGIN GARBAGE-----\nAAAA\n-----END GARBAGE-----\n" + s)
				pcp := append([]byte{}, pem...)
				_, _ = confparse.ParsePublicKeyPEM(pem)
				_, _ = confparse.ParsePrivateKeyPEM(pem)
				if string(pem) != string(pcp) {
					c.Failf("pem-mutates-input", desc, "a PEM parser modified its argument bytes")
				}
			}
			// list forms and keys: totality only
			if pn2, _ := hx.Catch(func() {
				_, _ = confparse.ParsePeerIDs([]string{s, ""}, c.Rng.Intn(2) == 0)
				_, _ = confparse.ParsePeerIDsUnique([]string{s, s, " " + s}, c.Rng.Intn(2) == 0)
				_ = confparse.ValidatePeerID(s)
				_, _ = confparse.ParsePublicKey(s)
				_, _ = confparse.ParsePrivateKey(s)
				_, _ = confparse.ParsePeer(s, s, s)
				_ = confparse.ValidatePubKey(s, id)
			}); pn2 {
				c.Failf("peerid-family-panic", desc, "a peer-id/key parser panicked on this string")
			}
			c.Class("peer-id")
			c.Case(hx.App("Wrap", hx.Str(s), hx.Bool(oerr == nil), hx.Nat(cls)), desc)
		}
	}
}
