// Harness for C37: pairs of real directive instances with every constructor
// parameter varied independently, against the real IsEquivalent.
package main

import (
	"fmt"
	"net/url"

	bifrost_http "github.com/aperturerobotics/bifrost/http"
	"github.com/aperturerobotics/bifrost/link"
	link_solicit "github.com/aperturerobotics/bifrost/link/solicit"
	"github.com/aperturerobotics/bifrost/peer"
	"github.com/aperturerobotics/bifrost/protocol"
	bifrost_rpc "github.com/aperturerobotics/bifrost/rpc"
	"github.com/aperturerobotics/bifrost/signaling"
	"github.com/aperturerobotics/bifrost/tptaddr"
	"github.com/aperturerobotics/bifrost/transport"
	"github.com/aperturerobotics/bifrost/transport/common/dialer"
	"github.com/aperturerobotics/controllerbus/directive"
	"github.com/aperturerobotics/util/backoff"
	"verifharness/cmd/handlers/fk"
	"verifharness/internal/hx"
)

func main() { hx.Main(run) }

func run(c *hx.Ctx) {
	c.Imports = "Dir.Run"
	switch c.Prop {
	case "C37":
		c37(c)
	default:
		panic("unknown property " + c.Prop)
	}
}

// axis is one constructor parameter: its values (compared with ==), whether it decides
// how the directive is resolved, and how a value is written in the Coq record.
type axis struct {
	name       string
	vals       []any
	resolution bool
}

type dirType struct {
	name  string // Go type
	ctor  string // Coq case constructor
	mk    string // Coq record constructor
	axes  []axis
	build func(v []any) directive.Directive
	term  func(v []any) string // record fields in struct order
}

func mustURL(s string) *url.URL {
	u, err := url.Parse(s)
	if err != nil {
		panic(err)
	}
	return u
}

type dopts struct {
	nilOpts bool
	addr    string
}

func c37(c *hx.Ctx) {
	c.Type = "c37_case"
	c.Agree = "c37_agree"
	c.Rule = "for each of the 11 directive types: all ordered pairs of instances over the product of 2-4 values per constructor parameter (peer ids incl. empty, protocol ids, contexts incl. nil/empty, transport ids incl. 0, dial addresses incl. nil options, backoff options, urls, methods, ids); real IsEquivalent on every pair (direct oracle), seeded sample evaluated in Coq; non-trivial = a pair the implementation calls equivalent, or one differing in exactly one parameter"
	P := []any{peer.ID(""), fk.PeerID("p1"), fk.PeerID("p2")}
	protos := []any{protocol.ID("p/a"), protocol.ID("p/b")}
	ids := []any{"", "a", "b"}
	B := func(x any) string { // bytes-like value
		switch v := x.(type) {
		case peer.ID:
			return hx.Str(string(v))
		case protocol.ID:
			return hx.Str(string(v))
		case string:
			return hx.Str(v)
		case []byte:
			return hx.Bytes(v)
		}
		panic(fmt.Sprintf("B: %T", x))
	}
	Z := func(x any) string { return hx.U(x.(uint64)) }
	types := []dirType{
		{
			name: "solicitProtocol", ctor: "EqSolicit", mk: "mk_solicitProtocol",
			axes: []axis{{"protocolID", protos, true}, {"context", []any{"", "\x01", "\x02"}, true}, {"peerID", P, true}, {"transportID", []any{uint64(0), uint64(1), uint64(2)}, true}},
			build: func(v []any) directive.Directive {
				var ctx []byte
				if s := v[1].(string); s != "" {
					ctx = []byte(s)
				}
				return link_solicit.NewSolicitProtocol(v[0].(protocol.ID), ctx, v[2].(peer.ID), v[3].(uint64))
			},
			term: func(v []any) string { return B(v[0]) + " " + B(v[1]) + " " + B(v[2]) + " " + Z(v[3]) },
		},
		{
			name: "establishLinkWithPeer", ctor: "EqEstablish", mk: "mk_establishLinkWithPeer",
			axes: []axis{{"src", P, true}, {"dest", P, true}},
			build: func(v []any) directive.Directive {
				return link.NewEstablishLinkWithPeer(v[0].(peer.ID), v[1].(peer.ID))
			},
			term: func(v []any) string { return B(v[0]) + " " + B(v[1]) },
		},
		{
			name: "handleMountedStream", ctor: "EqHandleStream", mk: "mk_handleMountedStream",
			axes: []axis{{"protocolID", protos, true}, {"localPeerID", P, true}, {"remotePeerID", P, true}},
			build: func(v []any) directive.Directive {
				return link.NewHandleMountedStream(v[0].(protocol.ID), v[1].(peer.ID), v[2].(peer.ID))
			},
			term: func(v []any) string { return B(v[0]) + " " + B(v[1]) + " " + B(v[2]) },
		},
		{
			name: "dialTptAddr", ctor: "EqDial", mk: "mk_dialTptAddr",
			// backoff is the one parameter that does not decide what is dialed
			axes: []axis{{"address", []any{dopts{true, ""}, dopts{false, ""}, dopts{false, "udp|127.0.0.1:5000"}, dopts{false, "ws|127.0.0.1:5000"}, dopts{false, "udp|127.0.0.1:5001"}, dopts{false, "udp|127.0.0.2:5000"}, dopts{false, "127.0.0.1:5000"}, dopts{false, "udp|ws|127.0.0.1:5000"}}, true}, {"backoff", []any{0, 1}, false}, {"src", P, true}, {"dest", P, true}},
			build: func(v []any) directive.Directive {
				o := v[0].(dopts)
				var opts *dialer.DialerOpts
				if !o.nilOpts {
					opts = &dialer.DialerOpts{Address: o.addr}
					if v[1].(int) == 1 {
						opts.Backoff = &backoff.Backoff{BackoffKind: backoff.BackoffKind_BackoffKind_CONSTANT}
					}
				}
				return tptaddr.NewDialTptAddr(opts, v[2].(peer.ID), v[3].(peer.ID))
			},
			term: func(v []any) string {
				o := v[0].(dopts)
				rest := "[]"
				if !o.nilOpts && v[1].(int) == 1 {
					rest = "[1]"
				}
				return "(mk_dialer_opts " + hx.Str(o.addr) + " " + rest + ") " + B(v[2]) + " " + B(v[3])
			},
		},
		{
			name: "lookupTptAddr", ctor: "EqLookupAddr", mk: "mk_lookupTptAddr",
			axes:  []axis{{"dest", P, true}},
			build: func(v []any) directive.Directive { return tptaddr.NewLookupTptAddr(v[0].(peer.ID)) },
			term:  func(v []any) string { return B(v[0]) },
		},
		{
			name: "lookupTransport", ctor: "EqLookupTpt", mk: "mk_lookupTransport",
			axes: []axis{{"peerIDConstraint", P, true}, {"transportIDConstraint", []any{uint64(0), uint64(1), uint64(2)}, true}},
			build: func(v []any) directive.Directive {
				return transport.NewLookupTransport(v[0].(peer.ID), v[1].(uint64))
			},
			term: func(v []any) string { return B(v[0]) + " " + Z(v[1]) },
		},
		{
			name: "lookupRpcService", ctor: "EqRpcService", mk: "mk_lookupRpcService",
			axes: []axis{{"serviceID", ids, true}, {"serverID", ids, true}},
			build: func(v []any) directive.Directive {
				return bifrost_rpc.NewLookupRpcService(v[0].(string), v[1].(string))
			},
			term: func(v []any) string { return B(v[0]) + " " + B(v[1]) },
		},
		{
			name: "lookupRpcClient", ctor: "EqRpcClient", mk: "mk_lookupRpcClient",
			axes: []axis{{"serviceID", ids, true}, {"clientID", ids, true}},
			build: func(v []any) directive.Directive {
				return bifrost_rpc.NewLookupRpcClient(v[0].(string), v[1].(string))
			},
			term: func(v []any) string { return B(v[0]) + " " + B(v[1]) },
		},
		{
			name: "lookupHTTPHandler", ctor: "EqHttp", mk: "mk_lookupHTTPHandler",
			axes: []axis{{"handlerMethod", []any{"", "GET", "POST"}, true}, {"handlerURL", []any{"/a", "/b", "http://h/a", "https://h/a", "http://g/a", "http://h:81/a", "http://u@h/a", "/a?q=1", "/a?q=2", "/a/", "/a#f"}, true}, {"clientID", []any{"", "c1"}, true}},
			build: func(v []any) directive.Directive {
				return bifrost_http.NewLookupHTTPHandler(v[0].(string), mustURL(v[1].(string)), v[2].(string))
			},
			term: func(v []any) string {
				u := mustURL(v[1].(string))
				return B(v[0]) + " (mk_url " + hx.Str(u.String()) + " " + hx.Str(u.Path) + ") " + B(v[2])
			},
		},
		{
			name: "signalPeer", ctor: "EqSignal", mk: "mk_signalPeer",
			axes: []axis{{"signalingID", []any{"", "s1", "s2", "s1 "}, true}, {"localPeerID", P, true}, {"remotePeerID", P, true}},
			build: func(v []any) directive.Directive {
				return signaling.NewSignalPeer(v[0].(string), v[1].(peer.ID), v[2].(peer.ID))
			},
			term: func(v []any) string { return B(v[0]) + " " + B(v[1]) + " " + B(v[2]) },
		},
		{
			name: "getPeer", ctor: "EqGetPeer", mk: "mk_getPeer",
			axes:  []axis{{"peerIDConstraint", P, true}},
			build: func(v []any) directive.Directive { return peer.NewGetPeer(v[0].(peer.ID)) },
			term:  func(v []any) string { return B(v[0]) },
		},
	}

	type inst struct {
		idx []int
		v   []any
	}
	total := 0
	all := make([][]inst, len(types))
	for ti, t := range types {
		var insts []inst
		idx := make([]int, len(t.axes))
		for {
			v := make([]any, len(idx))
			for k := range idx {
				v[k] = t.axes[k].vals[idx[k]]
			}
			skip := false
			if t.name == "dialTptAddr" && v[0].(dopts).nilOpts && v[1].(int) == 1 {
				skip = true // nil options carry no backoff
			}
			if !skip {
				insts = append(insts, inst{append([]int{}, idx...), v})
			}
			k := len(idx) - 1
			for k >= 0 {
				idx[k]++
				if idx[k] < len(t.axes[k].vals) {
					break
				}
				idx[k] = 0
				k--
			}
			if k < 0 {
				break
			}
		}
		all[ti] = insts
		total += len(insts) * len(insts)
	}
	c.Extra["pairs_total"] = total
	// hand-built url.URL values (not produced by url.Parse from distinct texts): the HTTP lookup
	// controllers resolve on URL.Path, IsEquivalent compares URL.String()
	{
		type up struct{ a, b *url.URL }
		for pi, pr := range []up{
			{&url.URL{Host: "x"}, &url.URL{Path: "//x"}},
			{&url.URL{Path: "/a"}, &url.URL{Path: "/a", RawPath: "/a"}},
			{&url.URL{Path: "/a b"}, &url.URL{Path: "/a%20b"}},
		} {
			da := bifrost_http.NewLookupHTTPHandler("GET", pr.a, "")
			db := bifrost_http.NewLookupHTTPHandler("GET", pr.b, "")
			var obs bool
			pn, _ := hx.Catch(func() { obs = da.(directive.DirectiveWithEquiv).IsEquivalent(db) })
			desc := map[string]any{"type": "lookupHTTPHandler", "a": fmt.Sprintf("%#v", *pr.a), "b": fmt.Sprintf("%#v", *pr.b),
				"a_string": pr.a.String(), "b_string": pr.b.String(), "a_path": pr.a.Path, "b_path": pr.b.Path, "is_equivalent": obs}
			c.Class("lookupHTTPHandler-handbuilt-url")
			if pn {
				c.Failf("equiv-panic-lookupHTTPHandler", desc, "IsEquivalent panicked")
				continue
			}
			if obs && (pr.a.Path != pr.b.Path || pr.a.Host != pr.b.Host) {
				c.Failf("equiv-merges-lookupHTTPHandler-handlerURL-path", desc,
					"IsEquivalent = true although the URLs differ in Path/Host (%q/%q vs %q/%q): URL.String() renders both as %q",
					pr.a.Host, pr.a.Path, pr.b.Host, pr.b.Path, pr.a.String())
			}
			t := func(u *url.URL) string {
				return "(mk_lookupHTTPHandler " + hx.Str("GET") + " (mk_url " + hx.Str(u.String()) + " " + hx.Str(u.Path) + ") " + hx.Str("") + ")"
			}
			ctor := "EqHttp"
			if pi == 0 {
				ctor = "HttpWitness" // the records of the Coq refutation witness must be these real values
			}
			c.Case(hx.App(ctor, t(pr.a), t(pr.b), hx.Bool(obs)), desc)
		}
	}
	for ti, t := range types {
		insts := all[ti]
		// per-type share of the Coq sample: every type gets cases
		keep := float64(c.N) / float64(len(types)) / float64(len(insts)*len(insts))
		for _, a := range insts {
			for _, b := range insts {
				da, db := t.build(a.v), t.build(b.v)
				var obs bool
				pn, _ := hx.Catch(func() { obs = da.(directive.DirectiveWithEquiv).IsEquivalent(db) })
				// slice-typed parameters must come back unmodified
				if sp, ok := da.(link_solicit.SolicitProtocol); ok {
					if string(sp.SolicitProtocolContext()) != a.v[1].(string) || string(db.(link_solicit.SolicitProtocol).SolicitProtocolContext()) != b.v[1].(string) {
						c.Failf("equiv-mutates-context", map[string]any{"type": t.name}, "IsEquivalent modified the context bytes of a solicitProtocol directive")
					}
				}
				var diff []string
				var diffRes []string
				for k := range t.axes {
					if a.idx[k] != b.idx[k] {
						// nil options and empty-address options have the same address
						if t.axes[k].name == "address" && a.v[k].(dopts).addr == b.v[k].(dopts).addr {
							continue
						}
						diff = append(diff, t.axes[k].name)
						if t.axes[k].resolution {
							diffRes = append(diffRes, t.axes[k].name)
						}
					}
				}
				desc := map[string]any{"type": t.name, "a": t.mk + " " + t.term(a.v), "b": t.mk + " " + t.term(b.v), "differ_in": diff, "is_equivalent": obs}
				c.Class(t.name)
				if pn {
					c.Failf("equiv-panic-"+t.name, desc, "IsEquivalent panicked")
					continue
				}
				// direct oracle: equivalent although a resolution parameter differs
				if obs && len(diffRes) != 0 {
					c.Failf("equiv-merges-"+t.name+"-"+diffRes[0], desc, "IsEquivalent = true although the requests differ in %v", diffRes)
				}
				// (recorded) identical parameters not equivalent would only cost de-duplication
				if !obs && len(diff) == 0 {
					c.Class(t.name + "-identical-not-equivalent")
				}
				if c.Tier != "thorough" && c.Rng.Float64() >= keep && !(len(diff) <= 1 && c.Rng.Intn(4) == 0) {
					c.Eval()
					continue
				}
				if obs || len(diff) == 1 {
					c.Nontrivial(fmt.Sprint(t.name, a.idx, b.idx))
				}
				c.Case(hx.App(t.ctor, "("+t.mk+" "+t.term(a.v)+")", "("+t.mk+" "+t.term(b.v)+")", hx.Bool(obs)), desc)
			}
		}
	}
}
