// Package qmem is an in-memory packet network for the QUIC-based harnesses
// (C03 end-to-end, C05): net.PacketConn endpoints attached to a switch whose
// routing table (address string -> endpoint) the test script changes over
// time, so that "who answers at address A" is an input.
package qmem

import (
	"context"
	"io"
	"net"
	"os"
	"sync"
	"time"
)

// Addr is an in-memory address.
type Addr string

func (a Addr) Network() string { return "mem" }
func (a Addr) String() string  { return string(a) }

// Net is the switch.
type Net struct {
	mtx    sync.Mutex
	routes map[string]*PConn
}

// NewNet builds a switch.
func NewNet() *Net { return &Net{routes: map[string]*PConn{}} }

// Route makes pc the receiver of packets sent to addr (nil: nobody answers).
func (n *Net) Route(addr string, pc *PConn) {
	n.mtx.Lock()
	if pc == nil {
		delete(n.routes, addr)
	} else {
		n.routes[addr] = pc
	}
	n.mtx.Unlock()
}

// NewConn creates an endpoint with the given local address and routes the address to it.
func (n *Net) NewConn(addr string, route bool) *PConn {
	ctx, cancel := context.WithCancel(context.Background())
	pc := &PConn{n: n, addr: Addr(addr), ctx: ctx, cancel: cancel, ch: make(chan pkt, 256)}
	if route {
		n.Route(addr, pc)
	}
	return pc
}

type pkt struct {
	from net.Addr
	data []byte
}

// PConn is an endpoint.
type PConn struct {
	n      *Net
	addr   Addr
	ctx    context.Context
	cancel context.CancelFunc
	ch     chan pkt
	mtx    sync.Mutex
	rd     time.Time
	dlCh   chan struct{}
}

func (c *PConn) ReadFrom(p []byte) (int, net.Addr, error) {
	for {
		c.mtx.Lock()
		rd := c.rd
		if c.dlCh == nil {
			c.dlCh = make(chan struct{})
		}
		dl := c.dlCh
		c.mtx.Unlock()
		var timer <-chan time.Time
		var t *time.Timer
		if !rd.IsZero() {
			d := time.Until(rd)
			if d <= 0 {
				return 0, nil, os.ErrDeadlineExceeded
			}
			t = time.NewTimer(d)
			timer = t.C
		}
		select {
		case <-c.ctx.Done():
			if t != nil {
				t.Stop()
			}
			return 0, nil, net.ErrClosed
		case <-timer:
			return 0, nil, os.ErrDeadlineExceeded
		case <-dl: // deadline changed while blocked: re-evaluate
			if t != nil {
				t.Stop()
			}
			continue
		case k := <-c.ch:
			if t != nil {
				t.Stop()
			}
			n := copy(p, k.data)
			if n < len(k.data) {
				return n, k.from, io.ErrShortBuffer
			}
			return n, k.from, nil
		}
	}
}

func (c *PConn) WriteTo(p []byte, addr net.Addr) (int, error) {
	if c.ctx.Err() != nil {
		return 0, net.ErrClosed
	}
	c.n.mtx.Lock()
	dst := c.n.routes[addr.String()]
	c.n.mtx.Unlock()
	if dst == nil {
		return len(p), nil // dropped: nobody answers
	}
	d := make([]byte, len(p))
	copy(d, p)
	select {
	case dst.ch <- pkt{from: c.addr, data: d}:
	case <-dst.ctx.Done():
	default: // queue full: drop like a network would
	}
	return len(p), nil
}

func (c *PConn) Close() error                       { c.cancel(); return nil }
func (c *PConn) LocalAddr() net.Addr                { return c.addr }
func (c *PConn) SetDeadline(t time.Time) error      { return c.SetReadDeadline(t) }
func (c *PConn) SetWriteDeadline(t time.Time) error { return nil }
func (c *PConn) SetReadDeadline(t time.Time) error {
	c.mtx.Lock()
	c.rd = t
	if c.dlCh != nil {
		close(c.dlCh)
		c.dlCh = nil
	}
	c.mtx.Unlock()
	return nil
}

var _ net.PacketConn = (*PConn)(nil)
