// Harness for dialing a peer at an address (C05); the scenarios live in
// cmd/dial/dscen so that the C03 harness can reuse the expected-peer ones.
package main

import (
	"verifharness/cmd/dial/dscen"
	"verifharness/internal/hx"
)

func main() { hx.Main(dscen.Run) }
