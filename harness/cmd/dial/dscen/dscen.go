// Harness for dialing a peer at an address (C05): a real pconn/quic transport
// (and, for the retry loop, a real transport controller) dials over an
// in-memory packet network whose routing table says who answers at the address
// at each moment: the intended peer, an impostor with another key, or nobody.
package dscen

import (
	"context"
	"fmt"
	"io"
	"net"
	"runtime"
	"strings"
	"sync"
	"time"

	"github.com/aperturerobotics/bifrost/crypto"
	"github.com/aperturerobotics/bifrost/link"
	"github.com/aperturerobotics/bifrost/peer"
	"github.com/aperturerobotics/bifrost/testbed"
	"github.com/aperturerobotics/bifrost/transport"
	"github.com/aperturerobotics/bifrost/transport/common/dialer"
	"github.com/aperturerobotics/bifrost/transport/common/pconn"
	transport_quic "github.com/aperturerobotics/bifrost/transport/common/quic"
	tptc "github.com/aperturerobotics/bifrost/transport/controller"
	"github.com/aperturerobotics/controllerbus/controller"
	"github.com/aperturerobotics/util/backoff"
	"github.com/blang/semver/v4"
	"github.com/sirupsen/logrus"
	"verifharness/cmd/dial/qmem"
	"verifharness/internal/hx"
)

const addrA = "A"

var (
	privs []crypto.PrivKey
	pids  []peer.ID
)

func quietLogger() *logrus.Entry {
	log := logrus.New()
	log.SetOutput(io.Discard)
	log.SetLevel(logrus.PanicLevel)
	return logrus.NewEntry(log)
}

// model id of a real peer id: index+1 (1 = the dialing peer), 0 = unknown/none
func zid(id peer.ID) int64 {
	for i, p := range pids {
		if p == id {
			return int64(i + 1)
		}
	}
	return 0
}

// recorder is a TransportHandler that only records.
type recorder struct {
	mtx   sync.Mutex
	links []link.Link
}

func (r *recorder) HandleLinkEstablished(l link.Link) {
	r.mtx.Lock()
	r.links = append(r.links, l)
	r.mtx.Unlock()
}
func (r *recorder) HandleLinkLost(l link.Link) {}

// listener is a peer listening on its own endpoint (which claims address A).
type listener struct {
	pc  *qmem.PConn
	tpt *pconn.Transport
}

// parseAddr resolves a dial string: "alias-N:A" forms (like a host name) resolve
// to the canonical address "A", so that the dial string differs from
// sess.RemoteAddr().String().
func parseAddr(a string) (net.Addr, error) {
	if i := strings.Index(a, ":"); i >= 0 && strings.HasPrefix(a, "alias-") {
		return qmem.Addr(a[i+1:]), nil
	}
	return qmem.Addr(a), nil
}

// modelAddr: canonical "A" is 1, any alias string is 9 (resolved form is 1).
func modelAddr(dialStr string) string {
	if dialStr == addrA {
		return "1"
	}
	return "9"
}

func pickDialStr(c *hx.Ctx) string {
	switch c.Rng.Intn(5) {
	case 0:
		return "alias-1:A"
	case 1:
		return "alias-2:A"
	}
	return addrA
}

// noDialerLeft: after a dial finished the transport must hold no dialer entry.
func noDialerLeft(c *hx.Ctx, q *transport_quic.Transport, desc any, when string) {
	var keys []string
	for i := 0; i < 400; i++ {
		keys = q.VerifDialerKeys()
		if len(keys) == 0 {
			return
		}
		time.Sleep(500 * time.Microsecond)
	}
	c.Failf("stale-dialer-entry", desc, "%s: the dial finished but the dialers table still holds %v", when, keys)
}

// gate holds a dial in flight: the dialer's address parser (called by the dial
// function once per dial) blocks until the script releases it.
type gate struct {
	entered chan struct{}
	release chan struct{}
}

func (g *gate) parse(a string) (net.Addr, error) {
	g.entered <- struct{}{}
	<-g.release
	return parseAddr(a)
}

// waitBlockedDialPeer waits until n goroutines are parked inside
// Transport.DialPeer waiting for the shared dialer's result.
func waitBlockedDialPeer(n int) {
	buf := make([]byte, 1<<20)
	for i := 0; i < 5000; i++ {
		k := runtime.Stack(buf, true)
		cnt := 0
		for _, g := range strings.Split(string(buf[:k]), "\n\n") {
			if strings.Contains(g, "quic.(*Transport).DialPeer") && strings.Contains(g, ".Await(") &&
				(strings.Contains(g, "[select") || strings.Contains(g, "[chan receive")) {
				cnt++
			}
		}
		if cnt >= n {
			return
		}
		time.Sleep(200 * time.Microsecond)
	}
	panic("callers did not reach the dialer")
}

func newListener(ctx context.Context, nw *qmem.Net, k int) *listener {
	pc := nw.NewConn(addrA, false)
	tpt, err := pconn.NewTransport(ctx, quietLogger(), privs[k], &recorder{}, &pconn.Opts{}, 0, pc, parseAddr, nil)
	if err != nil {
		panic(err)
	}
	go func() { _ = tpt.Execute(ctx) }()
	return &listener{pc: pc, tpt: tpt}
}

type ev struct {
	drop bool
	who  int // 0 nobody, else peer index (1 = X, 2.. impostors) i.e. model id who+1
}

func (e ev) term() string {
	if e.drop {
		return "Drop"
	}
	if e.who == 0 {
		return "(Attempt Nobody)"
	}
	return hx.App("Attempt", hx.App("Peer", hx.Z(int64(e.who+1))))
}

func (e ev) String() string {
	switch {
	case e.drop:
		return "drop-link"
	case e.who == 0:
		return "nobody-answers"
	case e.who == 1:
		return "X-answers"
	default:
		return fmt.Sprintf("impostor%d-answers", e.who-1)
	}
}

func evTerms(es []ev) (string, []string) {
	var t, s []string
	for _, e := range es {
		t = append(t, e.term())
		s = append(s, e.String())
	}
	return hx.List(t), s
}

// dropLink closes the dialer's link at A and waits until the transport forgot it.
func dropLink(q *transport_quic.Transport) {
	l, ok := q.LookupLinkWithAddr(addrA)
	if !ok {
		return
	}
	_ = l.Close()
	for i := 0; i < 4000; i++ {
		if cur, ok := q.LookupLinkWithAddr(addrA); !ok || cur != l {
			return
		}
		time.Sleep(500 * time.Microsecond)
	}
	panic("link at A was not released")
}

func genScript(c *hx.Ctx, n int, allowNobody bool) []ev {
	var es []ev
	for len(es) < n {
		r := c.Rng.Intn(100)
		switch {
		case r < 40:
			es = append(es, ev{who: 1})
		case r < 65:
			es = append(es, ev{who: 2 + c.Rng.Intn(2)})
		case r < 72 && allowNobody:
			es = append(es, ev{who: 0})
		default:
			es = append(es, ev{drop: true})
		}
	}
	return es
}

// Run is the C05 harness.
func Run(c *hx.Ctx) {
	c.Imports = "Link.Model Dial.Model Dial.Run"
	c.Type = "c05_case"
	c.Agree = "c05_agree"
	if c.Prop != "C05" {
		panic("unknown property " + c.Prop)
	}
	c.Rule = "scripts over time of who answers at the dialed address (intended peer X, one of two impostors with other keys, nobody) and link losses; Transport.DialPeer(X, A) called per attempt on a real pconn/quic transport with real in-memory QUIC/TLS handshakes, and Controller.DialPeerAddr(X, A) with the real retry loop; non-trivial = distinct script in which an impostor or nobody answers before X"
	initPeers()
	nLoop := c.N / 5
	if nLoop < 4 {
		nLoop = 4
	}
	nShared := c.N / 4
	if nShared < 8 {
		nShared = 8
	}
	nCalls := c.N - nLoop - nShared
	if nCalls < 8 {
		nCalls = 8
	}
	sharedFixed := sharedFixedScripts
	for i := 0; i < nShared; i++ {
		var es []sev
		if i < len(sharedFixed) {
			es = sharedFixed[i]
		} else {
			es = genShared(c)
		}
		sharedCase(c, es)
	}
	fixed := [][]ev{
		{{who: 1}},
		{{who: 2}, {who: 1}},
		{{who: 2}, {drop: true}, {who: 1}},
		{{who: 2}, {who: 2}, {drop: true}, {who: 3}, {drop: true}, {who: 1}, {who: 1}},
		{{who: 1}, {who: 2}, {drop: true}, {who: 2}},
		{{who: 0}, {who: 1}},
	}
	// repeated dials of one non-canonical dial string across answerer changes
	aliasFixed := [][]ev{
		{{who: 2}, {who: 1}},
		{{who: 2}, {drop: true}, {who: 1}, {who: 1}},
		{{who: 1}, {drop: true}, {who: 1}},
		{{who: 1}, {who: 1}, {who: 2}, {who: 1}},
		{{who: 0}, {who: 2}, {who: 1}},
	}
	for i := 0; i < nCalls; i++ {
		var es []ev
		if i < len(fixed) {
			es = fixed[i]
		} else {
			es = genScript(c, 2+c.Rng.Intn(6), c.Rng.Intn(6) == 0)
		}
		ds := pickDialStr(c)
		if i < len(fixed) {
			ds = addrA
		} else if i < len(fixed)+len(aliasFixed) {
			es, ds = aliasFixed[i-len(fixed)], "alias-1:A"
		}
		callsCase(c, es, ds)
	}
	loopFixed := [][]ev{
		{{who: 1}},
		{{who: 2}, {drop: true}, {who: 1}},
		{{who: 2}, {drop: true}, {who: 3}, {drop: true}, {who: 1}},
		{{who: 2}},
	}
	// the dialer's link is lost while the peer has (or has not) a second link
	nRedial := c.N / 15
	if nRedial < 4 {
		nRedial = 4
	}
	for i := 0; i < nRedial; i++ {
		who := 1
		if i%4 == 3 {
			who = 2 + c.Rng.Intn(2)
		}
		redialCase(c, i%2 == 0, who)
	}
	for i := 0; i < nLoop; i++ {
		var es []ev
		if i < len(loopFixed) {
			es = loopFixed[i]
		} else {
			// impostors (each followed by the loss of its link) then maybe X
			k := c.Rng.Intn(3)
			for j := 0; j < k; j++ {
				es = append(es, ev{who: 2 + c.Rng.Intn(2)}, ev{drop: true})
			}
			switch c.Rng.Intn(5) {
			case 0:
				if k > 0 {
					es = es[:len(es)-1] // the impostor's link stays: X cannot be reached
				}
				es = append(es, ev{who: 1})
			case 1:
				if k == 0 {
					es = append(es, ev{who: 2})
				}
			default:
				es = append(es, ev{who: 1})
			}
		}
		ds := pickDialStr(c)
		if i < len(loopFixed) {
			ds = addrA
		} else if i < len(loopFixed)+2 {
			ds = "alias-1:A"
			es = [][]ev{{{who: 2}, {drop: true}, {who: 1}}, {{who: 2}, {who: 1}}}[i-len(loopFixed)]
		}
		loopCase(c, es, ds)
	}
}

// callsCase: one DialPeer call per attempt.
func callsCase(c *hx.Ctx, es []ev, dialStr string) {
	ctx, cancel := context.WithCancel(context.Background())
	defer cancel()
	nw := qmem.NewNet()
	ls := map[int]*listener{}
	for _, e := range es {
		if !e.drop && e.who > 0 && ls[e.who] == nil {
			ls[e.who] = newListener(ctx, nw, e.who)
		}
	}
	dpc := nw.NewConn("D", true)
	rec := &recorder{}
	d, err := pconn.NewTransport(ctx, quietLogger(), privs[0], rec, &pconn.Opts{}, 0, dpc, parseAddr, nil)
	if err != nil {
		panic(err)
	}
	go func() { _ = d.Execute(ctx) }()
	x := pids[1]
	var obs []string
	var obsI []int64
	terms, strs := evTerms(es)
	alias := dialStr != addrA
	desc := map[string]any{"kind": "calls", "dial": "DialPeer(X, " + dialStr + ")", "resolved_address": addrA, "script": strs}
	impostorFirst := false
	seenX := false
	for i, e := range es {
		if e.drop {
			dropLink(d.Transport)
			continue
		}
		if e.who == 0 {
			nw.Route(addrA, nil)
		} else {
			nw.Route(addrA, ls[e.who].pc)
			if e.who != 1 && !seenX {
				impostorFirst = true
			}
			if e.who == 1 {
				seenX = true
			}
		}
		to := 3 * time.Second
		if e.who == 0 {
			to = 150 * time.Millisecond
		}
		var before peer.ID
		if cur, ok := d.LookupLinkWithAddr(addrA); ok {
			before = cur.GetRemotePeer()
		}
		dctx, dcancel := context.WithTimeout(ctx, to)
		lnk, _, derr := d.DialPeer(dctx, x, dialStr)
		dcancel()
		if e.who == 0 {
			d.CancelDialer(dialStr) // the dial function gives up (as after a refused connection)
		}
		noDialerLeft(c, d.Transport, desc, fmt.Sprintf("attempt %d (%s)", i, e))
		// from the property text: X listens there and nothing else holds the address
		if e.who == 1 && derr != nil && (alias || before == "" || before == x) {
			c.Failf("x-listening-but-dial-failed", desc, "attempt %d: X answers at the address (no link to another peer registered there) but DialPeer(X) failed: %v", i, derr)
		}
		var o int64
		switch {
		case derr != nil:
			o = -1
		case lnk == nil:
			o = 0
		default:
			o = zid(lnk.GetRemotePeer())
			// the C05 statement itself
			if lnk.GetRemotePeer() != x {
				c.Failf("dial-returned-other-peer", desc, "attempt %d: DialPeer(X, A) succeeded with a link to peer %d", i, o)
			}
		}
		if derr == nil && e.who != 1 {
			if cur, ok := d.LookupLinkWithAddr(addrA); !ok || cur.GetRemotePeer() != x {
				c.Failf("dial-success-without-x", desc, "attempt %d: DialPeer(X, A) reported success while %s", i, e)
			}
		}
		obs = append(obs, hx.Z(o))
		obsI = append(obsI, o)
	}
	final := int64(0)
	if cur, ok := d.LookupLinkWithAddr(addrA); ok {
		final = zid(cur.GetRemotePeer())
	}
	desc["results"] = obsI
	desc["final_peer_at_A"] = final
	c.Case(hx.App("Calls", "2", modelAddr(dialStr), "1", terms, hx.List(obs), hx.Z(final)), desc)
	c.Class("calls")
	if alias {
		c.Class("calls-alias-dial-string")
	}
	if impostorFirst {
		c.Class("calls-impostor-before-x")
		c.Nontrivial(fmt.Sprint("c", strs))
	}
}

type dtpt struct{ *pconn.Transport }

func (d dtpt) MatchTransportType(string) bool { return true }

var _ dialer.TransportDialer = dtpt{}

// loopCase: Controller.DialPeerAddr with the real retry loop; the script is a
// list of phases (who answers), a Drop closes the link currently at A.
func loopCase(c *hx.Ctx, es []ev, dialStr string) {
	ctx, cancel := context.WithCancel(context.Background())
	defer cancel()
	le := quietLogger()
	nw := qmem.NewNet()
	ls := map[int]*listener{}
	for _, e := range es {
		if !e.drop && e.who > 0 && ls[e.who] == nil {
			ls[e.who] = newListener(ctx, nw, e.who)
		}
	}
	tb, err := testbed.NewTestbed(ctx, le, testbed.TestbedOpts{PrivKey: privs[0], NoEcho: true})
	if err != nil {
		panic(err)
	}
	defer tb.Release()
	dpc := nw.NewConn("D", true)
	tch := make(chan *pconn.Transport, 1)
	ctrl := tptc.NewController(le, tb.Bus, controller.NewInfo("verif/dial", semver.MustParse("0.0.1"), "dial"), pids[0], false,
		func(ctx context.Context, le *logrus.Entry, pkey crypto.PrivKey, handler transport.TransportHandler) (transport.Transport, error) {
			t, err := pconn.NewTransport(ctx, le, pkey, handler, &pconn.Opts{}, 0, dpc, parseAddr, nil)
			if err != nil {
				return nil, err
			}
			tch <- t
			return dtpt{t}, nil
		})
	if _, err := tb.Bus.AddController(ctx, ctrl, nil); err != nil {
		panic(err)
	}
	var d *pconn.Transport
	select {
	case d = <-tch:
	case <-time.After(10 * time.Second):
		panic("no transport")
	}
	x := pids[1]
	terms, strs := evTerms(es)
	alias := dialStr != addrA
	desc := map[string]any{"kind": "loop", "dial": "Controller.DialPeerAddr(X, " + dialStr + ")", "resolved_address": addrA, "script": strs}
	const backoffMs = 20
	opts := &dialer.DialerOpts{Address: dialStr, Backoff: &backoff.Backoff{
		BackoffKind: backoff.BackoffKind_BackoffKind_CONSTANT, Constant: &backoff.Constant{Interval: backoffMs}}}
	type res struct {
		l   link.Link
		err error
	}
	resCh := make(chan res, 1)
	started := false
	var got *res
	poll := func(d time.Duration) {
		if got != nil {
			return
		}
		select {
		case r := <-resCh:
			got = &r
		case <-time.After(d):
		}
	}
	impostor := false
	for i, e := range es {
		if got != nil {
			break
		}
		if e.drop {
			// the retry loop runs concurrently: switch the answerer first so that
			// no retry reaches the old one after its link is gone
			if i+1 < len(es) && !es[i+1].drop {
				nw.Route(addrA, ls[es[i+1].who].pc)
			} else {
				nw.Route(addrA, nil)
			}
			dropLink(d.Transport)
			continue
		}
		nw.Route(addrA, ls[e.who].pc)
		if e.who != 1 {
			impostor = true
		}
		if !started {
			started = true
			go func() {
				l, err := ctrl.DialPeerAddr(ctx, x, opts)
				resCh <- res{l, err}
			}()
		}
		// wait until this phase's answerer was reached (a link to it is registered
		// at A) or the dialer finished, then let a few more retries happen
		for i := 0; i < 3000 && got == nil; i++ {
			if cur, ok := d.LookupLinkWithAddr(addrA); ok && cur.GetRemotePeer() == pids[e.who] {
				break
			}
			poll(time.Millisecond)
		}
		poll(4 * backoffMs * time.Millisecond)
	}
	o := int64(0)
	if got != nil {
		if got.err != nil || got.l == nil {
			c.Failf("dial-peer-addr-error", desc, "DialPeerAddr returned (%v, %v)", got.l, got.err)
			o = -1
		} else {
			o = zid(got.l.GetRemotePeer())
			if got.l.GetRemotePeer() != x {
				c.Failf("dialer-holds-other-peer", desc, "DialPeerAddr(X, A) returned a link to peer %d", o)
			}
		}
	}
	// liveness clause: X answered last with the address free => satisfied
	last := es[len(es)-1]
	free := len(es) == 1 || es[len(es)-2].drop || alias
	if !last.drop && last.who == 1 && free && o != 2 {
		c.Failf("x-reachable-but-no-link", desc, "X answered at a free address but DialPeerAddr did not return a link to X (got %d)", o)
	}
	// and EstablishLinkWithPeer for X is then satisfiable: the controller reports the link
	if o == 2 {
		found := false
		for i := 0; i < 1000 && !found; i++ { // HandleLinkEstablished is delivered on its own goroutine
			for _, l := range ctrl.GetPeerLinks(x) {
				if l == got.l {
					found = true
				}
			}
			if !found {
				time.Sleep(time.Millisecond)
			}
		}
		if !found {
			c.Failf("link-to-x-not-registered", desc, "the link returned by DialPeerAddr is not among the controller's links to X")
		}
	}
	desc["result_peer"] = o
	if got != nil {
		noDialerLeft(c, d.Transport, desc, "after DialPeerAddr returned")
	}
	c.Case(hx.App("Loop", "2", modelAddr(dialStr), "1", terms, hx.Z(o)), desc)
	c.Class("loop")
	if alias {
		c.Class("loop-alias-dial-string")
	}
	if impostor {
		c.Class("loop-impostor")
		c.Nontrivial(fmt.Sprint("l", strs))
	}
	cancel()
	time.Sleep(2 * time.Millisecond)
}

// ---------------------------------------------------------------------------
// overlapping DialPeer calls to the same address

// sev: call = requested peer (model id 2..4), ans = who answers when the dial in
// flight is released (model id 2..4, 1 = nobody), drop = the link at A is lost.
type sev struct {
	call int
	ans  int
	drop bool
}

func (e sev) term() string {
	switch {
	case e.drop:
		return "CDrop"
	case e.call != 0:
		return hx.App("Call", hx.Z(int64(e.call)))
	case e.ans == 1:
		return "(Answer Nobody)"
	default:
		return hx.App("Answer", hx.App("Peer", hx.Z(int64(e.ans))))
	}
}

func (e sev) String() string {
	switch {
	case e.drop:
		return "drop-link"
	case e.call != 0:
		return fmt.Sprintf("DialPeer(peer%d, A)", e.call)
	case e.ans == 1:
		return "dial-completes:nobody"
	default:
		return fmt.Sprintf("dial-completes:peer%d-answers", e.ans)
	}
}

func genShared(c *hx.Ctx) []sev {
	var es []sev
	n := 3 + c.Rng.Intn(5)
	waiting := 0
	linked := false
	for len(es) < n {
		r := c.Rng.Intn(100)
		switch {
		case r < 50:
			es = append(es, sev{call: 2 + c.Rng.Intn(3)})
			if !linked {
				waiting++
			}
		case r < 85 && waiting > 0:
			a := 2 + c.Rng.Intn(3)
			if c.Rng.Intn(8) == 0 {
				a = 1
			}
			es = append(es, sev{ans: a})
			waiting = 0
			linked = a != 1
		case linked:
			es = append(es, sev{drop: true})
			linked = false
		}
	}
	if waiting > 0 {
		es = append(es, sev{ans: 2 + c.Rng.Intn(3)})
	}
	return es
}

func sharedCase(c *hx.Ctx, es []sev) {
	ctx, cancel := context.WithCancel(context.Background())
	defer cancel()
	nw := qmem.NewNet()
	ls := map[int]*listener{}
	for _, e := range es {
		if e.ans >= 2 && ls[e.ans] == nil {
			ls[e.ans] = newListener(ctx, nw, e.ans-1)
		}
	}
	g := &gate{entered: make(chan struct{}, 16), release: make(chan struct{})}
	dpc := nw.NewConn("D", true)
	d, err := pconn.NewTransport(ctx, quietLogger(), privs[0], &recorder{}, &pconn.Opts{}, 0, dpc, g.parse, nil)
	if err != nil {
		panic(err)
	}
	go func() { _ = d.Execute(ctx) }()
	var terms, strs []string
	for _, e := range es {
		terms = append(terms, e.term())
		strs = append(strs, e.String())
	}
	desc := map[string]any{"kind": "shared-dialer", "script": strs}
	type res struct {
		l   link.Link
		err error
	}
	var chans []chan res
	var req []int
	inflight := false
	waiting := 0
	overlapDifferent := false
	for _, e := range es {
		switch {
		case e.drop:
			dropLink(d.Transport)
		case e.call != 0:
			ch := make(chan res, 1)
			chans = append(chans, ch)
			for _, r := range req[len(req)-waiting:] {
				if r != e.call {
					overlapDifferent = true
				}
			}
			req = append(req, e.call)
			x := pids[e.call-1]
			_, linked := d.LookupLinkWithAddr(addrA)
			go func() {
				dctx, dcancel := context.WithTimeout(ctx, 4*time.Second)
				defer dcancel()
				l, _, err := d.DialPeer(dctx, x, addrA)
				ch <- res{l, err}
			}()
			if linked {
				// CheckAlreadyConnected answers at once
				r := <-ch
				ch <- r
			} else {
				if !inflight {
					<-g.entered // the dialer was created and its dial function is held
					inflight = true
				}
				waiting++
				waitBlockedDialPeer(waiting)
			}
		default: // the dial in flight completes
			if !inflight {
				continue
			}
			if e.ans == 1 {
				nw.Route(addrA, nil)
			} else {
				nw.Route(addrA, ls[e.ans].pc)
			}
			g.release <- struct{}{}
			if e.ans == 1 {
				time.Sleep(120 * time.Millisecond)
				d.CancelDialer(addrA) // the dial function gives up
			}
			// all waiting callers return
			for _, ch := range chans[len(chans)-waiting:] {
				r := <-ch
				ch <- r
			}
			inflight = false
			waiting = 0
		}
	}
	var obs []string
	var obsI []int64
	for i, ch := range chans {
		o := int64(-2)
		select {
		case r := <-ch:
			switch {
			case r.err != nil:
				o = -1
			case r.l == nil:
				o = 0
			default:
				o = zid(r.l.GetRemotePeer())
				// the C05 statement itself
				if r.l.GetRemotePeer() != pids[req[i]-1] {
					c.Failf(sharedKey, desc, sharedWhat, i, req[i], o)
				}
			}
		default:
		}
		obs = append(obs, hx.Z(o))
		obsI = append(obsI, o)
	}
	desc["results"] = obsI
	c.Case(hx.App(sharedCtor, "1", hx.List(terms), hx.List(obs)), desc)
	c.Class("shared-dialer")
	if overlapDifferent {
		c.Class("shared-dialer-different-peers-overlap")
		c.Nontrivial(fmt.Sprint("s", strs))
	}
}

func initPeers() {
	if len(pids) != 0 {
		return
	}
	for i := 0; i < 5; i++ {
		p, err := peer.NewPeer(nil)
		if err != nil {
			panic(err)
		}
		pk, _ := p.GetPrivKey(context.Background())
		privs = append(privs, pk)
		pids = append(pids, p.GetPeerID())
	}
}

// oracle key and Coq constructor used by sharedCase (C05 defaults)
var (
	sharedKey  = "dial-returned-other-peer"
	sharedCtor = "Shared"
	sharedWhat = "call %d: DialPeer(peer%d, A) reported success with a link to peer %d"
)

// RunExpectedPeer runs the overlapping / sequential dial scenarios with
// different expected peers for another property (C03: expected-peer enforcement
// at the level callers use it), with that property's oracle key and case constructor.
func RunExpectedPeer(c *hx.Ctx, n int, key, ctor, what string) {
	initPeers()
	sharedKey, sharedCtor, sharedWhat = key, ctor, what
	for i := 0; i < n; i++ {
		var es []sev
		if i < len(sharedFixedScripts) {
			es = sharedFixedScripts[i]
		} else {
			es = genShared(c)
		}
		sharedCase(c, es)
	}
}

var sharedFixedScripts = [][]sev{
	{{call: 3}, {call: 2}, {ans: 3}}, // the second caller joins a dial made for another peer
	{{call: 2}, {call: 3}, {ans: 2}},
	{{call: 3}, {call: 2}, {ans: 2}},
	{{call: 2}, {call: 2}, {ans: 4}},
	{{call: 3}, {ans: 3}, {call: 2}}, // sequential: address already connected to another peer
	{{call: 3}, {ans: 3}, {drop: true}, {call: 2}, {ans: 2}},
	{{call: 3}, {call: 2}, {call: 4}, {ans: 4}}, // three callers
	{{call: 2}, {call: 3}, {ans: 1}},            // nobody
}

// ---------------------------------------------------------------------------
// re-dial after the dialer's link was lost

// redialCase: the controller's transport knows peer X at address A (static peer
// map), an EstablishLinkWithPeer(D, X) reference keeps the (X, A) dialer key
// referenced; the dialer obtains the link at A.  With others, X has a second
// link to D (it dials D from another endpoint B).  Then the link at A is lost
// while who (X again, or an impostor) answers at A: the controller must dial A
// again.
func redialCase(c *hx.Ctx, others bool, who int) {
	ctx, cancel := context.WithCancel(context.Background())
	defer cancel()
	le := quietLogger()
	nw := qmem.NewNet()
	ls := map[int]*listener{1: newListener(ctx, nw, 1)}
	if who != 1 {
		ls[who] = newListener(ctx, nw, who)
	}
	tb, err := testbed.NewTestbed(ctx, le, testbed.TestbedOpts{PrivKey: privs[0], NoEcho: true})
	if err != nil {
		panic(err)
	}
	defer tb.Release()
	x := pids[1]
	const backoffMs = 20
	spm := map[string]*dialer.DialerOpts{x.String(): {Address: addrA, Backoff: &backoff.Backoff{
		BackoffKind: backoff.BackoffKind_BackoffKind_CONSTANT, Constant: &backoff.Constant{Interval: backoffMs}}}}
	dpc := nw.NewConn("D", true)
	tch := make(chan *pconn.Transport, 1)
	ctrl := tptc.NewController(le, tb.Bus, controller.NewInfo("verif/redial", semver.MustParse("0.0.1"), "redial"), pids[0], false,
		func(ctx context.Context, le *logrus.Entry, pkey crypto.PrivKey, handler transport.TransportHandler) (transport.Transport, error) {
			t, err := pconn.NewTransport(ctx, le, pkey, handler, &pconn.Opts{}, 0, dpc, parseAddr, spm)
			if err != nil {
				return nil, err
			}
			tch <- t
			return dtpt{t}, nil
		})
	if _, err := tb.Bus.AddController(ctx, ctrl, nil); err != nil {
		panic(err)
	}
	d := <-tch
	nw.Route(addrA, ls[1].pc)
	// the application wants a link to X: keeps the dialer key referenced
	_, ref, err := tb.Bus.AddDirective(link.NewEstablishLinkWithPeer(pids[0], x), nil)
	if err != nil {
		panic(err)
	}
	defer ref.Release()
	desc := map[string]any{"kind": "redial", "peer_has_other_link": others, "answers_at_A_after_loss": ev{who: who}.String()}
	waitPeerAtA := func(id peer.ID, notLink link.Link, dur time.Duration) (link.Link, bool) {
		dl := time.Now().Add(dur)
		for time.Now().Before(dl) {
			if cur, ok := d.LookupLinkWithAddr(addrA); ok && cur.GetRemotePeer() == id && link.Link(cur) != notLink {
				return cur, true
			}
			time.Sleep(time.Millisecond)
		}
		return nil, false
	}
	first, ok := waitPeerAtA(x, nil, 5*time.Second)
	if !ok {
		c.Failf("static-dialer-no-link", desc, "EstablishLinkWithPeer(D, X) with a static dialer X->A did not produce a link at A")
		return
	}
	for i := 0; i < 2000 && len(ctrl.GetPeerLinks(x)) < 1; i++ {
		time.Sleep(time.Millisecond)
	}
	if others {
		// X connects to D from a second endpoint B
		bpc := nw.NewConn("B", true)
		t2, err := pconn.NewTransport(ctx, le, privs[1], &recorder{}, &pconn.Opts{}, 0, bpc, parseAddr, nil)
		if err != nil {
			panic(err)
		}
		dctx, dcancel := context.WithTimeout(ctx, 3*time.Second)
		_, _, derr := t2.DialPeer(dctx, pids[0], "D")
		dcancel()
		if derr != nil {
			panic(fmt.Sprint("redial: second link failed: ", derr))
		}
		for i := 0; i < 3000 && len(ctrl.GetPeerLinks(x)) < 2; i++ {
			time.Sleep(time.Millisecond)
		}
		if n := len(ctrl.GetPeerLinks(x)); n != 2 {
			panic(fmt.Sprint("redial: expected 2 links to X, have ", n))
		}
	}
	// who answers at A from now on; then the dialer's link is lost
	nw.Route(addrA, ls[who].pc)
	dropLink(d.Transport)
	_, got := waitPeerAtA(pids[who], first, 2500*time.Millisecond)
	o := int64(0)
	if got {
		o = int64(who + 1)
	} else if cur, ok := d.LookupLinkWithAddr(addrA); ok {
		o = zid(cur.GetRemotePeer())
	}
	desc["peer_at_A_after_redial"] = o
	if !got {
		c.Failf("dialer-link-lost-not-redialed", desc, "the link the (X, A) dialer obtained was lost while the dialer is still wanted, but A was not dialed again within 2.5s (%d retries worth of backoff)", 2500/backoffMs)
	}
	if who == 1 && got {
		found := false
		for i := 0; i < 1000 && !found; i++ {
			for _, l := range ctrl.GetPeerLinks(x) {
				if cur, ok := d.LookupLinkWithAddr(addrA); ok && l == link.Link(cur) {
					found = true
				}
			}
			time.Sleep(time.Millisecond)
		}
		if !found {
			c.Failf("redialed-link-not-registered", desc, "the re-dialed link to X is not among the controller's links to X")
		}
	}
	c.Case(hx.App("Redial", "2", "1", "1", hx.Bool(others), hx.List([]string{ev{who: who}.term()}), hx.Z(o)), desc)
	c.Class("redial-after-loss")
	if others {
		c.Class("redial-peer-has-second-link")
		c.Nontrivial(fmt.Sprint("r", others, who))
	}
}
