package main

import (
	"bytes"
	"errors"
	"strings"

	"github.com/aperturerobotics/bifrost/crypto"
	"github.com/aperturerobotics/bifrost/peer"
	"github.com/aperturerobotics/bifrost/util/confparse"
	b58 "github.com/mr-tron/base58/base58"
	"verifharness/internal/hx"
)

const b58Alphabet = "123456789ABCDEFGHJKLMNPQRSTUVWXYZabcdefghijkmnopqrstuvwxyz"

func randPub(c *hx.Ctx) []byte {
	switch c.Rng.Intn(8) {
	case 0:
		return make([]byte, 32)
	case 1:
		return bytes.Repeat([]byte{0xff}, 32)
	case 2: // leading zeros
		b := c.RandBytes(32)
		for i := 0; i < 1+c.Rng.Intn(8); i++ {
			b[i] = 0
		}
		return b
	default:
		return c.RandBytes(32)
	}
}

func extractClass(err error) int {
	switch {
	case errors.Is(err, peer.ErrNoPublicKey):
		return 5
	case errors.Is(err, crypto.ErrBadKeyType):
		return 6
	}
	return 0
}

// c10Bytes runs IDFromBytes and ExtractPublicKey on b, emits both cases and
// applies the oracle clauses that concern arbitrary byte strings.
func c10Bytes(c *hx.Ctx, b []byte, class string) {
	c.Class(class)
	desc := map[string]any{"kind": "id-bytes", "class": class, "bytes": hx.Hex(b)}
	var id peer.ID
	var err error
	var p bool
	o := guarded(c, "IDFromBytes", desc, [][]byte{b}, func() string {
		p, _ = hx.Catch(func() { id, err = peer.IDFromBytes(b) })
		return obsBytes(p, []byte(id), err, 0)
	})
	c.Case(hx.App("IdBytes", hx.Bytes(b), o), desc)
	if p {
		c.Failf("idfrombytes-panic", desc, "IDFromBytes panicked")
		return
	}
	wf := refWellFormedIdentity(b)
	if err == nil && !wf {
		c.Failf("idfrombytes-accepts-malformed", desc, "IDFromBytes accepted bytes that are not uvarint(0) ++ uvarint(len d) ++ d")
	}
	if err != nil && wf {
		c.Failf("idfrombytes-rejects-wellformed", desc, "IDFromBytes rejected a well-formed identity multihash: %v", err)
	}
	if err == nil && string(id) != string(b) {
		c.Failf("idfrombytes-changes-bytes", desc, "IDFromBytes returned different bytes")
	}
	if err == nil {
		c.Nontrivial("idb" + hx.Hex(b))
	}
	// ExtractPublicKey on the same bytes (cast, as the rest of the code base does)
	var pk crypto.PubKey
	var xerr error
	var raw []byte
	d2 := map[string]any{"kind": "extract", "class": class, "bytes": hx.Hex(b)}
	o = guarded(c, "ExtractPublicKey", d2, [][]byte{b}, func() string {
		raw = nil
		p, _ = hx.Catch(func() { pk, xerr = peer.ID(b).ExtractPublicKey() })
		if !p && xerr == nil {
			raw, _ = pk.Raw()
		}
		return obsBytes(p, raw, xerr, extractClass(xerr))
	})
	c.Case(hx.App("Extract", hx.Bytes(b), o), d2)
	if p {
		c.Failf("extract-panic", d2, "ExtractPublicKey panicked")
		return
	}
	if cap(b) > len(b) && !spareIntact(b) {
		c.Failf("writes-past-len", d2, "IDFromBytes/ExtractPublicKey wrote past the end of the input slice")
	}
	if xerr == nil {
		if len(raw) != 32 {
			c.Failf("extract-bad-key", d2, "extracted key has %d bytes", len(raw))
		}
		if !bytes.Contains(b, raw) {
			c.Failf("key-not-in-input", d2, "extracted key %x does not occur in the id bytes (read past the input?)", raw)
		}
		if err != nil {
			c.Failf("extract-from-rejected-id", d2, "ExtractPublicKey succeeded on bytes IDFromBytes rejects")
		}
		// the id must be the one derived from the key it yields
		der, _ := peer.IDFromPublicKey(pk)
		if string(der) != string(b) {
			c.Failf("extract-noncanonical-id", d2, "ExtractPublicKey succeeded but IDFromPublicKey(result) = %x is a different id", []byte(der))
		}
		// matches exactly when derived
		m := peer.ID(b).MatchesPublicKey(pk)
		if m != (string(der) == string(b)) {
			c.Failf("matches-not-derived", d2, "MatchesPublicKey=%v but derived-id-equality=%v", m, string(der) == string(b))
		}
		c.Case(hx.App("Matches", hx.Bytes(b), hx.Bytes(raw), hx.Bool(m)), map[string]any{"kind": "matches", "id": hx.Hex(b), "pk": hx.Hex(raw)})
	}
}

func c10Text(c *hx.Ctx, s string, class string) {
	c.Class(class)
	desc := map[string]any{"kind": "id-text", "class": class, "text": s, "hex": hx.Hex([]byte(s))}
	// the library against the specification
	var raw []byte
	var rerr error
	var p bool
	o := guarded(c, "base58.Decode", desc, nil, func() string {
		p, _ = hx.Catch(func() { raw, rerr = b58.Decode(s) })
		return obsBytes(p, raw, rerr, 58)
	})
	c.Case(hx.App("RawB58Dec", hx.Str(s), o), desc)
	if p {
		c.Failf("b58-decode-panic", desc, "base58 Decode panicked")
		return
	}
	nonAlpha := s == "" || strings.IndexFunc(s, func(r rune) bool { return r > 127 || !strings.ContainsRune(b58Alphabet, r) }) >= 0
	for i := 0; i < len(s); i++ {
		if s[i] >= 0x80 {
			nonAlpha = true
		}
	}
	if rerr == nil && nonAlpha {
		c.Failf("b58-accepts-nonalphabet", desc, "base58 Decode accepted a string with a character outside the alphabet (or empty)")
	}
	if rerr != nil && !nonAlpha {
		c.Failf("b58-rejects-alphabet-string", desc, "base58 Decode rejected a string over the alphabet: %v", rerr)
	}
	if rerr == nil && b58.Encode(raw) != s {
		c.Failf("b58-not-canonical", desc, "Encode(Decode(s)) != s")
	}
	var id peer.ID
	var err error
	cl := 0
	if rerr != nil {
		cl = 58
	}
	o = guarded(c, "IDB58Decode", desc, nil, func() string {
		p, _ = hx.Catch(func() { id, err = peer.IDB58Decode(s) })
		return obsBytes(p, []byte(id), err, cl)
	})
	c.Case(hx.App("B58Dec", hx.Str(s), o), desc)
	if p {
		c.Failf("idb58decode-panic", desc, "IDB58Decode panicked")
		return
	}
	if err == nil {
		c.Nontrivial("idt" + s)
		if !refWellFormedIdentity([]byte(id)) {
			c.Failf("idb58decode-accepts-malformed", desc, "IDB58Decode accepted text that is not a well-formed identity multihash")
		}
		if id.String() != s {
			c.Failf("id-text-roundtrip", desc, "IDB58Decode(s).String() != s")
		}
	}
	// confparse.ParsePeerID
	var pid peer.ID
	var perr error
	p, _ = hx.Catch(func() { pid, perr = confparse.ParsePeerID(s) })
	switch {
	case p:
		o = oPanic
	case perr != nil:
		o = oErr(0)
	case s == "":
		o = oOk("None")
	default:
		o = oOk(hx.Opt(true, hx.Bytes([]byte(pid))))
	}
	c.Case(hx.App("ParsePeerId", hx.Str(s), o), desc)
	if p {
		c.Failf("parsepeerid-panic", desc, "ParsePeerID panicked")
	}
	if !p && (perr == nil) != (err == nil) && s != "" {
		c.Failf("parsepeerid-differs", desc, "ParsePeerID and IDB58Decode disagree")
	}
}

func c10(c *hx.Ctx) {
	c.Type = "c10_case"
	c.Agree = "c10_agree"
	c.Rule = "valid keys (zero, 0xff, leading zeros, random) through IDFromPublicKey/Extract/Matches/String/IDB58Decode; byte strings mutated from valid ids (truncation, +-1 length, non-identity codes, non-minimal and 10/11-byte varints, length mismatch); embedded protobuf irregularities; base58 text with leading 1s, non-alphabet and high-bit characters; non-trivial = distinct accepted id / decoded text"
	seen := map[string]string{} // id -> key
	var ids [][]byte
	var pks [][]byte
	nValid := c.N / 4
	for i := 0; i < nValid; i++ {
		raw := randPub(c)
		pk, err := crypto.UnmarshalEd25519PublicKey(raw)
		if err != nil {
			panic(err)
		}
		id, err := peer.IDFromPublicKey(pk)
		desc := map[string]any{"kind": "valid-key", "pk": hx.Hex(raw), "id": hx.Hex([]byte(id))}
		if err != nil {
			c.Failf("idfrompublickey-error", desc, "IDFromPublicKey failed: %v", err)
			continue
		}
		c.Class("valid-key")
		c.Nontrivial("k" + hx.Hex(raw))
		c.Case(hx.App("FromPub", hx.Bytes(raw), hx.Bytes([]byte(id))), desc)
		mp, _ := crypto.MarshalPublicKey(pk)
		c.Case(hx.App("MarshalPub", hx.Bytes(raw), hx.Bytes(mp)), desc)
		// decodes back to exactly that key
		xp, xerr := id.ExtractPublicKey()
		var xraw []byte
		if xerr == nil {
			xraw, _ = xp.Raw()
		}
		c.Case(hx.App("Extract", hx.Bytes([]byte(id)), obsBytes(false, xraw, xerr, extractClass(xerr))), desc)
		if xerr != nil || !bytes.Equal(xraw, raw) || !xp.Equals(pk) {
			c.Failf("extract-not-inverse", desc, "ExtractPublicKey(IDFromPublicKey(pk)) = %x, %v", xraw, xerr)
		}
		// text form round-trips
		s := id.String()
		c.Case(hx.App("B58Enc", hx.Bytes([]byte(id)), hx.Str(s)), desc)
		if peer.IDB58Encode(id) != s {
			c.Failf("idb58encode-differs", desc, "IDB58Encode != String")
		}
		back, berr := peer.IDB58Decode(s)
		c.Case(hx.App("B58Dec", hx.Str(s), obsBytes(false, []byte(back), berr, 0)), desc)
		if berr != nil || back != id {
			c.Failf("id-text-roundtrip", desc, "IDB58Decode(id.String()) = %x, %v", []byte(back), berr)
		}
		fb, ferr := peer.IDFromBytes([]byte(id))
		c.Case(hx.App("IdBytes", hx.Bytes([]byte(id)), obsBytes(false, []byte(fb), ferr, 0)), desc)
		if ferr != nil || fb != id {
			c.Failf("idfrombytes-rejects-derived", desc, "IDFromBytes(IDFromPublicKey(pk)) failed: %v", ferr)
		}
		// injective
		if prev, ok := seen[string(id)]; ok && prev != string(raw) {
			c.Failf("id-collision", desc, "two different keys have the same id (other key %x)", prev)
		}
		seen[string(id)] = string(raw)
		// matches exactly when derived
		if !id.MatchesPublicKey(pk) {
			c.Failf("matches-own-false", desc, "MatchesPublicKey false for the key the id was derived from")
		}
		c.Case(hx.App("Matches", hx.Bytes([]byte(id)), hx.Bytes(raw), hx.Bool(id.MatchesPublicKey(pk))), desc)
		if len(pks) > 0 {
			j := c.Rng.Intn(len(pks))
			opk, _ := crypto.UnmarshalEd25519PublicKey(pks[j])
			m := id.MatchesPublicKey(opk)
			if m != bytes.Equal(pks[j], raw) {
				c.Failf("matches-other-key", desc, "MatchesPublicKey=%v for key %x", m, pks[j])
			}
			c.Case(hx.App("Matches", hx.Bytes([]byte(id)), hx.Bytes(pks[j]), hx.Bool(m)), desc)
		}
		// one-bit change of the key changes the id
		raw2 := append([]byte{}, raw...)
		raw2[c.Rng.Intn(32)] ^= 1 << uint(c.Rng.Intn(8))
		pk2, _ := crypto.UnmarshalEd25519PublicKey(raw2)
		id2, _ := peer.IDFromPublicKey(pk2)
		if id2 == id {
			c.Failf("id-collision", desc, "flipping a key bit does not change the id")
		}
		m2 := id.MatchesPublicKey(pk2)
		if m2 {
			c.Failf("matches-other-key", desc, "id matches a key that differs in one bit")
		}
		c.Case(hx.App("Matches", hx.Bytes([]byte(id)), hx.Bytes(raw2), hx.Bool(m2)), desc)
		ids = append(ids, []byte(id))
		pks = append(pks, raw)
	}
	// mutated byte strings
	nMut := c.N / 3
	for i := 0; i < nMut; i++ {
		id := ids[c.Rng.Intn(len(ids))]
		body := id[2:] // marshalled public key (36 bytes: code and length are one byte each)
		var b []byte
		var class string
		switch c.Rng.Intn(16) {
		case 0:
			b, class = id[:c.Rng.Intn(len(id))], "truncated"
		case 1:
			b, class = cat(id, c.RandBytes(1+c.Rng.Intn(2))), "extended"
		case 2:
			code := []uint64{0x12, 0x11, 1, 0x1e, 1 << 20, 1<<64 - 1}[c.Rng.Intn(6)]
			b, class = cat(uv(code), id[1:]), "non-identity-code"
		case 3:
			b, class = cat(nonMinimal(0, 1+c.Rng.Intn(9)), id[1:]), "non-minimal-code"
		case 4:
			b, class = cat(id[:1], nonMinimal(uint64(len(body)), 1+c.Rng.Intn(9)), body), "non-minimal-length"
		case 5: // 10-byte varint with tenth byte 2, and 11-byte varint
			if c.Rng.Intn(2) == 0 {
				b = cat(bytes.Repeat([]byte{0x80}, 9), []byte{0x02}, id[1:])
			} else {
				b = cat(bytes.Repeat([]byte{0x80}, 10), []byte{0x00}, id[1:])
			}
			class = "overlong-varint"
		case 6:
			d := []int{-1, 1, 2, 100}[c.Rng.Intn(4)]
			b, class = cat(id[:1], uv(uint64(len(body)+d)), body), "length-mismatch"
		case 7:
			b, class = cat(id[:1], uv([]uint64{1 << 32, 1 << 63, 1<<64 - 1}[c.Rng.Intn(3)]), body), "length-huge"
		case 8:
			b, class = c.RandBytes(c.Rng.Intn(12)), "random-short"
		case 9:
			if c.Rng.Intn(2) == 0 { // code present, length varint missing or cut
				b, class = cat(id[:1], bytes.Repeat([]byte{0x80}, c.Rng.Intn(3))), "truncated-length-varint"
				break
			}
			b, class = [][]byte{{}, {0}, {0, 0}, {0x80}, {0, 0x80}, {0, 1, 7}, {0x12, 1, 0xaa}, {0x80, 0, 0x80, 0}}[c.Rng.Intn(8)], "tiny"
		case 10: // identity multihash of an arbitrary digest
			d := c.RandBytes(c.Rng.Intn(40))
			b, class = cat(uv(0), uv(uint64(len(d))), d), "identity-random-digest"
		case 11: // digest of 128..200 bytes: two-byte length varint
			d := c.RandBytes(128 + c.Rng.Intn(72))
			b, class = cat(uv(0), uv(uint64(len(d))), d), "identity-long-digest"
		case 12, 13: // alias ids: other encodings of an id that carries a valid key
			key := id[len(id)-32:]
			switch c.Rng.Intn(6) {
			case 0: // 80 00 24 ...
				b = cat([]byte{0x80, 0x00}, id[1:])
			case 1: // 00 a4 00 ...
				b = cat(id[:1], []byte{0x80 | byte(len(body)), 0x00}, body)
			case 2: // unknown field inside the embedded PublicKey, length adjusted
				pb := cat(body, pbVarint(3, uint64(c.Rng.Intn(100))))
				b = cat(uv(0), uv(uint64(len(pb))), pb)
			case 3: // fields re-ordered
				pb := cat(pbBytes(2, key), pbVarint(1, 1))
				b = cat(uv(0), uv(uint64(len(pb))), pb)
			case 4: // duplicate field, last wins
				pb := cat(pbVarint(1, 0), body)
				b = cat(uv(0), uv(uint64(len(pb))), pb)
			default: // non-minimal varint inside the embedded key
				pb := cat(pbTag(1, 0), nonMinimal(1, 1+c.Rng.Intn(3)), pbBytes(2, key))
				b = cat(uv(0), uv(uint64(len(pb))), pb)
			}
			class = "alias-of-valid-id"
			// the embedded key, decoded on its own from the same non-canonical bytes, is the same key
			if _, n1, ok := refUvarint(b); ok {
				if _, n2, ok := refUvarint(b[n1:]); ok {
					c10Decoded(c, b[n1+n2:], key)
				}
			}
		default: // embedded protobuf irregularities
			ty := uint64(1)
			if c.Rng.Intn(5) == 0 {
				ty = []uint64{0, 2, 3, 1 << 31}[c.Rng.Intn(4)]
			}
			data := id[len(id)-32:]
			if c.Rng.Intn(3) == 0 {
				data = c.RandBytes([]int{0, 31, 33, 64}[c.Rng.Intn(4)])
			}
			pb, pc := randProto(c, ty, data)
			b, class = cat(uv(0), uv(uint64(len(pb))), pb), "embedded-"+pc
			// also the bare decoder
			var pk crypto.PubKey
			var uerr error
			var p bool
			ud := map[string]any{"kind": "unmarshal-pub", "class": pc, "bytes": hx.Hex(pb)}
			uo := guarded(c, "UnmarshalPublicKey", ud, [][]byte{pb}, func() string {
				var raw []byte
				p, _ = hx.Catch(func() { pk, uerr = crypto.UnmarshalPublicKey(pb) })
				if !p && uerr == nil {
					raw, _ = pk.Raw()
				}
				return obsBytes(p, raw, uerr, extractClass(uerr))
			})
			c.Case(hx.App("UnmarshalPub", hx.Bytes(pb), uo), ud)
			if p {
				c.Failf("unmarshalpublickey-panic", ud, "UnmarshalPublicKey panicked")
			}
		}
		c10Bytes(c, b, class)
		if c.Rng.Intn(3) == 0 && len(b) > 0 {
			c10Text(c, b58.Encode(b), "text-of-"+class)
		}
	}
	c10Sweep(c, pks[0])
	c10Prefixes(c, ids[0], pks[0])
	// text
	nText := c.N - nValid - nMut
	for i := 0; i < nText; i++ {
		var s, class string
		switch c.Rng.Intn(9) {
		case 0:
			s, class = "", "text-empty"
		case 1: // leading 1s then alphabet characters
			var sb strings.Builder
			for k := c.Rng.Intn(5); k > 0; k-- {
				sb.WriteByte('1')
			}
			for k := c.Rng.Intn(12); k > 0; k-- {
				sb.WriteByte(b58Alphabet[c.Rng.Intn(58)])
			}
			s, class = sb.String(), "text-alphabet"
		case 2: // valid id text with one character replaced by a non-alphabet one
			t := []byte(b58.Encode(ids[c.Rng.Intn(len(ids))]))
			t[c.Rng.Intn(len(t))] = "0OIl +/=-_\n\t"[c.Rng.Intn(12)]
			s, class = string(t), "text-nonalphabet"
		case 3: // high-bit byte / multi-byte rune
			t := b58.Encode(ids[c.Rng.Intn(len(ids))])
			k := c.Rng.Intn(len(t))
			ins := []string{"\x80", "\xff", "é", " ", "\xc2"}[c.Rng.Intn(5)]
			s, class = t[:k]+ins+t[k:], "text-highbit"
		case 4: // whitespace around a valid id
			t := b58.Encode(ids[c.Rng.Intn(len(ids))])
			s, class = []string{" " + t, t + "\n", "\t" + t + " "}[c.Rng.Intn(3)], "text-whitespace"
		case 5: // all ones
			s, class = strings.Repeat("1", 1+c.Rng.Intn(6)), "text-ones"
		case 6: // valid id text, truncated or extended
			t := b58.Encode(ids[c.Rng.Intn(len(ids))])
			if c.Rng.Intn(2) == 0 {
				t = t[:c.Rng.Intn(len(t))]
			} else {
				t += string(b58Alphabet[c.Rng.Intn(58)])
			}
			s, class = t, "text-truncated-extended"
		case 7: // text of an id with leading zero bytes in front (not an id any more)
			s, class = b58.Encode(cat(make([]byte, 1+c.Rng.Intn(3)), ids[c.Rng.Intn(len(ids))])), "text-leading-ones"
		default:
			s, class = b58.Encode(ids[c.Rng.Intn(len(ids))]), "text-valid"
		}
		c10Text(c, s, class)
	}
}

// c10Sweep: for total lengths L the byte string [code][byte(L-2)][L-2 bytes], i.e. the
// boundary where a (possibly continuation) length byte coincides with the
// number of remaining bytes, plus the properly encoded and non-minimal length
// varints for the same digest, with random filler and with a valid PublicKey
// padded to that size.  Quick tier: boundaries + a sample; thorough: every L.
func c10Sweep(c *hx.Ctx, key []byte) {
	var ls []int
	if c.Tier == "thorough" {
		for l := 0; l <= 300; l++ {
			ls = append(ls, l)
		}
		ls = append(ls, 16383, 16384, 16385, 16386, 16387)
	} else {
		ls = []int{0, 1, 2, 3, 38, 128, 129, 130, 131, 132, 255, 256, 257, 258, 259, 300, 16386}
		for i := 0; i < 14; i++ {
			ls = append(ls, 130+c.Rng.Intn(128))
		}
		for i := 0; i < 4; i++ {
			ls = append(ls, c.Rng.Intn(130))
		}
	}
	for _, l := range ls {
		n := l - 2
		if n < 0 {
			c10Bytes(c, make([]byte, l), "sweep-short")
			continue
		}
		// filler: random, or a valid PublicKey proto padded with an unknown bytes field to n bytes
		fill := c.RandBytes(n)
		class := "random"
		if c.Rng.Intn(2) == 0 {
			if cand, ok := padProto(cat(pbVarint(1, 1), pbBytes(2, key)), n); ok {
				fill, class = cand, "padded-key"
			}
		}
		code := byte(0)
		if c.Rng.Intn(6) == 0 {
			code = []byte{0x12, 0x01, 0x7f}[c.Rng.Intn(3)]
		}
		// single length byte equal to the remaining length (a continuation byte from 128 on)
		c10Bytes(c, cat([]byte{code, byte(n)}, fill), "sweep-length-byte-"+class)
		// the proper varint, and a non-minimal one
		c10Bytes(c, cat([]byte{code}, uv(uint64(n)), fill), "sweep-proper-varint-"+class)
		if l <= 300 {
			c10Bytes(c, cat([]byte{code}, nonMinimal(uint64(n), 1+c.Rng.Intn(2)), fill), "sweep-nonminimal-varint-"+class)
			// continuation length byte followed by the byte that makes the varint value right or wrong
			if n >= 1 {
				c10Bytes(c, cat([]byte{code, 0x80 | byte(n&0x7f), byte(n >> 7)}, fill), "sweep-two-byte-varint-"+class)
			}
			if c.Rng.Intn(3) == 0 {
				c10Text(c, b58.Encode(cat([]byte{code, byte(n)}, fill)), "text-of-sweep")
			}
		}
	}
}

// c10Decoded: a PublicKey decoded from an equivalent non-canonical encoding is
// the same key as the one built from the raw bytes: same raw form, Equals,
// canonical re-marshalling, same derived id.
func c10Decoded(c *hx.Ctx, enc []byte, key []byte) {
	desc := map[string]any{"kind": "decoded-pub", "encoding": hx.Hex(enc), "key": hx.Hex(key)}
	var pk crypto.PubKey
	var err error
	var p bool
	o := guarded(c, "UnmarshalPublicKey", desc, [][]byte{enc}, func() string {
		p, _ = hx.Catch(func() { pk, err = crypto.UnmarshalPublicKey(enc) })
		var raw []byte
		if !p && err == nil {
			raw, _ = pk.Raw()
		}
		return obsBytes(p, raw, err, extractClass(err))
	})
	c.Case(hx.App("UnmarshalPub", hx.Bytes(enc), o), desc)
	c.Class("decoded-pub")
	if p || err != nil {
		c.Failf("decoded-key-differs", desc, "equivalent encoding of a public key rejected: panic=%v err=%v", p, err)
		return
	}
	ref, _ := crypto.UnmarshalEd25519PublicKey(key)
	raw, _ := pk.Raw()
	m1, _ := crypto.MarshalPublicKey(pk)
	m2, _ := crypto.MarshalPublicKey(ref)
	id1, _ := peer.IDFromPublicKey(pk)
	id2, _ := peer.IDFromPublicKey(ref)
	if !bytes.Equal(raw, key) || !pk.Equals(ref) || !ref.Equals(pk) || !bytes.Equal(m1, m2) || id1 != id2 || !id2.MatchesPublicKey(pk) {
		c.Failf("decoded-key-differs", desc, "key decoded from an equivalent encoding differs from the key built from its raw bytes")
	}
	c.Case(hx.App("MarshalPub", hx.Bytes(raw), hx.Bytes(m1)), desc)
	c.Case(hx.App("FromPub", hx.Bytes(raw), hx.Bytes([]byte(id1))), desc)
}

// padProto extends a protobuf message with unknown fields to exactly n bytes.
func padProto(base []byte, n int) ([]byte, bool) {
	rem := n - len(base)
	if rem == 0 {
		return base, true
	}
	if rem < 2 {
		return nil, false
	}
	for lb := 1; lb <= 3; lb++ {
		p := rem - 1 - lb
		if p >= 0 && len(uv(uint64(p))) == lb {
			return cat(base, pbBytes(5, make([]byte, p))), true
		}
	}
	if rem >= 4 { // the gap between one- and two-byte length varints: spend two bytes on a varint field first
		if r, ok := padProto(cat(base, []byte{0x18, 0x01}), n); ok {
			return r, true
		}
	}
	return nil, false
}

// c10Prefixes: every proper prefix of a valid id (exact-capacity and
// spare-capacity slices), the id with trailing bytes, the same for the
// embedded PublicKey (multihash header re-computed for the truncated key, so
// that the truncation reaches UnmarshalPublicKey), and every prefix of the text form.
func c10Prefixes(c *hx.Ctx, id []byte, key []byte) {
	step := 1
	for _, v := range truncations(c, id, step) {
		c10Bytes(c, v.b, "id-"+v.kind)
	}
	body := id[2:]
	for _, v := range truncations(c, body, step) {
		b := cat(uv(0), uv(uint64(len(v.b))), v.b)
		if v.kind == "prefix-spare" || v.kind == "complete-spare" {
			b = spareCap(b)
		} else {
			b = exactCap(b)
		}
		c10Bytes(c, b, "embedded-key-"+v.kind)
		c10PubProto(c, v.b, "pubkey-"+v.kind)
	}
	tstep := 1
	if c.Tier != "thorough" {
		tstep = 3
	}
	for _, t := range textCuts(b58.Encode(id), tstep) {
		c10Text(c, t, "text-cut")
	}
}

// c10PubProto: crypto.UnmarshalPublicKey on d with the 'key or error' oracle.
func c10PubProto(c *hx.Ctx, d []byte, class string) {
	c.Class(class)
	desc := map[string]any{"kind": "unmarshal-pub", "class": class, "bytes": hx.Hex(d), "cap_minus_len": cap(d) - len(d)}
	var pk crypto.PubKey
	var err error
	var p bool
	var raw []byte
	o := guarded(c, "UnmarshalPublicKey", desc, [][]byte{d}, func() string {
		raw = nil
		p, _ = hx.Catch(func() { pk, err = crypto.UnmarshalPublicKey(d) })
		if !p && err == nil {
			raw, _ = pk.Raw()
		}
		return obsBytes(p, raw, err, extractClass(err))
	})
	c.Case(hx.App("UnmarshalPub", hx.Bytes(d), o), desc)
	switch {
	case p:
		c.Failf("unmarshalpublickey-panic", desc, "UnmarshalPublicKey panicked")
	case err == nil && pk == nil:
		c.Failf("unmarshal-no-key-no-error", desc, "UnmarshalPublicKey returned neither a key nor an error")
	case err == nil:
		if len(raw) != 32 || !bytes.Contains(d, raw) {
			c.Failf("key-not-in-input", desc, "returned key %x does not occur in the input (read past the input?)", raw)
		}
	}
	if cap(d) > len(d) && !spareIntact(d) {
		c.Failf("writes-past-len", desc, "UnmarshalPublicKey wrote past the end of the input slice")
	}
}
