package main

import (
	"bytes"
	"crypto/ed25519"
	"encoding/pem"
	"errors"
	"strings"

	"github.com/aperturerobotics/bifrost/crypto"
	"github.com/aperturerobotics/bifrost/keypem"
	"github.com/aperturerobotics/bifrost/peer"
	"github.com/aperturerobotics/bifrost/util/confparse"
	b58 "github.com/mr-tron/base58/base58"
	"verifharness/internal/hx"
)

func pemRes(b []byte) string {
	blk, _ := pem.Decode(b)
	if blk == nil {
		return "None"
	}
	return "(Some (" + hx.Str(blk.Type) + ", " + hx.Bytes(blk.Bytes) + "))"
}

func rawPriv(k crypto.PrivKey) []byte {
	if k == nil {
		return nil
	}
	r, _ := k.Raw()
	return r
}

func rawPub(k crypto.PubKey) []byte {
	if k == nil {
		return nil
	}
	r, _ := k.Raw()
	return r
}

func optKey(present bool, raw []byte) string { return hx.Opt(present, hx.Bytes(raw)) }

func keyErrClass(err error) int {
	switch {
	case errors.Is(err, crypto.ErrBadKeyType):
		return 6
	case errors.Is(err, keypem.ErrUnexpectedPemType):
		return 32
	}
	return 0
}

// obsOptPriv renders (PrivKey, error) as obs (option bytes).
func obsOptKey(p bool, present bool, raw []byte, err error) string {
	switch {
	case p:
		return oPanic
	case err != nil:
		return oErr(keyErrClass(err))
	default:
		return oOk(optKey(present, raw))
	}
}

// keypem parsers on dat; blank==true means the input is empty (nothing to decode).
func c11Pem(c *hx.Ctx, dat []byte, class string) {
	c.Class(class)
	desc := map[string]any{"kind": "pem", "class": class, "bytes": hx.Hex(dat), "text": string(dat)}
	pr := pemRes(dat)
	blkType := "" // type of the first PEM block according to encoding/pem ("" = no block)
	if blk, _ := pem.Decode(dat); blk != nil {
		blkType = blk.Type
	}
	hasBlk := pr != "None"
	// ParseKeyPem
	{
		var sk crypto.PrivKey
		var pk crypto.PubKey
		var err error
		var p bool
		o := guarded(c, "ParseKeyPem", desc, [][]byte{dat}, func() string {
			p, _ = hx.Catch(func() { sk, pk, err = keypem.ParseKeyPem(dat) })
			switch {
			case p:
				return oPanic
			case err != nil:
				return oErr(keyErrClass(err))
			}
			return oOk("(" + optKey(sk != nil, rawPriv(sk)) + ", " + optKey(pk != nil, rawPub(pk)) + ")")
		})
		switch {
		case p:
			c.Failf("parsekeypem-panic", desc, "ParseKeyPem panicked")
		case err != nil:
		default:
			if sk == nil && pk == nil {
				c.Failf("keypem-no-key-no-error", desc, "ParseKeyPem returned neither a key nor an error")
			}
			if blk, _ := pem.Decode(dat); blk != nil && ((sk != nil && !bytes.Contains(blk.Bytes, rawPriv(sk))) || (pk != nil && !bytes.Contains(blk.Bytes, rawPub(pk)))) {
				c.Failf("key-not-in-input", desc, "ParseKeyPem returned a key that does not occur in the PEM body (read past the input?)")
			}
			if sk != nil && (pk == nil || !bytes.Equal(rawPub(sk.GetPublic()), rawPub(pk))) {
				c.Failf("parsekeypem-public-differs", desc, "ParseKeyPem public key is not the private key's public key")
			}
			if hasBlk && blkType != keypem.PrivPemType && blkType != keypem.PubPemType {
				c.Failf("pem-wrong-type-accepted", desc, "ParseKeyPem accepted a PEM block of type %q", blkType)
			}
			if hasBlk && blkType == keypem.PubPemType && sk != nil {
				c.Failf("pem-wrong-type-accepted", desc, "ParseKeyPem returned a private key from a public key block")
			}
		}
		c.Case(hx.App("KeyPem", hx.Bytes(dat), pr, o), desc)
	}
	// ParsePrivKeyPem
	{
		var sk crypto.PrivKey
		var err error
		var p bool
		o := guarded(c, "ParsePrivKeyPem", desc, [][]byte{dat}, func() string {
			p, _ = hx.Catch(func() { sk, err = keypem.ParsePrivKeyPem(dat) })
			return obsOptKey(p, sk != nil, rawPriv(sk), err)
		})
		if p {
			c.Failf("parseprivkeypem-panic", desc, "ParsePrivKeyPem panicked")
		} else if err == nil && sk == nil {
			c.Failf("keypem-no-key-no-error", desc, "ParsePrivKeyPem returned neither a key nor an error")
		} else if err == nil && hasBlk && blkType != keypem.PrivPemType {
			c.Failf("pem-wrong-type-accepted", desc, "ParsePrivKeyPem accepted a PEM block of type %q", blkType)
		}
		c.Case(hx.App("PrivPem", hx.Bytes(dat), pr, o), desc)
	}
	// ParsePubKeyPem
	{
		var pk crypto.PubKey
		var err error
		var p bool
		o := guarded(c, "ParsePubKeyPem", desc, [][]byte{dat}, func() string {
			p, _ = hx.Catch(func() { pk, err = keypem.ParsePubKeyPem(dat) })
			return obsOptKey(p, pk != nil, rawPub(pk), err)
		})
		if p {
			c.Failf("parsepubkeypem-panic", desc, "ParsePubKeyPem panicked")
		} else if err == nil && pk == nil {
			c.Failf("keypem-no-key-no-error", desc, "ParsePubKeyPem returned neither a key nor an error")
		} else if err == nil && hasBlk && blkType != keypem.PrivPemType && blkType != keypem.PubPemType {
			c.Failf("pem-wrong-type-accepted", desc, "ParsePubKeyPem accepted a PEM block of type %q", blkType)
		}
		c.Case(hx.App("PubPem", hx.Bytes(dat), pr, o), desc)
	}
	// confparse PEM variants: nil,nil is the documented answer for an empty field only
	{
		var sk crypto.PrivKey
		var err error
		var p bool
		o := guarded(c, "ParsePrivateKeyPEM", desc, [][]byte{dat}, func() string {
			p, _ = hx.Catch(func() { sk, err = confparse.ParsePrivateKeyPEM(dat) })
			return obsOptKey(p, sk != nil, rawPriv(sk), err)
		})
		if p {
			c.Failf("confparse-pem-panic", desc, "ParsePrivateKeyPEM panicked")
		} else if err == nil && sk == nil && len(dat) != 0 {
			c.Failf("confparse-no-key-no-error", desc, "ParsePrivateKeyPEM returned neither a key nor an error for a non-empty field")
		}
		c.Case(hx.App("ConfPrivPem", hx.Bytes(dat), pr, o), desc)
		var pk crypto.PubKey
		o = guarded(c, "ParsePublicKeyPEM", desc, [][]byte{dat}, func() string {
			p, _ = hx.Catch(func() { pk, err = confparse.ParsePublicKeyPEM(dat) })
			return obsOptKey(p, pk != nil, rawPub(pk), err)
		})
		if p {
			c.Failf("confparse-pem-panic", desc, "ParsePublicKeyPEM panicked")
		} else if err == nil && pk == nil && len(dat) != 0 {
			c.Failf("confparse-no-key-no-error", desc, "ParsePublicKeyPEM returned neither a key nor an error for a non-empty field")
		}
		c.Case(hx.App("ConfPubPem", hx.Bytes(dat), pr, o), desc)
	}
}

// confparse.ParsePrivateKey / ParsePublicKey on a configuration string.
func c11Conf(c *hx.Ctx, s string, class string) (crypto.PrivKey, crypto.PubKey) {
	c.Class(class)
	desc := map[string]any{"kind": "conf", "class": class, "text": s, "hex": hx.Hex([]byte(s))}
	t := strings.TrimSpace(s)
	c.Case(hx.App("Trim", hx.Str(s), hx.Str(t)), desc)
	pr := pemRes([]byte(t))
	var sk crypto.PrivKey
	var err error
	var p bool
	o := guarded(c, "ParsePrivateKey", desc, nil, func() string {
		p, _ = hx.Catch(func() { sk, err = confparse.ParsePrivateKey(s) })
		return obsOptKey(p, sk != nil, rawPriv(sk), err)
	})
	if p {
		c.Failf("confparse-panic", desc, "ParsePrivateKey panicked")
	} else if err == nil && sk == nil && t != "" {
		c.Failf("confparse-no-key-no-error", desc, "ParsePrivateKey returned neither a key nor an error for a non-blank field")
	}
	c.Case(hx.App("ConfPriv", hx.Str(s), pr, o), desc)
	var pk crypto.PubKey
	var perr error
	o = guarded(c, "ParsePublicKey", desc, nil, func() string {
		p, _ = hx.Catch(func() { pk, perr = confparse.ParsePublicKey(s) })
		return obsOptKey(p, pk != nil, rawPub(pk), perr)
	})
	if p {
		c.Failf("confparse-panic", desc, "ParsePublicKey panicked")
	} else if perr == nil && pk == nil && t != "" {
		c.Failf("confparse-no-key-no-error", desc, "ParsePublicKey returned neither a key nor an error for a non-blank field")
	}
	c.Case(hx.App("ConfPub", hx.Str(s), pr, o), desc)
	if !strings.HasPrefix(t, "-----BEGIN") {
		if dec, derr := b58.Decode(t); derr == nil {
			if sk != nil && err == nil && !bytes.Contains(dec, rawPriv(sk)) {
				c.Failf("key-not-in-input", desc, "ParsePrivateKey returned a key that does not occur in the decoded text")
			}
			if pk != nil && perr == nil && !bytes.Contains(dec, rawPub(pk)) {
				c.Failf("key-not-in-input", desc, "ParsePublicKey returned a key %x that does not occur in the decoded text (read past the input?)", rawPub(pk))
			}
		}
	} else if blk, _ := pem.Decode([]byte(t)); blk != nil {
		if (sk != nil && err == nil && !bytes.Contains(blk.Bytes, rawPriv(sk))) || (pk != nil && perr == nil && !bytes.Contains(blk.Bytes, rawPub(pk))) {
			c.Failf("key-not-in-input", desc, "configuration PEM: returned key does not occur in the PEM body")
		}
	}
	return sk, pk
}

func c11EdPriv(c *hx.Ctx, d []byte, class string) {
	c.Class(class)
	desc := map[string]any{"kind": "ed25519-priv", "class": class, "bytes": hx.Hex(d)}
	var sk crypto.PrivKey
	var err error
	var p bool
	o := guarded(c, "UnmarshalEd25519PrivateKey", desc, [][]byte{d}, func() string {
		p, _ = hx.Catch(func() { sk, err = crypto.UnmarshalEd25519PrivateKey(d) })
		return obsBytes(p, rawPriv(sk), err, 0)
	})
	c.Case(hx.App("UnmarshalEdPriv", hx.Bytes(d), o), desc)
	if p {
		c.Failf("unmarshaled25519-panic", desc, "UnmarshalEd25519PrivateKey panicked")
		return
	}
	want := len(d) == 64 || (len(d) == 96 && bytes.Equal(d[32:64], d[64:]))
	if (err == nil) != want {
		c.Failf("ed25519-accept-differs", desc, "accepted=%v, expected %v (64 bytes, or 96 bytes with equal redundant key)", err == nil, want)
	}
	if err == nil {
		c.Nontrivial("ed" + hx.Hex(d))
		if !bytes.Equal(rawPriv(sk), d[:64]) {
			c.Failf("ed25519-key-changed", desc, "decoded key differs from the first 64 bytes")
		}
		var pub []byte
		p, _ = hx.Catch(func() { pub = rawPub(sk.GetPublic()) })
		c.Case(hx.App("GetPublic", hx.Bytes(rawPriv(sk)), obsBytes(p, pub, nil, 0)), desc)
		if p {
			c.Failf("getpublic-panic", desc, "GetPublic panicked")
		} else if !bytes.Equal(pub, d[32:64]) {
			c.Failf("decoded-key-different-public", desc, "GetPublic of the decoded key is not bytes 32..64")
		}
	}
}

func c11(c *hx.Ctx) {
	c.Type = "c11_case"
	c.Agree = "c11_agree"
	c.Rule = "generated Ed25519 keys through protobuf, PEM and base58 configuration strings (with ASCII and Unicode white space), the 96-byte libp2p form, std-key and base64 wrappers; malformed: raw lengths 0..128, mismatched redundant key, protobuf irregularities, wrong key types, wrong/garbage/truncated/multiple PEM blocks, non-base58 and blank text; non-trivial = distinct key that round-trips or raw form that is accepted"
	type kp struct {
		raw, pub   []byte
		privPem    []byte
		pubPem     []byte
		privB58    string
		pubB58     string
		sk         crypto.PrivKey
		pk         crypto.PubKey
		marshalled []byte
	}
	var keys []kp
	spaces := []string{" ", "\n", "\t", "\r\n", "\v\f", " ", " ", "\u0085", "　", " ", "   "}
	nValid := c.N / 6
	if nValid < 4 {
		nValid = 4
	}
	for i := 0; i < nValid; i++ {
		seed := c.RandBytes(32)
		if i == 0 {
			seed = make([]byte, 32)
		}
		std := ed25519.NewKeyFromSeed(seed)
		sk, pk, err := crypto.KeyPairFromStdKey(std)
		desc := map[string]any{"kind": "valid-key", "seed": hx.Hex(seed)}
		if err != nil {
			c.Failf("keypairfromstdkey-error", desc, "%v", err)
			continue
		}
		c.Class("valid-key")
		raw, pub := rawPriv(sk), rawPub(pk)
		desc["raw"] = hx.Hex(raw)
		c.Nontrivial("key" + hx.Hex(raw))
		id, _ := peer.IDFromPrivateKey(sk)
		same := func(what string, k2 crypto.PrivKey, err error) {
			if err != nil || k2 == nil {
				c.Failf(what, desc, "decode failed: %v", err)
				return
			}
			if !k2.Equals(sk) || !bytes.Equal(rawPriv(k2), raw) {
				c.Failf(what, desc, "decoded private key differs: %x", rawPriv(k2))
			}
			if !bytes.Equal(rawPub(k2.GetPublic()), pub) || !k2.GetPublic().Equals(pk) {
				c.Failf("decoded-key-different-public", desc, "%s: public key differs", what)
			}
			if id2, _ := peer.IDFromPrivateKey(k2); id2 != id {
				c.Failf("decoded-key-different-id", desc, "%s: peer id differs", what)
			}
		}
		samePub := func(what string, p2 crypto.PubKey, err error) {
			if err != nil || p2 == nil {
				c.Failf(what, desc, "decode failed: %v", err)
				return
			}
			if !p2.Equals(pk) || !bytes.Equal(rawPub(p2), pub) {
				c.Failf(what, desc, "decoded public key differs: %x", rawPub(p2))
			}
			if id2, _ := peer.IDFromPublicKey(p2); id2 != id {
				c.Failf("decoded-key-different-id", desc, "%s: peer id differs", what)
			}
		}
		// protobuf
		m, _ := crypto.MarshalPrivateKey(sk)
		c.Case(hx.App("MarshalPriv", hx.Bytes(raw), hx.Bytes(m)), desc)
		k2, err := crypto.UnmarshalPrivateKey(m)
		c.Case(hx.App("UnmarshalPriv", hx.Bytes(m), obsBytes(false, rawPriv(k2), err, keyErrClass(err))), desc)
		same("proto-roundtrip-priv", k2, err)
		mp, _ := crypto.MarshalPublicKey(pk)
		p2, err := crypto.UnmarshalPublicKey(mp)
		samePub("proto-roundtrip-pub", p2, err)
		c.Case(hx.App("GetPublic", hx.Bytes(raw), obsBytes(false, rawPub(sk.GetPublic()), nil, 0)), desc)
		// 96-byte libp2p form
		m96 := cat(pbVarint(1, 1), pbBytes(2, cat(raw, pub)))
		k3, err := crypto.UnmarshalPrivateKey(m96)
		c.Case(hx.App("UnmarshalPriv", hx.Bytes(m96), obsBytes(false, rawPriv(k3), err, keyErrClass(err))), desc)
		same("proto-96-form", k3, err)
		// PEM
		privPem, _ := keypem.MarshalPrivKeyPem(sk)
		pubPem, _ := keypem.MarshalPubKeyPem(pk)
		if blk, _ := pem.Decode(privPem); blk != nil {
			c.Case(hx.App("PemOut", "true", hx.Bytes(raw), hx.Str(blk.Type), hx.Bytes(blk.Bytes)), desc)
		} else {
			c.Failf("pem-output-undecodable", desc, "MarshalPrivKeyPem output has no PEM block")
		}
		if blk, _ := pem.Decode(pubPem); blk != nil {
			c.Case(hx.App("PemOut", "false", hx.Bytes(pub), hx.Str(blk.Type), hx.Bytes(blk.Bytes)), desc)
		} else {
			c.Failf("pem-output-undecodable", desc, "MarshalPubKeyPem output has no PEM block")
		}
		// oracle laws of the PEM library used by the theorems (sampled)
		if !bytes.HasPrefix(privPem, []byte("-----BEGIN")) || !bytes.HasPrefix(pubPem, []byte("-----BEGIN")) {
			c.Failf("pem-law-prefix", desc, "PEM output does not start with -----BEGIN")
		}
		if blk, _ := pem.Decode([]byte(strings.TrimSpace(string(privPem)))); blk == nil || blk.Type != keypem.PrivPemType || !bytes.Equal(blk.Bytes, m) {
			c.Failf("pem-law-trimmed", desc, "pem.Decode(TrimSpace(pem.Encode(t,b))) != (t,b)")
		}
		k4, err := keypem.ParsePrivKeyPem(privPem)
		same("pem-roundtrip-priv", k4, err)
		k5, p5, err := keypem.ParseKeyPem(privPem)
		same("pem-roundtrip-priv", k5, err)
		samePub("pem-roundtrip-priv-public", p5, err)
		p6, err := keypem.ParsePubKeyPem(pubPem)
		samePub("pem-roundtrip-pub", p6, err)
		p7, err := keypem.ParsePubKeyPem(privPem)
		samePub("pem-pub-of-priv", p7, err)
		if kx, err := keypem.ParsePrivKeyPem(pubPem); err == nil {
			c.Failf("pem-wrong-type-accepted", desc, "ParsePrivKeyPem accepted a public key PEM (key nil=%v)", kx == nil)
		}
		c11Pem(c, privPem, "pem-valid-priv")
		c11Pem(c, pubPem, "pem-valid-pub")
		k8, err := confparse.ParsePrivateKeyPEM(privPem)
		same("confparse-pem-roundtrip-priv", k8, err)
		p8, err := confparse.ParsePublicKeyPEM(pubPem)
		samePub("confparse-pem-roundtrip-pub", p8, err)
		// base58 configuration strings
		s, _ := confparse.MarshalPrivateKey(sk)
		ps, _ := confparse.MarshalPublicKey(pk)
		c.Case(hx.App("ConfMarshal", "true", hx.Bytes(raw), hx.Str(s)), desc)
		c.Case(hx.App("ConfMarshal", "false", hx.Bytes(pub), hx.Str(ps)), desc)
		k9, _ := c11Conf(c, s, "conf-b58-priv")
		same("b58-roundtrip-priv", k9, nil)
		_, p9 := c11Conf(c, ps, "conf-b58-pub")
		samePub("b58-roundtrip-pub", p9, nil)
		sp1, sp2 := spaces[c.Rng.Intn(len(spaces))], spaces[c.Rng.Intn(len(spaces))]
		k10, _ := c11Conf(c, sp1+s+sp2, "conf-b58-priv-spaces")
		same("b58-roundtrip-priv", k10, nil)
		k11, p11 := c11Conf(c, string(privPem), "conf-pem-priv")
		same("conf-pem-roundtrip-priv", k11, nil)
		samePub("conf-pem-pub-of-priv", p11, nil)
		_, p12 := c11Conf(c, sp1+string(pubPem)+sp2, "conf-pem-pub-spaces")
		samePub("conf-pem-roundtrip-pub", p12, nil)
		// std keys and base64
		stdk, err := crypto.PrivKeyToStdKey(sk)
		if sp, ok := stdk.(*ed25519.PrivateKey); err != nil || !ok || !bytes.Equal(*sp, raw) {
			c.Failf("stdkey-roundtrip", desc, "PrivKeyToStdKey: %v", err)
		} else {
			k12, _, err := crypto.KeyPairFromStdKey(sp)
			same("stdkey-roundtrip", k12, err)
		}
		if sp, err := crypto.PubKeyToStdKey(pk); err != nil || !bytes.Equal(sp.(ed25519.PublicKey), pub) {
			c.Failf("stdkey-roundtrip", desc, "PubKeyToStdKey: %v", err)
		}
		if d, err := crypto.ConfigDecodeKey(crypto.ConfigEncodeKey(m)); err != nil || !bytes.Equal(d, m) {
			c.Failf("base64-roundtrip", desc, "ConfigDecodeKey(ConfigEncodeKey(m)) != m")
		}
		c.Eval()
		keys = append(keys, kp{raw: raw, pub: pub, privPem: privPem, pubPem: pubPem, privB58: s, pubB58: ps, sk: sk, pk: pk, marshalled: m})
	}
	{
		k := keys[0]
		mp, _ := crypto.MarshalPublicKey(k.pk)
		c11Prefixes(c, k.raw, k.pub, k.marshalled, mp, k.privPem, k.pubPem, k.privB58, k.pubB58)
	}
	// nil std keys: error, not panic
	for _, f := range []func() error{
		func() error { _, _, e := crypto.KeyPairFromStdKey(nil); return e },
		func() error { _, e := crypto.PrivKeyToStdKey(nil); return e },
		func() error { _, e := crypto.PubKeyToStdKey(nil); return e },
		func() error { _, _, e := crypto.KeyPairFromStdKey("not a key"); return e },
	} {
		var err error
		p, _ := hx.Catch(func() { err = f() })
		c.Eval()
		if p || err == nil {
			c.Failf("stdkey-nil", map[string]any{"kind": "std-nil"}, "nil/foreign std key: panic=%v err=%v", p, err)
		}
	}

	rest := c.N - nValid
	for i := 0; i < rest; i++ {
		k := keys[c.Rng.Intn(len(keys))]
		switch c.Rng.Intn(9) {
		case 0: // raw private key lengths
			n := []int{0, 1, 31, 32, 33, 63, 64, 65, 95, 96, 97, 128}[c.Rng.Intn(12)]
			d := cat(k.raw, k.pub, c.RandBytes(32))[:n]
			c11EdPriv(c, d, "ed-length")
		case 1: // 96 bytes: equal / mismatched redundant key
			d := cat(k.raw, k.pub)
			class := "ed-96-equal"
			if c.Rng.Intn(3) != 0 {
				d[32+c.Rng.Intn(64)] ^= 1 << uint(c.Rng.Intn(8))
				class = "ed-96-mismatch"
			}
			c11EdPriv(c, d, class)
		case 2: // 64 bytes whose public half is not derived from the seed: still a key with that public half
			d := cat(c.RandBytes(32), c.RandBytes(32))
			c11EdPriv(c, d, "ed-64-arbitrary")
		case 3: // protobuf irregularities
			ty := uint64(1)
			if c.Rng.Intn(4) == 0 {
				ty = []uint64{0, 2, 3, 1 << 32, 1<<32 + 1}[c.Rng.Intn(5)]
			}
			data := k.raw
			switch c.Rng.Intn(6) {
			case 0:
				data = cat(k.raw, k.pub)
			case 1:
				data = k.raw[:c.Rng.Intn(64)]
			case 2:
				data = cat(k.raw, c.RandBytes(32))
			}
			pb, pc := randProto(c, ty, data)
			c11PrivProto(c, pb, "priv-"+pc)
			if c.Rng.Intn(2) == 0 {
				c11Conf(c, b58.Encode(pb), "conf-b58-of-"+pc)
			}
		case 4: // PEM irregularities
			var dat []byte
			var class string
			kk := c.Rng.Intn(14)
			if kk >= 10 {
				kk = []int{0, 8, 0, 2}[kk-10]
			}
			switch kk {
			case 0:
				dat, class = pem.EncodeToMemory(&pem.Block{Type: "RSA PRIVATE KEY", Bytes: k.marshalled}), "pem-wrong-type"
			case 1:
				dat, class = pem.EncodeToMemory(&pem.Block{Type: keypem.PrivPemType, Bytes: c.RandBytes(c.Rng.Intn(40))}), "pem-garbage-body"
			case 2:
				dat, class = pem.EncodeToMemory(&pem.Block{Type: keypem.PubPemType, Bytes: k.marshalled}), "pem-priv-body-in-pub-type"
			case 3:
				dat, class = k.privPem[:c.Rng.Intn(len(k.privPem))], "pem-truncated"
			case 4:
				dat, class = []byte("garbage"), "pem-no-block"
			case 5:
				dat, class = nil, "pem-empty"
			case 6:
				dat, class = cat([]byte("some text\n"), k.pubPem, k.privPem), "pem-two-blocks"
			case 7:
				dat, class = pem.EncodeToMemory(&pem.Block{Type: keypem.PrivPemType, Headers: map[string]string{"Proc-Type": "4,ENCRYPTED"}, Bytes: k.marshalled}), "pem-with-headers"
			case 8:
				dat, class = pem.EncodeToMemory(&pem.Block{Type: strings.ToLower(keypem.PrivPemType), Bytes: k.marshalled}), "pem-type-case"
			default:
				dat, class = c.RandBytes(c.Rng.Intn(30)), "pem-random-bytes"
			}
			c11Pem(c, dat, class)
			if c.Rng.Intn(2) == 0 {
				c11Conf(c, string(dat), "conf-"+class)
			}
		case 5: // configuration strings that are not keys
			s := []string{"", " ", "\n\t ", " ", " 　", "0OIl", "not base58!", "-----BEGIN", "-----BEGIN garbage-----",
				k.privB58 + "0", k.privB58[:len(k.privB58)/2], "\xc2", "\xe2\x80", "a\xc2\x85", "\x85", k.pubB58 + "\xe2\x80\x80\x80",
				"\xe2\x80\xa8" + k.pubB58 + "\xe1\x9a\x80", "é" + k.pubB58, k.privB58 + " x"}[c.Rng.Intn(19)]
			c11Conf(c, s, "conf-not-a-key")
		case 6: // public key string where a private one is expected and vice versa
			if c.Rng.Intn(2) == 0 {
				c11Conf(c, k.pubB58, "conf-pub-as-priv")
			} else {
				c11Conf(c, string(k.pubPem), "conf-pubpem-as-priv")
			}
		case 7: // a key decoded from an equivalent non-canonical encoding is the same key
			data := k.raw
			if c.Rng.Intn(3) == 0 {
				data = cat(k.raw, k.pub)
			}
			enc, ec := extrasProto(c, 1, data)
			c.Class("decoded-" + ec)
			desc := map[string]any{"kind": "decoded-priv", "class": ec, "encoding": hx.Hex(enc)}
			var sk crypto.PrivKey
			var err error
			var p bool
			o := guarded(c, "UnmarshalPrivateKey", desc, [][]byte{enc}, func() string {
				p, _ = hx.Catch(func() { sk, err = crypto.UnmarshalPrivateKey(enc) })
				return obsBytes(p, rawPriv(sk), err, keyErrClass(err))
			})
			c.Case(hx.App("UnmarshalPriv", hx.Bytes(enc), o), desc)
			if p || err != nil || sk == nil {
				c.Failf("decoded-key-differs", desc, "equivalent encoding of a private key rejected: panic=%v err=%v", p, err)
				break
			}
			m1, _ := crypto.MarshalPrivateKey(sk)
			id1, _ := peer.IDFromPrivateKey(sk)
			id2, _ := peer.IDFromPrivateKey(k.sk)
			if !bytes.Equal(rawPriv(sk), k.raw) || !sk.Equals(k.sk) || !k.sk.Equals(sk) || !bytes.Equal(m1, k.marshalled) ||
				!bytes.Equal(rawPub(sk.GetPublic()), k.pub) || id1 != id2 {
				c.Failf("decoded-key-differs", desc, "key decoded from an equivalent encoding differs from the original")
			}
			c.Case(hx.App("MarshalPriv", hx.Bytes(rawPriv(sk)), hx.Bytes(m1)), desc)
			// and through the text forms
			if sk2, _ := c11Conf(c, b58.Encode(enc), "conf-b58-of-decoded-"+ec); sk2 == nil || !sk2.Equals(k.sk) {
				c.Failf("decoded-key-differs", desc, "base58 of an equivalent encoding does not give the same key")
			}
			pemDat := pem.EncodeToMemory(&pem.Block{Type: keypem.PrivPemType, Bytes: enc})
			c11Pem(c, pemDat, "pem-of-decoded-"+ec)
			if sk3, err := keypem.ParsePrivKeyPem(pemDat); err != nil || sk3 == nil || !sk3.Equals(k.sk) {
				c.Failf("decoded-key-differs", desc, "PEM of an equivalent encoding does not give the same key: %v", err)
			}
		default: // base58 of random bytes
			c11Conf(c, b58.Encode(c.RandBytes(1+c.Rng.Intn(70))), "conf-b58-random")
		}
	}
}

// c11PrivProto: crypto.UnmarshalPrivateKey on d with the 'key or error' oracle.
func c11PrivProto(c *hx.Ctx, d []byte, class string) crypto.PrivKey {
	c.Class(class)
	desc := map[string]any{"kind": "unmarshal-priv", "class": class, "bytes": hx.Hex(d), "cap_minus_len": cap(d) - len(d)}
	var sk crypto.PrivKey
	var err error
	var p bool
	o := guarded(c, "UnmarshalPrivateKey", desc, [][]byte{d}, func() string {
		p, _ = hx.Catch(func() { sk, err = crypto.UnmarshalPrivateKey(d) })
		return obsBytes(p, rawPriv(sk), err, keyErrClass(err))
	})
	c.Case(hx.App("UnmarshalPriv", hx.Bytes(d), o), desc)
	switch {
	case p:
		c.Failf("unmarshalprivatekey-panic", desc, "UnmarshalPrivateKey panicked")
		return nil
	case err == nil && sk == nil:
		c.Failf("unmarshal-no-key-no-error", desc, "UnmarshalPrivateKey returned neither a key nor an error")
	case err == nil:
		if raw := rawPriv(sk); len(raw) != 64 || !bytes.Contains(d, raw) {
			c.Failf("key-not-in-input", desc, "returned key %x does not occur in the input (read past the input?)", raw)
		}
		var pub []byte
		if pp, _ := hx.Catch(func() { pub = rawPub(sk.GetPublic()) }); pp || len(pub) != 32 {
			c.Failf("getpublic-panic", desc, "GetPublic of the decoded key failed")
		}
	}
	if cap(d) > len(d) && !spareIntact(d) {
		c.Failf("writes-past-len", desc, "UnmarshalPrivateKey wrote past the end of the input slice")
	}
	if err != nil {
		return nil
	}
	return sk
}

// c11PubProto: crypto.UnmarshalPublicKey on d with the 'key or error' oracle.
func c11PubProto(c *hx.Ctx, d []byte, class string) {
	c.Class(class)
	desc := map[string]any{"kind": "unmarshal-pub", "class": class, "bytes": hx.Hex(d), "cap_minus_len": cap(d) - len(d)}
	var pk crypto.PubKey
	var err error
	var p bool
	o := guarded(c, "UnmarshalPublicKey", desc, [][]byte{d}, func() string {
		p, _ = hx.Catch(func() { pk, err = crypto.UnmarshalPublicKey(d) })
		return obsBytes(p, rawPub(pk), err, keyErrClass(err))
	})
	c.Case(hx.App("UnmarshalPubKey", hx.Bytes(d), o), desc)
	switch {
	case p:
		c.Failf("unmarshalpublickey-panic", desc, "UnmarshalPublicKey panicked")
	case err == nil && pk == nil:
		c.Failf("unmarshal-no-key-no-error", desc, "UnmarshalPublicKey returned neither a key nor an error")
	case err == nil:
		if raw := rawPub(pk); len(raw) != 32 || !bytes.Contains(d, raw) {
			c.Failf("key-not-in-input", desc, "returned key %x does not occur in the input (read past the input?)", raw)
		}
	}
	if cap(d) > len(d) && !spareIntact(d) {
		c.Failf("writes-past-len", desc, "UnmarshalPublicKey wrote past the end of the input slice")
	}
}

// c11Prefixes: every proper prefix (exact and spare capacity) and trailing-byte
// extension of the valid encodings of one key: protobuf (public, private 64 and
// 96 byte forms), raw Ed25519 private key, base58 text, PEM text (cuts inside
// the header lines and the base64 body) and PEM blocks whose body is a prefix.
func c11Prefixes(c *hx.Ctx, raw, pub, privM, pubM, privPem, pubPem []byte, privB58, pubB58 string) {
	thorough := c.Tier == "thorough"
	st := func(quick int) int {
		if thorough {
			return 1
		}
		return quick
	}
	for _, v := range truncations(c, pubM, 1) {
		c11PubProto(c, v.b, "pubkey-"+v.kind)
	}
	for _, v := range truncations(c, privM, st(2)) {
		c11PrivProto(c, v.b, "privkey-"+v.kind)
	}
	m96 := cat(pbVarint(1, 1), pbBytes(2, cat(raw, pub)))
	for _, v := range truncations(c, m96, st(5)) {
		c11PrivProto(c, v.b, "privkey96-"+v.kind)
	}
	for _, v := range truncations(c, cat(raw, pub), st(5)) {
		c11EdPriv(c, v.b, "ed-"+v.kind)
	}
	// text forms: the decoder output of base58 has spare capacity, so an over-read shows up here too
	for _, t := range textCuts(pubB58, st(2)) {
		c11Conf(c, t, "conf-b58-pub-cut")
	}
	for _, t := range textCuts(privB58, st(4)) {
		c11Conf(c, t, "conf-b58-priv-cut")
	}
	// base58 / PEM of every truncated protobuf body
	for n := 0; n < len(pubM); n += st(2) {
		c11Conf(c, b58.Encode(pubM[:n]), "conf-b58-of-pub-prefix")
		c11Pem(c, pem.EncodeToMemory(&pem.Block{Type: keypem.PubPemType, Bytes: pubM[:n]}), "pem-of-pub-prefix")
	}
	for n := 0; n < len(privM); n += st(6) {
		c11Conf(c, b58.Encode(privM[:n]), "conf-b58-of-priv-prefix")
		c11Pem(c, pem.EncodeToMemory(&pem.Block{Type: keypem.PrivPemType, Bytes: privM[:n]}), "pem-of-priv-prefix")
	}
	// cuts of the PEM text itself
	for _, t := range textCuts(string(pubPem), st(4)) {
		c11Pem(c, []byte(t), "pem-pub-text-cut")
	}
	for _, t := range textCuts(string(privPem), st(7)) {
		c11Pem(c, []byte(t), "pem-priv-text-cut")
		if len(t)%3 == 0 {
			c11Conf(c, t, "conf-pem-priv-text-cut")
		}
	}
}
