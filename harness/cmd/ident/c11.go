package main

import "verifharness/internal/hx"

func c11(c *hx.Ctx) { panic("todo") }
