// Harness for the identity subsystems: peer IDs (C10), key encodings (C11),
// content hashes (C15) and key files (C39).  Runs the real bifrost code and
// emits correspondence cases for Id/Run.v, Keys/Run.v and KeyFile/Run.v, plus
// the direct property oracles.
package main

import (
	"bytes"
	"encoding/binary"
	"fmt"

	"verifharness/internal/hx"
)

func main() { hx.Main(run) }

func run(c *hx.Ctx) {
	switch c.Prop {
	case "C10":
		c.Imports = "Id.Run"
		c10(c)
	case "C15":
		c.Imports = "Id.Run"
		c15(c)
	case "C11":
		c.Imports = "Keys.Run"
		c11(c)
	case "C39":
		c.Imports = "KeyFile.Run"
		c39(c)
	default:
		panic("unknown property " + c.Prop)
	}
}

// ---- observation printers (Id/Run.v: obs) ----

func oOk(term string) string { return "(OOk " + term + ")" }
func oErr(k int) string      { return fmt.Sprintf("(OErr %d%%nat)", k) }

const oPanic = "OPanic"

// obsBytes renders the observation of a call returning ([]byte-like, error).
func obsBytes(panicked bool, v []byte, err error, class int) string {
	switch {
	case panicked:
		return oPanic
	case err != nil:
		return oErr(class)
	default:
		return oOk(hx.Bytes(v))
	}
}

func pair(ty int32, d []byte) string { return "(" + hx.Z(int64(ty)) + ", " + hx.Bytes(d) + ")" }

// ---- wire helpers used by the generators ----

func uv(v uint64) []byte {
	var buf [binary.MaxVarintLen64]byte
	return append([]byte{}, buf[:binary.PutUvarint(buf[:], v)]...)
}

// nonMinimal re-encodes v with up to pad extra continuation groups (0x80 ... 0x00)
// such that the result is still an EQUIVALENT encoding for Go's Uvarint and
// protobuf's varint reader: at most ten bytes in total (the padding ends in
// 0x00, so a tenth byte is <= 1).  A value whose minimal encoding already has
// ten bytes is returned unchanged.
func nonMinimal(v uint64, pad int) []byte {
	b := uv(v)
	if len(b)+pad > binary.MaxVarintLen64 {
		pad = binary.MaxVarintLen64 - len(b)
	}
	return padVarint(b, pad)
}

// nonMinimalRaw pads without the ten-byte cap: beyond ten bytes the result is
// an overflowing varint that decoders must reject (malformed-input classes only).
func nonMinimalRaw(v uint64, pad int) []byte { return padVarint(uv(v), pad) }

func padVarint(b []byte, pad int) []byte {
	if pad <= 0 {
		return b
	}
	b[len(b)-1] |= 0x80
	for i := 0; i < pad-1; i++ {
		b = append(b, 0x80)
	}
	return append(b, 0x00)
}

func cat(parts ...[]byte) []byte {
	var o []byte
	for _, p := range parts {
		o = append(o, p...)
	}
	return o
}

// pbField renders one protobuf field.
func pbTag(field uint64, wt uint64) []byte { return uv(field<<3 | wt) }
func pbVarint(field, v uint64) []byte      { return cat(pbTag(field, 0), uv(v)) }
func pbBytes(field uint64, d []byte) []byte {
	return cat(pbTag(field, 2), uv(uint64(len(d))), d)
}

// randProto builds a mostly-valid two-field message (enum f1, bytes f2) with
// the irregularities the decoder has to cope with.
func randProto(c *hx.Ctx, ty uint64, data []byte) ([]byte, string) {
	r := c.Rng
	switch r.Intn(16) {
	case 0: // canonical
		return cat(pbVarint(1, ty), pbBytes(2, data)), "pb-canonical"
	case 1: // reordered
		return cat(pbBytes(2, data), pbVarint(1, ty)), "pb-reordered"
	case 2: // duplicate fields: last wins
		return cat(pbVarint(1, ty+1), pbBytes(2, c.RandBytes(r.Intn(5))), pbVarint(1, ty), pbBytes(2, data)), "pb-duplicate"
	case 3: // unknown varint / fixed64 / bytes / fixed32 fields
		u := [][]byte{pbVarint(3, r.Uint64()), cat(pbTag(4, 1), c.RandBytes(8)), pbBytes(5, c.RandBytes(r.Intn(6))), cat(pbTag(6, 5), c.RandBytes(4))}
		k := r.Intn(len(u))
		return cat(pbVarint(1, ty), u[k], pbBytes(2, data)), "pb-unknown-field"
	case 4: // unknown group, possibly nested, possibly unterminated
		g := cat(pbTag(7, 3), pbVarint(8, 5), pbTag(9, 3), pbTag(9, 4), pbTag(7, 4))
		if r.Intn(3) == 0 {
			g = g[:len(g)-1-r.Intn(2)]
		}
		return cat(pbVarint(1, ty), g, pbBytes(2, data)), "pb-group"
	case 5: // truncated
		b := cat(pbVarint(1, ty), pbBytes(2, data))
		return b[:r.Intn(len(b)+1)], "pb-truncated"
	case 6: // length too long / huge
		l := []uint64{uint64(len(data)) + 1, 1 << 31, 1 << 62, 1 << 63, ^uint64(0)}[r.Intn(5)]
		return cat(pbVarint(1, ty), pbTag(2, 2), uv(l), data), "pb-bad-length"
	case 7: // wrong wire type for a known field
		if r.Intn(2) == 0 {
			return cat(pbBytes(1, []byte{byte(ty)}), pbBytes(2, data)), "pb-wrong-wiretype"
		}
		return cat(pbVarint(1, ty), pbVarint(2, 7)), "pb-wrong-wiretype"
	case 8: // field number 0, end-group, wire types 6/7
		bad := [][]byte{{0x00, 0x00}, pbTag(3, 4), pbTag(3, 6), pbTag(3, 7), uv(1 << 35), uv(uint64(1)<<35 | 1<<3)}
		return cat(pbVarint(1, ty), bad[r.Intn(len(bad))], pbBytes(2, data)), "pb-illegal-tag"
	case 9: // enum value that only matches after truncation to int32
		v := []uint64{ty + 1<<32, ty + 1<<40, ^uint64(0), 1<<31 | ty}[r.Intn(4)]
		return cat(pbVarint(1, v), pbBytes(2, data)), "pb-enum-wide"
	case 10: // non-minimal and over-long varints
		pad := r.Intn(11)
		return cat(pbTag(1, 0), nonMinimalRaw(ty, pad), pbTag(2, 2), nonMinimal(uint64(len(data)), r.Intn(4)), data), "pb-nonminimal-varint"
	case 11: // unknown field whose skip runs into lenient-varint corner cases
		tenth := []byte{0x00, 0x01, 0x02, 0x7f}[r.Intn(4)]
		lv := cat([]byte{0x80, 0x80, 0x80, 0x80, 0x80, 0x80, 0x80, 0x80, 0x80}, []byte{tenth})
		if r.Intn(2) == 0 {
			lv[0] = 0x81 + byte(r.Intn(3))
		}
		u := [][]byte{cat(pbTag(5, 2), lv, []byte{1, 2, 3}), cat(pbTag(3, 0), lv), cat(pbTag(3, 0), lv[:9], []byte{0x80, 0x80, 0x01})}
		return cat(pbVarint(1, ty), u[r.Intn(len(u))], pbBytes(2, data)), "pb-skip-corner"
	case 12: // empty / only field 1 / only field 2
		switch r.Intn(3) {
		case 0:
			return nil, "pb-empty"
		case 1:
			return pbVarint(1, ty), "pb-only-type"
		default:
			return pbBytes(2, data), "pb-only-data"
		}
	case 13: // random bytes
		return c.RandBytes(r.Intn(24)), "pb-random"
	default:
		return cat(pbVarint(1, ty), pbBytes(2, data)), "pb-canonical"
	}
}

// refUvarint is an independent re-implementation of the accept set of
// binary.Uvarint (at most ten bytes, tenth at most 1), used by the oracle.
func refUvarint(b []byte) (v uint64, n int, ok bool) {
	var shift uint
	for i := 0; i < len(b) && i < 10; i++ {
		x := b[i]
		if x < 0x80 {
			if i == 9 && x > 1 {
				return 0, 0, false
			}
			return v | uint64(x)<<shift, i + 1, true
		}
		v |= uint64(x&0x7f) << shift
		shift += 7
	}
	return 0, 0, false
}

// refWellFormedIdentity: b = uvarint(0) ++ uvarint(len d) ++ d.
func refWellFormedIdentity(b []byte) bool {
	code, n, ok := refUvarint(b)
	if !ok || code != 0 {
		return false
	}
	l, m, ok := refUvarint(b[n:])
	if !ok {
		return false
	}
	return uint64(len(b)-n-m) == l
}

// guarded runs a call of a function under test (run returns the canonical
// observation), checks that none of the []byte arguments was modified by the
// call, runs it a second time on the same buffers and checks that the
// observation is the same.
func guarded(c *hx.Ctx, fn string, desc any, args [][]byte, run func() string) string {
	cps := make([][]byte, len(args))
	for i, a := range args {
		cps[i] = append([]byte(nil), a...)
	}
	check := func() {
		for i, a := range args {
			if !bytes.Equal(a, cps[i]) {
				c.Failf("argument-modified-"+fn, desc, "%s modified its []byte argument %d: %x -> %x", fn, i, cps[i], a)
				copy(a, cps[i])
			}
		}
	}
	o := run()
	check()
	c.Eval()
	if o2 := run(); o2 != o {
		c.Failf("second-call-differs-"+fn, desc, "%s on the same input: first %s, then %s", fn, o, o2)
	}
	check()
	return o
}

// extrasProto encodes the two-field message (f1 = ty, f2 = data) in a
// non-canonical but equivalent way: every variant decodes to exactly (ty, data).
func extrasProto(c *hx.Ctx, ty uint64, data []byte) ([]byte, string) {
	r := c.Rng
	f1 := func() []byte {
		if ty == 0 && r.Intn(2) == 0 {
			return nil
		}
		return pbVarint(1, ty)
	}
	f2 := func() []byte {
		if len(data) == 0 && r.Intn(2) == 0 {
			return nil
		}
		return pbBytes(2, data)
	}
	unknown := func() []byte {
		switch r.Intn(5) {
		case 0:
			return []byte{0x18, 0x01} // field 3 varint 1
		case 1:
			return pbBytes(4, c.RandBytes(r.Intn(5)))
		case 2:
			return cat(pbTag(5, 1), c.RandBytes(8))
		case 3:
			return cat(pbTag(6, 5), c.RandBytes(4))
		default:
			return cat(pbTag(7, 3), pbVarint(8, 1), pbTag(7, 4))
		}
	}
	switch r.Intn(8) {
	case 0:
		return cat(f1(), f2(), unknown()), "extras-trailing-unknown"
	case 1:
		return cat(unknown(), f1(), unknown(), f2()), "extras-leading-unknown"
	case 2:
		return cat(pbBytes(2, data), pbVarint(1, ty)), "extras-reordered"
	case 3:
		return cat(pbVarint(1, ty+1+uint64(r.Intn(3))), pbVarint(1, ty), f2()), "extras-repeated-scalar"
	case 4:
		return cat(f1(), pbBytes(2, c.RandBytes(1+r.Intn(33))), pbBytes(2, data)), "extras-repeated-bytes"
	case 5:
		return cat(pbTag(1, 0), nonMinimal(ty, 1+r.Intn(4)), pbTag(2, 2), nonMinimal(uint64(len(data)), 1+r.Intn(3)), data), "extras-nonminimal-varint"
	case 6: // non-minimal tag varints
		return cat(nonMinimal(1<<3, 1), uv(ty), nonMinimal(2<<3|2, 1+r.Intn(2)), uv(uint64(len(data))), data), "extras-nonminimal-tag"
	default:
		return cat(pbVarint(1, ty), pbBytes(2, data)), "extras-none"
	}
}

// exactCap returns a copy of b whose capacity equals its length; spareCap a
// sub-slice (same content) of a larger buffer whose spare capacity is filled
// with the pattern 0xA5: a decoder that reads past len(b) shows pattern bytes
// in its result, one that slices past len(b) panics on the exact copy.
func exactCap(b []byte) []byte {
	e := make([]byte, len(b))
	copy(e, b)
	return e
}

func spareCap(b []byte) []byte {
	buf := make([]byte, len(b)+96)
	for i := range buf {
		buf[i] = 0xA5
	}
	copy(buf, b)
	spareBufs[&buf[0]] = true
	return buf[:len(b)]
}

// spareBufs: the buffers handed out by spareCap (other slices have arbitrary spare capacity).
var spareBufs = map[*byte]bool{}

// spareIntact reports whether the spare capacity of a spareCap slice still
// holds the pattern (true for every slice not made by spareCap).
func spareIntact(b []byte) bool {
	full := b[:cap(b)]
	if len(full) == 0 || !spareBufs[&full[0]] {
		return true
	}
	for _, x := range full[len(b):] {
		if x != 0xA5 {
			return false
		}
	}
	return true
}

type variant struct {
	b    []byte
	kind string
}

// truncations: every proper prefix of enc (step > 1 thins the interior but
// keeps the first and last 6 cuts), each as exact-capacity copy and as a
// spare-capacity sub-slice, plus enc followed by trailing bytes.
func truncations(c *hx.Ctx, enc []byte, step int) []variant {
	var out []variant
	for n := 0; n < len(enc); n++ {
		if step > 1 && n >= 6 && n < len(enc)-6 && n%step != 0 {
			continue
		}
		out = append(out, variant{exactCap(enc[:n]), "prefix-exact"}, variant{spareCap(enc[:n]), "prefix-spare"})
	}
	out = append(out, variant{spareCap(enc), "complete-spare"})
	for _, t := range [][]byte{{0x00}, {0xA5}, c.RandBytes(1 + c.Rng.Intn(3)), {0x18, 0x01}, enc[:len(enc)/2]} {
		out = append(out, variant{exactCap(cat(enc, t)), "trailing"})
	}
	return out
}

// textCuts: every proper prefix of a text (thinned like truncations) and the text with one trailing character.
func textCuts(s string, step int) []string {
	var out []string
	for n := 0; n < len(s); n++ {
		if step > 1 && n >= 6 && n < len(s)-6 && n%step != 0 {
			continue
		}
		out = append(out, s[:n])
	}
	return append(out, s+"1", s+"z", s+"\n", s+"=")
}
