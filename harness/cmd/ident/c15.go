package main

import (
	"bytes"
	"crypto/sha1" //nolint:gosec
	"crypto/sha256"
	"errors"

	bhash "github.com/aperturerobotics/bifrost/hash"
	b58 "github.com/mr-tron/base58/base58"
	"github.com/zeebo/blake3"
	"verifharness/internal/hx"
)

// refSum computes the digest with the libraries directly (independent of hash.go).
func refSum(ty bhash.HashType, data []byte) ([]byte, bool) {
	switch ty {
	case bhash.HashType_HashType_SHA256:
		h := sha256.Sum256(data)
		return h[:], true
	case bhash.HashType_HashType_SHA1:
		h := sha1.Sum(data) //nolint:gosec
		return h[:], true
	case bhash.HashType_HashType_BLAKE3:
		h := blake3.Sum256(data)
		return h[:], true
	}
	return nil, false
}

func randHashType(c *hx.Ctx) bhash.HashType {
	if c.Rng.Intn(4) == 0 {
		return []bhash.HashType{0, 4, 5, 7, -1, 1<<31 - 1, -1 << 31, 256, 1 << 16}[c.Rng.Intn(9)]
	}
	return bhash.HashType(1 + c.Rng.Intn(3))
}

func optHash(h *bhash.Hash) string {
	if h == nil {
		return "None"
	}
	return "(Some " + pair(int32(h.GetHashType()), h.GetHash()) + ")"
}

func c15(c *hx.Ctx) {
	c.Type = "c15_case"
	c.Agree = "c15_agree"
	c.Rule = "hash types known (1,2,3) and unknown (0, 4.., negative, int32 extremes); stored digests: the real digest, the digest of other data / under another type, truncated, extended, bit-flipped, empty, random; Validate over types x lengths around 0/20/32; binary and base58 round trips incl. malformed protobuf and non-base58 text; CompareHash incl. nil; non-trivial = distinct verification that succeeds, validation that succeeds or round trip of a non-zero hash"
	var pool [][]byte
	for i := 0; i < 8; i++ {
		pool = append(pool, c.RandBytes(c.Rng.Intn(40)))
	}
	pool = append(pool, []byte{}, []byte("a"), []byte("ab"))
	pickData := func() []byte { return pool[c.Rng.Intn(len(pool))] }

	nVerify := c.N * 3 / 10
	for i := 0; i < nVerify; i++ {
		ty := randHashType(c)
		data := pickData()
		var stored []byte
		var sd, class string
		ref, known := refSum(ty, data)
		switch k := c.Rng.Intn(10); {
		case k <= 2 && known:
			stored, sd, class = ref, hx.App("DSum", hx.Z(int64(ty)), hx.Bytes(data), hx.Nat(len(ref))), "verify-real-digest"
		case k == 3:
			od := pickData()
			oref, ok := refSum(ty, od)
			if !ok {
				oref, _ = refSum(1, od)
				stored, sd = oref, hx.App("DSum", "1", hx.Bytes(od), hx.Nat(len(oref)))
			} else {
				stored, sd = oref, hx.App("DSum", hx.Z(int64(ty)), hx.Bytes(od), hx.Nat(len(oref)))
			}
			class = "verify-digest-of-other-data"
		case k == 4:
			ot := bhash.HashType(1 + c.Rng.Intn(3))
			oref, _ := refSum(ot, data)
			stored, sd, class = oref, hx.App("DSum", hx.Z(int64(ot)), hx.Bytes(data), hx.Nat(len(oref))), "verify-digest-under-other-type"
		case k == 5 && known:
			n := c.Rng.Intn(len(ref))
			stored, sd, class = ref[:n], hx.App("DSum", hx.Z(int64(ty)), hx.Bytes(data), hx.Nat(n)), "verify-truncated"
		case k == 6 && known:
			stored = append(append([]byte{}, ref...), byte(c.Rng.Intn(256)))
			sd, class = hx.App("DRaw", hx.Bytes(stored)), "verify-extended"
		case k == 7 && known:
			stored = append([]byte{}, ref...)
			stored[c.Rng.Intn(len(stored))] ^= 1 << uint(c.Rng.Intn(8))
			sd, class = hx.App("DRaw", hx.Bytes(stored)), "verify-bitflip"
		case k == 8:
			stored, sd, class = nil, "(DRaw [])", "verify-empty-digest"
		default:
			stored = c.RandBytes([]int{20, 32, 1, 33}[c.Rng.Intn(4)])
			sd, class = hx.App("DRaw", hx.Bytes(stored)), "verify-random-digest"
		}
		c.Class(class)
		h := bhash.NewHash(ty, stored)
		var got []byte
		var err error
		var p bool
		desc := map[string]any{"kind": "verify", "class": class, "type": int32(ty), "stored": hx.Hex(stored), "data": hx.Hex(data)}
		o := guarded(c, "VerifyData", desc, [][]byte{stored, data}, func() string {
			p, _ = hx.Catch(func() { got, err = h.VerifyData(data) })
			switch {
			case p:
				return oPanic
			case errors.Is(err, bhash.ErrHashMismatch):
				return oErr(12)
			case err != nil:
				return oErr(10)
			}
			return oOk(hx.Nat(len(got)))
		})
		c.Case(hx.App("HVerify", hx.Z(int64(ty)), sd, hx.Bytes(data), o), desc)
		if p {
			c.Failf("verifydata-panic", desc, "VerifyData panicked")
			continue
		}
		want := known && bytes.Equal(ref, stored)
		if (err == nil) != want {
			c.Failf("verify-not-exact", desc, "VerifyData ok=%v but digest-equality under a known algorithm=%v", err == nil, want)
		}
		if err == nil {
			c.Nontrivial("v" + hx.Hex(stored) + hx.Hex(data))
			if !bytes.Equal(got, ref) {
				c.Failf("verify-returns-other-digest", desc, "VerifyData returned %x", got)
			}
		}
		// Sum
		var sum []byte
		var serr error
		o = guarded(c, "Sum", desc, [][]byte{data}, func() string {
			p, _ = hx.Catch(func() { sum, serr = ty.Sum(data) })
			switch {
			case p:
				return oPanic
			case serr != nil:
				return oErr(10)
			}
			return oOk(hx.Nat(len(sum)) + " (* " + hx.Hex(sum) + " *)")
		})
		if p {
			c.Failf("sum-panic", desc, "Sum panicked")
		}
		c.Case(hx.App("HSumLen", hx.Z(int64(ty)), hx.Bytes(data), o), desc)
		if !p && (serr == nil) != known {
			c.Failf("sum-support-differs", desc, "Sum ok=%v, type known=%v", serr == nil, known)
		}
		if !p && serr == nil {
			if !bytes.Equal(sum, ref) {
				c.Failf("sum-wrong-digest", desc, "Sum returned %x, library gives %x", sum, ref)
			}
			if len(sum) != ty.GetHashLen() {
				c.Failf("sum-len-differs-from-hashlen", desc, "len(Sum)=%d, GetHashLen=%d", len(sum), ty.GetHashLen())
			}
			hs, _ := bhash.Sum(ty, data)
			if verr := hs.Validate(); verr != nil {
				c.Failf("sum-not-valid", desc, "hash.Sum result does not validate: %v", verr)
			}
			if _, verr := hs.VerifyData(data); verr != nil {
				c.Failf("sum-does-not-verify", desc, "hash.Sum result does not verify its own data")
			}
			// equality pattern of two digests
			t2 := bhash.HashType(1 + c.Rng.Intn(3))
			d2 := pickData()
			if c.Rng.Intn(3) == 0 {
				t2, d2 = ty, data
			}
			s2, _ := t2.Sum(d2)
			eq := bytes.Equal(sum, s2)
			c.Case(hx.App("HSumEq", hx.Z(int64(ty)), hx.Bytes(data), hx.Z(int64(t2)), hx.Bytes(d2), hx.Bool(eq)), desc)
		}
	}

	nValidate := c.N * 2 / 10
	for i := 0; i < nValidate; i++ {
		ty := randHashType(c)
		n := []int{0, 1, 19, 20, 21, 31, 32, 33, 64}[c.Rng.Intn(9)]
		if c.Rng.Intn(2) == 0 {
			n = ty.GetHashLen()
		}
		dg := c.RandBytes(n)
		h := bhash.NewHash(ty, dg)
		if c.Rng.Intn(12) == 0 {
			ty, dg, h = 0, nil, &bhash.Hash{}
		}
		var err error
		var p bool
		desc := map[string]any{"kind": "validate", "type": int32(ty), "digest": hx.Hex(dg)}
		c.Class("validate")
		o := guarded(c, "Validate", desc, [][]byte{dg}, func() string {
			p, _ = hx.Catch(func() { err = h.Validate() })
			if p {
				return oPanic
			} else if err != nil {
				return oErr(0)
			}
			return oOk("tt")
		})
		if p {
			c.Failf("validate-panic", desc, "Validate panicked")
		}
		c.Case(hx.App("HValidate", hx.Z(int64(ty)), hx.Bytes(dg), o), desc)
		if p {
			continue
		}
		ref, known := refSum(ty, nil)
		if err == nil {
			c.Nontrivial("val" + hx.Z(int64(ty)) + hx.Hex(dg))
			switch {
			case !known && ty == 0 && len(dg) == 0:
				c.Failf("unknown-empty-validates", desc, "Hash{HashType_UNKNOWN, empty digest}.Validate() == nil although the algorithm is not known")
			case !known:
				c.Failf("unknown-type-validates", desc, "a hash with unknown type %d validates", int32(ty))
			case len(dg) != len(ref):
				c.Failf("wrong-length-validates", desc, "digest of %d bytes validates for a %d-byte algorithm", len(dg), len(ref))
			}
		} else if known && len(dg) == len(ref) {
			c.Failf("validate-rejects-valid", desc, "known type and right length rejected: %v", err)
		}
	}

	nEnc := c.N * 3 / 10
	for i := 0; i < nEnc; i++ {
		ty := randHashType(c)
		dg := c.RandBytes([]int{0, 1, 20, 32, 32, 20, 127, 128, 200}[c.Rng.Intn(9)])
		if c.Rng.Intn(10) == 0 {
			ty, dg = 0, nil
		}
		if c.Rng.Intn(6) == 0 {
			dg = append(make([]byte, 1+c.Rng.Intn(3)), dg...) // leading zeros
		}
		h := bhash.NewHash(ty, dg)
		desc := map[string]any{"kind": "encode", "type": int32(ty), "digest": hx.Hex(dg)}
		c.Class("encode")
		bin := h.MarshalDigest()
		c.Case(hx.App("HMarshal", hx.Z(int64(ty)), hx.Bytes(dg), hx.Bytes(bin)), desc)
		var back *bhash.Hash
		var err error
		o := guarded(c, "Hash.UnmarshalVT", desc, [][]byte{bin, dg}, func() string {
			back = &bhash.Hash{}
			if err = back.UnmarshalVT(bin); err != nil {
				return oErr(20)
			}
			return oOk(pair(int32(back.GetHashType()), back.GetHash()))
		})
		c.Case(hx.App("HUnmarshal", hx.Bytes(bin), o), desc)
		if err != nil || back.GetHashType() != ty || !bytes.Equal(back.GetHash(), dg) || !back.CompareHash(h) {
			c.Failf("binary-roundtrip", desc, "UnmarshalVT(MarshalVT(h)) = (%d, %x), %v", int32(back.GetHashType()), back.GetHash(), err)
		}
		s := h.MarshalString()
		c.Case(hx.App("HString", hx.Z(int64(ty)), hx.Bytes(dg), hx.Str(s)), desc)
		var b2 *bhash.Hash
		var perr error
		var p bool
		o = guarded(c, "ParseFromB58", desc, nil, func() string {
			b2 = &bhash.Hash{}
			p, _ = hx.Catch(func() { perr = b2.ParseFromB58(s) })
			if p {
				return oPanic
			} else if perr == nil {
				return oOk(pair(int32(b2.GetHashType()), b2.GetHash()))
			}
			return oErr(0)
		})
		c.Case(hx.App("HParse", hx.Str(s), o), desc)
		if p {
			c.Failf("parsefromb58-panic", desc, "ParseFromB58 panicked")
		} else if perr != nil || b2.GetHashType() != ty || !bytes.Equal(b2.GetHash(), dg) {
			if ty == 0 && len(dg) == 0 {
				c.Failf("zero-hash-b58-empty", desc, "the zero-value hash marshals to the empty string, which ParseFromB58 rejects: %v", perr)
			} else {
				c.Failf("b58-roundtrip", desc, "ParseFromB58(MarshalString(h)) = (%d, %x), %v", int32(b2.GetHashType()), b2.GetHash(), perr)
			}
		} else {
			c.Nontrivial("enc" + s)
		}
	}

	nMal := c.N / 10
	for i := 0; i < nMal; i++ {
		ty := uint64(1 + c.Rng.Intn(3))
		if c.Rng.Intn(4) == 0 {
			ty = []uint64{0, 4, 1 << 31, 1<<64 - 1}[c.Rng.Intn(4)]
		}
		pb, pc := randProto(c, ty, c.RandBytes([]int{0, 20, 32, 5}[c.Rng.Intn(4)]))
		c.Class("decode-" + pc)
		desc := map[string]any{"kind": "decode", "class": pc, "bytes": hx.Hex(pb)}
		var p bool
		o := guarded(c, "Hash.UnmarshalVT", desc, [][]byte{pb}, func() string {
			back := &bhash.Hash{}
			var err error
			p, _ = hx.Catch(func() { err = back.UnmarshalVT(pb) })
			if p {
				return oPanic
			} else if err == nil {
				return oOk(pair(int32(back.GetHashType()), back.GetHash()))
			}
			return oErr(20)
		})
		if p {
			c.Failf("unmarshal-panic", desc, "Hash.UnmarshalVT panicked")
		}
		c.Case(hx.App("HUnmarshal", hx.Bytes(pb), o), desc)
		var s string
		switch c.Rng.Intn(4) {
		case 0:
			s = string(c.RandBytes(c.Rng.Intn(10)))
		case 1:
			s = b58.Encode(pb) + []string{"0", " ", "l", "\xff"}[c.Rng.Intn(4)]
		default:
			s = b58.Encode(pb)
		}
		b2 := &bhash.Hash{}
		var perr error
		p, _ = hx.Catch(func() { perr = b2.ParseFromB58(s) })
		o = oErr(0)
		if p {
			o = oPanic
			c.Failf("parsefromb58-panic", desc, "ParseFromB58 panicked on %q", s)
		} else if perr == nil {
			o = oOk(pair(int32(b2.GetHashType()), b2.GetHash()))
		}
		c.Case(hx.App("HParse", hx.Str(s), o), map[string]any{"kind": "parse", "text": s, "hex": hx.Hex([]byte(s))})
	}

	// every proper prefix (exact / spare capacity) and trailing bytes of valid encodings, binary and text
	for _, hv := range []*bhash.Hash{bhash.NewHash(bhash.HashType_HashType_SHA1, c.RandBytes(20)), bhash.NewHash(bhash.HashType_HashType_BLAKE3, c.RandBytes(32)), bhash.NewHash(-1, c.RandBytes(3))} {
		enc := hv.MarshalDigest()
		for _, v := range truncations(c, enc, 1) {
			c.Class("hash-" + v.kind)
			desc := map[string]any{"kind": "decode", "class": v.kind, "bytes": hx.Hex(v.b), "cap_minus_len": cap(v.b) - len(v.b)}
			var back *bhash.Hash
			var err error
			var p bool
			o := guarded(c, "Hash.UnmarshalVT", desc, [][]byte{v.b}, func() string {
				back = &bhash.Hash{}
				p, _ = hx.Catch(func() { err = back.UnmarshalVT(v.b) })
				if p {
					return oPanic
				} else if err == nil {
					return oOk(pair(int32(back.GetHashType()), back.GetHash()))
				}
				return oErr(20)
			})
			c.Case(hx.App("HUnmarshal", hx.Bytes(v.b), o), desc)
			if p {
				c.Failf("unmarshal-panic", desc, "Hash.UnmarshalVT panicked")
			} else if err == nil && !bytes.Contains(v.b, back.GetHash()) {
				c.Failf("digest-not-in-input", desc, "decoded digest %x does not occur in the input (read past the input?)", back.GetHash())
			}
			if cap(v.b) > len(v.b) && !spareIntact(v.b) {
				c.Failf("writes-past-len", desc, "Hash.UnmarshalVT wrote past the end of the input slice")
			}
		}
		tstep := 1
		if c.Tier != "thorough" {
			tstep = 3
		}
		for _, t := range textCuts(hv.MarshalString(), tstep) {
			c.Class("hash-text-cut")
			desc := map[string]any{"kind": "parse", "text": t}
			var b2 *bhash.Hash
			var perr error
			var p bool
			o := guarded(c, "ParseFromB58", desc, nil, func() string {
				b2 = &bhash.Hash{}
				p, _ = hx.Catch(func() { perr = b2.ParseFromB58(t) })
				if p {
					return oPanic
				} else if perr == nil {
					return oOk(pair(int32(b2.GetHashType()), b2.GetHash()))
				}
				return oErr(0)
			})
			c.Case(hx.App("HParse", hx.Str(t), o), desc)
			if p {
				c.Failf("parsefromb58-panic", desc, "ParseFromB58 panicked on %q", t)
			} else if perr == nil {
				if dec, derr := b58.Decode(t); derr != nil || !bytes.Contains(dec, b2.GetHash()) {
					c.Failf("digest-not-in-input", desc, "parsed digest %x does not occur in the decoded text", b2.GetHash())
				}
			}
		}
	}

	// every operation on hashes obtained by DECODING equivalent, non-canonical encodings
	nDec := c.N * 3 / 10
	for i := 0; i < nDec; i++ {
		ty := randHashType(c)
		if c.Rng.Intn(3) != 0 {
			ty = bhash.HashType(1 + c.Rng.Intn(3))
		}
		data := pickData()
		var dg []byte
		var sd string
		ref, known := refSum(ty, data)
		switch k := c.Rng.Intn(6); {
		case k <= 2 && known:
			dg, sd = ref, hx.App("DSum", hx.Z(int64(ty)), hx.Bytes(data), hx.Nat(len(ref)))
		case k == 3 && known:
			od := pickData()
			dg, _ = refSum(ty, od)
			sd = hx.App("DSum", hx.Z(int64(ty)), hx.Bytes(od), hx.Nat(len(dg)))
		case k == 4:
			dg = c.RandBytes([]int{0, 20, 32, 31}[c.Rng.Intn(4)])
			sd = hx.App("DRaw", hx.Bytes(dg))
		default:
			dg = c.RandBytes(ty.GetHashLen())
			sd = hx.App("DRaw", hx.Bytes(dg))
		}
		enc, class := extrasProto(c, uint64(int64(ty)), dg)
		c.Class("decoded-" + class)
		desc := map[string]any{"kind": "decoded", "class": class, "type": int32(ty), "digest": hx.Hex(dg), "encoding": hx.Hex(enc), "data": hx.Hex(data)}
		decode := func(e []byte) (*bhash.Hash, error) {
			h := &bhash.Hash{}
			if i%2 == 0 || len(e) == 0 {
				return h, h.UnmarshalVT(e)
			}
			return h, h.ParseFromB58(b58.Encode(e))
		}
		h, derr := decode(enc)
		if derr != nil || h.GetHashType() != ty || !bytes.Equal(h.GetHash(), dg) {
			c.Failf("decoded-hash-differs", desc, "decoding an equivalent encoding gives (%d, %x), %v", int32(h.GetHashType()), h.GetHash(), derr)
		}
		// VerifyData
		var got []byte
		var err error
		var p bool
		o := guarded(c, "VerifyData", desc, [][]byte{enc, data}, func() string {
			p, _ = hx.Catch(func() { got, err = h.VerifyData(data) })
			switch {
			case derr != nil:
				return oErr(20)
			case p:
				return oPanic
			case errors.Is(err, bhash.ErrHashMismatch):
				return oErr(12)
			case err != nil:
				return oErr(10)
			}
			return oOk(hx.Nat(len(got)))
		})
		c.Case(hx.App("HVerifyDec", hx.Bytes(enc), hx.Bytes(dg), sd, hx.Bytes(data), o), desc)
		if p {
			c.Failf("verifydata-panic", desc, "VerifyData panicked on a decoded hash")
			continue
		}
		if derr == nil {
			want := known && bytes.Equal(ref, dg)
			if (err == nil) != want {
				c.Failf("verify-not-exact", desc, "decoded hash: VerifyData ok=%v but digest-equality under a known algorithm=%v", err == nil, want)
			}
			if err == nil {
				c.Nontrivial("vd" + hx.Hex(enc) + hx.Hex(data))
			}
			// Validate: as for the freshly constructed hash
			fresh := bhash.NewHash(ty, dg)
			verr, ferr := h.Validate(), fresh.Validate()
			vo := oOk("tt")
			if verr != nil {
				vo = oErr(0)
			}
			c.Case(hx.App("HValidateDec", hx.Bytes(enc), vo), desc)
			if (verr == nil) != (ferr == nil) {
				c.Failf("validate-decoded-differs", desc, "Validate of the decoded hash: %v, of NewHash(type, digest): %v", verr, ferr)
			}
			// CompareHash: against the fresh hash (both directions) and against another decoding
			if !h.CompareHash(fresh) || !fresh.CompareHash(h) {
				c.Failf("compare-not-equality", desc, "decoded hash and NewHash(type, digest) compare unequal")
			}
			enc2, _ := extrasProto(c, uint64(int64(ty)), dg)
			if c.Rng.Intn(3) == 0 && len(dg) > 0 {
				d2 := append([]byte{}, dg...)
				d2[c.Rng.Intn(len(d2))] ^= 1
				enc2 = cat(pbVarint(1, uint64(uint32(ty))), pbBytes(2, d2))
			}
			h2, derr2 := decode(enc2)
			co := oErr(20)
			if derr2 == nil {
				eq := h.CompareHash(h2)
				co = oOk(hx.Bool(eq))
				want := h.GetHashType() == h2.GetHashType() && bytes.Equal(h.GetHash(), h2.GetHash())
				if eq != want {
					c.Failf("compare-not-equality", desc, "two decoded hashes: CompareHash=%v, type+digest equality=%v (second encoding %x)", eq, want, enc2)
				}
			}
			c.Case(hx.App("HCompareDec", hx.Bytes(enc), hx.Bytes(enc2), co), desc)
			// re-marshal and decode again: still the same hash
			h3 := &bhash.Hash{}
			if e3 := h3.UnmarshalVT(h.MarshalDigest()); e3 != nil || h3.GetHashType() != ty || !bytes.Equal(h3.GetHash(), dg) {
				c.Failf("binary-roundtrip", desc, "re-marshalling a decoded hash changes it: (%d, %x), %v", int32(h3.GetHashType()), h3.GetHash(), e3)
			}
			c.Eval()
		}
	}

	nCmp := c.N - nVerify - nValidate - nEnc - nMal
	for i := 0; i < nCmp; i++ {
		mk := func() *bhash.Hash {
			if c.Rng.Intn(6) == 0 {
				return nil
			}
			d := pool[c.Rng.Intn(4)]
			if c.Rng.Intn(5) == 0 && len(d) > 0 {
				d = d[:len(d)-1]
			}
			return bhash.NewHash(bhash.HashType(c.Rng.Intn(4)), d)
		}
		a, b := mk(), mk()
		if c.Rng.Intn(3) == 0 {
			b = a.Clone()
		}
		eq := a.CompareHash(b)
		desc := map[string]any{"kind": "compare", "a": optHash(a), "b": optHash(b)}
		c.Class("compare")
		c.Case(hx.App("HCompare", optHash(a), optHash(b), hx.Bool(eq)), desc)
		want := (a == nil && b == nil) || (a != nil && b != nil && a.GetHashType() == b.GetHashType() && bytes.Equal(a.GetHash(), b.GetHash()))
		if eq != want {
			c.Failf("compare-not-equality", desc, "CompareHash=%v, structural equality=%v", eq, want)
		}
		if eq {
			c.Nontrivial("cmp" + optHash(a))
		}
	}
}
