package main

import (
	"bytes"
	"crypto/ed25519"
	"encoding/pem"
	"io"
	"os"
	"path/filepath"
	"strings"

	bcli "github.com/aperturerobotics/bifrost/cli"
	"github.com/aperturerobotics/bifrost/crypto"
	"github.com/aperturerobotics/bifrost/keypem"
	"github.com/aperturerobotics/bifrost/keypem/keyfile"
	"github.com/aperturerobotics/bifrost/peer"
	acli "github.com/aperturerobotics/cli"
	"github.com/sirupsen/logrus"
	"verifharness/internal/hx"
)

// expectation classes of the property text
const (
	expNewKey = iota // missing: a new key is generated, written, and reloads to the same identity
	expError         // unreadable / empty / non-key: an error
	expStored        // valid key file: that key
	expWriteFails    // missing but not writable: an error (a key may accompany it)
)

type kfScenario struct {
	name  string
	exp   int
	setup func(c *hx.Ctx, dir string, stored crypto.PrivKey) (path string, st string)
}

func writeFile(p string, b []byte) {
	if err := os.WriteFile(p, b, 0o600); err != nil {
		panic(err)
	}
}

func fFile(b []byte) string { return hx.App("FFile", hx.Bytes(b)) }

func kfScenarios() []kfScenario {
	file := func(name string, exp int, content func(c *hx.Ctx, stored crypto.PrivKey) []byte) kfScenario {
		return kfScenario{name: name, exp: exp, setup: func(c *hx.Ctx, dir string, stored crypto.PrivKey) (string, string) {
			p := filepath.Join(dir, "key.pem")
			b := content(c, stored)
			writeFile(p, b)
			return p, fFile(b)
		}}
	}
	privPem := func(k crypto.PrivKey) []byte { b, _ := keypem.MarshalPrivKeyPem(k); return b }
	marsh := func(k crypto.PrivKey) []byte { b, _ := crypto.MarshalPrivateKey(k); return b }
	return []kfScenario{
		{name: "missing", exp: expNewKey, setup: func(c *hx.Ctx, dir string, _ crypto.PrivKey) (string, string) {
			return filepath.Join(dir, "key.pem"), "FMissing"
		}},
		{name: "missing-dangling-symlink", exp: expNewKey, setup: func(c *hx.Ctx, dir string, _ crypto.PrivKey) (string, string) {
			p := filepath.Join(dir, "link.pem")
			if err := os.Symlink(filepath.Join(dir, "target.pem"), p); err != nil {
				panic(err)
			}
			return p, "FMissing"
		}},
		{name: "missing-parent", exp: expWriteFails, setup: func(c *hx.Ctx, dir string, _ crypto.PrivKey) (string, string) {
			return filepath.Join(dir, "no-such-dir", "key.pem"), "FMissing"
		}},
		{name: "missing-empty-path", exp: expWriteFails, setup: func(c *hx.Ctx, dir string, _ crypto.PrivKey) (string, string) {
			return "", "FMissing"
		}},
		file("empty", expError, func(*hx.Ctx, crypto.PrivKey) []byte { return nil }),
		file("garbage", expError, func(c *hx.Ctx, _ crypto.PrivKey) []byte {
			return [][]byte{[]byte("garbage"), []byte("\n"), c.RandBytes(1 + c.Rng.Intn(60)), []byte("-----BEGIN LIBP2P PRIVATE KEY-----\n"), []byte("-----BEGIN")}[c.Rng.Intn(5)]
		}),
		file("pem-wrong-type", expError, func(c *hx.Ctx, k crypto.PrivKey) []byte {
			return pem.EncodeToMemory(&pem.Block{Type: []string{"RSA PRIVATE KEY", "PRIVATE KEY", "libp2p private key", "CERTIFICATE"}[c.Rng.Intn(4)], Bytes: marsh(k)})
		}),
		file("pem-public-key", expError, func(c *hx.Ctx, k crypto.PrivKey) []byte {
			b, _ := keypem.MarshalPubKeyPem(k.GetPublic())
			return b
		}),
		file("pem-garbage-body", expError, func(c *hx.Ctx, k crypto.PrivKey) []byte {
			body := [][]byte{nil, c.RandBytes(1 + c.Rng.Intn(40)), marsh(k)[:10+c.Rng.Intn(50)], cat(pbVarint(1, 0), pbBytes(2, rawPriv(k))), cat(pbVarint(1, 1), pbBytes(2, rawPriv(k)[:63]))}[c.Rng.Intn(5)]
			return pem.EncodeToMemory(&pem.Block{Type: keypem.PrivPemType, Bytes: body})
		}),
		file("pem-truncated", expError, func(c *hx.Ctx, k crypto.PrivKey) []byte {
			b := privPem(k)
			return b[:1+c.Rng.Intn(len(b)-20)]
		}),
		file("pem-prefix-sweep", expError, func(c *hx.Ctx, k crypto.PrivKey) []byte {
			b := privPem(k)
			n := kfSweepPos % (len(b) - 1) // every prefix that drops more than the final newline, in turn (cut inside header, base64 body and trailer)
			kfSweepPos += 7
			return b[:n]
		}),
		file("valid-trailing-bytes", expStored, func(c *hx.Ctx, k crypto.PrivKey) []byte {
			return cat(privPem(k), [][]byte{{0}, []byte("-----BEGIN"), c.RandBytes(1 + c.Rng.Intn(20)), privPem(k)[:30]}[c.Rng.Intn(4)])
		}),
		file("valid", expStored, func(c *hx.Ctx, k crypto.PrivKey) []byte { return privPem(k) }),
		file("valid-96-byte-form", expStored, func(c *hx.Ctx, k crypto.PrivKey) []byte {
			return pem.EncodeToMemory(&pem.Block{Type: keypem.PrivPemType, Bytes: cat(pbVarint(1, 1), pbBytes(2, cat(rawPriv(k), rawPub(k.GetPublic()))))})
		}),
		file("valid-with-surrounding-text", expStored, func(c *hx.Ctx, k crypto.PrivKey) []byte {
			return cat([]byte("# my key\n"), privPem(k), []byte("trailing\n"))
		}),
		{name: "directory", exp: expError, setup: func(c *hx.Ctx, dir string, _ crypto.PrivKey) (string, string) {
			p := filepath.Join(dir, "key.pem")
			if err := os.Mkdir(p, 0o755); err != nil {
				panic(err)
			}
			return p, "FReadErr"
		}},
		{name: "below-regular-file", exp: expError, setup: func(c *hx.Ctx, dir string, _ crypto.PrivKey) (string, string) {
			writeFile(filepath.Join(dir, "plain"), []byte("x"))
			return filepath.Join(dir, "plain", "key.pem"), "FStatErr" // ENOTDIR
		}},
		{name: "symlink-loop", exp: expError, setup: func(c *hx.Ctx, dir string, _ crypto.PrivKey) (string, string) {
			p := filepath.Join(dir, "loop.pem")
			if err := os.Symlink(p, p); err != nil {
				panic(err)
			}
			return p, "FStatErr" // ELOOP
		}},
		{name: "name-too-long", exp: expError, setup: func(c *hx.Ctx, dir string, _ crypto.PrivKey) (string, string) {
			return filepath.Join(dir, strings.Repeat("k", 300)), "FStatErr" // ENAMETOOLONG
		}},
		{name: "nul-in-path", exp: expError, setup: func(c *hx.Ctx, dir string, _ crypto.PrivKey) (string, string) {
			return filepath.Join(dir, "a\x00b"), "FStatErr" // EINVAL
		}},
		{name: "unreadable-file", exp: expError, setup: func(c *hx.Ctx, dir string, k crypto.PrivKey) (string, string) {
			p := filepath.Join(dir, "key.pem")
			b, _ := keypem.MarshalPrivKeyPem(k)
			writeFile(p, b)
			if err := os.Chmod(p, 0); err != nil {
				panic(err)
			}
			return p, "FReadErr"
		}},
		{name: "unsearchable-parent", exp: expError, setup: func(c *hx.Ctx, dir string, k crypto.PrivKey) (string, string) {
			d := filepath.Join(dir, "locked")
			if err := os.Mkdir(d, 0o755); err != nil {
				panic(err)
			}
			b, _ := keypem.MarshalPrivKeyPem(k)
			writeFile(filepath.Join(d, "key.pem"), b)
			if err := os.Chmod(d, 0); err != nil {
				panic(err)
			}
			return filepath.Join(d, "key.pem"), "FStatErr" // EACCES
		}},
	}
}

// kfSweepPos walks through the cut positions of the pem-prefix-sweep scenario.
var kfSweepPos int

type kfObs struct {
	panicked bool
	key      crypto.PrivKey
	err      error
}

func kfCall(path string, withLog bool) kfObs {
	var le *logrus.Entry
	if withLog {
		l := logrus.New()
		l.SetOutput(io.Discard)
		l.SetLevel(logrus.DebugLevel)
		le = logrus.NewEntry(l)
	}
	var o kfObs
	o.panicked, _ = hx.Catch(func() { o.key, o.err = keyfile.OpenOrWritePrivKey(le, path) })
	return o
}

// kfRecord emits the case for one call and applies the state-independent oracle clauses.
func kfRecord(c *hx.Ctx, desc map[string]any, st string, before []byte, hadFile bool, path string, writeOK bool, o kfObs) (after []byte, changed bool) {
	pr := "None"
	if hadFile {
		pr = pemRes(before)
	}
	after, rerr := os.ReadFile(path)
	afterTerm := "AUnchanged"
	if rerr == nil && (!hadFile || !bytes.Equal(after, before)) {
		changed = true
		afterTerm = hx.App("AFile", pemRes(after))
	}
	gen := "None"
	if strings.HasPrefix(st, "FMissing") && o.key != nil {
		gen = hx.Opt(true, hx.Bytes(rawPriv(o.key)))
	}
	c.Case(hx.App("KF", st, pr, gen, hx.Bool(writeOK), hx.Bool(o.panicked),
		optKey(o.key != nil, rawPriv(o.key)), hx.Bool(o.err != nil), afterTerm), desc)
	if o.panicked {
		c.Failf("keyfile-panic", desc, "OpenOrWritePrivKey panicked")
		return after, changed
	}
	if o.key == nil && o.err == nil {
		c.Failf("keyfile-nil-nil", desc, "OpenOrWritePrivKey returned neither a key nor an error")
	}
	if o.err == nil && o.key != nil {
		var id peer.ID
		var ierr error
		p, _ := hx.Catch(func() { id, ierr = peer.IDFromPrivateKey(o.key) })
		if p || ierr != nil || id == "" || len(rawPriv(o.key)) != ed25519.PrivateKeySize {
			c.Failf("keyfile-unusable-key", desc, "returned key has no usable identity (panic=%v err=%v)", p, ierr)
		}
	}
	return after, changed
}

func c39(c *hx.Ctx) {
	c.Type = "c39_case"
	c.Agree = "c39_agree"
	c.Rule = "real temporary directories in every file state: missing (plain, dangling symlink, missing parent, empty path), empty, garbage, PEM of the wrong type, public-key PEM, private PEM with a body that is not a key, truncated PEM, valid key (64- and 96-byte forms, surrounded by text), directory at the path, path below a regular file (ENOTDIR), symlink loop, over-long name, NUL in path, and as non-root chmod 000 file / parent; every call followed by a reload; non-trivial = distinct call returning a key"
	scen := kfScenarios()
	root := os.Geteuid() == 0
	if err := os.MkdirAll(c.Out, 0o755); err != nil {
		panic(err)
	}
	base, err := os.MkdirTemp(c.Out, "kf")
	if err != nil {
		panic(err)
	}
	defer os.RemoveAll(base)
	skipped := map[string]int{}
	for i := 0; i < c.N; i++ {
		s := scen[i%len(scen)]
		if root && (s.name == "unreadable-file" || s.name == "unsearchable-parent") {
			skipped[s.name]++ // chmod 000 does not stop root; the same model states are reached by directory / ENOTDIR
			continue
		}
		dir, err := os.MkdirTemp(base, "d")
		if err != nil {
			panic(err)
		}
		stored, _, _ := crypto.GenerateEd25519Key(bytes.NewReader(c.RandBytes(32)))
		path, st := s.setup(c, dir, stored)
		before, berr := os.ReadFile(path)
		hadFile := berr == nil
		c.Class(s.name)
		writeOK := s.exp == expNewKey
		desc := map[string]any{"kind": "keyfile", "state": s.name, "path_rel": strings.TrimPrefix(path, dir), "content": hx.Hex(before)}
		o := kfCall(path, i%2 == 0)
		after, changed := kfRecord(c, desc, st, before, hadFile, path, writeOK, o)
		if o.panicked {
			continue
		}
		switch s.exp {
		case expNewKey:
			if o.err != nil || o.key == nil {
				c.Failf("keyfile-missing-no-key", desc, "missing file: key=%v err=%v", o.key != nil, o.err)
				break
			}
			c.Nontrivial("new" + hx.Hex(rawPriv(o.key)))
			if !changed {
				c.Failf("keyfile-not-written", desc, "missing file: a key was returned but nothing was written")
				break
			}
			// reload: same peer identity
			o2 := kfCall(path, i%2 == 1)
			d2 := map[string]any{"kind": "keyfile-reload", "state": s.name, "content": hx.Hex(after)}
			kfRecord(c, d2, fFile(after), after, true, path, false, o2)
			id1, _ := peer.IDFromPrivateKey(o.key)
			if o2.panicked || o2.err != nil || o2.key == nil {
				c.Failf("keyfile-reload-fails", d2, "reload of the written key failed: %v", o2.err)
			} else if id2, _ := peer.IDFromPrivateKey(o2.key); id2 != id1 || !o2.key.Equals(o.key) {
				c.Failf("keyfile-reload-differs", d2, "reload gives peer id %s, generated key had %s", id2.String(), id1.String())
			}
			if fi, err := os.Stat(path); err == nil && fi.Mode().Perm() != 0o600 {
				c.Extra["mode-not-0600"] = fi.Mode().String()
			}
		case expError:
			if o.err == nil {
				c.Failf("keyfile-bad-file-no-error", desc, "state %s must be reported as an error (key returned: %v)", s.name, o.key != nil)
			}
			if changed {
				c.Failf("keyfile-overwrites-bad-file", desc, "state %s: the path was (over)written", s.name)
			}
		case expStored:
			if o.err != nil || o.key == nil {
				c.Failf("keyfile-valid-rejected", desc, "valid key file rejected: %v", o.err)
				break
			}
			c.Nontrivial("stored" + hx.Hex(rawPriv(o.key)))
			if !o.key.Equals(stored) {
				c.Failf("keyfile-valid-differs", desc, "loaded key differs from the stored key")
			}
			if changed {
				c.Failf("keyfile-overwrites-valid-file", desc, "valid key file was modified")
			}
		case expWriteFails:
			if o.err == nil {
				c.Failf("keyfile-write-failure-hidden", desc, "the key could not be written but no error was returned")
			}
		}
		// restore permissions so that the directory can be removed
		_ = filepath.Walk(dir, func(p string, info os.FileInfo, err error) error {
			if err == nil {
				_ = os.Chmod(p, 0o755)
			}
			return nil
		})
		_ = os.Chmod(filepath.Join(dir, "locked"), 0o755)
		_ = os.RemoveAll(dir)
	}
	c39Load(c, scen, base, root)
	c.Extra["running_as_root"] = root
	c.Extra["skipped_permission_scenarios"] = skipped
}

// c39Load: cli EnvelopeArgs.loadPrivKeys / loadPubKeys on lists of 1-3 key
// paths mixing good and bad file states.
func c39Load(c *hx.Ctx, scen []kfScenario, base string, root bool) {
	var usable []kfScenario
	for _, s := range scen {
		if root && (s.name == "unreadable-file" || s.name == "unsearchable-parent") {
			continue
		}
		usable = append(usable, s)
	}
	var good []kfScenario
	for _, s := range usable {
		if s.exp == expNewKey || s.exp == expStored {
			good = append(good, s)
		}
	}
	n := c.N / 2
	for i := 0; i < n; i++ {
		dir, err := os.MkdirTemp(base, "l")
		if err != nil {
			panic(err)
		}
		np := 1 + c.Rng.Intn(3)
		if i < len(usable) {
			np = 1 + i%3
		}
		var paths, names, sts, prs []string
		var storedKeys []crypto.PrivKey
		var exps []int
		anyBad := false
		for j := 0; j < np; j++ {
			var s kfScenario
			switch {
			case i < len(usable) && j == i%np: // every state at least once, at every position
				s = usable[i]
			case c.Rng.Intn(3) != 0:
				s = good[c.Rng.Intn(len(good))]
			default:
				s = usable[c.Rng.Intn(len(usable))]
			}
			sub := filepath.Join(dir, "p"+string(rune('0'+j)))
			if err := os.Mkdir(sub, 0o755); err != nil {
				panic(err)
			}
			stored, _, _ := crypto.GenerateEd25519Key(bytes.NewReader(c.RandBytes(32)))
			path, st := s.setup(c, sub, stored)
			pr := "None"
			if before, err := os.ReadFile(path); err == nil {
				pr = pemRes(before)
			}
			paths, names, sts, prs = append(paths, path), append(names, s.name), append(sts, st), append(prs, pr)
			storedKeys, exps = append(storedKeys, stored), append(exps, s.exp)
			if s.exp == expError || s.exp == expWriteFails {
				anyBad = true
			}
		}
		pub := i%3 == 2
		kind := "loadPrivKeys"
		if pub {
			kind = "loadPubKeys"
		}
		c.Class(kind + "-" + strings.Join(names, "+"))
		desc := map[string]any{"kind": kind, "states": names}
		args := &bcli.EnvelopeArgs{KeyPaths: *acli.NewStringSlice(paths...)}
		var privs []crypto.PrivKey
		var pubs []crypto.PubKey
		var lerr error
		p, _ := hx.Catch(func() {
			if pub {
				pubs, lerr = args.VerifLoadPubKeys()
			} else {
				privs, lerr = args.VerifLoadPrivKeys()
			}
		})
		count := len(privs) + len(pubs)
		// path terms: generated key = the key returned at that index, if any
		terms := make([]string, np)
		for j := range paths {
			gen := "None"
			if strings.HasPrefix(sts[j], "FMissing") {
				gen = hx.Opt(true, hx.Bytes(make([]byte, 64)))
				if !pub && lerr == nil && j < len(privs) && privs[j] != nil {
					gen = hx.Opt(true, hx.Bytes(rawPriv(privs[j])))
				}
				if pub && lerr == nil && j < len(pubs) && pubs[j] != nil {
					gen = hx.Opt(true, hx.Bytes(cat(make([]byte, 32), rawPub(pubs[j]))))
				}
			}
			terms[j] = "(" + prs[j] + ", (" + sts[j] + ", " + gen + ", " + hx.Bool(exps[j] == expNewKey) + "))"
		}
		var o string
		switch {
		case p:
			o = oPanic
		case lerr != nil:
			o = oErr(0)
		case pub:
			items := make([]string, len(pubs))
			for j, k := range pubs {
				items[j] = hx.Bytes(rawPub(k))
			}
			o = oOk(hx.List(items))
		default:
			items := make([]string, len(privs))
			for j, k := range privs {
				items[j] = optKey(k != nil, rawPriv(k))
			}
			o = oOk(hx.List(items))
		}
		ctor := "LoadPriv"
		if pub {
			ctor = "LoadPub"
		}
		c.Case(hx.App(ctor, hx.List(terms), o), desc)
		switch {
		case p:
			c.Failf("loadkeys-panic", desc, "%s panicked", kind)
		case lerr == nil && anyBad:
			c.Failf("loadprivkeys-bad-file-no-error", desc, "%s returned no error (%d keys) although a listed key file is empty / not a key / unreadable", kind, count)
		case lerr == nil && count != np:
			c.Failf("loadkeys-wrong-count", desc, "%s returned %d keys for %d paths", kind, count, np)
		case lerr != nil && !anyBad:
			c.Failf("loadkeys-good-files-rejected", desc, "%s failed on usable key files: %v", kind, lerr)
		case lerr == nil:
			c.Nontrivial(kind + strings.Join(paths, ","))
			for j := range paths {
				var got, gotPub []byte
				if pub {
					gotPub = rawPub(pubs[j])
				} else {
					if privs[j] == nil {
						c.Failf("loadkeys-nil-key", desc, "%s returned a nil key at index %d", kind, j)
						continue
					}
					got, gotPub = rawPriv(privs[j]), rawPub(privs[j].GetPublic())
				}
				if exps[j] == expStored {
					if (!pub && !bytes.Equal(got, rawPriv(storedKeys[j]))) || !bytes.Equal(gotPub, rawPub(storedKeys[j].GetPublic())) {
						c.Failf("loadkeys-wrong-key", desc, "%s: key %d is not the key stored in the file", kind, j)
					}
				}
			}
		}
		_ = filepath.Walk(dir, func(p string, info os.FileInfo, err error) error {
			if err == nil {
				_ = os.Chmod(p, 0o755)
			}
			return nil
		})
		_ = os.RemoveAll(dir)
	}
}
