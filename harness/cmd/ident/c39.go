package main

import "verifharness/internal/hx"

func c39(c *hx.Ctx) { panic("todo") }
