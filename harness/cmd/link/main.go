// Harness for transport/controller link tables (C04, C06): drives a real
// transport controller on a real controller bus with a fake transport and fake
// links, and emits correspondence cases for Link/Run.v.
package main

import (
	"bytes"
	"context"
	"fmt"
	"io"
	"os"
	"regexp"
	"runtime"
	"sort"
	"strings"
	"sync"
	"sync/atomic"
	"time"

	"github.com/aperturerobotics/bifrost/crypto"
	"github.com/aperturerobotics/bifrost/link"
	"github.com/aperturerobotics/bifrost/peer"
	peer_controller "github.com/aperturerobotics/bifrost/peer/controller"
	"github.com/aperturerobotics/bifrost/protocol"
	"github.com/aperturerobotics/bifrost/stream"
	"github.com/aperturerobotics/bifrost/testbed"
	"github.com/aperturerobotics/bifrost/transport"
	tptc "github.com/aperturerobotics/bifrost/transport/controller"
	"github.com/aperturerobotics/controllerbus/bus"
	"github.com/aperturerobotics/controllerbus/controller"
	"github.com/aperturerobotics/controllerbus/controller/resolver"
	"github.com/aperturerobotics/controllerbus/directive"
	"github.com/blang/semver/v4"
	"github.com/sirupsen/logrus"
	"verifharness/internal/hx"
)

func main() { hx.Main(run) }

func run(c *hx.Ctx) {
	c.Imports = "Link.Model Link.Run"
	c.Type = "link_case"
	c.Agree = "link_agree"
	initPeers()
	switch c.Prop {
	case "C04":
		c04(c)
	case "C06":
		c06(c)
	default:
		panic("unknown property " + c.Prop)
	}
	fmt.Fprintf(os.Stderr, "quiesce: calls=%d looks=%d time=%s\n", qCalls, qLooks, qTime)
	fmt.Fprintf(os.Stderr, "env: new=%s close=%s goroutines=%d\n", envTime, closeTime, runtime.NumGoroutine())
}

// ---------------------------------------------------------------------------
// quiescence: every other goroutine is blocked on something that only the
// driver (or a timer far in the future) can release.

var goroutineHdr = regexp.MustCompile(`(?m)^goroutine \d+ \[([^\],]+)`)

var stackBuf = make([]byte, 1<<18)

func quiescentOnce() bool {
	var buf []byte
	for {
		n := runtime.Stack(stackBuf, true)
		if n < len(stackBuf) {
			buf = stackBuf[:n]
			break
		}
		stackBuf = make([]byte, 2*len(stackBuf))
	}
	running := 0
	for _, m := range goroutineHdr.FindAllSubmatch(buf, -1) {
		st := string(m[1])
		switch {
		case st == "running":
			running++
		case st == "runnable", st == "syscall", strings.HasPrefix(st, "sync.Mutex"),
			strings.HasPrefix(st, "sync.RWMutex"), strings.HasPrefix(st, "semacquire"),
			strings.HasPrefix(st, "GC "), st == "sleep", st == "copystack", st == "preempted":
			return false
		}
	}
	return running == 1
}

// quiesce waits until the process is quiescent on two consecutive looks.
var qCalls, qLooks int
var qTime time.Duration

func quiesce() {
	t0 := time.Now()
	qCalls++
	defer func() { qTime += time.Since(t0) }()
	ok := 0
	for i := 0; i < 20000; i++ {
		qLooks++
		if quiescentOnce() {
			ok++
			if ok >= 2 {
				return
			}
			runtime.Gosched()
			continue
		}
		ok = 0
		if i < 50 {
			runtime.Gosched()
		} else {
			time.Sleep(50 * time.Microsecond)
		}
	}
	panic("harness: no quiescence")
}

// ---------------------------------------------------------------------------
// fakes

type fakeLink struct {
	idx           int
	uuid          uint64
	addr          int
	local, remote peer.ID
	closes        atomic.Int32
	once          sync.Once
	closedCh      chan struct{}
}

func (l *fakeLink) GetUUID() uint64                { return l.uuid }
func (l *fakeLink) GetTransportUUID() uint64       { return 7 }
func (l *fakeLink) GetRemoteTransportUUID() uint64 { return uint64(1000 + l.idx) }
func (l *fakeLink) GetRemotePeer() peer.ID         { return l.remote }
func (l *fakeLink) GetLocalPeer() peer.ID          { return l.local }
func (l *fakeLink) OpenStream(stream.OpenOpts) (stream.Stream, error) {
	return nil, io.ErrClosedPipe
}
func (l *fakeLink) AcceptStream() (stream.Stream, stream.OpenOpts, error) {
	<-l.closedCh
	return nil, stream.OpenOpts{}, io.EOF
}
func (l *fakeLink) Close() error {
	l.closes.Add(1)
	l.once.Do(func() { close(l.closedCh) })
	return nil
}

type fakeTpt struct{ id peer.ID }

func (t *fakeTpt) Execute(ctx context.Context) error { return nil }
func (t *fakeTpt) GetUUID() uint64                   { return 7 }
func (t *fakeTpt) GetPeerID() peer.ID                { return t.id }
func (t *fakeTpt) Close() error                      { return nil }

// refHandler collects the current values of a directive reference.
type refHandler struct {
	mtx  sync.Mutex
	vals map[uint32]directive.Value
}

func (h *refHandler) HandleValueAdded(_ directive.Instance, v directive.AttachedValue) {
	h.mtx.Lock()
	h.vals[v.GetValueID()] = v.GetValue()
	h.mtx.Unlock()
}
func (h *refHandler) HandleValueRemoved(_ directive.Instance, v directive.AttachedValue) {
	h.mtx.Lock()
	delete(h.vals, v.GetValueID())
	h.mtx.Unlock()
}
func (h *refHandler) HandleInstanceDisposed(directive.Instance) {}

// ---------------------------------------------------------------------------
// peers: model id 0 = "", 1 = local peer of the controller under test,
// 2.. = other identities.  The local identity differs between cases (two
// private keys) so that nothing depends on one particular id.

var privs []crypto.PrivKey
var pids []peer.ID

func initPeers() {
	if len(pids) != 0 {
		return
	}
	for i := 0; i < 6; i++ {
		p, err := peer.NewPeer(nil)
		if err != nil {
			panic(err)
		}
		pk, err := p.GetPrivKey(context.Background())
		if err != nil {
			panic(err)
		}
		privs = append(privs, pk)
		pids = append(pids, p.GetPeerID())
	}
}

// world maps model peer numbers to real ids for one case.
type world struct {
	local int // index into pids of the controller's identity
}

func (w world) id(z int) peer.ID {
	switch {
	case z == 0:
		return ""
	case z == 1:
		return pids[w.local]
	default:
		// the other identities, skipping the local one
		k := z - 2
		if k >= w.local {
			k++
		}
		return pids[k]
	}
}

// ---------------------------------------------------------------------------
// a running controller

type env struct {
	ctx     context.Context
	cancel  context.CancelFunc
	tb      *testbed.Testbed
	ctrl    *tptc.Controller
	handler transport.TransportHandler
	tpt     *fakeTpt
	release chan struct{} // start-up mode: the transport constructor returns when this is closed
}

func quietLogger() *logrus.Entry {
	log := logrus.New()
	log.SetOutput(io.Discard)
	log.SetLevel(logrus.PanicLevel)
	return logrus.NewEntry(log)
}

var envTime, closeTime time.Duration

func newEnv(w world) *env { return newEnvMode(w, false, false) }

// newEnvMode: startup = the fake transport constructor blocks until ready() is
// called (requests can reach the controller before its transport exists);
// second = another transport controller with a different identity (model peer
// 5) runs on the same bus, so that a request naming it as source is a real one.
func newEnvMode(w world, startup, second bool) *env {
	t0 := time.Now()
	defer func() { envTime += time.Since(t0) }()
	ctx, cancel := context.WithCancel(context.Background())
	le := quietLogger()
	tb, err := testbed.NewTestbed(ctx, le, testbed.TestbedOpts{PrivKey: privs[w.local], NoEcho: true})
	if err != nil {
		panic(err)
	}
	e := &env{ctx: ctx, cancel: cancel, tb: tb, release: make(chan struct{})}
	if !startup {
		close(e.release)
	}
	if second {
		addSecondController(ctx, le, tb, w)
	}
	hch := make(chan transport.TransportHandler, 1)
	e.tpt = &fakeTpt{id: pids[w.local]}
	e.ctrl = tptc.NewController(le, tb.Bus, controller.NewInfo("verif/fake-transport", semver.MustParse("0.0.1"), "fake"),
		pids[w.local], false,
		func(ctx context.Context, le *logrus.Entry, pkey crypto.PrivKey, handler transport.TransportHandler) (transport.Transport, error) {
			hch <- handler
			select {
			case <-e.release:
			case <-ctx.Done():
				return nil, ctx.Err()
			}
			return e.tpt, nil
		})
	if _, err := tb.Bus.AddController(ctx, e.ctrl, nil); err != nil {
		panic(err)
	}
	select {
	case e.handler = <-hch:
	case <-time.After(10 * time.Second):
		panic("controller did not construct the transport")
	}
	if !startup {
		if _, err := e.ctrl.GetTransport(ctx); err != nil {
			panic(err)
		}
	}
	quiesce()
	return e
}

// ready lets the transport constructor return.
func (e *env) ready() {
	close(e.release)
	if _, err := e.ctrl.GetTransport(e.ctx); err != nil {
		panic(err)
	}
	quiesce()
}

// addSecondController runs a peer controller and a transport controller for
// the identity of model peer 5 on the same bus (fake transport, no links).
func addSecondController(ctx context.Context, le *logrus.Entry, tb *testbed.Testbed, w world) {
	id := w.id(5)
	k := -1
	for i, p := range pids {
		if p == id {
			k = i
		}
	}
	conf, err := peer_controller.NewConfigWithPrivKey(privs[k])
	if err != nil {
		panic(err)
	}
	if _, _, _, err := bus.ExecOneOff(ctx, tb.Bus, resolver.NewLoadControllerWithConfig(conf), nil, nil); err != nil {
		panic(err)
	}
	c2 := tptc.NewController(le, tb.Bus, controller.NewInfo("verif/fake-transport-2", semver.MustParse("0.0.1"), "fake2"),
		id, false,
		func(ctx context.Context, le *logrus.Entry, pkey crypto.PrivKey, handler transport.TransportHandler) (transport.Transport, error) {
			return &fakeTpt{id: id}, nil
		})
	if _, err := tb.Bus.AddController(ctx, c2, nil); err != nil {
		panic(err)
	}
	if _, err := c2.GetTransport(ctx); err != nil {
		panic(err)
	}
}

func (e *env) close() {
	t0 := time.Now()
	defer func() { closeTime += time.Since(t0) }()
	e.cancel()
	e.tb.Release()
	// let the goroutines of this case drain
	for i := 0; i < 200; i++ {
		if quiescentOnce() {
			break
		}
		time.Sleep(50 * time.Microsecond)
	}
}

// ---------------------------------------------------------------------------
// histories

type lspec struct {
	uuid   int
	addr   int
	local  int // model peer number
	remote int
}

type act struct {
	kind     int  // 0 est, 1 lost, 2 resolve, 3 transport constructed
	early    bool // est issued before the transport constructor returned (blocks until then)
	p        int
	src, dst int
}

func (a act) term() string {
	switch a.kind {
	case 0:
		return hx.App("Est", hx.Nat(a.p))
	case 1:
		return hx.App("Lost", hx.Nat(a.p))
	case 3:
		return "Ready"
	default:
		return hx.App("Resolve", hx.Z(int64(a.src)), hx.Z(int64(a.dst)))
	}
}

func (a act) String() string {
	switch a.kind {
	case 0:
		if a.early {
			return fmt.Sprintf("Est %d (before the transport constructor returned)", a.p)
		}
		return fmt.Sprintf("Est %d", a.p)
	case 1:
		return fmt.Sprintf("Lost %d", a.p)
	case 3:
		return "TransportConstructed"
	default:
		return fmt.Sprintf("Resolve %d->%d", a.src, a.dst)
	}
}

// effective returns the order of the lock regions the property's reading is
// applied to: HandleLinkEstablished calls made before the constructor returned
// block, and run right after it.  idx maps positions of h to positions of the result.
func effective(h []act) (out []act, idx []int, early []act) {
	ready := -1
	for i, a := range h {
		if a.kind == 3 {
			ready = i
			break
		}
	}
	idx = make([]int, len(h))
	if ready < 0 {
		for i := range h {
			idx[i] = i
		}
		return h, idx, nil
	}
	for i := 0; i < ready; i++ {
		if h[i].kind == 0 && h[i].early {
			early = append(early, h[i])
			idx[i] = -1
			continue
		}
		idx[i] = len(out)
		out = append(out, h[i])
	}
	idx[ready] = len(out)
	out = append(out, h[ready])
	out = append(out, early...)
	for i := ready + 1; i < len(h); i++ {
		idx[i] = len(out)
		out = append(out, h[i])
	}
	return out, idx, early
}

// ambiguousEarly: two different early links share a uuid (their order after
// the constructor returned decides which one survives).
func ambiguousEarly(u []lspec, early []act) bool {
	for i, a := range early {
		for _, b := range early[i+1:] {
			if a.p != b.p && u[a.p].uuid == u[b.p].uuid && u[a.p].remote != 1 && u[b.p].remote != 1 {
				return true
			}
		}
	}
	return false
}

func univTerm(u []lspec) string {
	items := make([]string, len(u))
	for i, l := range u {
		items[i] = hx.App("mkLink", hx.Z(int64(l.uuid)), hx.Z(int64(l.addr)), hx.Z(int64(l.local)), hx.Z(int64(l.remote)))
	}
	return hx.List(items)
}

func natSet(m map[int]bool) []int {
	var o []int
	for k := range m {
		o = append(o, k)
	}
	sort.Ints(o)
	return o
}

type result struct {
	obs       [][]int
	links     map[uint64]int
	byPeer    map[int][]int
	gpl       map[int][]int
	closed    []int
	flinks    []*fakeLink
	held      [][2]int
	startup   bool
	ambiguous bool
}

// peersOf returns the model peer numbers that occur in a universe (plus 1).
func peersOf(u []lspec) []int {
	m := map[int]bool{1: true, 2: true}
	for _, l := range u {
		m[l.remote] = true
		if l.local != 0 {
			m[l.local] = true
		}
	}
	return natSet(m)
}

// execute drives a fresh controller with the history (one goroutine, waiting
// for quiescence after every event) and returns what it reports.
func execute(c *hx.Ctx, w world, u []lspec, h []act, concurrent int) (*result, *env) {
	return executeMode(c, w, u, h, concurrent, false, false)
}

func executeMode(c *hx.Ctx, w world, u []lspec, h []act, concurrent int, startup, second bool) (*result, *env) {
	e := newEnvMode(w, startup, second)
	fl := make([]*fakeLink, len(u))
	for i, l := range u {
		fl[i] = &fakeLink{idx: i, uuid: uint64(l.uuid), addr: l.addr, local: w.id(l.local), remote: w.id(l.remote), closedCh: make(chan struct{})}
	}
	// keep a reference on EstablishLinkWithPeer(local, remote) for every pair
	// in use, as an application that wants these links would: otherwise the
	// controller closes the remaining links of a peer as soon as one is lost.
	var held []directive.Reference
	var heldKeys [][2]int
	seen := map[[2]int]bool{}
	for _, l := range u {
		k := [2]int{l.local, l.remote}
		if seen[k] || l.remote == 0 {
			continue
		}
		seen[k] = true
		_, ref, err := e.tb.Bus.AddDirective(link.NewEstablishLinkWithPeer(w.id(l.local), w.id(l.remote)), nil)
		if err == nil {
			held = append(held, ref)
			heldKeys = append(heldKeys, k)
		}
	}
	quiesce()
	res := &result{flinks: fl, held: heldKeys, startup: startup}
	step := 0
	heff, effIdx, earlyActs := effective(h)
	res.ambiguous = ambiguousEarly(u, earlyActs)
	ambiguous := len(earlyActs) > 0 // an early callback may also be refused: no per-request live oracle
	apply := func(a act) []int {
		switch a.kind {
		case 0:
			if a.early {
				// from a goroutine, as a transport constructor that already runs
				// its accept loop would: blocks in tpt.Await until construction ends
				go e.handler.HandleLinkEstablished(fl[a.p])
			} else {
				e.handler.HandleLinkEstablished(fl[a.p])
			}
		case 1:
			e.handler.HandleLinkLost(fl[a.p])
		case 3:
			e.ready()
		case 2:
			rh := &refHandler{vals: map[uint32]directive.Value{}}
			_, ref, err := e.tb.Bus.AddDirective(link.NewEstablishLinkWithPeer(w.id(a.src), w.id(a.dst)), rh)
			if err != nil {
				return nil
			}
			quiesce()
			got := map[int]bool{}
			rh.mtx.Lock()
			for _, v := range rh.vals {
				ml, ok := v.(link.MountedLink)
				if !ok {
					c.Failf("resolve-value-type", a.String(), "directive value is %T, not a MountedLink", v)
					continue
				}
				idx := int(ml.GetRemoteTransportUUID()) - 1000
				got[idx] = true
				// direct oracle for the C04 statement
				if ml.GetRemotePeer() != w.id(a.dst) {
					c.Failf("resolve-wrong-remote", descHist(u, h), "%s yielded a link with remote peer %s", a, ml.GetRemotePeer().String())
				}
				if a.src != 0 && ml.GetLocalPeer() != w.id(a.src) && u[idx].local == 1 {
					c.Failf("resolve-wrong-local", descHist(u, h), "%s yielded a link with local peer %s", a, ml.GetLocalPeer().String())
				}
				if ml.GetRemotePeer() == pids[w.local] {
					c.Failf("resolve-self-link", descHist(u, h), "%s yielded a link to the local peer", a)
				}
				if !ambiguous && !inInts(liveAt(u, heff, effIdx[step]), idx) {
					c.Failf("lost-link-still-yielded", descHist(u, h), "event %d: %s yielded link %d which is not established-and-not-lost at that point (closed %d times)", step, a, idx, fl[idx].closes.Load())
				}
			}
			if !ambiguous && a.dst != 0 && (a.src == 0 || a.src == 1) {
				for _, q := range liveAt(u, heff, effIdx[step]) {
					if u[q].remote == a.dst && !got[q] {
						c.Failf("live-link-not-yielded", descHist(u, h), "event %d: %s did not yield the live link %d", step, a, q)
					}
				}
			}
			rh.mtx.Unlock()
			ref.Release()
			return natSet(got)
		}
		return nil
	}
	if concurrent <= 1 {
		for i, a := range h {
			step = i
			o := apply(a)
			quiesce()
			res.obs = append(res.obs, o)
		}
	} else {
		// events from several goroutines (round-robin split keeps per-goroutine order)
		var wg sync.WaitGroup
		for g := 0; g < concurrent; g++ {
			wg.Add(1)
			go func(g int) {
				defer wg.Done()
				for i := g; i < len(h); i += concurrent {
					if h[i].kind == 2 {
						continue
					}
					switch h[i].kind {
					case 0:
						e.handler.HandleLinkEstablished(fl[h[i].p])
					case 1:
						e.handler.HandleLinkLost(fl[h[i].p])
					}
				}
			}(g)
		}
		wg.Wait()
		quiesce()
	}
	// snapshot
	snap := e.ctrl.VerifSnapshotLinks()
	rev := map[peer.ID]int{}
	for _, z := range []int{1, 2, 3, 4, 5} {
		rev[w.id(z)] = z
	}
	res.links = map[uint64]int{}
	for k, l := range snap.Links {
		res.links[k] = l.(*fakeLink).idx
	}
	res.byPeer = map[int][]int{}
	for k, ls := range snap.LinksByPeerID {
		var o []int
		for _, l := range ls {
			o = append(o, l.(*fakeLink).idx)
		}
		res.byPeer[rev[k]] = o
	}
	res.gpl = map[int][]int{}
	for _, z := range peersOf(u) {
		var o []int
		for _, l := range e.ctrl.GetPeerLinks(w.id(z)) {
			o = append(o, l.(*fakeLink).idx)
		}
		sort.Ints(o)
		res.gpl[z] = o
	}
	for i, l := range fl {
		if l.closes.Load() > 0 {
			res.closed = append(res.closed, i)
		}
	}
	for _, r := range held {
		r.Release()
	}
	return res, e
}

func descHist(u []lspec, h []act) map[string]any {
	hs := make([]string, len(h))
	for i, a := range h {
		hs[i] = a.String()
	}
	us := make([]string, len(u))
	for i, l := range u {
		us[i] = fmt.Sprintf("link%d{uuid=%d addr=%d local=%d remote=%d}", i, l.uuid, l.addr, l.local, l.remote)
	}
	return map[string]any{"universe": us, "history": hs, "peers": "0=empty 1=controller peer 2..=others"}
}

// specLive is the property's own reading: links established and not yet lost,
// a newer link with the same identifier replaces the older one.
func specLive(u []lspec, h []act) (live []int, est map[int]bool) {
	est = map[int]bool{}
	for _, a := range h {
		switch a.kind {
		case 0:
			est[a.p] = true
			if u[a.p].remote == 1 {
				continue
			}
			dup := false
			for _, q := range live {
				if q == a.p {
					dup = true
				}
			}
			if dup {
				continue
			}
			var nl []int
			for _, q := range live {
				if u[q].uuid != u[a.p].uuid {
					nl = append(nl, q)
				}
			}
			live = append(nl, a.p)
		case 1:
			var nl []int
			for _, q := range live {
				if q != a.p {
					nl = append(nl, q)
				}
			}
			live = nl
		}
	}
	return live, est
}

func inInts(l []int, x int) bool {
	for _, y := range l {
		if y == x {
			return true
		}
	}
	return false
}

// liveAt is the spec's live set before event i of the history.
func liveAt(u []lspec, h []act, i int) []int {
	l, _ := specLive(u, h[:i])
	return l
}

func eqInts(a, b []int) bool {
	if len(a) != len(b) {
		return false
	}
	for i := range a {
		if a[i] != b[i] {
			return false
		}
	}
	return true
}

// oracle checks the C06 statement directly on the observed tables.
type ofail struct{ key, what string }

// oracle checks the property's reading of the tables.  A HandleLinkEstablished
// call made before the constructor returned may legitimately be refused (its
// lock region can run after the constructor returned but before Execute stored
// its handles: "link established while transport exited, closing link"): every
// choice of refused early calls is tried, a refused link must be closed and absent.
func oracle(c *hx.Ctx, u []lspec, h []act, r *result) {
	d := descHist(u, h)
	if r.ambiguous {
		return
	}
	heff, _, early := effective(h)
	var first []ofail
	for mask := 0; mask < 1<<uint(len(early)); mask++ {
		var hv []act
		refused := map[int]bool{}
		k := 0
		for _, a := range heff {
			if a.kind == 0 && a.early {
				if mask&(1<<uint(k)) != 0 {
					refused[a.p] = true
					k++
					continue
				}
				k++
			}
			hv = append(hv, a)
		}
		fs := oracleVariant(u, hv, refused, r)
		if len(fs) == 0 {
			return
		}
		if mask == 0 {
			first = fs
		}
	}
	for _, f := range first {
		c.Fail(f.key, f.what, d)
	}
}

func oracleVariant(u []lspec, h []act, refused map[int]bool, r *result) (out []ofail) {
	failf := func(key string, _ any, format string, a ...any) {
		out = append(out, ofail{key, fmt.Sprintf(format, a...)})
	}
	var d any
	live, est := specLive(u, h)
	isLive := map[int]bool{}
	for _, q := range live {
		isLive[q] = true
	}
	for _, z := range peersOf(u) {
		var want []int
		for _, q := range live {
			if u[q].remote == z {
				want = append(want, q)
			}
		}
		sort.Ints(want)
		got := append([]int{}, r.gpl[z]...)
		sort.Ints(got)
		if !eqInts(got, want) {
			failf("reported-ne-live", d, "GetPeerLinks(peer %d) = %v but the links established and not yet lost are %v", z, got, want)
		}
		bp := append([]int{}, r.byPeer[z]...)
		sort.Ints(bp)
		if !eqInts(bp, want) {
			failf("index-ne-live", d, "linksByPeerID[peer %d] = %v but the links established and not yet lost are %v", z, bp, want)
		}
	}
	closed := map[int]bool{}
	for _, q := range r.closed {
		closed[q] = true
	}
	// links that were dead (lost, replaced or refused) at some point of the
	// history: their Close count says nothing about the current incarnation
	everDead := map[int]bool{}
	for i := range h {
		l, e := specLive(u, h[:i+1])
		in := map[int]bool{}
		for _, q := range l {
			in[q] = true
		}
		for q := range e {
			if !in[q] {
				everDead[q] = true
			}
		}
	}
	for q := range refused {
		if !closed[q] && !est[q] {
			failf("refused-link-not-closed", d, "link %d was reported before the controller executed and is not in the tables, but was not closed", q)
		}
	}
	for q := range est {
		if !isLive[q] && !closed[q] {
			failf("dead-link-not-closed", d, "link %d was established and is no longer live but Close was never called", q)
		}
		if isLive[q] && closed[q] && !everDead[q] {
			failf("live-link-closed", d, "link %d is established and not lost but was closed", q)
		}
	}
	for q, l := range u {
		if l.remote == 1 && est[q] && !closed[q] {
			failf("self-dial-not-closed", d, "self-dial link %d was not closed", q)
		}
		_ = l
	}
	return out
}

func emitHist(c *hx.Ctx, u []lspec, h []act, r *result) {
	var hs, obs, earlyTerms []string
	heff, effIdx, early := effective(h)
	obsEff := make([][]int, len(heff))
	for i := range h {
		if effIdx[i] >= 0 && i < len(r.obs) {
			obsEff[effIdx[i]] = r.obs[i]
		}
	}
	isEarly := map[int]bool{}
	for i, a := range h {
		if a.kind == 0 && a.early && effIdx[i] < 0 {
			isEarly[i] = true
		}
	}
	for i, a := range h {
		if !isEarly[i] {
			hs = append(hs, a.term())
		}
	}
	for _, a := range early {
		earlyTerms = append(earlyTerms, a.term())
	}
	for _, o := range obsEff {
		obs = append(obs, hx.NatList(o))
	}
	var lk []string
	var keys []int
	for k := range r.links {
		keys = append(keys, int(k))
	}
	sort.Ints(keys)
	for _, k := range keys {
		lk = append(lk, "("+hx.Z(int64(k))+", "+hx.Nat(r.links[uint64(k)])+")")
	}
	pl := func(m map[int][]int) string {
		var ks []int
		for k := range m {
			ks = append(ks, k)
		}
		sort.Ints(ks)
		var o []string
		for _, k := range ks {
			o = append(o, "("+hx.Z(int64(k))+", "+hx.NatList(m[k])+")")
		}
		return hx.List(o)
	}
	d := descHist(u, h)
	d["links"] = fmt.Sprint(r.links)
	d["by_peer"] = fmt.Sprint(r.byPeer)
	d["closed"] = fmt.Sprint(r.closed)
	d["resolve_obs"] = fmt.Sprint(r.obs)
	var hk []string
	for _, k := range r.held {
		hk = append(hk, "("+hx.Z(int64(k[0]))+", "+hx.Z(int64(k[1]))+")")
	}
	d["startup"] = r.startup
	d["early_link_callbacks"] = fmt.Sprint(early)
	c.Case(hx.App("Hist", univTerm(u), "1", hx.Bool(r.startup), hx.List(earlyTerms), hx.List(hk), hx.List(hs), hx.List(obs), hx.List(lk), pl(r.byPeer), pl(r.gpl), hx.NatList(r.closed)), d)
}

// genUniverse: 2-4 links over 1-2 uuids and 1-3 remote peers (incl. self).
func genUniverse(c *hx.Ctx, foreignLocal bool) []lspec {
	n := 2 + c.Rng.Intn(3)
	nu := 1 + c.Rng.Intn(2)
	nr := 1 + c.Rng.Intn(3)
	u := make([]lspec, n)
	for i := range u {
		u[i] = lspec{uuid: 100 * (1 + c.Rng.Intn(nu)), addr: 1 + c.Rng.Intn(2), local: 1, remote: 2 + c.Rng.Intn(nr)}
		if c.Rng.Intn(8) == 0 {
			u[i].remote = 1 // self-dial
		}
		if foreignLocal && c.Rng.Intn(5) == 0 {
			u[i].local = 5 // a transport that reports somebody else's link
		}
	}
	return u
}

// genHistory: a transport reports each link established once (duplicates
// while it is up are allowed), losses may come late, twice, or for links it
// never reported.  With reest, a dead link may be reported established again.
func genHistory(c *hx.Ctx, u []lspec, n int, resolves bool, reest bool) []act {
	var h []act
	used := map[int]bool{}
	for len(h) < n {
		r := c.Rng.Intn(100)
		p := c.Rng.Intn(len(u))
		live, _ := specLive(u, h)
		switch {
		case resolves && r < 30:
			src := []int{0, 0, 1, 1, 3, 5}[c.Rng.Intn(6)]
			dst := []int{2, 2, 3, 3, 4, 1, 0}[c.Rng.Intn(7)]
			if len(live) > 0 && c.Rng.Intn(2) == 0 { // ask for a peer we currently have a link to
				dst = u[live[c.Rng.Intn(len(live))]].remote
			}
			h = append(h, act{kind: 2, src: src, dst: dst})
		case r < 60:
			if used[p] && !reest {
				// pick an unused link if there is one
				for q := range u {
					if !used[q] {
						p = q
						break
					}
				}
				if used[p] {
					h = append(h, act{kind: 1, p: p})
					continue
				}
			}
			h = append(h, act{kind: 0, p: p})
			used[p] = true
		case r < 72 && len(live) > 0: // duplicate establish of a live link
			h = append(h, act{kind: 0, p: live[c.Rng.Intn(len(live))]})
		default:
			h = append(h, act{kind: 1, p: p})
		}
	}
	return h
}

func classify(c *hx.Ctx, u []lspec, h []act) {
	h, _, _ = effective(h)
	live, est := specLive(u, h)
	replaced, late, dup, self := false, false, false, false
	cur := []int{}
	for i, a := range h {
		l, _ := specLive(u, h[:i])
		in := map[int]bool{}
		for _, q := range l {
			in[q] = true
		}
		switch a.kind {
		case 0:
			if u[a.p].remote == 1 {
				self = true
			} else if in[a.p] {
				dup = true
			} else {
				for _, q := range l {
					if u[q].uuid == u[a.p].uuid {
						replaced = true
					}
				}
			}
		case 1:
			if !in[a.p] {
				late = true
			}
		}
		cur = l
	}
	_ = cur
	_ = est
	if replaced {
		c.Class("replacement-same-uuid")
	}
	if late {
		c.Class("late-or-unknown-loss")
	}
	if dup {
		c.Class("duplicate-establish")
	}
	if self {
		c.Class("self-dial")
	}
	if len(live) > 0 {
		c.Class("final-live-nonempty")
	}
	if replaced || late || dup || self {
		c.Nontrivial(fmt.Sprint(u, h))
	}
}

func runHist(c *hx.Ctx, u []lspec, h []act, doOracle bool) {
	w := world{local: c.Rng.Intn(2)}
	r, e := execute(c, w, u, h, 1)
	e.close()
	emitHist(c, u, h, r)
	classify(c, u, h)
	if doOracle {
		oracle(c, u, h, r)
	}
}

func c06(c *hx.Ctx) {
	c.Rule = "histories of Est/Lost (and interleaved Resolve) over 2-4 fake links sharing 1-2 uuids and 1-3 remote peers incl. the local peer, driven through the real controller's TransportHandler; non-trivial = history containing a same-uuid replacement, a late/unknown loss, a duplicate establish or a self-dial"
	// fixed scenarios first: the ones the property text names
	u0 := []lspec{{100, 1, 1, 2}, {100, 1, 1, 2}, {200, 2, 1, 3}, {100, 2, 1, 1}}
	fixed := [][]act{
		{{kind: 0, p: 0}, {kind: 0, p: 1}, {kind: 1, p: 0}}, // replaced, then the old one is lost late
		{{kind: 0, p: 0}, {kind: 0, p: 0}, {kind: 1, p: 0}}, // duplicate report
		{{kind: 0, p: 0}, {kind: 1, p: 0}, {kind: 1, p: 0}}, // double loss
		{{kind: 1, p: 0}, {kind: 0, p: 0}},                  // loss before establish
		{{kind: 0, p: 3}, {kind: 0, p: 0}, {kind: 1, p: 3}}, // self-dial with the uuid of a later link
		{{kind: 0, p: 0}, {kind: 0, p: 2}, {kind: 0, p: 1}, {kind: 1, p: 1}, {kind: 1, p: 0}},
		{{kind: 0, p: 0}, {kind: 0, p: 1}, {kind: 0, p: 0}, {kind: 1, p: 1}}, // ping-pong replacement
	}
	for _, h := range fixed {
		runHist(c, u0, h, true)
	}
	// the quic transport's own address table: replacement of a link by a newer
	// one at the same remote address (same peer / another peer)
	usurpCase(c, 1, 1)
	usurpCase(c, 1, 2)
	usurpCase(c, 3, 2)
	n := c.N
	if c.Tier == "thorough" {
		// every history up to length 5 over three links (two share a uuid)
		u := []lspec{{100, 1, 1, 2}, {100, 1, 1, 2}, {200, 2, 1, 3}}
		var evs []act
		for p := range u {
			evs = append(evs, act{kind: 0, p: p}, act{kind: 1, p: p})
		}
		var rec func(h []act, depth int)
		rec = func(h []act, depth int) {
			if len(h) > 0 {
				runHist(c, u, append([]act{}, h...), true)
			}
			if depth == 0 {
				return
			}
			for _, ev := range evs {
				rec(append(h, ev), depth-1)
			}
		}
		depth := 4
		if n >= 8000 {
			depth = 5
		}
		rec(nil, depth)
		c.Extra["exhaustive_depth"] = depth
	}
	for i := 0; i < n; i++ {
		u := genUniverse(c, false)
		reest := c.Rng.Intn(8) == 0
		h := genHistory(c, u, 3+c.Rng.Intn(10), c.Rng.Intn(3) == 0, reest)
		if reest {
			c.Class("re-establish-dead-link")
		}
		runHist(c, u, h, true)
	}
	// parallel bursts incl. several reports for the same link object
	for i := 0; i < n/4; i++ {
		u, phases := genBursts(c)
		burstsCase(c, u, phases)
	}
	// events delivered from concurrent goroutines
	nc := n / 10
	for i := 0; i < nc; i++ {
		u := genUniverse(c, false)
		h := genHistory(c, u, 2+c.Rng.Intn(4), false, false)
		w := world{local: c.Rng.Intn(2)}
		r, e := execute(c, w, u, h, 2+c.Rng.Intn(2))
		e.close()
		var hs, lk []string
		for _, a := range h {
			hs = append(hs, a.term())
		}
		var keys []int
		for k := range r.links {
			keys = append(keys, int(k))
		}
		sort.Ints(keys)
		for _, k := range keys {
			lk = append(lk, "("+hx.Z(int64(k))+", "+hx.Nat(r.links[uint64(k)])+")")
		}
		d := descHist(u, h)
		d["concurrent"] = true
		d["links"] = fmt.Sprint(r.links)
		c.Case(hx.App("Conc", univTerm(u), "1", hx.List(hs), hx.List(lk)), d)
		c.Class("concurrent")
		// internal consistency, whatever the interleaving was
		for z, ls := range r.byPeer {
			for _, q := range ls {
				if u[q].remote != z {
					c.Failf("index-wrong-peer", d, "link %d indexed under peer %d", q, z)
				}
				if got, ok := r.links[uint64(u[q].uuid)]; !ok || got != q {
					c.Failf("index-stale", d, "link %d in linksByPeerID but not in links", q)
				}
			}
		}
		for _, q := range r.links {
			found := false
			for _, x := range r.byPeer[u[q].remote] {
				if x == q {
					found = true
				}
			}
			if !found {
				c.Failf("index-missing", d, "link %d in links but not in linksByPeerID", q)
			}
			nEst := 0
			for _, a := range h {
				if a.kind == 0 && a.p == q {
					nEst++
				}
			}
			// (a link reported established twice may have been replaced and re-established in between)
			if inInts(r.closed, q) && nEst == 1 {
				c.Failf("closed-link-in-table", d, "link %d is in the table but was closed", q)
			}
		}
	}
}

// ---------------------------------------------------------------------------
// C04

type memStream struct {
	r      *bytes.Reader
	closed atomic.Bool
}

func (s *memStream) Read(b []byte) (int, error)       { return s.r.Read(b) }
func (s *memStream) Write(b []byte) (int, error)      { return len(b), nil }
func (s *memStream) SetReadDeadline(time.Time) error  { return nil }
func (s *memStream) SetWriteDeadline(time.Time) error { return nil }
func (s *memStream) SetDeadline(time.Time) error      { return nil }
func (s *memStream) Close() error                     { s.closed.Store(true); return nil }

type msHandler struct {
	mtx  sync.Mutex
	got  []link.MountedStream
	dirs []link.HandleMountedStream
}

func (m *msHandler) HandleMountedStream(ctx context.Context, ms link.MountedStream) error {
	m.mtx.Lock()
	m.got = append(m.got, ms)
	m.mtx.Unlock()
	return nil
}

// HandleDirective resolves HandleMountedStream with this handler.
func (m *msHandler) HandleDirective(ctx context.Context, di directive.Instance) ([]directive.Resolver, error) {
	d, ok := di.GetDirective().(link.HandleMountedStream)
	if !ok {
		return nil, nil
	}
	m.mtx.Lock()
	m.dirs = append(m.dirs, d)
	m.mtx.Unlock()
	return directive.R(directive.NewValueResolver([]link.MountedStreamHandler{m}), nil)
}

func c04(c *hx.Ctx) {
	c.Rule = "EstablishLinkWithPeer requests (empty / matching / foreign source, every target incl. empty and the local peer) interleaved with link events over 2-4 fake links, observed through real directive references on the controller bus; streams delivered through HandleIncomingStream; non-trivial = history in which some request yields a value, or a self-dial / foreign source occurs"
	n := c.N
	nStream := n / 6
	for i := 0; i < n-nStream; i++ {
		foreign := c.Rng.Intn(6) == 0
		u := genUniverse(c, foreign)
		h := genHistory(c, u, 4+c.Rng.Intn(9), true, false)
		w := world{local: c.Rng.Intn(2)}
		// start-up ordering: a third of the cases make their first requests
		// (every source/target combination) before the transport constructor
		// returns; half of the cases have a second controller with another
		// identity on the bus
		startup := i%3 == 0
		second := i%2 == 0
		if startup {
			var pre []act
			if c.Rng.Intn(2) == 0 { // make sure a self-dial link exists to be reported early
				u[c.Rng.Intn(len(u))].remote = 1
				h = genHistory(c, u, 4+c.Rng.Intn(9), true, false)
			}
			usedEarly := map[int]bool{}
			for j, k := 0, 1+c.Rng.Intn(5); j < k; j++ {
				switch r := c.Rng.Intn(10); {
				case r < 4:
					// link callbacks while the controller is still starting: self-links,
					// duplicates, same-uuid links
					p := c.Rng.Intn(len(u))
					if c.Rng.Intn(3) == 0 {
						for q := range u {
							if u[q].remote == 1 {
								p = q
							}
						}
					}
					pre = append(pre, act{kind: 0, p: p, early: true})
					usedEarly[p] = true
				case r < 5:
					pre = append(pre, act{kind: 1, p: c.Rng.Intn(len(u))})
				default:
					src := []int{0, 1, 3, 5, 5}[c.Rng.Intn(5)]
					dst := []int{2, 2, 3, 4, 1, 1, 0}[c.Rng.Intn(7)]
					pre = append(pre, act{kind: 2, src: src, dst: dst})
				}
			}
			if len(usedEarly) > 0 {
				c.Class("startup-link-callbacks-before-transport")
				// the later history must not report the same link objects established again
				var h2 []act
				for _, a := range h {
					if a.kind == 0 && usedEarly[a.p] {
						continue
					}
					h2 = append(h2, a)
				}
				h = h2
			}
			h = append(append(pre, act{kind: 3}), h...)
			// ask again for what was requested early, after the links came up
			for _, a := range pre {
				if c.Rng.Intn(2) == 0 {
					h = append(h, a)
				}
			}
			c.Class("startup-requests-before-transport")
		}
		if second {
			c.Class("two-controllers-on-bus")
		}
		r, e := executeMode(c, w, u, h, 1, startup, second)
		e.close()
		emitHist(c, u, h, r)
		yielded := false
		for i, o := range r.obs {
			if h[i].kind == 2 {
				switch {
				case h[i].src == 0:
					c.Class("request-src-empty")
				case h[i].src == 1:
					c.Class("request-src-controller-peer")
				default:
					c.Class("request-src-foreign")
				}
				switch {
				case h[i].dst == 0:
					c.Class("request-dst-empty")
				case h[i].dst == 1:
					c.Class("request-dst-local-peer")
				}
				if len(o) > 0 {
					yielded = true
				}
			}
		}
		if yielded {
			c.Class("request-yields-links")
			c.Nontrivial(fmt.Sprint(u, h))
		}
		if foreign {
			c.Class("foreign-local-link")
		} else {
			oracle(c, u, h, r)
		}
	}
	// streams: the directive and the mounted stream name the link's remote peer
	for i := 0; i < nStream; i++ {
		w := world{local: c.Rng.Intn(2)}
		u := genUniverse(c, false)
		p := c.Rng.Intn(len(u))
		if u[p].remote == 1 {
			u[p].remote = 2
		}
		e := newEnv(w)
		fl := &fakeLink{idx: p, uuid: uint64(u[p].uuid), local: w.id(u[p].local), remote: w.id(u[p].remote), closedCh: make(chan struct{})}
		mh := &msHandler{}
		rel, err := e.tb.Bus.AddHandler(mh)
		if err != nil {
			panic(err)
		}
		pid := protocol.ID(fmt.Sprintf("verif/proto-%d", c.Rng.Intn(5)))
		hdr := tptc.VerifMarshalStreamEstablishHeader(tptc.NewStreamEstablish(pid))
		payload := c.RandBytes(c.Rng.Intn(8))
		strm := &memStream{r: bytes.NewReader(append(append([]byte{}, hdr...), payload...))}
		e.ctrl.HandleIncomingStream(e.ctx, e.tpt, fl, strm, stream.OpenOpts{})
		quiesce()
		rev := map[peer.ID]int{}
		for _, z := range []int{1, 2, 3, 4, 5} {
			rev[w.id(z)] = z
		}
		d := map[string]any{"kind": "stream", "link": fmt.Sprintf("%+v", u[p]), "protocol": string(pid)}
		mh.mtx.Lock()
		if len(mh.got) != 1 || len(mh.dirs) < 1 {
			c.Failf("stream-not-delivered", d, "HandleIncomingStream delivered %d streams / %d directives", len(mh.got), len(mh.dirs))
		} else {
			ms, dir := mh.got[0], mh.dirs[0]
			dl, dr := rev[dir.HandleMountedStreamLocalPeerID()], rev[dir.HandleMountedStreamRemotePeerID()]
			sp, mr := rev[ms.GetPeerID()], rev[ms.GetLink().GetRemotePeer()]
			c.Case(hx.App("Stream", univTerm(u), hx.Nat(p), hx.Z(int64(dl)), hx.Z(int64(dr)), hx.Z(int64(sp)), hx.Z(int64(mr))), d)
			c.Class("stream")
			c.Nontrivial(fmt.Sprint("s", u[p], pid))
			if ms.GetPeerID() != fl.remote {
				c.Failf("stream-peer-ne-link-remote", d, "stream reports peer %s, link remote is %s", ms.GetPeerID().String(), fl.remote.String())
			}
			if dir.HandleMountedStreamRemotePeerID() != fl.remote || dir.HandleMountedStreamLocalPeerID() != fl.local {
				c.Failf("stream-directive-peers", d, "HandleMountedStream directive carries (%s,%s)", dir.HandleMountedStreamLocalPeerID().String(), dir.HandleMountedStreamRemotePeerID().String())
			}
			if ms.GetProtocolID() != pid || dir.HandleMountedStreamProtocolID() != pid {
				c.Failf("stream-protocol", d, "protocol id %q delivered as %q", pid, ms.GetProtocolID())
			}
		}
		mh.mtx.Unlock()
		rel()
		e.close()
	}
}

var _ bus.Bus
