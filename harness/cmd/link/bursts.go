package main

import (
	"fmt"
	"sort"
	"sync"

	"github.com/aperturerobotics/bifrost/link"
	"github.com/aperturerobotics/controllerbus/directive"
	"verifharness/internal/hx"
)

// burstsCase delivers the events of each phase together from parallel
// goroutines released by a barrier -- including several reports for the SAME
// link object -- waits for quiescence between phases, and compares both tables
// with the model under some order of the lock regions of each phase.
func burstsCase(c *hx.Ctx, u []lspec, phases [][]act) {
	w := world{local: c.Rng.Intn(2)}
	e := newEnvMode(w, false, c.Rng.Intn(2) == 0)
	fl := make([]*fakeLink, len(u))
	for i, l := range u {
		fl[i] = &fakeLink{idx: i, uuid: uint64(l.uuid), addr: l.addr, local: w.id(l.local), remote: w.id(l.remote), closedCh: make(chan struct{})}
	}
	var held []directive.Reference
	seen := map[[2]int]bool{}
	for _, l := range u {
		k := [2]int{l.local, l.remote}
		if seen[k] {
			continue
		}
		seen[k] = true
		if _, ref, err := e.tb.Bus.AddDirective(link.NewEstablishLinkWithPeer(w.id(l.local), w.id(l.remote)), nil); err == nil {
			held = append(held, ref)
		}
	}
	quiesce()
	for _, ph := range phases {
		start := make(chan struct{})
		var wg sync.WaitGroup
		for _, a := range ph {
			wg.Add(1)
			go func(a act) {
				defer wg.Done()
				<-start
				if a.kind == 0 {
					e.handler.HandleLinkEstablished(fl[a.p])
				} else {
					e.handler.HandleLinkLost(fl[a.p])
				}
			}(a)
		}
		quiesce() // all parked on the barrier
		close(start)
		wg.Wait()
		quiesce()
	}
	snap := e.ctrl.VerifSnapshotLinks()
	rev := map[string]int{}
	for _, z := range []int{1, 2, 3, 4, 5} {
		rev[string(w.id(z))] = z
	}
	links := map[int]int{}
	for k, l := range snap.Links {
		links[int(k)] = l.(*fakeLink).idx
	}
	byPeer := map[int][]int{}
	for k, ls := range snap.LinksByPeerID {
		var o []int
		for _, l := range ls {
			o = append(o, l.(*fakeLink).idx)
		}
		byPeer[rev[string(k)]] = o
	}
	closed := map[int]bool{}
	for i, l := range fl {
		if l.closes.Load() > 0 {
			closed[i] = true
		}
	}
	for _, r := range held {
		r.Release()
	}
	e.close()

	var phTerms, phStrs []string
	for _, ph := range phases {
		var ts, ss []string
		for _, a := range ph {
			ts = append(ts, a.term())
			ss = append(ss, a.String())
		}
		phTerms = append(phTerms, hx.List(ts))
		phStrs = append(phStrs, fmt.Sprint(ss))
	}
	var lk, bp []string
	var keys []int
	for k := range links {
		keys = append(keys, k)
	}
	sort.Ints(keys)
	for _, k := range keys {
		lk = append(lk, "("+hx.Z(int64(k))+", "+hx.Nat(links[k])+")")
	}
	keys = keys[:0]
	for k := range byPeer {
		keys = append(keys, k)
	}
	sort.Ints(keys)
	for _, k := range keys {
		bp = append(bp, "("+hx.Z(int64(k))+", "+hx.NatList(byPeer[k])+")")
	}
	d := descHist(u, nil)
	d["phases_issued_in_parallel"] = phStrs
	d["links"] = fmt.Sprint(links)
	d["by_peer"] = fmt.Sprint(byPeer)
	c.Case(hx.App("Bursts", univTerm(u), "1", hx.List(phTerms), hx.List(lk), hx.List(bp)), d)
	c.Class("parallel-bursts")
	sameLink := false
	for _, ph := range phases {
		for i, a := range ph {
			for _, b := range ph[i+1:] {
				if a.p == b.p {
					sameLink = true
				}
			}
		}
	}
	if sameLink {
		c.Class("parallel-reports-for-the-same-link")
		c.Nontrivial(fmt.Sprint("b", u, phases))
	}
	// oracles that hold for every order inside the phases
	inTables := func(q int) (bool, bool) {
		a, b := false, false
		for _, x := range links {
			if x == q {
				a = true
			}
		}
		for _, ls := range byPeer {
			for _, x := range ls {
				if x == q {
					b = true
				}
			}
		}
		return a, b
	}
	for z, ls := range byPeer {
		cnt := map[int]int{}
		for _, q := range ls {
			cnt[q]++
			if u[q].remote != z {
				c.Failf("index-wrong-peer", d, "link %d indexed under peer %d", q, z)
			}
			if got, ok := links[u[q].uuid]; !ok || got != q {
				c.Failf("index-stale", d, "link %d is in linksByPeerID but not in links", q)
			}
			if cnt[q] > 1 {
				c.Failf("index-duplicate", d, "link %d appears %d times in linksByPeerID", q, cnt[q])
			}
		}
	}
	for _, q := range links {
		if _, b := inTables(q); !b {
			c.Failf("index-missing", d, "link %d in links but not in linksByPeerID", q)
		}
	}
	// a link whose loss was reported in a later phase than all of its establish
	// reports is in neither table and was closed
	lastEst, lastLost := map[int]int{}, map[int]int{}
	for i, ph := range phases {
		for _, a := range ph {
			if a.kind == 0 {
				lastEst[a.p] = i + 1
			} else {
				lastLost[a.p] = i + 1
			}
		}
	}
	for q, ll := range lastLost {
		if le, ok := lastEst[q]; ok && ll > le {
			a, b := inTables(q)
			if a || b {
				c.Failf("lost-link-still-in-table", d, "link %d was reported lost after all its establish reports but is still in the tables (links=%v linksByPeerID=%v)", q, a, b)
			}
			if !closed[q] {
				c.Failf("dead-link-not-closed", d, "link %d was lost but never closed", q)
			}
		}
	}
}

// genBursts: overlapping duplicate establish reports of one link (2-4 at once),
// possibly with a same-uuid rival or an unrelated link in the same burst, then
// its loss; random bursts.
func genBursts(c *hx.Ctx) ([]lspec, [][]act) {
	u := genUniverse(c, false)
	for i := range u {
		if u[i].remote == 1 {
			u[i].remote = 2
		}
	}
	p := c.Rng.Intn(len(u))
	var phases [][]act
	switch c.Rng.Intn(4) {
	case 0, 1:
		var b []act
		for i, k := 0, 2+c.Rng.Intn(3); i < k; i++ {
			b = append(b, act{kind: 0, p: p})
		}
		if c.Rng.Intn(2) == 0 {
			b = append(b, act{kind: 0, p: (p + 1) % len(u)})
		}
		phases = append(phases, b, []act{{kind: 1, p: p}})
		if c.Rng.Intn(2) == 0 {
			phases = append(phases, []act{{kind: 0, p: (p + 1) % len(u)}, {kind: 0, p: (p + 1) % len(u)}})
		}
	case 2:
		phases = append(phases, []act{{kind: 0, p: p}}, []act{{kind: 0, p: p}, {kind: 0, p: p}, {kind: 1, p: (p + 1) % len(u)}}, []act{{kind: 1, p: p}})
	default:
		for i, k := 0, 2+c.Rng.Intn(2); i < k; i++ {
			var b []act
			for j, m := 0, 1+c.Rng.Intn(3); j < m; j++ {
				b = append(b, act{kind: c.Rng.Intn(2), p: c.Rng.Intn(len(u))})
			}
			phases = append(phases, b)
		}
	}
	return u, phases
}
