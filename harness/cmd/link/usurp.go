package main

import (
	"context"
	"fmt"
	"net"
	"time"

	"github.com/aperturerobotics/bifrost/crypto"
	"github.com/aperturerobotics/bifrost/link"
	"github.com/aperturerobotics/bifrost/testbed"
	"github.com/aperturerobotics/bifrost/transport"
	"github.com/aperturerobotics/bifrost/transport/common/pconn"
	tptc "github.com/aperturerobotics/bifrost/transport/controller"
	"github.com/aperturerobotics/controllerbus/controller"
	"github.com/blang/semver/v4"
	"github.com/sirupsen/logrus"
	"verifharness/cmd/dial/qmem"
	"verifharness/internal/hx"
)

func parseMemAddr(a string) (net.Addr, error) { return qmem.Addr(a), nil }

type nopHandler struct{}

func (nopHandler) HandleLinkEstablished(link.Link) {}
func (nopHandler) HandleLinkLost(link.Link)        {}

// usurpCase: a real controller with a real pconn/quic transport listens at "L".
// Remote endpoints dial it one after the other from the SAME remote address "C"
// (a peer that restarted, or another peer that took over the address): the quic
// transport replaces (usurps) the link registered at that address.  second:
// index of the identity that dials second (== first: the same peer reconnects).
func usurpCase(c *hx.Ctx, first, second int) {
	ctx, cancel := context.WithCancel(context.Background())
	defer cancel()
	le := quietLogger()
	nw := qmem.NewNet()
	tb, err := testbed.NewTestbed(ctx, le, testbed.TestbedOpts{PrivKey: privs[0], NoEcho: true})
	if err != nil {
		panic(err)
	}
	defer tb.Release()
	lpc := nw.NewConn("L", true)
	ctrl := tptc.NewController(le, tb.Bus, controller.NewInfo("verif/usurp", semver.MustParse("0.0.1"), "usurp"), pids[0], false,
		func(ctx context.Context, le *logrus.Entry, pkey crypto.PrivKey, handler transport.TransportHandler) (transport.Transport, error) {
			return pconn.NewTransport(ctx, le, pkey, handler, &pconn.Opts{}, 0, lpc, parseMemAddr, nil)
		})
	if _, err := tb.Bus.AddController(ctx, ctrl, nil); err != nil {
		panic(err)
	}
	if _, err := ctrl.GetTransport(ctx); err != nil {
		panic(err)
	}
	// an application keeps wanting links to both peers
	for _, k := range []int{first, second} {
		_, ref, err := tb.Bus.AddDirective(link.NewEstablishLinkWithPeer(pids[0], pids[k]), nil)
		if err == nil {
			defer ref.Release()
		}
	}
	dial := func(k int) {
		pc := nw.NewConn("C", true) // same remote address every time
		t, err := pconn.NewTransport(ctx, le, privs[k], nopHandler{}, &pconn.Opts{}, 0, pc, parseMemAddr, nil)
		if err != nil {
			panic(err)
		}
		dctx, dcancel := context.WithTimeout(ctx, 3*time.Second)
		defer dcancel()
		if _, _, err := t.DialPeer(dctx, pids[0], "L"); err != nil {
			panic(fmt.Sprint("usurp: dial failed: ", err))
		}
	}
	waitLinks := func(k, want int) int {
		n := -1
		for i := 0; i < 1500; i++ {
			n = len(ctrl.GetPeerLinks(pids[k]))
			if n == want {
				break
			}
			time.Sleep(time.Millisecond)
		}
		return n
	}
	dial(first)
	if n := waitLinks(first, 1); n != 1 {
		panic("usurp: first link not registered")
	}
	firstLinks := ctrl.GetPeerLinks(pids[first])
	dial(second)
	desc := map[string]any{"kind": "usurp", "first_dialer": first, "second_dialer": second, "same_remote_address": "C"}
	if first == second {
		// same peer, same address => same uuid: replaced, exactly one link reported, and it is the new one
		time.Sleep(30 * time.Millisecond)
		n := waitLinks(first, 1)
		ls := ctrl.GetPeerLinks(pids[first])
		if n != 1 || (len(ls) == 1 && ls[0] == firstLinks[0]) {
			c.Failf("usurped-link-still-reported", desc, "after the same peer reconnected from the same address the controller reports %d links (old link still there: %v)", n, len(ls) == 1 && ls[0] == firstLinks[0])
		}
		c.Class("usurp-same-peer")
	} else {
		if n := waitLinks(second, 1); n != 1 {
			c.Failf("usurp-new-link-missing", desc, "the link of the peer that took over the address is not reported (%d)", n)
		}
		// the first peer's link was closed by the transport (usurped); it must no longer be reported
		n := waitLinks(first, 0)
		if n != 0 {
			c.Failf("usurped-link-still-reported", desc, "the link to peer %d was usurped at its address by peer %d and closed by the transport, but GetPeerLinks still reports %d link(s) to it", first, second, n)
		}
		c.Class("usurp-other-peer")
	}
	c.Eval()
}
