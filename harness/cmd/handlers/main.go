// Harness for C34: drives the real HandleDirective of every stream-handling
// controller with a fake directive.Instance carrying a real
// link.NewHandleMountedStream directive, exhaustively over a small universe of
// configurations and streams.
package main

import (
	"context"
	"fmt"
	"reflect"
	"slices"
	"strings"

	"github.com/aperturerobotics/bifrost/link"
	link_solicit_controller "github.com/aperturerobotics/bifrost/link/solicit/controller"
	"github.com/aperturerobotics/bifrost/peer"
	"github.com/aperturerobotics/bifrost/protocol"
	pubsub_controller "github.com/aperturerobotics/bifrost/pubsub/controller"
	stream_api_accept "github.com/aperturerobotics/bifrost/stream/api/accept"
	stream_echo "github.com/aperturerobotics/bifrost/stream/echo"
	stream_forwarding "github.com/aperturerobotics/bifrost/stream/forwarding"
	stream_relay "github.com/aperturerobotics/bifrost/stream/relay"
	stream_srpc_server "github.com/aperturerobotics/bifrost/stream/srpc/server"
	"github.com/aperturerobotics/controllerbus/controller"
	"github.com/aperturerobotics/controllerbus/directive"
	"github.com/blang/semver/v4"
	"verifharness/cmd/handlers/fk"
	"verifharness/internal/hx"
)

func main() { hx.Main(run) }

func run(c *hx.Ctx) {
	c.Imports = "Handlers.Run"
	switch c.Prop {
	case "C34":
		c34(c)
	default:
		panic("unknown property " + c.Prop)
	}
}

type strm struct {
	proto         string
	local, remote peer.ID
}

func (s strm) term() string {
	return hx.App("St", hx.Str(s.proto), hx.Str(string(s.local)), hx.Str(string(s.remote)))
}

func (s strm) desc() map[string]any {
	return map[string]any{"proto": s.proto, "local": s.local.String(), "remote": s.remote.String()}
}

type hdl interface {
	HandleDirective(ctx context.Context, di directive.Instance) ([]directive.Resolver, error)
}

// offer runs the real HandleDirective; returns resolvers, panicked.
func offer(h hdl, s strm) (res []directive.Resolver, panicked bool) {
	dir := link.NewHandleMountedStream(protocol.ID(s.proto), s.local, s.remote)
	inst := fk.NewInst(dir)
	panicked, _ = hx.Catch(func() {
		var err error
		res, err = h.HandleDirective(context.Background(), inst)
		if err != nil {
			res = nil
		}
	})
	return
}

type emitter struct {
	c     *hx.Ctx
	total int
	keepP float64
}

// emit decides (seeded) whether this enumerated point becomes a Coq case; the
// oracle has already been applied to every point.
func (e *emitter) emit(term string, desc any, class string, nontrivial bool, key string) {
	e.c.Class(class)
	if e.c.Tier == "thorough" || e.c.Rng.Float64() < e.keepP {
		e.c.Case(term, desc)
		if nontrivial {
			e.c.Nontrivial(key)
		}
	} else {
		e.c.Eval()
	}
}

func strList(l []string) string {
	it := make([]string, len(l))
	for i := range l {
		it[i] = hx.Str(l[i])
	}
	return hx.List(it)
}

func idList(l []peer.ID) string {
	it := make([]string, len(l))
	for i := range l {
		it[i] = hx.Str(string(l[i]))
	}
	return hx.List(it)
}

func idStrs(l []peer.ID) []string {
	o := make([]string, len(l))
	for i := range l {
		o[i] = l[i].String()
	}
	return o
}

func c34(c *hx.Ctx) {
	c.Type = "c34_case"
	c.Agree = "c34_agree"
	c.Rule = "EVERY field of every controller configuration varied (incl. relay target peer/protocol, forwarding target, srpc disableEstablishLink, pubsub peer, solicit max hashes); every (configuration, stream) over protocols {\"\",p/a,p/b,p/ab,defaults,solicit forms} x peers {\"\",P1,P2,P3} for each of the 7 controllers, real HandleDirective with a real HandleMountedStream directive; all points go through the direct oracle, a seeded sample (all in thorough) becomes Coq cases; non-trivial = the handler offered a resolver"
	le := fk.Logger()
	P := []peer.ID{"", fk.PeerID("p1"), fk.PeerID("p2"), fk.PeerID("p3")}
	protos := []string{"", "p/a", "p/b", "p/ab"}
	e := &emitter{c: c, keepP: float64(c.N) / 11000.0}

	var streams []strm
	for _, p := range append(append([]string{}, protos...), "bifrost/echo") {
		for _, l := range P {
			for _, r := range P {
				streams = append(streams, strm{p, l, r})
			}
		}
	}
	pstr := func(id peer.ID) string {
		if id == "" {
			return ""
		}
		return id.String()
	}

	// ---- echo ----
	for _, cp := range []string{"", "p/a", "p/b", "bifrost/echo"} {
		for _, cl := range P[:3] {
			ctrl, err := stream_echo.NewController(le, nil, &stream_echo.Config{PeerId: pstr(cl), ProtocolId: cp})
			if err != nil {
				panic(err)
			}
			eff := cp
			if eff == "" {
				eff = string(stream_echo.DefaultProtocolID)
			}
			for _, s := range streams {
				if s.remote != "" && s.remote != P[1] {
					continue
				}
				res, pn := offer(ctrl, s)
				got := len(res) != 0
				desc := map[string]any{"handler": "echo", "cfg_proto": cp, "cfg_local": cl.String(), "stream": s.desc(), "offered": got, "panic": pn}
				want := s.proto == eff && (cl == "" || s.local == cl)
				check(c, "echo", desc, got, want, pn)
				e.emit(hx.App("HEcho", hx.App("EchoCfg", hx.Str(cp), hx.Str(string(cl))), s.term(), hx.Bool(got)), desc, "echo", got, fmt.Sprint("echo", cp, cl, s))
			}
		}
	}
	// ---- forwarding ----
	for _, cp := range protos {
		for _, cl := range P[:3] {
			for _, tm := range []string{"/ip4/127.0.0.1/tcp/8080", "/ip4/10.0.0.1/udp/53"} {
				ctrl, err := stream_forwarding.NewController(le, nil, &stream_forwarding.Config{PeerId: pstr(cl), ProtocolId: cp, TargetMultiaddr: tm})
				if err != nil {
					panic(err)
				}
				for _, s := range streams {
					if s.remote != "" && s.remote != P[1] {
						continue
					}
					res, pn := offer(ctrl, s)
					got := len(res) != 0
					desc := map[string]any{"handler": "forwarding", "cfg_proto": cp, "cfg_local": cl.String(), "cfg_target_multiaddr": tm, "stream": s.desc(), "offered": got, "panic": pn}
					want := (cp == "" || s.proto == cp) && (cl == "" || s.local == cl)
					check(c, "forwarding", desc, got, want, pn)
					e.emit(hx.App("HFwd", hx.App("FwdCfg", hx.Str(cp), hx.Str(string(cl)), hx.Str(tm)), s.term(), hx.Bool(got)), desc, "forwarding", got, fmt.Sprint("fwd", cp, cl, tm, s))
				}
			}
		}
	}
	// ---- relay ----
	for _, cp := range protos {
		for _, cs := range P[:3] {
			for _, tp := range []peer.ID{P[2], P[3], P[1]} {
				for _, tpr := range protos {
					ctrl, err := stream_relay.NewController(le, nil, &stream_relay.Config{PeerId: pstr(cs), ProtocolId: cp, TargetPeerId: tp.String(), TargetProtocolId: tpr})
					if err != nil {
						// empty protocol or peer id: the controller cannot be built
						c.Class("relay-ctor-rejects")
						if cp != "" && cs != "" {
							c.Failf("relay-ctor", map[string]any{"cfg_proto": cp, "cfg_src": cs.String()}, "relay constructor rejected a complete configuration: %v", err)
						}
						continue
					}
					for _, s := range streams {
						if s.remote != "" && s.remote != P[1] {
							continue
						}
						res, pn := offer(ctrl, s)
						got := len(res) != 0
						desc := map[string]any{"handler": "relay", "cfg_proto": cp, "cfg_src": cs.String(), "cfg_target_peer": tp.String(), "cfg_target_proto": tpr, "stream": s.desc(), "offered": got, "panic": pn}
						// the relay serves its configured LISTEN protocol and source peer, whatever it dials out with
						want := s.proto == cp && s.local == cs
						check(c, "relay", desc, got, want, pn)
						e.emit(hx.App("HRelay", hx.App("RelayCfg", hx.Str(cp), hx.Str(string(cs)), hx.Str(string(tp)), hx.Str(tpr)), s.term(), hx.Bool(got)), desc, "relay", got, fmt.Sprint("relay", cp, cs, tp, tpr, s))
					}
				}
			}
		}
	}
	// ---- api accept ----
	remoteSets := [][]peer.ID{nil, {P[1]}, {P[2], P[3]}, {P[1], P[1]}}
	for _, cp := range protos {
		for _, cl := range P[:3] {
			for _, cr := range remoteSets {
				ctrl, err := stream_api_accept.NewController(le, &stream_api_accept.Config{LocalPeerId: pstr(cl), RemotePeerIds: idStrs(cr), ProtocolId: cp}, nil)
				if err != nil {
					c.Class("accept-ctor-rejects")
					if cp != "" {
						c.Failf("accept-ctor", map[string]any{"cfg_proto": cp}, "accept constructor rejected a complete configuration: %v", err)
					}
					continue
				}
				for _, s := range streams {
					if s.proto == "bifrost/echo" {
						continue
					}
					res, pn := offer(ctrl, s)
					got := len(res) != 0
					desc := map[string]any{"handler": "accept", "cfg_proto": cp, "cfg_local": cl.String(), "cfg_remotes": idStrs(cr), "stream": s.desc(), "offered": got, "panic": pn}
					want := s.proto == cp && (cl == "" || s.local == cl) && (len(cr) == 0 || slices.Contains(cr, s.remote))
					check(c, "accept", desc, got, want, pn)
					e.emit(hx.App("HAccept", hx.App("AcceptCfg", hx.Str(cp), hx.Str(string(cl)), idList(cr)), s.term(), hx.Bool(got)), desc, "accept", got, fmt.Sprint("accept", cp, cl, cr, s))
				}
			}
		}
	}
	// ---- api accept from RAW configuration strings: blank / padded / invalid / duplicate entries ----
	{
		p1, p2, p3 := P[1].String(), P[2].String(), P[3].String()
		rawLists := [][]string{nil, {""}, {"", ""}, {" "}, {"\t"}, {"", p1}, {p1, ""}, {" ", p2, " "}, {p1, p1}, {"zzz"}, {p1, "zzz"}, {" " + p1}, {p1 + " "}, {p1}, {p2, p3}, {"\u00a0" + p1}}
		rawLocals := []string{"", p1, " " + p1, " "}
		for _, rl := range rawLists {
			for _, ll := range rawLocals {
				ctrl, cerr := stream_api_accept.NewController(le, &stream_api_accept.Config{LocalPeerId: ll, RemotePeerIds: rl, ProtocolId: "p/a"}, nil)
				verr := (&stream_api_accept.Config{LocalPeerId: ll, RemotePeerIds: rl, ProtocolId: "p/a"}).Validate()
				var tbl []string
				seen := map[string]bool{}
				for _, x := range rl {
					if seen[x] {
						continue
					}
					seen[x] = true
					if id, derr := peer.IDB58Decode(x); derr != nil {
						tbl = append(tbl, "("+hx.Str(x)+", None)")
					} else {
						tbl = append(tbl, "("+hx.Str(x)+", Some "+hx.Str(string(id))+")")
					}
				}
				localID, lerr := peer.IDB58Decode(ll)
				for _, sp := range []string{"p/a", "p/b"} {
					for _, l := range P[:3] {
						for _, r := range P {
							s := strm{sp, l, r}
							obs := 2
							if cerr == nil {
								res, pn := offer(ctrl, s)
								obs = 0
								if len(res) != 0 {
									obs = 1
								}
								if pn {
									obs = 3
								}
							}
							desc := map[string]any{"handler": "accept-raw-config", "cfg_local": ll, "cfg_remote_peer_ids": rl, "stream": s.desc(), "constructor_error": fmt.Sprint(cerr), "validate_error": fmt.Sprint(verr), "outcome": obs}
							// property: a config that NAMES remote peers serves only those peers
							if obs == 1 && len(rl) != 0 {
								listed := false
								for _, x := range rl {
									if id, derr := peer.IDB58Decode(strings.TrimSpace(x)); derr == nil && id == r {
										listed = true
									}
								}
								if !listed {
									c.Failf("accept-takes-unlisted-remote", desc, "remote_peer_ids %q names peers, yet a stream from unlisted remote peer %s was offered", rl, r.String())
								}
							}
							if obs == 1 && ll != "" {
								if id, derr := peer.IDB58Decode(strings.TrimSpace(ll)); derr != nil || id != l {
									c.Failf("accept-takes-foreign-local", desc, "local_peer_id %q is configured, yet a stream for local peer %s was offered", ll, l.String())
								}
							}
							if obs == 3 {
								c.Failf("accept-panic", desc, "HandleDirective panicked")
							}
							if (cerr == nil) != (verr == nil) {
								c.Class("accept-validate-vs-constructor-differ")
							}
							// Coq case only when the local id is one the model can be given as bytes
							if ll == "" || lerr == nil {
								e.emit(hx.App("HAcceptRaw", hx.Str("p/a"), hx.Str(string(localID)), strList(rl), hx.List(tbl), s.term(), hx.Nat(obs)), desc, "accept-raw", obs == 1, fmt.Sprint("acceptraw", rl, ll, s))
							} else {
								c.Class("accept-raw-bad-local")
								if cerr == nil {
									c.Failf("accept-ctor-accepts-bad-local", desc, "constructor accepted local_peer_id %q", ll)
								}
							}
						}
					}
				}
			}
		}
	}
	// ---- padded / blank / invalid peer-id strings in the other controllers' configs ----
	for _, bad := range []string{" " + P[1].String(), P[1].String() + " ", "zzz", " ", "\t"} {
		type ctor func() (hdl, error)
		for name, mk := range map[string]ctor{
			"echo": func() (hdl, error) {
				return stream_echo.NewController(le, nil, &stream_echo.Config{PeerId: bad, ProtocolId: "p/a"})
			},
			"forwarding": func() (hdl, error) {
				return stream_forwarding.NewController(le, nil, &stream_forwarding.Config{PeerId: bad, ProtocolId: "p/a", TargetMultiaddr: "/ip4/127.0.0.1/tcp/8080"})
			},
			"relay": func() (hdl, error) {
				return stream_relay.NewController(le, nil, &stream_relay.Config{PeerId: bad, ProtocolId: "p/a", TargetPeerId: P[3].String()})
			},
		} {
			h, err := mk()
			c.Eval()
			if err != nil {
				c.Class(name + "-ctor-rejects")
				continue
			}
			want, derr := peer.IDB58Decode(strings.TrimSpace(bad))
			for _, s := range streams {
				res, _ := offer(h, s)
				if len(res) != 0 && (derr != nil || s.local != want) {
					c.Failf(name+"-padded-peer-id", map[string]any{"handler": name, "cfg_peer_id": bad, "stream": s.desc()}, "peer_id %q was accepted by the constructor and the handler offered a stream for local peer %s", bad, s.local.String())
				}
			}
		}
	}
	// ---- srpc server ----
	info := controller.NewInfo("verif/srpc", semver.MustParse("0.0.1"), "verif")
	protoSets := [][]string{nil, {"p/a"}, {"p/a", "p/b"}, {""}, {"p/ab", "p/ab"}}
	peerStrSets := [][]string{nil, {P[1].String()}, {P[1].String(), P[2].String()}, {""}, {"not-a-peer-id"}, {P[2].String(), P[2].String()}, {" " + P[1].String()}, {"", P[1].String()}, {" "}}
	for _, cps := range protoSets {
		ids := make([]protocol.ID, len(cps))
		for i := range cps {
			ids[i] = protocol.ID(cps[i])
		}
		for _, strs := range peerStrSets {
			for _, del := range []bool{true, false} {
				srv, err := stream_srpc_server.NewServer(nil, le, info, nil, ids, strs, del)
				if err != nil {
					panic(err)
				}
				for _, s := range streams {
					if s.proto == "bifrost/echo" || (s.remote != "" && s.remote != P[1]) {
						continue
					}
					res, pn := offer(srv, s)
					got := len(res) != 0
					lstr := s.local.String()
					desc := map[string]any{"handler": "srpc-server", "cfg_protos": cps, "cfg_peers": strs, "cfg_disable_establish_link": del, "stream": s.desc(), "offered": got, "panic": pn}
					want := slices.Contains(cps, s.proto) && (len(strs) == 0 || slices.Contains(strs, lstr))
					check(c, "srpc", desc, got, want, pn)
					e.emit(hx.App("HSrpc", hx.App("SrpcCfg", strList(cps), strList(strs), hx.Bool(del)), s.term(), hx.Str(lstr), hx.Bool(got)), desc, "srpc-server", got, fmt.Sprint("srpc", cps, strs, del, s))
				}
			}
		}
	}
	// ---- pubsub ----
	for _, cp := range protos {
		for _, cpeer := range []peer.ID{"", P[1], P[2]} {
			ctrl := pubsub_controller.NewController(le, nil, info, cpeer, protocol.ID(cp), nil)
			for _, s := range streams {
				if s.remote != "" && s.remote != P[1] {
					continue
				}
				res, pn := offer(ctrl, s)
				got := len(res) != 0
				desc := map[string]any{"handler": "pubsub", "cfg_proto": cp, "cfg_peer": cpeer.String(), "stream": s.desc(), "offered": got, "panic": pn}
				want := s.proto == cp
				check(c, "pubsub", desc, got, want, pn)
				e.emit(hx.App("HPubsub", hx.App("PubsubCfg", hx.Str(string(cpeer)), hx.Str(cp)), s.term(), hx.Bool(got)), desc, "pubsub", got, fmt.Sprint("pubsub", cpeer, cp, s))
			}
		}
	}
	// ---- solicit ----
	for _, maxHashes := range []uint32{0, 1, 64} {
		sc, err := link_solicit_controller.NewController(le, &link_solicit_controller.Config{MaxHashes: maxHashes})
		if err != nil {
			panic(err)
		}
		ctl := string(link_solicit_controller.ControlProtocolID)
		pre := link_solicit_controller.SolicitStreamPrefix
		sprotos := []string{"", "p/a", ctl, ctl + "x", ctl[:len(ctl)-1], pre, pre + "abcd", pre + "00ff", pre[:len(pre)-1], "x" + pre + "ab", pre + pre, strings.ToUpper(pre) + "ab", pre + "\xff\x00"}
		for _, sp := range sprotos {
			for _, l := range P[:2] {
				for _, r := range P[:2] {
					s := strm{sp, l, r}
					res, pn := offer(sc, s)
					kind, hash := 0, ""
					if pn {
						kind = 3
					} else if len(res) != 0 {
						rh := &fk.RH{}
						for _, rr := range res {
							_ = rr.Resolve(context.Background(), rh)
						}
						for _, v := range rh.Vals {
							tn := fmt.Sprintf("%T", v)
							switch {
							case strings.Contains(tn, "controlStreamMountedHandler"):
								kind = 1
							case strings.Contains(tn, "solicitedStreamMountedHandler"):
								kind = 2
								hash = reflect.ValueOf(v).Elem().FieldByName("hashHex").String()
							default:
								kind = 9
							}
						}
						if len(rh.Vals) != 1 {
							kind = 9
						}
					}
					desc := map[string]any{"handler": "solicit", "cfg_max_hashes": maxHashes, "stream": s.desc(), "kind": kind, "hash": hash}
					wantKind, wantHash := 0, ""
					if sp == ctl {
						wantKind = 1
					} else if strings.HasPrefix(sp, pre) {
						wantKind, wantHash = 2, strings.TrimPrefix(sp, pre)
					}
					if kind != wantKind || hash != wantHash {
						c.Failf("solicit-dispatch", desc, "solicit controller answered kind %d hash %q, the protocol id requires kind %d hash %q", kind, hash, wantKind, wantHash)
					}
					e.emit(hx.App("HSolicit", hx.App("SolicitCfg", hx.U(uint64(maxHashes))), s.term(), hx.Nat(kind), hx.Str(hash)), desc, "solicit", kind != 0, fmt.Sprint("solicit", maxHashes, s))
				}
			}
		}
	}
}

// check is the direct oracle: offered exactly when the configuration admits the stream.
func check(c *hx.Ctx, h string, desc any, got, want, panicked bool) {
	switch {
	case panicked:
		c.Failf(h+"-panic", desc, "HandleDirective panicked")
	case got && !want:
		c.Failf(h+"-takes-foreign-stream", desc, "handler offered to handle a stream its configuration does not cover")
	case !got && want:
		c.Failf(h+"-declines-own-stream", desc, "handler declined a stream its configuration covers")
	}
}
