// Package fk holds the fakes shared by the handlers/rpc/dirs harnesses: a
// directive.Instance that only carries a directive and a ResolverHandler that
// records the values a resolver emits.
package fk

import (
	"context"
	"crypto/sha256"
	"io"
	"sync"

	"github.com/aperturerobotics/bifrost/crypto"
	"github.com/aperturerobotics/bifrost/peer"
	"github.com/aperturerobotics/controllerbus/directive"
	"github.com/sirupsen/logrus"
)

// Inst is a fake directive.Instance.
type Inst struct {
	Ctx context.Context
	Dir directive.Directive

	Mtx      sync.Mutex
	IdleCbs  []directive.IdleCallback
	Refs     []directive.ReferenceHandler
	Disposes []func()
}

// NewInst builds a fake instance around dir.
func NewInst(dir directive.Directive) *Inst {
	return &Inst{Ctx: context.Background(), Dir: dir}
}

func (i *Inst) GetContext() context.Context       { return i.Ctx }
func (i *Inst) GetDirective() directive.Directive { return i.Dir }
func (i *Inst) GetDirectiveIdent() string         { return i.Dir.GetName() }
func (i *Inst) GetResolverErrors() []error        { return nil }
func (i *Inst) AddReference(cb directive.ReferenceHandler, weakRef bool) directive.Reference {
	i.Mtx.Lock()
	i.Refs = append(i.Refs, cb)
	i.Mtx.Unlock()
	return &Ref{}
}
func (i *Inst) AddDisposeCallback(cb func()) func() {
	i.Mtx.Lock()
	i.Disposes = append(i.Disposes, cb)
	i.Mtx.Unlock()
	return func() {}
}
func (i *Inst) AddIdleCallback(cb directive.IdleCallback) func() {
	i.Mtx.Lock()
	i.IdleCbs = append(i.IdleCbs, cb)
	i.Mtx.Unlock()
	return func() {}
}
func (i *Inst) AddStateCallback(cb directive.StateCallback) func() { return func() {} }
func (i *Inst) CloseIfUnreferenced(inclWeakRefs bool) bool         { return false }
func (i *Inst) Close()                                             {}

var _ directive.Instance = (*Inst)(nil)

// Ref is a fake reference.
type Ref struct{ Released bool }

func (r *Ref) Release() { r.Released = true }

// RH is a fake directive.ResolverHandler recording values.
type RH struct {
	Mtx    sync.Mutex
	Vals   []directive.Value
	Idle   bool
	IdleCh chan struct{} // if non-nil, receives one token per MarkIdle(true)
	nextID uint32
}

func (h *RH) AddValue(v directive.Value) (uint32, bool) {
	h.Mtx.Lock()
	defer h.Mtx.Unlock()
	h.nextID++
	h.Vals = append(h.Vals, v)
	return h.nextID, true
}
func (h *RH) RemoveValue(id uint32) (directive.Value, bool) { return nil, false }
func (h *RH) CountValues(allResolvers bool) int {
	h.Mtx.Lock()
	defer h.Mtx.Unlock()
	return len(h.Vals)
}
func (h *RH) ClearValues() []uint32 { return nil }
func (h *RH) MarkIdle(idle bool) {
	h.Mtx.Lock()
	h.Idle = idle
	ch := h.IdleCh
	h.Mtx.Unlock()
	if idle && ch != nil {
		select {
		case ch <- struct{}{}:
		default:
		}
	}
}
func (h *RH) AddValueRemovedCallback(id uint32, cb func()) func()  { return func() {} }
func (h *RH) AddResolverRemovedCallback(cb func()) func()          { return func() {} }
func (h *RH) AddResolver(res directive.Resolver, cb func()) func() { return func() {} }

var _ directive.ResolverHandler = (*RH)(nil)

// Logger returns a silent logger.
func Logger() *logrus.Entry {
	l := logrus.New()
	l.SetOutput(io.Discard)
	l.SetLevel(logrus.PanicLevel)
	return logrus.NewEntry(l)
}

type detReader struct {
	seed []byte
	ctr  byte
	buf  []byte
}

func (r *detReader) Read(p []byte) (int, error) {
	for i := range p {
		if len(r.buf) == 0 {
			h := sha256.Sum256(append(append([]byte{}, r.seed...), r.ctr))
			r.ctr++
			r.buf = h[:]
		}
		p[i] = r.buf[0]
		r.buf = r.buf[1:]
	}
	return len(p), nil
}

// PeerID returns a deterministic well-formed ed25519 peer id for a label.
func PeerID(label string) peer.ID {
	priv, _, err := crypto.GenerateEd25519Key(&detReader{seed: []byte(label)})
	if err != nil {
		panic(err)
	}
	id, err := peer.IDFromPrivateKey(priv)
	if err != nil {
		panic(err)
	}
	return id
}
