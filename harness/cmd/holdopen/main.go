// Harness for link/hold-open (C33): drives the real controller's
// establishLinkHandler through HandleDirective with a fake directive.Instance
// that counts strong references, and emits correspondence cases for
// HoldOpen/Run.v.
package main

import (
	"context"
	"fmt"
	"io"
	"os"
	"runtime"
	"runtime/debug"
	"strings"
	"sync"
	"sync/atomic"
	"time"

	"github.com/aperturerobotics/bifrost/link"
	link_holdopen_controller "github.com/aperturerobotics/bifrost/link/hold-open"
	"github.com/aperturerobotics/bifrost/peer"
	"github.com/aperturerobotics/bifrost/protocol"
	"github.com/aperturerobotics/bifrost/stream"
	"github.com/aperturerobotics/controllerbus/directive"
	"github.com/sirupsen/logrus"
	"verifharness/internal/hx"
)

func main() {
	// a hang must not look like a slow run: dump the goroutines and fail
	time.AfterFunc(10*time.Minute, func() {
		buf := make([]byte, 1<<20)
		os.Stderr.Write(buf[:runtime.Stack(buf, true)])
		os.Exit(3)
	})
	hx.Main(run)
}

func run(c *hx.Ctx) {
	c.Imports = "HoldOpen.Model HoldOpen.Run"
	switch c.Prop {
	case "C33":
		c33(c)
	default:
		panic("unknown property " + c.Prop)
	}
}

// ---- fakes ----

// fakeRef is a reference handed out by the fake instance.
type fakeRef struct {
	inst     *fakeInst
	weak     bool
	released atomic.Int32
}

func (r *fakeRef) Release() {
	n := r.released.Add(1)
	if r.weak {
		r.inst.weakReleased.Add(1)
		return
	}
	if n > 1 {
		r.inst.doubleRelease.Add(1)
		return
	}
	if !r.inst.inYield.Load() {
		r.inst.perturbed.Store(true)
	}
	r.inst.strongReleased.Add(1)
}

// fakeInst implements directive.Instance; it captures the reference handler
// and counts non-weak AddReference / Release calls.
type fakeInst struct {
	dir directive.Directive
	ctx context.Context

	mtx            sync.Mutex
	handler        directive.ReferenceHandler
	strongAcquired atomic.Int32
	strongReleased atomic.Int32
	weakReleased   atomic.Int32
	doubleRelease  atomic.Int32
	acqDisposed    atomic.Int32 // strong references taken after the instance was disposed
	disposedFlag   atomic.Bool
	inYield        atomic.Bool
	perturbed      atomic.Bool
	sequential     bool

	// gate: while gated, every non-weak AddReference call blocks until the
	// script releases it (the call is "in flight" inside the directive instance)
	// fault injection: the next nilNext non-weak AddReference calls return nil
	nilNext     atomic.Int32
	nilReturned atomic.Int32

	gated     atomic.Bool
	gmtx      sync.Mutex
	waiting   []chan struct{}
	inFlight  atomic.Int32
	maxFlight atomic.Int32
}

// releaseOne lets the oldest in-flight AddReference call return.
func (f *fakeInst) releaseOne() bool {
	f.gmtx.Lock()
	defer f.gmtx.Unlock()
	if len(f.waiting) == 0 {
		return false
	}
	close(f.waiting[0])
	f.waiting = f.waiting[1:]
	return true
}

func (f *fakeInst) GetContext() context.Context       { return f.ctx }
func (f *fakeInst) GetDirective() directive.Directive { return f.dir }
func (f *fakeInst) GetDirectiveIdent() string         { return "EstablishLinkWithPeer" }
func (f *fakeInst) GetResolverErrors() []error        { return nil }
func (f *fakeInst) AddReference(cb directive.ReferenceHandler, weak bool) directive.Reference {
	r := &fakeRef{inst: f, weak: weak}
	if weak {
		f.mtx.Lock()
		if cb != nil {
			f.handler = cb
		}
		f.mtx.Unlock()
		return r
	}
	if f.sequential && !f.inYield.Load() {
		f.perturbed.Store(true)
	}
	f.gmtx.Lock()
	if f.gated.Load() {
		// decided and registered under gmtx: opening the gate cannot miss a call
		ch := make(chan struct{})
		f.waiting = append(f.waiting, ch)
		if n := f.inFlight.Add(1); n > f.maxFlight.Load() {
			f.maxFlight.Store(n)
		}
		f.gmtx.Unlock()
		<-ch
		f.inFlight.Add(-1)
	} else {
		f.gmtx.Unlock()
	}
	if f.nilNext.Load() > 0 {
		f.nilNext.Add(-1)
		f.nilReturned.Add(1)
		return nil
	}
	if f.disposedFlag.Load() {
		f.acqDisposed.Add(1)
	}
	f.strongAcquired.Add(1)
	return r
}
func (f *fakeInst) AddDisposeCallback(cb func()) func()                { return func() {} }
func (f *fakeInst) AddIdleCallback(cb directive.IdleCallback) func()   { return func() {} }
func (f *fakeInst) AddStateCallback(cb directive.StateCallback) func() { return func() {} }
func (f *fakeInst) CloseIfUnreferenced(inclWeakRefs bool) bool         { return false }
func (f *fakeInst) Close()                                             {}

var _ directive.Instance = (*fakeInst)(nil)

// fakeLink implements link.MountedLink.
type fakeLink struct {
	uuid          uint64
	local, remote peer.ID
}

func (l *fakeLink) GetLinkUUID() uint64            { return l.uuid }
func (l *fakeLink) GetTransportUUID() uint64       { return 7 }
func (l *fakeLink) GetRemoteTransportUUID() uint64 { return 8 }
func (l *fakeLink) GetLocalPeer() peer.ID          { return l.local }
func (l *fakeLink) GetRemotePeer() peer.ID         { return l.remote }
func (l *fakeLink) OpenMountedStream(ctx context.Context, pid protocol.ID, opts stream.OpenOpts) (link.MountedStream, error) {
	return nil, io.ErrClosedPipe
}

var _ link.MountedLink = (*fakeLink)(nil)

// ---- actions ----

const (
	aAdded = iota
	aRemoved
	aAddedOther
	aRemovedOther
	aDisposed
	aYield
	aMark
	aSetNil
)

type act struct {
	kind int
	id   int
}

func (a act) String() string {
	switch a.kind {
	case aAdded:
		return fmt.Sprintf("Added(%d)", a.id)
	case aRemoved:
		return fmt.Sprintf("Removed(%d)", a.id)
	case aAddedOther:
		return "AddedOther"
	case aRemovedOther:
		return "RemovedOther"
	case aDisposed:
		return "Disposed"
	case aMark:
		return "|gate|"
	case aSetNil:
		return fmt.Sprintf("NextAddReferenceReturnsNil(%d)", a.id)
	}
	return "Yield"
}

func (a act) coq() string {
	switch a.kind {
	case aAdded:
		return fmt.Sprintf("Do (Added %d)", a.id)
	case aRemoved:
		return fmt.Sprintf("Do (Removed %d)", a.id)
	case aAddedOther:
		return "Do AddedOther"
	case aRemovedOther:
		return "Do RemovedOther"
	case aDisposed:
		return "Do Disposed"
	case aMark:
		return "Mark"
	case aSetNil:
		return fmt.Sprintf("Do (SetNil %d)", a.id)
	}
	return "Yield"
}

type env struct {
	inst *fakeInst
	h    directive.ReferenceHandler
	vals map[int]directive.AttachedValue
	ctrl *link_holdopen_controller.Controller
}

var le = func() *logrus.Entry {
	l := logrus.New()
	l.SetOutput(io.Discard)
	l.SetLevel(logrus.WarnLevel)
	return logrus.NewEntry(l)
}()

// equalUUID: every fake link reports the SAME link UUID (link UUIDs are only
// host-unique per transport and repeatable between re-constructions, so two
// attached values of one EstablishLinkWithPeer instance may share one); the
// directive values stay distinct. The handler must count values, not UUIDs.
var equalUUID bool

func uuidNote() string {
	if equalUUID {
		return "all links report the same link UUID"
	}
	return "distinct"
}

func newEnv(sequential bool) *env {
	ctrl, err := link_holdopen_controller.NewController(nil, le)
	if err != nil {
		panic(err)
	}
	inst := &fakeInst{dir: link.NewEstablishLinkWithPeer("", peer.ID("target-peer")), ctx: context.Background(), sequential: sequential}
	if _, err := ctrl.HandleDirective(context.Background(), inst); err != nil {
		panic(err)
	}
	if inst.handler == nil {
		panic("hold-open controller did not add a reference handler")
	}
	e := &env{inst: inst, h: inst.handler, vals: map[int]directive.AttachedValue{}, ctrl: ctrl}
	for i := 0; i < 8; i++ {
		e.vals[i] = directive.NewAttachedValue(uint32(i+1), link.MountedLink(&fakeLink{uuid: linkUUID(i), local: "local-peer", remote: "target-peer"}))
	}
	return e
}

func linkUUID(i int) uint64 {
	if equalUUID {
		return 100
	}
	return uint64(100 + i)
}

type notALink struct{ x int }

// yield lets every spawned goroutine finish (GOMAXPROCS(1): they only run here).
func (e *env) yield(base int) bool {
	e.inst.inYield.Store(true)
	defer e.inst.inYield.Store(false)
	for i := 0; i < 100000; i++ {
		if runtime.NumGoroutine() <= base {
			return true
		}
		runtime.Gosched()
	}
	return false
}

func (e *env) apply(a act, base int) {
	switch a.kind {
	case aAdded:
		e.h.HandleValueAdded(e.inst, e.vals[a.id])
	case aRemoved:
		e.h.HandleValueRemoved(e.inst, e.vals[a.id])
	case aAddedOther:
		e.h.HandleValueAdded(e.inst, directive.NewAttachedValue(99, &notALink{1}))
	case aRemovedOther:
		e.h.HandleValueRemoved(e.inst, directive.NewAttachedValue(99, &notALink{1}))
	case aSetNil:
		e.inst.nilNext.Store(int32(a.id))
	case aDisposed:
		e.inst.disposedFlag.Store(true)
		e.h.HandleInstanceDisposed(e.inst)
	case aYield:
		if !e.yield(base) {
			panic("hold-open goroutines did not finish")
		}
	}
}

// runSeq runs one action list sequentially and returns the (acquired, released)
// pair after each action. ok=false if the scheduler ran a goroutine outside a Yield.
func runSeq(acts []act) (obs [][2]int, e *env, ok bool) {
	base := runtime.NumGoroutine()
	e = newEnv(true)
	for _, a := range acts {
		e.apply(a, base)
		obs = append(obs, [2]int{int(e.inst.strongAcquired.Load()), int(e.inst.strongReleased.Load())})
	}
	return obs, e, !e.inst.perturbed.Load()
}

// valid reports whether the list is something a directive instance can produce,
// and whether it only contains MountedLink values.
func classify(acts []act) (envValid bool, linkOnly bool) {
	present := map[int]bool{}
	others := 0
	envValid, linkOnly = true, true
	for _, a := range acts {
		switch a.kind {
		case aAdded:
			if present[a.id] {
				envValid = false
			}
			present[a.id] = true
		case aRemoved:
			if !present[a.id] {
				envValid = false
			}
			delete(present, a.id)
		case aAddedOther:
			linkOnly = false
			others++
		case aRemovedOther:
			linkOnly = false
			if others == 0 {
				envValid = false
			} else {
				others--
			}
		}
	}
	return
}

func emit(c *hx.Ctx, acts []act, class string) {
	// every case ends quiescent
	if len(acts) == 0 || acts[len(acts)-1].kind != aYield {
		acts = append(append([]act{}, acts...), act{kind: aYield})
	}
	var obs [][2]int
	var e *env
	ok := false
	for try := 0; try < 6 && !ok; try++ {
		obs, e, ok = runSeq(acts)
	}
	names := make([]string, len(acts))
	terms := make([]string, len(acts))
	for i, a := range acts {
		names[i] = a.String()
		terms[i] = a.coq()
	}
	acqT := make([]string, len(obs))
	relT := make([]string, len(obs))
	for i, o := range obs {
		acqT[i] = fmt.Sprint(o[0])
		relT[i] = fmt.Sprint(o[1])
	}
	desc := map[string]any{"actions": strings.Join(names, "; "), "acquired_released": fmt.Sprint(obs), "class": class, "link_uuids": uuidNote()}
	if !ok {
		// the Go scheduler did not follow the action list; nothing to compare
		c.Class("unschedulable")
		return
	}
	c.Case(hx.App("HO", hx.List(terms), hx.List(acqT), hx.List(relT))+"%nat", desc)
	c.Class(class)
	envValid, linkOnly := classify(acts)
	// direct oracle, on histories the property quantifies over
	if envValid && linkOnly {
		present := map[int]bool{}
		disposed := false
		for i, a := range acts {
			switch a.kind {
			case aAdded:
				present[a.id] = true
			case aRemoved:
				delete(present, a.id)
			case aDisposed:
				disposed = true
			case aYield:
				live := obs[i][0] - obs[i][1]
				want := 0
				if len(present) > 0 && !disposed {
					want = 1
				}
				// a nil reference (fault injection) may leave the request unheld; never over-held
				if live != want && !(live < want && e.inst.nilReturned.Load() > 0) {
					key := "strong-ref-without-links"
					if live < want {
						key = "no-strong-ref-while-links-exist"
					} else if len(present) > 0 && !disposed {
						key = "more-than-one-strong-ref"
					}
					c.Failf(key, desc, "after action %d (%s), at quiescence: %d strong reference(s) outstanding with %d link(s) attached (disposed=%v); required %d",
						i, a.String(), live, len(present), disposed, want)
					return
				}
			}
		}
		if obs[len(obs)-1][0] > 0 {
			c.Nontrivial(strings.Join(names, ";"))
		}
	}
	if e.inst.doubleRelease.Load() != 0 {
		c.Failf("double-release", desc, "a strong reference was released %d extra time(s)", e.inst.doubleRelease.Load())
	}
	if e.inst.acqDisposed.Load() != 0 && envValid && linkOnly {
		c.Failf("acquire-after-dispose", desc, "AddReference(nil,false) was called %d time(s) after HandleInstanceDisposed", e.inst.acqDisposed.Load())
	}
}

// ---- gated scripts: AddReference calls held in flight ----

// gatedScript: pre callbacks are delivered with the gate closed, then the
// spawned acquisitions run until each is finished, blocked inside AddReference
// or blocked on the handler mutex (Begin); win callbacks are then delivered one
// after the other by a separate goroutine standing for the directive instance
// (on the current code they wait for the mutex held by the acquisition in
// flight); the gate is opened call by call; post callbacks follow at quiescence.
type gatedScript struct {
	pre, win, post []act
}

// settle yields until every goroutine besides the driver is finished, in flight
// inside AddReference, or (bounded number of yields) blocked.
func (e *env) settle(base int, helper *atomic.Bool) {
	e.inst.inYield.Store(true)
	defer e.inst.inYield.Store(false)
	for i := 0; i < 400; i++ {
		runtime.Gosched()
		extra := int(e.inst.inFlight.Load())
		if helper != nil && helper.Load() {
			// the helper may be runnable or blocked on the handler mutex: keep yielding a while
			if i < 40 {
				continue
			}
			extra++
		}
		if runtime.NumGoroutine()-extra <= base {
			return
		}
	}
}

func runGated(g gatedScript) (lives []int, e *env, maxFlight int, deadlock bool, ok bool) {
	base := runtime.NumGoroutine()
	e = newEnv(true)
	e.inst.gated.Store(true)
	for _, a := range g.pre {
		e.apply(a, base)
	}
	e.settle(base, nil) // Begin
	var alive atomic.Bool
	alive.Store(true)
	done := make(chan struct{})
	go func() {
		for _, a := range g.win {
			e.apply(a, base)
			runtime.Gosched()
		}
		alive.Store(false)
		close(done)
	}()
	e.settle(base, &alive)
	// open the gate, oldest call first
	e.inst.gmtx.Lock()
	e.inst.gated.Store(false)
	e.inst.gmtx.Unlock()
	for e.inst.releaseOne() {
		e.settle(base, &alive)
	}
	for i := 0; i < 2000 && alive.Load(); i++ {
		e.settle(base, &alive)
		e.inst.releaseOne()
	}
	if alive.Load() {
		return nil, e, int(e.inst.maxFlight.Load()), true, true
	}
	<-done
	rec := func() {
		if !e.yield(base) {
			deadlock = true
		}
		lives = append(lives, int(e.inst.strongAcquired.Load()-e.inst.strongReleased.Load()))
	}
	rec()
	for _, a := range g.post {
		if a.kind == aYield {
			rec()
		} else {
			e.apply(a, base)
		}
	}
	return lives, e, int(e.inst.maxFlight.Load()), deadlock, !e.inst.perturbed.Load()
}

func emitGated(c *hx.Ctx, g gatedScript, class string) {
	var lives []int
	var e *env
	var maxFlight int
	var deadlock, ok bool
	for try := 0; try < 6 && !ok; try++ {
		lives, e, maxFlight, deadlock, ok = runGated(g)
	}
	// the script as the model sees it: markers are no steps
	var all []act
	all = append(all, g.pre...)
	all = append(all, act{kind: aMark})
	all = append(all, g.win...)
	all = append(all, act{kind: aMark}, act{kind: aYield})
	all = append(all, g.post...)
	names := make([]string, len(all))
	terms := make([]string, len(all))
	for i, a := range all {
		names[i] = a.String()
		terms[i] = a.coq()
	}
	desc := map[string]any{"actions": strings.Join(names, "; "), "live_at_yields": fmt.Sprint(lives), "class": class, "link_uuids": uuidNote(),
		"max_addreference_calls_in_flight": maxFlight,
		"note":                             "Begin = the spawned acquisitions run up to (and are held inside) di.AddReference(nil,false); the callbacks between Begin and Open are delivered while those calls are in flight; Open = the calls return, oldest first"}
	if !ok {
		c.Class("unschedulable")
		return
	}
	if deadlock {
		c.Failf("gated-deadlock", desc, "the handler did not become quiescent after the held AddReference calls returned")
		return
	}
	liveT := make([]string, len(lives))
	for i, l := range lives {
		liveT[i] = fmt.Sprint(l)
	}
	c.Case(hx.App("HOG", hx.List(terms), hx.List(liveT))+"%nat", desc)
	c.Class(class)
	if maxFlight > 0 {
		c.Nontrivial("g" + strings.Join(names, ";"))
	}
	// direct oracle at the quiescent points
	present := map[int]bool{}
	disposed := false
	k := 0
	for i, a := range all {
		switch a.kind {
		case aAdded:
			present[a.id] = true
		case aRemoved:
			delete(present, a.id)
		case aDisposed:
			disposed = true
		case aYield:
			want := 0
			if len(present) > 0 && !disposed {
				want = 1
			}
			if live := lives[k]; live != want {
				key := "strong-ref-without-links"
				if live < want {
					key = "no-strong-ref-while-links-exist"
				} else if want == 1 {
					key = "more-than-one-strong-ref"
				}
				c.Failf(key, desc, "after action %d (%s), at quiescence: %d strong reference(s) outstanding with %d link(s) attached (disposed=%v); required %d (up to %d AddReference calls were in flight together)",
					i, a.String(), live, len(present), disposed, want, maxFlight)
				return
			}
			k++
		}
	}
	if e.inst.doubleRelease.Load() != 0 {
		c.Failf("double-release", desc, "a strong reference was released %d extra time(s)", e.inst.doubleRelease.Load())
	}
}

// gatedScripts enumerates: 1-3 links added before Begin, every environment-valid
// window of up to maxWin callbacks (add a new link, remove a present one,
// dispose), then either all links removed or a quiescent point first.
func gatedScripts(maxWin int, f func(gatedScript)) {
	for nPre := 1; nPre <= 3; nPre++ {
		var pre []act
		for id := 1; id <= nPre; id++ {
			pre = append(pre, act{aAdded, id})
		}
		var rec func(win []act, present []int, next int)
		rec = func(win []act, present []int, next int) {
			var removeAll []act
			for _, id := range present {
				removeAll = append(removeAll, act{aRemoved, id})
			}
			w := append([]act{}, win...)
			f(gatedScript{pre: pre, win: w, post: append(append([]act{}, removeAll...), act{kind: aYield})})
			if len(present) > 1 {
				// remove all but one, look, remove the last
				p := append([]act{}, removeAll[:len(removeAll)-1]...)
				p = append(p, act{kind: aYield}, removeAll[len(removeAll)-1], act{kind: aYield})
				f(gatedScript{pre: pre, win: w, post: p})
			}
			if len(win) == maxWin {
				return
			}
			if next <= 5 {
				rec(append(w, act{aAdded, next}), append(append([]int{}, present...), next), next+1)
			}
			for i, id := range present {
				np := append(append([]int{}, present[:i]...), present[i+1:]...)
				rec(append(w, act{aRemoved, id}), np, next)
				if i >= 1 {
					break // removing the first or the second present link is enough variety
				}
			}
			rec(append(w, act{kind: aDisposed}), present, next)
		}
		var present []int
		for id := 1; id <= nPre; id++ {
			present = append(present, id)
		}
		rec(nil, present, nPre+1)
	}
}

// enumerate all environment-valid link-only action lists of exactly length n over nl links.
func enumerate(nl, n int, f func([]act)) {
	var rec func(cur []act, present uint)
	rec = func(cur []act, present uint) {
		if len(cur) == n {
			f(cur)
			return
		}
		for id := 1; id <= nl; id++ {
			if present&(1<<uint(id)) == 0 {
				rec(append(cur, act{aAdded, id}), present|1<<uint(id))
			} else {
				rec(append(cur, act{aRemoved, id}), present&^(1<<uint(id)))
			}
		}
		rec(append(cur, act{kind: aYield}), present)
		rec(append(cur, act{kind: aDisposed}), present)
	}
	rec(nil, 0)
}

func c33(c *hx.Ctx) {
	c.Type = "c33_case"
	c.ShardSize = 100
	c.Agree = "c33_agree"
	c.Rule = "gated scripts (1-3 acquisitions started and held inside AddReference, callbacks delivered in that window, gate opened call by call); action lists of HandleValueAdded/HandleValueRemoved/HandleInstanceDisposed callbacks on 1-3 links with Yield = run every spawned goroutine (GOMAXPROCS(1)); exhaustive short lists, random longer ones, a malformed stream (duplicate adds, spurious removes, non-link values); concurrent add/remove runs checked by the oracle only; non-trivial = distinct valid list in which a strong reference was acquired"
	runtime.GOMAXPROCS(1)
	old := debug.SetGCPercent(-1)
	thorough := c.Tier == "thorough"

	// the two schedules the fix commit is about, and close relatives: always first
	fixed := [][]act{
		{{aAdded, 1}, {aRemoved, 1}, {kind: aYield}},
		{{aAdded, 1}, {aAdded, 2}, {kind: aYield}, {aRemoved, 1}, {aRemoved, 2}, {kind: aYield}},
		{{aAdded, 1}, {kind: aDisposed}, {kind: aYield}, {aRemoved, 1}, {kind: aYield}},
		{{aAdded, 1}, {kind: aYield}, {aRemoved, 1}, {aAdded, 1}, {kind: aYield}, {aRemoved, 1}, {kind: aYield}},
		{{aAdded, 1}, {kind: aYield}, {aAdded, 2}, {aRemoved, 1}, {kind: aYield}, {aRemoved, 2}, {kind: aYield}},
		{{aAdded, 1}, {aAdded, 2}, {aAdded, 3}, {kind: aYield}, {kind: aDisposed}, {kind: aDisposed}, {kind: aYield}},
	}
	for _, a := range fixed {
		emit(c, a, "fixed")
	}
	// the same with links that share one link UUID (distinct directive values)
	equalUUID = true
	for _, a := range fixed {
		emit(c, a, "fixed-same-uuid")
	}
	emit(c, []act{{aAdded, 1}, {aAdded, 2}, {kind: aYield}, {aRemoved, 1}, {kind: aYield}, {aRemoved, 2}, {kind: aYield}}, "fixed-same-uuid")
	emit(c, []act{{aAdded, 1}, {kind: aYield}, {aAdded, 2}, {aAdded, 3}, {aRemoved, 2}, {kind: aYield}, {aRemoved, 3}, {kind: aYield}, {aRemoved, 1}, {kind: aYield}}, "fixed-same-uuid")
	for n := 2; n <= 4; n++ {
		enumerate(2, n, func(a []act) {
			// only lists in which two links are attached at the same time
			p, both := map[int]bool{}, false
			for _, x := range a {
				if x.kind == aAdded {
					p[x.id] = true
				} else if x.kind == aRemoved {
					delete(p, x.id)
				}
				both = both || len(p) > 1
			}
			if both {
				emit(c, a, fmt.Sprintf("exhaustive-2links-same-uuid-len%d", n))
			}
		})
	}
	equalUUID = false
	// fault injection: AddReference(nil, false) returns nil
	nilref := [][]act{
		{{aSetNil, 1}, {aAdded, 1}, {kind: aYield}, {aAdded, 2}, {kind: aYield}, {aRemoved, 1}, {aRemoved, 2}, {kind: aYield}},
		{{aSetNil, 1}, {aAdded, 1}, {aAdded, 2}, {kind: aYield}, {aRemoved, 1}, {aRemoved, 2}, {kind: aYield}},
		{{aSetNil, 2}, {aAdded, 1}, {aAdded, 2}, {kind: aYield}, {aAdded, 3}, {kind: aYield}, {kind: aDisposed}, {kind: aYield}},
		{{aAdded, 1}, {kind: aYield}, {aRemoved, 1}, {aSetNil, 1}, {aAdded, 1}, {kind: aYield}, {aRemoved, 1}, {kind: aYield}},
		{{aSetNil, 3}, {aAdded, 1}, {aRemoved, 1}, {aAdded, 1}, {kind: aYield}, {aAdded, 2}, {kind: aYield}, {aRemoved, 1}, {aRemoved, 2}, {kind: aYield}},
	}
	for _, a := range nilref {
		emit(c, a, "nil-reference")
	}
	// AddReference calls held in flight: overlapping acquisitions
	maxWin := 2
	if thorough {
		maxWin = 3
	}
	gatedScripts(maxWin, func(g gatedScript) { emitGated(c, g, fmt.Sprintf("gated-%dpre-%dwin", len(g.pre), len(g.win))) })
	// exhaustive sweeps
	maxLen2, maxLen3 := 4, 3
	if thorough {
		maxLen2, maxLen3 = 6, 5
	}
	for n := 1; n <= maxLen2; n++ {
		enumerate(2, n, func(a []act) { emit(c, a, fmt.Sprintf("exhaustive-2links-len%d", n)) })
	}
	for n := 1; n <= maxLen3; n++ {
		enumerate(3, n, func(a []act) {
			uses3 := false
			for _, x := range a {
				if x.id == 3 {
					uses3 = true
				}
			}
			if uses3 {
				emit(c, a, fmt.Sprintf("exhaustive-3links-len%d", n))
			}
		})
	}
	// random longer lists
	for i := 0; i < c.N; i++ {
		n := 4 + c.Rng.Intn(14)
		nl := 1 + c.Rng.Intn(3)
		malformed := c.Rng.Intn(8) == 0
		present := map[int]bool{}
		others := 0
		var a []act
		for len(a) < n {
			r := c.Rng.Intn(100)
			switch {
			case malformed && r < 12:
				switch c.Rng.Intn(4) {
				case 0:
					a = append(a, act{aAdded, 1 + c.Rng.Intn(nl)}) // maybe duplicate
				case 1:
					a = append(a, act{aRemoved, 1 + c.Rng.Intn(nl)}) // maybe spurious
				case 2:
					a = append(a, act{kind: aAddedOther})
					others++
				default:
					a = append(a, act{kind: aRemovedOther})
				}
			case r < 45:
				id := 1 + c.Rng.Intn(nl)
				if present[id] {
					a = append(a, act{aRemoved, id})
					delete(present, id)
				} else {
					a = append(a, act{aAdded, id})
					present[id] = true
				}
			case r < 60:
				// rapid add/remove of one link
				id := 1 + c.Rng.Intn(nl)
				if !present[id] {
					a = append(a, act{aAdded, id}, act{aRemoved, id})
				}
			case r < 92:
				a = append(a, act{kind: aYield})
			case r < 96:
				a = append(a, act{kind: aDisposed})
			default:
				// remove everything
				for id := range present {
					_ = id
				}
				for id := 1; id <= nl; id++ {
					if present[id] {
						a = append(a, act{aRemoved, id})
						delete(present, id)
					}
				}
			}
		}
		cl := "random"
		if malformed {
			cl = "random-malformed"
		} else if c.Rng.Intn(8) == 0 {
			// fault injection at a random position
			k := c.Rng.Intn(len(a))
			a = append(append(append([]act{}, a[:k]...), act{aSetNil, 1 + c.Rng.Intn(2)}), a[k:]...)
			cl = "random-nil-reference"
		}
		if i%4 == 3 {
			equalUUID = true
			cl += "-same-uuid"
		}
		emit(c, a, cl)
		equalUUID = false
	}
	debug.SetGCPercent(old)

	// genuinely concurrent notifications: oracle only
	runtime.GOMAXPROCS(4)
	nc := c.N / 4
	if nc < 50 {
		nc = 50
	}
	for i := 0; i < nc; i++ {
		concurrent(c, i)
	}
}

// concurrent runs one goroutine per link, each adding and removing its link a
// few times, optionally leaving it attached, optionally with a concurrent
// dispose; at quiescence the outstanding strong references must match.
func concurrent(c *hx.Ctx, idx int) {
	base := runtime.NumGoroutine()
	e := newEnv(false)
	nl := 1 + c.Rng.Intn(3)
	rounds := make([]int, nl)
	leave := make([]bool, nl)
	for i := range rounds {
		rounds[i] = 1 + c.Rng.Intn(4)
		leave[i] = c.Rng.Intn(2) == 0
	}
	dispose := c.Rng.Intn(5) == 0
	var wg sync.WaitGroup
	start := make(chan struct{})
	for i := 0; i < nl; i++ {
		wg.Add(1)
		go func(i int) {
			defer wg.Done()
			<-start
			for r := 0; r < rounds[i]; r++ {
				e.h.HandleValueAdded(e.inst, e.vals[i+1])
				if r%2 == 1 {
					runtime.Gosched()
				}
				if r+1 < rounds[i] || !leave[i] {
					e.h.HandleValueRemoved(e.inst, e.vals[i+1])
				}
			}
		}(i)
	}
	if dispose {
		wg.Add(1)
		go func() {
			defer wg.Done()
			<-start
			runtime.Gosched()
			e.inst.disposedFlag.Store(true)
			e.h.HandleInstanceDisposed(e.inst)
		}()
	}
	close(start)
	wg.Wait()
	deadline := time.Now().Add(5 * time.Second)
	for runtime.NumGoroutine() > base && time.Now().Before(deadline) {
		time.Sleep(200 * time.Microsecond)
	}
	c.Eval()
	c.Class("concurrent")
	attached := 0
	for i := range leave {
		if leave[i] {
			attached++
		}
	}
	live := int(e.inst.strongAcquired.Load() - e.inst.strongReleased.Load())
	want := 0
	if attached > 0 && !dispose {
		want = 1
	}
	desc := map[string]any{"kind": "concurrent", "links": nl, "rounds": fmt.Sprint(rounds), "left_attached": fmt.Sprint(leave), "dispose": dispose,
		"acquired": e.inst.strongAcquired.Load(), "released": e.inst.strongReleased.Load()}
	if runtime.NumGoroutine() > base {
		c.Failf("concurrent-not-quiescent", desc, "spawned goroutines did not finish within 5s")
		return
	}
	if live != want {
		key := "strong-ref-without-links"
		if live < want {
			key = "no-strong-ref-while-links-exist"
		} else if want == 1 {
			key = "more-than-one-strong-ref"
		}
		c.Failf(key, desc, "concurrent run: %d strong reference(s) outstanding at quiescence with %d link(s) attached (disposed=%v); required %d", live, attached, dispose, want)
	}
	if e.inst.doubleRelease.Load() != 0 {
		c.Failf("double-release", desc, "a strong reference was released more than once")
	}
}
