// Harness for envelope.BuildEnvelope / UnlockEnvelope (C16, C17, C18): runs the
// real code on real keys, emits correspondence cases for Env/Run.v and applies
// the direct property oracles (reach specification, tamper, context, panics).
package main

import (
	"bytes"
	"errors"
	"fmt"
	"math/big"
	"math/rand"
	"regexp"
	"strconv"
	"strings"

	"github.com/aperturerobotics/bifrost/crypto"
	"github.com/aperturerobotics/bifrost/envelope"
	"github.com/aperturerobotics/bifrost/peer"
	"github.com/zeebo/blake3"
	"verifharness/internal/hx"
)

func main() { hx.Main(run) }

type rngReader struct{ r *rand.Rand }

func (r rngReader) Read(p []byte) (int, error) {
	for i := range p {
		p[i] = byte(r.r.Intn(256))
	}
	return len(p), nil
}

type keypair struct {
	priv crypto.PrivKey
	pub  crypto.PubKey
}

type grantCfg struct {
	count uint32
	idx   []uint32
}

type config struct {
	nkeys int
	// keymap[i] = harness key placed at envelope keypair index i (nil = identity);
	// the same key may occur at several indexes
	keymap    []int
	id        string
	threshold uint32
	total     uint32
	grants    []grantCfg
}

func (cf config) proto() *envelope.EnvelopeConfig {
	out := &envelope.EnvelopeConfig{EnvelopeId: cf.id, Threshold: cf.threshold, TotalShares: cf.total}
	for _, g := range cf.grants {
		out.GrantConfigs = append(out.GrantConfigs, &envelope.EnvelopeGrantConfig{ShareCount: g.count, KeypairIndexes: append([]uint32{}, g.idx...)})
	}
	return out
}

// key returns the harness key at envelope keypair index i.
func (cf config) key(i int) int {
	if cf.keymap == nil {
		return i
	}
	return cf.keymap[i]
}

func (cf config) keys() []int {
	out := make([]int, cf.nkeys)
	for i := range out {
		out[i] = cf.key(i)
	}
	return out
}

func (cf config) String() string {
	var sb strings.Builder
	fmt.Fprintf(&sb, "keypairs=%v id=%q t=%d total=%d grants=", cf.keys(), cf.id, cf.threshold, cf.total)
	for _, g := range cf.grants {
		fmt.Fprintf(&sb, "{n=%d idx=%v}", g.count, g.idx)
	}
	return sb.String()
}

// ---- the abstract specification, written independently of the code ----

// sharesPerGrant: grants receive their share count (0 means 1) in order until
// the total (override or sum) runs out.
func (cf config) sharesPerGrant() []int {
	total := 0
	for _, g := range cf.grants {
		total += eff(g.count)
	}
	if cf.total > 0 {
		total = int(cf.total)
	}
	out := make([]int, len(cf.grants))
	for i, g := range cf.grants {
		n := eff(g.count)
		if n > total {
			n = total
		}
		out[i] = n
		total -= n
	}
	return out
}

func eff(c uint32) int {
	if c == 0 {
		return 1
	}
	return int(c)
}

// reach: number of distinct shares in grants that name a recipient whose key is offered.
func (cf config) reach(offered map[int]bool) (int, []uint32) {
	per := cf.sharesPerGrant()
	n := 0
	var unlocked []uint32
	for gi, g := range cf.grants {
		ok := false
		for _, i := range g.idx {
			if int(i) < cf.nkeys && offered[cf.key(int(i))] {
				ok = true
			}
		}
		if ok {
			n += per[gi]
			unlocked = append(unlocked, uint32(gi))
		}
	}
	return n, unlocked
}

// ---- tampering (mirrors Env/Run.v tamper) ----

type mutation struct {
	kind  string // none flip set trunc ext raw
	pos   int
	d     byte
	extra []byte
}

func (m mutation) apply(ct []byte) []byte {
	out := append([]byte{}, ct...)
	switch m.kind {
	case "flip":
		if m.pos < len(out) {
			out[m.pos] ^= m.d
		}
	case "set":
		if m.pos < len(out) {
			out[m.pos] = m.d
		}
	case "trunc":
		if m.pos < len(out) {
			out = out[:m.pos]
		}
	case "ext":
		out = append(out, m.extra...)
	case "raw":
		out = append([]byte{}, m.extra...)
	}
	return out
}

func (m mutation) term() string {
	switch m.kind {
	case "flip":
		return hx.App("MFlip", hx.Nat(m.pos), hx.Z(int64(m.d)))
	case "set":
		return hx.App("MSet", hx.Nat(m.pos), hx.Z(int64(m.d)))
	case "trunc":
		return hx.App("MTrunc", hx.Nat(m.pos))
	case "ext":
		return hx.App("MExt", hx.Bytes(m.extra))
	case "raw":
		return hx.App("MRaw", hx.Bytes(m.extra))
	}
	return "MNone"
}

type share struct{ id, val []byte }

type tamper struct {
	kind   string
	i, j   int
	t      uint32
	idx    []uint32
	mu     mutation
	id     string
	ki     uint32
	k      int
	shares []share
	c2     string   // ctxhashfor: the context whose hash replaces context_hash
	subs   []tamper // multi: fields changed in order
}

func u32list(l []uint32) string {
	items := make([]string, len(l))
	for i, x := range l {
		items[i] = hx.U(uint64(x))
	}
	return hx.List(items)
}

func (t tamper) term() string {
	switch t.kind {
	case "threshold":
		return hx.App("TThreshold", hx.U(uint64(t.t)))
	case "swapgrants":
		return hx.App("TSwapGrants", hx.Nat(t.i), hx.Nat(t.j))
	case "swapcts":
		return hx.App("TSwapCts", hx.Nat(t.i), hx.Nat(t.j))
	case "setidx":
		return hx.App("TSetIdx", hx.Nat(t.i), u32list(t.idx))
	case "dropct":
		return hx.App("TDropCt", hx.Nat(t.i))
	case "mutct":
		return hx.App("TMutCt", hx.Nat(t.i), hx.Nat(t.j), t.mu.term())
	case "envid":
		return hx.App("TEnvId", hx.Str(t.id))
	case "ctxhash":
		return hx.App("TCtxHash", hx.Nat(t.i), hx.Z(int64(t.mu.d)))
	case "payload":
		return hx.App("TPayload", t.mu.term())
	case "forge":
		items := make([]string, len(t.shares))
		for i, s := range t.shares {
			items[i] = "(" + hx.Bytes(s.id) + ", " + hx.Bytes(s.val) + ")"
		}
		return hx.App("TForge", hx.Nat(t.i), hx.U(uint64(t.ki)), hx.Nat(t.k), hx.List(items))
	case "dupgrant":
		return hx.App("TDupGrant", hx.Nat(t.i))
	case "nogrants":
		return "TNoGrants"
	case "nokeypairs":
		return "TNoKeypairs"
	case "ctxhashfor":
		return hx.App("TCtxHashFor", hx.Str(t.c2))
	case "multi":
		items := make([]string, len(t.subs))
		for i, st := range t.subs {
			items[i] = st.term()
		}
		return hx.App("TMulti", hx.List(items))
	}
	return "TNone"
}

const baseCtx = "envelope 2026-02-08T00:00:00Z envelope crypto ctx v1."

func grantEncCtx(id, ctx string, gi int) string {
	return baseCtx + "grant_enc " + strconv.Itoa(len(id)) + ":" + id + " " + strconv.Itoa(len(ctx)) + ":" + ctx + " " + strconv.Itoa(gi)
}

// apply returns the tampered copy; ok=false when the tamper does not apply.
func (t tamper) apply(env *envelope.Envelope, ctx string, keys []keypair) *envelope.Envelope {
	e := env.CloneVT()
	g := e.Grants
	switch t.kind {
	case "threshold":
		e.Threshold = t.t
	case "swapgrants":
		if t.i < len(g) && t.j < len(g) {
			g[t.i], g[t.j] = g[t.j], g[t.i]
		}
	case "swapcts":
		if t.i < len(g) && t.j < len(g) {
			g[t.i].Ciphertexts, g[t.j].Ciphertexts = g[t.j].Ciphertexts, g[t.i].Ciphertexts
		}
	case "setidx":
		if t.i < len(g) {
			g[t.i].KeypairIndexes = append([]uint32{}, t.idx...)
		}
	case "dropct":
		if t.i < len(g) && len(g[t.i].Ciphertexts) > 0 {
			g[t.i].Ciphertexts = g[t.i].Ciphertexts[:len(g[t.i].Ciphertexts)-1]
		}
	case "mutct":
		if t.i < len(g) && t.j < len(g[t.i].Ciphertexts) {
			g[t.i].Ciphertexts[t.j] = t.mu.apply(g[t.i].Ciphertexts[t.j])
		}
	case "envid":
		e.EnvelopeId = t.id
	case "ctxhash":
		if t.i < len(e.ContextHash) {
			e.ContextHash[t.i] ^= t.mu.d
		}
	case "payload":
		e.Ciphertext = t.mu.apply(e.Ciphertext)
	case "forge":
		if t.i < len(g) {
			inner := &envelope.EnvelopeGrantInner{}
			for _, s := range t.shares {
				inner.Shares = append(inner.Shares, &envelope.EnvelopeShare{Id: s.id, Value: s.val})
			}
			data, err := inner.MarshalVT()
			if err != nil {
				panic(err)
			}
			ct, err := peer.EncryptToPubKey(keys[t.k].pub, grantEncCtx(e.EnvelopeId, ctx, t.i), data)
			if err != nil {
				panic(err)
			}
			g[t.i] = &envelope.EnvelopeGrant{KeypairIndexes: []uint32{t.ki}, Ciphertexts: [][]byte{ct}}
		}
	case "dupgrant":
		if t.i < len(g) {
			e.Grants = append(e.Grants, g[t.i].CloneVT())
		}
	case "nogrants":
		e.Grants = nil
	case "nokeypairs":
		e.Keypairs = nil
	case "ctxhashfor":
		h := blake3.Sum256([]byte(t.c2))
		e.ContextHash = h[:]
	case "multi":
		for _, st := range t.subs {
			e = st.apply(e, ctx, keys)
		}
	}
	return e
}

// ---- observation ----

func buildClass(err error) int {
	switch {
	case err == nil:
		return 0
	case errors.Is(err, envelope.ErrEmptyPayload):
		return 1
	case errors.Is(err, envelope.ErrNoKeypairs):
		return 2
	case errors.Is(err, envelope.ErrNoGrants):
		return 3
	case errors.Is(err, envelope.ErrInvalidKeypairIndex):
		return 4
	case errors.Is(err, envelope.ErrInvalidThreshold):
		return 5
	default:
		return 9
	}
}

func unlockClass(err error) int {
	switch {
	case errors.Is(err, envelope.ErrNoKeypairs):
		return 2
	case errors.Is(err, envelope.ErrNoGrants):
		return 3
	case errors.Is(err, envelope.ErrContextMismatch):
		return 6
	case errors.Is(err, envelope.ErrDecryptionFailed):
		return 8
	default:
		return 7
	}
}

type uobs struct {
	panicked bool
	pval     any
	err      error
	payload  []byte
	res      *envelope.EnvelopeUnlockResult
}

func unlock(ctx string, env *envelope.Envelope, privs []crypto.PrivKey) uobs {
	var o uobs
	p, v := hx.Catch(func() { o.payload, o.res, o.err = envelope.UnlockEnvelope(ctx, env, privs) })
	o.panicked, o.pval = p, v
	return o
}

func (o uobs) term(orig []byte) string {
	switch {
	case o.panicked:
		return "UPanic"
	case o.err != nil:
		return hx.App("UErr", hx.Nat(unlockClass(o.err)))
	default:
		same := o.payload != nil && bytes.Equal(o.payload, orig)
		return hx.App("URes", hx.Bool(o.res.GetSuccess()), hx.Bool(same), hx.U(uint64(o.res.GetSharesAvailable())),
			hx.U(uint64(o.res.GetSharesNeeded())), u32list(o.res.GetUnlockedGrantIndexes()))
	}
}

// ---- generators ----

type gen struct {
	c    *hx.Ctx
	keys []keypair
}

func (g *gen) pick(n int) int { return g.c.Rng.Intn(n) }

// config from the property's bound, biased to edges
func (g *gen) config() config {
	cf := config{nkeys: 1 + g.pick(3)}
	if cf.nkeys > 1 && g.pick(4) == 0 { // the same recipient key at several indexes
		cf.keymap = make([]int, cf.nkeys)
		for i := range cf.keymap {
			cf.keymap[i] = g.pick(cf.nkeys - 1)
		}
		if g.pick(2) == 0 {
			cf.keymap[cf.nkeys-1] = cf.keymap[0]
		}
	}
	ng := 1 + g.pick(4)
	for i := 0; i < ng; i++ {
		gc := grantCfg{count: uint32(g.pick(3))}
		switch g.pick(10) {
		case 0: // empty index list
		case 1: // duplicates
			k := uint32(g.pick(cf.nkeys))
			gc.idx = []uint32{k, k}
		case 2: // out of range (rare)
			if g.pick(3) == 0 {
				gc.idx = []uint32{uint32(cf.nkeys + g.pick(2))}
			} else {
				gc.idx = []uint32{uint32(g.pick(cf.nkeys))}
			}
		case 3, 4: // several keys
			for k := 0; k < cf.nkeys; k++ {
				if g.pick(3) > 0 {
					gc.idx = append(gc.idx, uint32(k))
				}
			}
		default:
			gc.idx = []uint32{uint32(g.pick(cf.nkeys))}
		}
		cf.grants = append(cf.grants, gc)
	}
	if len(cf.grants) > 1 && g.pick(6) == 0 { // identical grants
		i := g.pick(len(cf.grants) - 1)
		cf.grants[i+1] = grantCfg{count: cf.grants[i].count, idx: append([]uint32{}, cf.grants[i].idx...)}
	}
	placed := 0
	for i, n := range cf.sharesPerGrant() {
		if len(cf.grants[i].idx) > 0 {
			placed += n
		}
	}
	switch g.pick(6) {
	case 0:
		cf.threshold = uint32(g.pick(4))
	case 1: // exactly reachable
		if placed > 0 {
			cf.threshold = uint32(placed - 1)
		}
	case 2: // one too many
		cf.threshold = uint32(placed)
	default:
		if placed > 1 {
			cf.threshold = uint32(g.pick(placed))
		}
	}
	if cf.threshold > 3 {
		cf.threshold = 3
	}
	switch g.pick(5) {
	case 0:
		cf.total = uint32(g.pick(6))
	case 1: // override different from the sum
		sum := 0
		for _, gc := range cf.grants {
			sum += eff(gc.count)
		}
		cf.total = uint32((sum + 1 + g.pick(2)) % 6)
		if g.pick(2) == 0 && sum > 1 {
			cf.total = uint32(sum - 1)
			if g.pick(2) == 0 && len(cf.grants) > 1 {
				cf.grants[0].idx = nil // a keyless grant consumes the scarce shares first
			}
		}
	}
	if g.pick(4) == 0 {
		cf.id = "env-" + strconv.Itoa(g.pick(1000))
	}
	return cf
}

type built struct {
	cf      config
	ctx     string
	payload []byte
	env     *envelope.Envelope
	err     error
}

func (g *gen) build(cf config, ctx string, payload []byte) built {
	pubs := make([]crypto.PubKey, cf.nkeys)
	for i := range pubs {
		pubs[i] = g.keys[cf.key(i)].pub
	}
	b := built{cf: cf, ctx: ctx, payload: payload}
	p, v := hx.Catch(func() { b.env, b.err = envelope.BuildEnvelope(rngReader{g.c.Rng}, ctx, payload, pubs, cf.proto()) })
	if p {
		g.c.Failf("build-panic", cf.String(), "BuildEnvelope panicked: %v", v)
		b.err = fmt.Errorf("panic")
	}
	return b
}

func (g *gen) privs(sel []int) []crypto.PrivKey {
	out := make([]crypto.PrivKey, len(sel))
	for i, k := range sel {
		out[i] = g.keys[k].priv
	}
	return out
}

func (g *gen) emit(b built, tm tamper, sel []int, uctx string, o *uobs) {
	gr := make([]string, len(b.cf.grants))
	for i, gc := range b.cf.grants {
		gr[i] = "(" + hx.U(uint64(gc.count)) + ", " + u32list(gc.idx) + ")"
	}
	ou := "None"
	if o != nil {
		ou = "(Some " + o.term(b.payload) + ")"
	}
	desc := map[string]any{"kind": "env", "config": b.cf.String(), "ctx": b.ctx, "payload": hx.Hex(b.payload), "tamper": tm.term(),
		"offered_keys": sel, "unlock_ctx": uctx, "build": buildClass(b.err), "unlock": ou}
	g.c.Case(hx.App("EnvCase", hx.NatList(b.cf.keys()), hx.Bytes(b.payload), hx.Str(b.ctx), hx.Str(b.cf.id), hx.U(uint64(b.cf.threshold)),
		hx.U(uint64(b.cf.total)), hx.List(gr), tm.term(), hx.NatList(sel), hx.Str(uctx), hx.Nat(buildClass(b.err)), ou), desc)
}

// subsets of the recipients plus unrelated keys (indices 3, 4)
func (g *gen) subset(nkeys int, mask int, unrelated int) []int {
	var sel []int
	if unrelated&1 != 0 {
		sel = append(sel, 4)
	}
	for k := 0; k < nkeys; k++ {
		if mask&(1<<k) != 0 {
			sel = append(sel, k)
			if (mask+unrelated+k)%5 == 0 { // the same private key offered twice
				sel = append(sel, k)
			}
		}
	}
	if unrelated&2 != 0 {
		sel = append(sel, 3)
	}
	return sel
}

// checkSpec: the C16 oracle on an untampered envelope.
func (g *gen) checkSpec(b built, sel []int, o uobs) {
	in := map[string]any{"config": b.cf.String(), "offered_keys": sel}
	if o.panicked {
		g.c.Failf("unlock-panic", in, "UnlockEnvelope panicked: %v", o.pval)
		return
	}
	if o.err != nil {
		g.c.Failf("unlock-error-on-honest-envelope", in, "UnlockEnvelope returned an error on an untampered envelope: %v", o.err)
		return
	}
	off := map[int]bool{}
	for _, k := range sel {
		off[k] = true
	}
	want, unl := b.cf.reach(off)
	need := int(b.cf.threshold) + 1
	if o.res.GetSuccess() != (want >= need) {
		g.c.Failf("unlock-iff-reach", in, "success=%v but the offered keys reach %d shares and %d are needed", o.res.GetSuccess(), want, need)
	}
	if o.res.GetSuccess() && !bytes.Equal(o.payload, b.payload) {
		g.c.Failf("unlock-wrong-payload", in, "unsealed payload %x differs from the sealed payload", o.payload)
	}
	if !o.res.GetSuccess() && o.payload != nil {
		g.c.Failf("unlock-payload-without-success", in, "payload returned without success")
	}
	if int(o.res.GetSharesAvailable()) != want {
		g.c.Failf("result-shares-available", in, "shares_available=%d, reachable with the offered keys: %d", o.res.GetSharesAvailable(), want)
	}
	if int(o.res.GetSharesNeeded()) != need {
		g.c.Failf("result-shares-needed", in, "shares_needed=%d, threshold+1=%d", o.res.GetSharesNeeded(), need)
	}
	if fmt.Sprint(o.res.GetUnlockedGrantIndexes()) != fmt.Sprint(unl) && !(len(unl) == 0 && len(o.res.GetUnlockedGrantIndexes()) == 0) {
		g.c.Failf("result-unlocked-grants", in, "unlocked_grant_indexes=%v, decryptable grants: %v", o.res.GetUnlockedGrantIndexes(), unl)
	}
}

// checkBuild: the C17 oracle.
func (g *gen) checkBuild(b built) {
	all := map[int]bool{}
	for k := 0; k < b.cf.nkeys; k++ {
		all[b.cf.key(k)] = true
	}
	max, _ := b.cf.reach(all)
	need := int(b.cf.threshold) + 1
	valid := true
	for _, gc := range b.cf.grants {
		for _, i := range gc.idx {
			if int(i) >= b.cf.nkeys {
				valid = false
			}
		}
	}
	if b.err == nil && max < need {
		g.c.Failf("unopenable-config-accepted", b.cf.String(), "sealing accepted a configuration in which all recipients together reach %d shares but %d are needed", max, need)
	}
	if b.err == nil && !valid {
		g.c.Failf("bad-keypair-index-accepted", b.cf.String(), "sealing accepted an out-of-range keypair index")
	}
}

// allSel: the private keys of all recipients (each distinct key once)
func (g *gen) allSel(cf config) []int {
	var sel []int
	seen := map[int]bool{}
	for i := 0; i < cf.nkeys; i++ {
		if k := cf.key(i); !seen[k] {
			seen[k] = true
			sel = append(sel, k)
		}
	}
	return sel
}

var orderL, _ = new(big.Int).SetString("7237005577332262213973186563042994240857116359379907606001950938285454250989", 10)

func leBytes(v *big.Int) []byte {
	b := v.Bytes()
	out := make([]byte, 32)
	for i := range b {
		if i < 32 {
			out[i] = b[len(b)-1-i]
		}
	}
	return out
}

func (g *gen) forgedShares() []share {
	id := func(v int64) []byte { return leBytes(big.NewInt(v)) }
	zero := make([]byte, 32)
	switch g.pick(7) {
	case 0: // the two aliases that used to panic Recover
		a := id(1)
		b := id(1)
		b[31] = 0x20
		return []share{{a, zero}, {b, zero}}
	case 1: // id and id + l
		a := id(int64(1 + g.pick(3)))
		b := leBytes(new(big.Int).Add(big.NewInt(int64(1+g.pick(3))), orderL))
		return []share{{a, g.c.RandBytes(32)}, {b, g.c.RandBytes(32)}, {id(7), g.c.RandBytes(32)}}
	case 2: // identical ids
		return []share{{id(2), zero}, {id(2), g.c.RandBytes(32)}}
	case 3: // wrong lengths
		return []share{{g.c.RandBytes(31), g.c.RandBytes(32)}, {id(9), g.c.RandBytes(5)}, {id(8), g.c.RandBytes(32)}}
	case 4: // id zero and random
		return []share{{zero, g.c.RandBytes(32)}, {g.c.RandBytes(32), g.c.RandBytes(32)}}
	case 5:
		return nil
	default:
		n := 1 + g.pick(4)
		var out []share
		for i := 0; i < n; i++ {
			out = append(out, share{id(int64(1 + g.pick(5))), g.c.RandBytes(32)})
		}
		return out
	}
}

func (g *gen) tamper(b built) tamper {
	ng := len(b.env.Grants)
	gi := g.pick(ng)
	nz := byte(1 + g.pick(255))
	smallMu := func() mutation {
		switch g.pick(5) {
		case 0:
			return mutation{kind: "flip", pos: g.pick(52), d: nz}
		case 1:
			return mutation{kind: "trunc", pos: []int{0, 4, 35, 36, 51, 52}[g.pick(6)]}
		case 2:
			return mutation{kind: "ext", extra: g.c.RandBytes(1 + g.pick(3))}
		case 3:
			return mutation{kind: "raw", extra: g.c.RandBytes(g.pick(70))}
		default:
			return mutation{kind: "flip", pos: 35, d: 0x80}
		}
	}
	switch g.pick(14) {
	case 0:
		return tamper{kind: "threshold", t: uint32(g.pick(5))}
	case 1:
		if b.cf.threshold > 0 {
			return tamper{kind: "threshold", t: b.cf.threshold - 1}
		}
		return tamper{kind: "threshold", t: b.cf.threshold + 1}
	case 2:
		return tamper{kind: "swapgrants", i: gi, j: g.pick(ng)}
	case 3:
		return tamper{kind: "swapcts", i: gi, j: g.pick(ng)}
	case 4:
		var idx []uint32
		for n := g.pick(3); n > 0; n-- {
			idx = append(idx, uint32(g.pick(4)))
		}
		return tamper{kind: "setidx", i: gi, idx: idx}
	case 5:
		if g.pick(2) == 0 {
			// keep the count, replace one index by the boundary value len(keypairs) (or just above / far above)
			idx := append([]uint32{}, b.env.Grants[gi].KeypairIndexes...)
			if len(idx) > 0 {
				idx[g.pick(len(idx))] = []uint32{uint32(b.cf.nkeys), uint32(b.cf.nkeys), uint32(b.cf.nkeys + 1), 4294967295}[g.pick(4)]
				return tamper{kind: "setidx", i: gi, idx: idx}
			}
		}
		return tamper{kind: "dropct", i: gi}
	case 6, 7:
		cj := 0
		if n := len(b.env.Grants[gi].Ciphertexts); n > 0 {
			cj = g.pick(n)
		}
		return tamper{kind: "mutct", i: gi, j: cj, mu: smallMu()}
	case 8:
		return tamper{kind: "envid", id: []string{"", "x", "env-0", b.env.EnvelopeId + "0"}[g.pick(4)]}
	case 9:
		return tamper{kind: "ctxhash", i: g.pick(32), mu: mutation{d: nz}}
	case 10:
		n := len(b.env.Ciphertext)
		switch g.pick(4) {
		case 0:
			return tamper{kind: "payload", mu: mutation{kind: "flip", pos: g.pick(n), d: nz}}
		case 1:
			return tamper{kind: "payload", mu: mutation{kind: "trunc", pos: []int{0, 23, 24, 25, n - 1}[g.pick(5)]}}
		case 2:
			return tamper{kind: "payload", mu: mutation{kind: "ext", extra: g.c.RandBytes(1 + g.pick(3))}}
		default:
			return tamper{kind: "payload", mu: mutation{kind: "raw", extra: g.c.RandBytes(g.pick(60))}}
		}
	case 11, 12:
		ki := g.pick(b.cf.nkeys)
		return tamper{kind: "forge", i: gi, ki: uint32(ki), k: b.cf.key(ki), shares: g.forgedShares()}
	default:
		if g.pick(6) == 0 {
			return tamper{kind: []string{"nogrants", "nokeypairs"}[g.pick(2)]}
		}
		return tamper{kind: "dupgrant", i: gi}
	}
}

// checkTamper: the C18 oracle.
func (g *gen) checkTamper(b built, what string, o uobs, in any) {
	switch {
	case o.panicked:
		key := "unlock-panic"
		if s, ok := o.pval.(string); ok && strings.Contains(s, "lagrange") {
			key = "unlock-panic-dup-share-id"
		}
		g.c.Failf(key, in, "UnlockEnvelope panicked on a %s envelope: %v", what, o.pval)
	case o.err == nil && o.payload != nil && !bytes.Equal(o.payload, b.payload):
		g.c.Failf("tampered-envelope-other-payload", in, "a %s envelope unsealed to a different payload %x", what, o.payload)
	case o.err == nil && o.res.GetSuccess() && o.payload == nil:
		g.c.Failf("success-without-payload", in, "success without payload")
	}
}

func run(c *hx.Ctx) {
	c.Imports = "Enc.Run Env.Run"
	c.Type = "env_case"
	c.Agree = "env_agree"
	c.ShardSize = 25
	g := &gen{c: c}
	for i := 0; i < 5; i++ {
		priv, pub, err := crypto.GenerateEd25519Key(rngReader{c.Rng})
		if err != nil {
			panic(err)
		}
		g.keys = append(g.keys, keypair{priv, pub})
	}
	ctxs := []string{"test context v1", "", "other ctx"}
	payload := func() []byte { return c.RandBytes(1 + c.Rng.Intn(24)) }
	switch c.Prop {
	case "C16":
		c16(g, ctxs, payload)
	case "C17":
		c17(g, ctxs, payload)
	case "C18":
		c18(g, ctxs, payload)
	default:
		panic("unknown property " + c.Prop)
	}
}

func c16(g *gen, ctxs []string, payload func() []byte) {
	c := g.c
	c.Rule = "BuildEnvelope on configurations from the property's bound (1-3 keys, 1-4 grants, share counts 0-2, index lists incl. empty/duplicate, thresholds 0-3, total-share overrides 0-5, edge-biased: threshold = reachable and reachable+1, override != sum); UnlockEnvelope with every subset of the recipients' keys plus unrelated keys (all subsets checked by the reach oracle, two or three per configuration evaluated in Coq); observed = success, payload equality, shares_available, shares_needed, unlocked grant indexes; non-trivial = accepted configuration x key subset"
	n := 0
	for n < c.N {
		cf := g.config()
		b := g.build(cf, ctxs[g.pick(3)], payload())
		g.checkBuild(b)
		if b.err != nil {
			if g.pick(4) == 0 {
				g.emit(b, tamper{}, nil, b.ctx, nil)
				c.Class("rejected")
				n++
			}
			continue
		}
		full := (1 << cf.nkeys)
		chosen := map[int]bool{g.pick(full): true, full - 1: true}
		if g.pick(2) == 0 {
			chosen[g.pick(full)] = true
		}
		for mask := 0; mask < full; mask++ {
			for unrelated := 0; unrelated < 4; unrelated++ {
				sel := g.subset(cf.nkeys, mask, unrelated)
				o := unlock(b.ctx, b.env, g.privs(sel))
				g.checkSpec(b, sel, o)
				if chosen[mask] && unrelated == mask%4 {
					g.emit(b, tamper{}, sel, b.ctx, &o)
					c.Class(fmt.Sprintf("keys%d-grants%d", cf.nkeys, len(cf.grants)))
					if o.res != nil && o.res.GetSuccess() {
						c.Class("success")
					} else {
						c.Class("not-enough")
					}
					c.Nontrivial(cf.String() + fmt.Sprint(sel))
					n++
				} else {
					c.Eval()
				}
			}
		}
	}
}

func c17(g *gen, ctxs []string, payload func() []byte) {
	c := g.c
	c.Rule = "BuildEnvelope on configurations from the bound of C16 (edge-biased); every configuration is judged by the oracle (accepted => all recipients together reach threshold+1 shares and really unseal the payload); accepted and rejected configurations evaluated in Coq with the build error class and the unlock result for all recipient keys; non-trivial = distinct configuration"
	n := 0
	// fixed: the historical counter-examples and degenerate inputs
	fixed := []config{
		{nkeys: 1, threshold: 2, total: 5, grants: []grantCfg{{1, []uint32{0}}}},
		{nkeys: 1, threshold: 0, grants: []grantCfg{{1, nil}}},
		{nkeys: 2, threshold: 1, total: 1, grants: []grantCfg{{1, []uint32{0}}, {1, []uint32{1}}}},
		{nkeys: 2, threshold: 1, grants: []grantCfg{{2, nil}, {1, []uint32{1}}}},
		{nkeys: 2, threshold: 1, grants: []grantCfg{{0, []uint32{0}}, {0, []uint32{1}}}},
		{nkeys: 2, threshold: 1, total: 2, grants: []grantCfg{{2, nil}, {2, []uint32{0, 1}}}},
		{nkeys: 1, threshold: 0, total: 1, grants: []grantCfg{{1, nil}, {1, []uint32{0}}}},
		{nkeys: 2, threshold: 2, total: 3, grants: []grantCfg{{2, []uint32{0}}, {2, nil}, {2, []uint32{1}}}},
		{nkeys: 2, threshold: 1, total: 3, grants: []grantCfg{{1, nil}, {2, []uint32{0, 1}}}},
		{nkeys: 3, keymap: []int{0, 1, 0}, threshold: 2, grants: []grantCfg{{1, []uint32{0}}, {1, []uint32{1}}, {1, []uint32{2}}}},
		{nkeys: 2, keymap: []int{0, 0}, threshold: 1, grants: []grantCfg{{1, []uint32{0}}, {1, []uint32{1}}}},
		{nkeys: 3, keymap: []int{1, 1, 1}, threshold: 1, grants: []grantCfg{{1, []uint32{0, 0}}, {1, []uint32{2}}, {1, []uint32{2}}}},
		{nkeys: 1, threshold: 0, grants: nil},
		{nkeys: 0, threshold: 0, grants: []grantCfg{{1, nil}}},
		{nkeys: 1, threshold: 0, grants: []grantCfg{{1, []uint32{1}}}},
	}
	for i := 0; n < c.N; i++ {
		var cf config
		if i < len(fixed) {
			cf = fixed[i]
		} else {
			cf = g.config()
		}
		pl := payload()
		if i == len(fixed) {
			pl = nil // empty payload
		}
		b := g.build(cf, ctxs[g.pick(3)], pl)
		g.checkBuild(b)
		if b.err != nil {
			g.emit(b, tamper{}, nil, b.ctx, nil)
			c.Class(fmt.Sprintf("rejected-%d", buildClass(b.err)))
			c.Nontrivial(cf.String())
			n++
			continue
		}
		sel := g.allSel(cf)
		o := unlock(b.ctx, b.env, g.privs(sel))
		g.checkSpec(b, sel, o)
		if !o.panicked && o.err == nil && !o.res.GetSuccess() {
			c.Failf("accepted-config-not-openable", cf.String(), "all recipients' keys did not unseal an accepted configuration (available %d, needed %d)", o.res.GetSharesAvailable(), o.res.GetSharesNeeded())
		}
		g.emit(b, tamper{}, sel, b.ctx, &o)
		c.Class("accepted")
		c.Nontrivial(cf.String())
		n++
	}
}

func c18(g *gen, ctxs []string, payload func() []byte) {
	c := g.c
	c.Rule = "sealed envelopes from the bound of C16; unsealing under a different context; field-level tampering (threshold, swapped grants, swapped/dropped/mutated grant ciphertexts, keypair indexes, envelope id, context hash, payload ciphertext, duplicated grant, grant replaced by a freshly encrypted grant with attacker-chosen shares incl. aliased share ids) evaluated in Coq; byte-level mutations of the wire form and random bytes through UnmarshalVT + UnlockEnvelope judged by the oracle (fail or same payload, no panic); non-trivial = distinct (configuration, tamper, keys)"
	n := 0
	// regression: two share ids that are different bytes but the same scalar
	{
		cf := config{nkeys: 1, threshold: 1, grants: []grantCfg{{2, []uint32{0}}}}
		b := g.build(cf, ctxs[0], []byte("payload"))
		if b.err == nil {
			id1 := make([]byte, 32)
			id1[0] = 1
			id2 := append([]byte{}, id1...)
			id2[31] = 0x20
			tm := tamper{kind: "forge", i: 0, ki: 0, k: 0, shares: []share{{id1, make([]byte, 32)}, {id2, make([]byte, 32)}}}
			o := unlock(b.ctx, tm.apply(b.env, b.ctx, g.keys), g.privs([]int{0}))
			g.checkTamper(b, "forged-grant", o, map[string]any{"config": cf.String(), "tamper": tm.term()})
			g.emit(b, tm, []int{0}, b.ctx, &o)
			c.Class("tamper-forge")
			n++
		}
	}
	// multi-field tampering an attacker can compute without secrets: the
	// envelope id rewritten AND the context hash recomputed for another context
	// c2 (optionally with the threshold changed / grants reordered or duplicated),
	// with (id, context) from the framing-injection families: an id or context
	// that embeds the other field's (length-prefixed) form.
	n += g.rebind()
	// string classes: (seal context, unseal context) pairs, envelope ids, payload sizes
	{
		cf := config{nkeys: 1, threshold: 0, grants: []grantCfg{{1, []uint32{0}}}}
		for _, pr := range stringPairs(c) {
			b := g.build(cf, pr.a, []byte("p"))
			if b.err != nil {
				c.Failf("build-failed-on-context", map[string]any{"ctx": hx.Hex([]byte(pr.a))}, "BuildEnvelope failed: %v", b.err)
				continue
			}
			o := unlock(pr.b, b.env, g.privs([]int{0}))
			in := map[string]any{"kind": "ctxpair", "class": pr.class, "seal_ctx": hx.Hex([]byte(pr.a)), "unseal_ctx": hx.Hex([]byte(pr.b))}
			switch {
			case o.panicked:
				c.Failf("unlock-panic", in, "panic: %v", o.pval)
			case pr.a == pr.b && (o.err != nil || !o.res.GetSuccess() || !bytes.Equal(o.payload, b.payload)):
				c.Failf("unseal-same-context-failed", in, "unsealing under the sealing context (%d bytes) failed: %v", len(pr.a), o.err)
			case pr.a != pr.b && !errors.Is(o.err, envelope.ErrContextMismatch):
				c.Failf("context-mismatch-not-reported", in, "unsealing with a different context (%s) returned err=%v instead of the context mismatch error", pr.class, o.err)
			}
			c.Class("ctxpair-" + pr.class)
			if pr.coq && len(pr.a) <= 17 || pr.class == "shared-prefix" && len(pr.a) < 80 {
				g.emit(b, tamper{}, []int{0}, pr.b, &o)
				n++
			} else {
				c.Eval()
			}
			// the same pair as (configured envelope id, substituted envelope id)
			if pr.a != "" && len(pr.a) <= 257 {
				cfi := cf
				cfi.id = pr.a
				bi := g.build(cfi, ctxs[0], []byte("p"))
				if bi.err == nil {
					tm := tamper{kind: "envid", id: pr.b}
					oi := unlock(bi.ctx, tm.apply(bi.env, bi.ctx, g.keys), g.privs([]int{0}))
					g.checkTamper(bi, "id-substituted", oi, map[string]any{"class": pr.class, "id": hx.Hex([]byte(pr.a)), "new_id": hx.Hex([]byte(pr.b))})
					if pr.a != pr.b && !oi.panicked && oi.err == nil && oi.res.GetSuccess() {
						c.Failf("envelope-id-not-bound", map[string]any{"class": pr.class, "id": hx.Hex([]byte(pr.a)), "new_id": hx.Hex([]byte(pr.b))}, "envelope opened after its id was replaced by a different one")
					}
					c.Eval()
					if len(pr.a) <= 17 && len(pr.b) <= 20 && pr.class != "equal" && n < c.N/2 {
						g.emit(bi, tm, []int{0}, bi.ctx, &oi)
						n++
					}
				}
			}
		}
		for _, size := range strLengths {
			if size == 0 {
				continue
			}
			b := g.build(cf, ctxs[0], c.RandBytes(size))
			if b.err != nil {
				continue
			}
			o := unlock(b.ctx, b.env, g.privs([]int{0}))
			if o.panicked || o.err != nil || !bytes.Equal(o.payload, b.payload) {
				c.Failf("unseal-payload-size", map[string]any{"size": size}, "a %d-byte payload did not round trip: %v", size, o.err)
			}
			if size <= 129 {
				g.emit(b, tamper{}, []int{0}, b.ctx, &o)
				n++
			} else {
				c.Eval()
			}
		}
	}
	// regression: a keypair index equal to the number of envelope keypairs
	for _, nk := range []int{1, 2} {
		var all []uint32
		for k := 0; k < nk; k++ {
			all = append(all, uint32(k))
		}
		cf := config{nkeys: nk, threshold: 0, grants: []grantCfg{{1, all}}}
		b := g.build(cf, ctxs[0], []byte("payload"))
		if b.err != nil {
			continue
		}
		for pos := 0; pos < nk; pos++ {
			idx := append([]uint32{}, all...)
			idx[pos] = uint32(nk)
			tm := tamper{kind: "setidx", i: 0, idx: idx}
			sel := g.allSel(cf)
			o := unlock(b.ctx, tm.apply(b.env, b.ctx, g.keys), g.privs(sel))
			g.checkTamper(b, "index-tampered", o, map[string]any{"config": cf.String(), "tamper": tm.term()})
			g.emit(b, tm, sel, b.ctx, &o)
			c.Class("tamper-setidx")
			n++
		}
	}
	for n < c.N {
		cf := g.config()
		b := g.build(cf, ctxs[g.pick(3)], payload())
		if b.err != nil {
			continue
		}
		sel := g.allSel(cf)
		if g.pick(4) == 0 {
			sel = g.subset(cf.nkeys, g.pick(1<<cf.nkeys), g.pick(4))
		}
		// wrong context
		if g.pick(5) == 0 {
			uctx := ctxs[(indexOf(ctxs, b.ctx)+1+g.pick(2))%3]
			o := unlock(uctx, b.env, g.privs(sel))
			in := map[string]any{"config": cf.String(), "ctx": b.ctx, "unlock_ctx": uctx}
			if o.panicked {
				c.Failf("unlock-panic", in, "panic: %v", o.pval)
			} else if !errors.Is(o.err, envelope.ErrContextMismatch) {
				c.Failf("context-mismatch-not-reported", in, "unsealing with a different context returned err=%v instead of the context mismatch error", o.err)
			}
			g.emit(b, tamper{}, sel, uctx, &o)
			c.Class("wrong-context")
			c.Nontrivial(cf.String() + uctx)
			n++
			continue
		}
		tm := g.tamper(b)
		if g.pick(4) == 0 { // two or three fields at once
			subs := []tamper{tm, g.tamper(b)}
			if g.pick(3) == 0 {
				subs = append(subs, g.tamper(b))
			}
			ok := true
			for _, st := range subs { // tampers whose indexes refer to the original layout only
				if st.kind == "nogrants" || st.kind == "dupgrant" || st.kind == "swapgrants" && st.i != st.j {
					ok = ok && st.kind != "nogrants"
				}
			}
			if ok {
				tm = tamper{kind: "multi", subs: subs}
			}
		}
		te := tm.apply(b.env, b.ctx, g.keys)
		o := unlock(b.ctx, te, g.privs(sel))
		g.checkTamper(b, "field-tampered", o, map[string]any{"config": cf.String(), "tamper": tm.term(), "offered_keys": sel})
		g.emit(b, tm, sel, b.ctx, &o)
		c.Class("tamper-" + tm.kind)
		c.Nontrivial(cf.String() + tm.term() + fmt.Sprint(sel))
		n++
		// byte-level mutations of the wire form (oracle only)
		wire, err := b.env.MarshalVT()
		if err != nil {
			panic(err)
		}
		for k := 0; k < 12; k++ {
			w := append([]byte{}, wire...)
			switch g.pick(4) {
			case 0:
				w[g.pick(len(w))] ^= byte(1 + g.pick(255))
			case 1:
				w = w[:g.pick(len(w))]
			case 2:
				w = append(w, c.RandBytes(1+g.pick(8))...)
			default:
				i := g.pick(len(w))
				w = append(append(append([]byte{}, w[:i]...), byte(g.pick(256))), w[i:]...)
			}
			g.wire(b, w, sel, "byte-mutated")
		}
		for k := 0; k < 4; k++ {
			g.wire(b, c.RandBytes(g.pick(200)), sel, "random-bytes")
		}
	}
}

var lenPrefix = regexp.MustCompile(`^[ \x00]?[0-9]+:`)

// rebind: see c18.  Returns the number of Coq cases emitted.
func (g *gen) rebind() int {
	c := g.c
	emitted := 0
	sealCtxs := []string{"tenant-a 8:tenant-b", "a b", "a\x00b", "p 1:x", "x 3:abc 0", "app 5:other", "ns:prod 7:ns:test", "c1 2:c2 2:c3", "9:tenant-b"}
	ids := []string{"", "env-1", "e 5:env-1"}
	extras := []tamper{{}, {kind: "threshold", t: 0}, {kind: "threshold", t: 1}, {kind: "swapgrants", i: 0, j: 1}, {kind: "dupgrant", i: 0}}
	for si, sealCtx := range sealCtxs {
		for ii, id := range ids {
			cf := config{nkeys: 2, id: id, threshold: 1, grants: []grantCfg{{1, []uint32{0}}, {1, []uint32{1}}}}
			if (si+ii)%2 == 0 {
				cf = config{nkeys: 1, id: id, threshold: 0, grants: []grantCfg{{1, []uint32{0}}}}
			}
			b := g.build(cf, sealCtx, []byte("sealed payload"))
			if b.err != nil {
				continue
			}
			realID := b.env.EnvelopeId
			sel := g.allSel(cf)
			type forged struct{ id, c2 string }
			seen := map[forged]bool{}
			var cands []forged
			add := func(id2, c2 string) {
				f := forged{id2, c2}
				if !seen[f] {
					seen[f] = true
					cands = append(cands, f)
				}
			}
			for k := 0; k <= len(sealCtx); k++ {
				head, tail := sealCtx[:k], sealCtx[k:]
				tails := []string{tail, strings.TrimLeft(tail, " \x00"), lenPrefix.ReplaceAllString(tail, "")}
				heads := []string{realID + head, realID + " " + head, realID + "\x00" + head,
					realID + " " + strconv.Itoa(len(sealCtx)) + ":" + head,
					realID + " " + strconv.Itoa(len(head)) + ":" + head,
					strconv.Itoa(len(realID)) + ":" + realID + " " + strconv.Itoa(len(sealCtx)) + ":" + head,
					realID + strconv.Itoa(len(sealCtx)) + ":" + head}
				for _, h := range heads {
					for _, t := range tails {
						add(h, t)
					}
				}
			}
			// the same envelope id with the hash of unrelated contexts, and id-only rewrites
			add(realID, "tenant-b")
			add(realID+" ", sealCtx)
			add(realID, sealCtx+" ")
			for ci, f := range cands {
				extra := extras[(ci+si)%len(extras)]
				if extra.kind == "swapgrants" && len(b.env.Grants) < 2 {
					extra = tamper{}
				}
				subs := []tamper{{kind: "envid", id: f.id}, {kind: "ctxhashfor", c2: f.c2}}
				if extra.kind != "" {
					subs = append(subs, extra)
				}
				tm := tamper{kind: "multi", subs: subs}
				o := unlock(f.c2, tm.apply(b.env, b.ctx, g.keys), g.privs(sel))
				in := map[string]any{"kind": "rebind", "config": cf.String(), "seal_ctx": sealCtx, "envelope_id": realID,
					"forged_id": f.id, "unseal_ctx": f.c2, "extra": extra.term()}
				g.checkTamper(b, "multi-field tampered", o, in)
				if !o.panicked && o.err == nil && o.res.GetSuccess() && f.c2 != sealCtx {
					c.Failf("unsealed-under-other-context", in, "an envelope sealed under %q was unsealed with success under the different context %q after rewriting envelope_id to %q and context_hash to hash(%q)", sealCtx, f.c2, f.id, f.c2)
				}
				if !o.panicked && o.err == nil && o.res.GetSuccess() && f.c2 == sealCtx && f.id != realID {
					c.Failf("envelope-id-not-bound", in, "envelope opened after its id was replaced by %q", f.id)
				}
				// a few per envelope also go to Coq: the length-prefix embedding ones first
				if ci%97 == 3 || (f.id == realID+" "+strconv.Itoa(len(sealCtx))+":"+sealCtx[:strings.IndexAny(sealCtx+" ", " \x00")] && ci%5 == 0) {
					g.emit(b, tm, sel, f.c2, &o)
					c.Class("tamper-multi-rebind")
					emitted++
				} else {
					c.Eval()
				}
			}
		}
	}
	return emitted
}

func (g *gen) wire(b built, w []byte, sel []int, what string) {
	g.c.Eval()
	e := &envelope.Envelope{}
	var uerr error
	p, v := hx.Catch(func() { uerr = e.UnmarshalVT(w) })
	if p {
		g.c.Failf("unmarshal-panic", hx.Hex(w), "Envelope.UnmarshalVT panicked: %v", v)
		return
	}
	if uerr != nil {
		return
	}
	o := unlock(b.ctx, e, g.privs(sel))
	g.checkTamper(b, what, o, map[string]any{"config": b.cf.String(), "wire": hx.Hex(w), "offered_keys": sel})
}

func indexOf(l []string, s string) int {
	for i, x := range l {
		if x == s {
			return i
		}
	}
	return 0
}
