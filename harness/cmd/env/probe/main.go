package main

import (
	"crypto/aes"
	"crypto/ed25519"
	"crypto/rand"
	"fmt"

	"github.com/aperturerobotics/bifrost/crypto"
	"github.com/aperturerobotics/bifrost/envelope"
	"github.com/aperturerobotics/bifrost/peer"
)

func main() {
	// AES one block only?
	blk, _ := aes.NewCipher(make([]byte, 32))
	buf := make([]byte, 32)
	for i := range buf {
		buf[i] = byte(i)
	}
	blk.Encrypt(buf, buf)
	fmt.Printf("aes: %x\n", buf)

	priv, pub, _ := crypto.GenerateEd25519Key(rand.Reader)
	ctx := "c"
	env, err := envelope.BuildEnvelope(rand.Reader, ctx, []byte("payload"), []crypto.PubKey{pub}, &envelope.EnvelopeConfig{
		Threshold: 1, GrantConfigs: []*envelope.EnvelopeGrantConfig{{ShareCount: 2, KeypairIndexes: []uint32{0}}},
	})
	fmt.Println("build", err, env.GetEnvelopeId())
	// forge grant 0 with two shares with same scalar different bytes
	id1 := make([]byte, 32)
	id1[0] = 1
	id2 := make([]byte, 32)
	id2[0] = 1
	id2[31] = 0x20
	inner := &envelope.EnvelopeGrantInner{Shares: []*envelope.EnvelopeShare{{Id: id1, Value: make([]byte, 32)}, {Id: id2, Value: make([]byte, 32)}}}
	data, _ := inner.MarshalVT()
	// replicate buildGrantEncContext
	base := "envelope 2026-02-08T00:00:00Z envelope crypto ctx v1."
	encCtx := fmt.Sprintf("%sgrant_enc %d:%s %d:%s %d", base, len(env.EnvelopeId), env.EnvelopeId, len(ctx), ctx, 0)
	ct, err := peer.EncryptToPubKey(pub, encCtx, data)
	fmt.Println("enc", err, len(ct))
	env.Grants[0].Ciphertexts[0] = ct
	func() {
		defer func() { fmt.Println("recovered:", recover()) }()
		p, r, err := envelope.UnlockEnvelope(ctx, env, []crypto.PrivKey{priv})
		fmt.Println("unlock", p, r, err)
	}()
	// empty message round trip nil-ness
	c0, _ := peer.EncryptToPubKey(pub, "x", nil)
	d0, err := peer.DecryptWithPrivKey(priv, "x", c0)
	fmt.Println("empty:", d0 == nil, len(d0), err, len(c0))
	_ = ed25519.PublicKeySize
}
