// Harness for link/solicit (C30, C32): runs the real functions and emits
// correspondence cases for Solicit/Run.v.
package main

import (
	"bytes"
	"sort"

	link_solicit "github.com/aperturerobotics/bifrost/link/solicit"
	"github.com/aperturerobotics/bifrost/peer"
	"verifharness/internal/hx"
)

func main() { hx.Main(run) }

func run(c *hx.Ctx) {
	c.Imports = "Solicit.Run"
	switch c.Prop {
	case "C32":
		c32(c)
	default:
		panic("unknown property " + c.Prop)
	}
}

func c32(c *hx.Ctx) {
	c.Type = "c32_case"
	c.Agree = "c32_agree"
	c.Rule = "session-id equality pattern on 4-tuples of peer-id strings (shared prefixes, swaps, boundary shifts); FindMatchingHashes on sorted lists with shared elements, duplicates, different lengths; non-trivial = distinct input with a non-empty expected result or an equality that holds"
	// universe of id-like strings incl. prefixes of each other
	uni := [][]byte{[]byte("a"), []byte("ab"), []byte("abc"), []byte("b"), []byte("bc"), []byte("c"), {}, {0}, {0, 0}, {255}, {1, 2, 3}}
	for i := 0; i < 6; i++ {
		uni = append(uni, c.RandBytes(1+c.Rng.Intn(40)))
	}
	// long ids that share a common prefix of 4, 8, 16 or 31 bytes and differ later
	// (peer ids of keys with equal leading bytes): orderings decided late in the string
	for _, pl := range []int{4, 8, 16, 31} {
		base := c.RandBytes(38)
		for k := 0; k < 2; k++ {
			v := append([]byte{}, base...)
			for j := pl; j < len(v); j++ {
				v[j] = byte(c.Rng.Intn(256))
			}
			uni = append(uni, v)
		}
		// also one that differs only in its last byte, and a proper prefix
		v := append([]byte{}, base...)
		v[len(v)-1] ^= 0x01
		uni = append(uni, v, base, base[:pl])
	}
	// long ids (up to 300 bytes, e.g. identity multihashes of large keys) incl. pairs that only
	// differ after 64, 128 or 200 bytes: any fixed-size internal buffer shows up as a collision
	for _, pl := range []int{64, 65, 127, 128, 129, 200} {
		base := c.RandBytes(pl + 40)
		v := append([]byte{}, base...)
		v[pl] ^= 0x55
		w := append([]byte{}, base...)
		w[len(w)-1] ^= 0x01
		uni = append(uni, base, v, w)
	}
	pick := func() []byte { return uni[c.Rng.Intn(len(uni))] }
	nSid := c.N / 2
	for i := 0; i < nSid; i++ {
		a, b := pick(), pick()
		var cc, d []byte
		switch c.Rng.Intn(4) {
		case 0:
			cc, d = b, a // swapped: must be equal
		case 1: // boundary shift of the concatenation
			cat := append(append([]byte{}, a...), b...)
			k := 0
			if len(cat) > 0 {
				k = c.Rng.Intn(len(cat) + 1)
			}
			cc, d = cat[:k], cat[k:]
		default:
			cc, d = pick(), pick()
		}
		s1 := link_solicit.ComputeSessionID(peer.ID(a), peer.ID(b))
		s2 := link_solicit.ComputeSessionID(peer.ID(cc), peer.ID(d))
		eq := bytes.Equal(s1, s2)
		desc := map[string]any{"kind": "sid", "a": hx.Hex(a), "b": hx.Hex(b), "c": hx.Hex(cc), "d": hx.Hex(d), "equal": eq}
		c.Case(hx.App("SidEq", hx.Bytes(a), hx.Bytes(b), hx.Bytes(cc), hx.Bytes(d), hx.Bool(eq)), desc)
		c.Class("sid")
		if eq {
			c.Nontrivial("sid" + hx.Hex(a) + "/" + hx.Hex(b) + "/" + hx.Hex(cc) + "/" + hx.Hex(d))
		}
		// direct oracle: symmetric
		s3 := link_solicit.ComputeSessionID(peer.ID(b), peer.ID(a))
		if !bytes.Equal(s1, s3) {
			c.Failf("sid-asymmetric", desc, "ComputeSessionID(a,b) != ComputeSessionID(b,a)")
		}
		// direct oracle: different sorted concatenations must give different session ids
		lo1, hi1 := a, b
		if bytes.Compare(lo1, hi1) > 0 {
			lo1, hi1 = hi1, lo1
		}
		lo2, hi2 := cc, d
		if bytes.Compare(lo2, hi2) > 0 {
			lo2, hi2 = hi2, lo2
		}
		cat1 := append(append([]byte{}, lo1...), hi1...)
		cat2 := append(append([]byte{}, lo2...), hi2...)
		if eq != bytes.Equal(cat1, cat2) {
			c.Failf("sid-equality-not-concatenation-equality", desc, "session ids equal=%v but sorted concatenations equal=%v", eq, bytes.Equal(cat1, cat2))
		}
		if len(s1) != link_solicit.HashSize {
			c.Failf("sid-size", desc, "session id has %d bytes", len(s1))
		}
	}
	// intersection
	for i := 0; i < c.N-nSid; i++ {
		width := 1 + c.Rng.Intn(3) // short hashes make collisions/duplicates frequent
		alpha := 3
		shape := c.Rng.Intn(6) // 0-2 both short, 3 l long, 4 r long, 5 both long
		if shape >= 3 {
			width, alpha = 3, 4
		}
		side := 0
		mk := func() [][]byte {
			side++
			n := c.Rng.Intn(9)
			if shape == 5 || (shape == 3 && side == 1) || (shape == 4 && side == 2) {
				n = 9 + c.Rng.Intn(40)
			} else if shape >= 3 {
				n = c.Rng.Intn(4)
			}
			l := make([][]byte, n)
			for j := range l {
				h := make([]byte, width)
				for k := range h {
					h[k] = byte(c.Rng.Intn(alpha))
				}
				if c.Rng.Intn(6) == 0 {
					h = h[:c.Rng.Intn(width+1)]
				}
				l[j] = h
			}
			sort.Slice(l, func(x, y int) bool { return bytes.Compare(l[x], l[y]) < 0 })
			return l
		}
		l, r := mk(), mk()
		lc, rc := clone2(l), clone2(r)
		m := link_solicit.FindMatchingHashes(l, r)
		desc := map[string]any{"kind": "match", "l": hexes(l), "r": hexes(r), "got": hexes(m)}
		c.Case(hx.App("Match", hx.BytesList(l), hx.BytesList(r), hx.BytesList(m)), desc)
		c.Class([]string{"match-short", "match-short", "match-short", "match-l-long", "match-r-long", "match-both-long"}[shape])
		if len(m) > 0 {
			c.Nontrivial("m" + hx.BytesList(l) + "/" + hx.BytesList(r))
		}
		// direct oracle: multiset intersection, order of l
		want := refIntersect(l, r)
		if !eq2(m, want) {
			c.Failf("match-not-intersection", desc, "FindMatchingHashes != sorted multiset intersection %v", hexes(want))
		}
		// independence of later input changes (aliasing)
		mc := clone2(m)
		for _, x := range l {
			for k := range x {
				x[k] ^= 0xff
			}
		}
		for _, x := range r {
			for k := range x {
				x[k] ^= 0xff
			}
		}
		if !eq2(m, mc) {
			c.Failf("match-aliases-input", desc, "matched hashes changed after mutating the inputs")
		}
		_ = lc
		_ = rc
	}
}

func refIntersect(l, r [][]byte) [][]byte {
	cnt := map[string]int{}
	for _, x := range r {
		cnt[string(x)]++
	}
	var out [][]byte
	for _, x := range l {
		if cnt[string(x)] > 0 {
			cnt[string(x)]--
			out = append(out, append([]byte{}, x...))
		}
	}
	return out
}

func clone2(l [][]byte) [][]byte {
	o := make([][]byte, len(l))
	for i := range l {
		o[i] = append([]byte{}, l[i]...)
	}
	return o
}

func eq2(a, b [][]byte) bool {
	if len(a) != len(b) {
		return false
	}
	for i := range a {
		if !bytes.Equal(a[i], b[i]) {
			return false
		}
	}
	return true
}

func hexes(l [][]byte) []string {
	o := make([]string, len(l))
	for i := range l {
		o[i] = hx.Hex(l[i])
	}
	return o
}
