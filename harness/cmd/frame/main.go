// Harness for the byte-stream framing code (C07, C08, C09): runs the real
// stream-establish header reader / HandleIncomingStream, rwc.PacketConn,
// stream_packet.Session and rwc.Conn over a re-chunking stream and emits
// correspondence cases for Frame/Run.v plus direct property oracles.
package main

import (
	"fmt"
	"io"
	"runtime"
	"sync"
	"time"

	"verifharness/internal/hx"
)

func main() { hx.Main(run) }

func run(c *hx.Ctx) {
	c.Imports = "Lib.Chunk Frame.Model Frame.Run"
	c.ShardSize = 100
	switch c.Prop {
	case "C07":
		c07(c)
	case "C08":
		c08(c)
	case "C09":
		c09(c)
	default:
		panic("unknown property " + c.Prop)
	}
}

// ---- re-chunking stream (the Go twin of Lib/Chunk.v sread) ----

type chunkReader struct {
	mu      sync.Mutex
	data    []byte
	pos     int
	chunks  []int
	ci      int
	cur     int // unread part of the current chunk (0: take the next one)
	endErr  error
	eofData bool // report the end error together with the last bytes
	reads   []int
}

func newChunkReader(data []byte, chunks []int) *chunkReader {
	return &chunkReader{data: data, chunks: chunks, endErr: io.EOF}
}

func (r *chunkReader) Read(p []byte) (int, error) {
	r.mu.Lock()
	defer r.mu.Unlock()
	if r.pos >= len(r.data) {
		return 0, r.endErr
	}
	if len(p) == 0 {
		return 0, nil
	}
	avail := len(r.data) - r.pos
	if r.cur == 0 && r.ci < len(r.chunks) {
		r.cur = r.chunks[r.ci]
		if r.cur < 1 {
			r.cur = 1
		}
		r.ci++
	}
	k := len(p)
	if r.cur > 0 {
		if r.cur < k {
			k = r.cur
		}
		if avail < k {
			k = avail
		}
		r.cur -= k
	} else if avail < k {
		k = avail
	}
	copy(p, r.data[r.pos:r.pos+k])
	r.pos += k
	r.reads = append(r.reads, k)
	if r.eofData && r.pos >= len(r.data) {
		return k, r.endErr
	}
	return k, nil
}

func (r *chunkReader) rest() []byte {
	r.mu.Lock()
	defer r.mu.Unlock()
	out := append([]byte{}, r.data[r.pos:]...)
	r.pos = len(r.data)
	return out
}

// accept describes what one underlying Write call does.
type accept struct {
	n    int
	fail bool
}

// pipeEnd is an io.ReadWriteCloser: reads come from a chunkReader, every
// Write call is recorded as one atomic write.
type pipeEnd struct {
	*chunkReader
	wmu     sync.Mutex
	writes  [][]byte
	accepts []accept
	werr    error
	closed  int
}

func (p *pipeEnd) Write(b []byte) (int, error) {
	p.wmu.Lock()
	defer p.wmu.Unlock()
	if len(p.accepts) > 0 {
		a := p.accepts[0]
		p.accepts = p.accepts[1:]
		k := a.n
		if k < 1 {
			k = 1
		}
		if k > len(b) {
			k = len(b)
		}
		p.writes = append(p.writes, append([]byte{}, b[:k]...))
		if a.fail {
			return k, p.werr
		}
		return k, nil
	}
	p.writes = append(p.writes, append([]byte{}, b...))
	return len(b), nil
}

func (p *pipeEnd) Close() error {
	p.wmu.Lock()
	p.closed++
	p.wmu.Unlock()
	return nil
}

func (p *pipeEnd) written() []byte {
	p.wmu.Lock()
	defer p.wmu.Unlock()
	var out []byte
	for _, w := range p.writes {
		out = append(out, w...)
	}
	return out
}

// livePipe is an in-memory stream that hands every Write call to the reader
// as one separate chunk (a Read never spans two Write calls).
type livePipe struct {
	mu     sync.Mutex
	cond   *sync.Cond
	q      [][]byte
	sizes  []int // size of every Write call, in order
	all    []byte
	closed bool
}

func newLivePipe() *livePipe {
	p := &livePipe{}
	p.cond = sync.NewCond(&p.mu)
	return p
}

func (p *livePipe) Write(b []byte) (int, error) {
	if len(b) == 0 {
		return 0, nil
	}
	p.mu.Lock()
	p.q = append(p.q, append([]byte{}, b...))
	p.sizes = append(p.sizes, len(b))
	p.all = append(p.all, b...)
	p.cond.Broadcast()
	p.mu.Unlock()
	runtime.Gosched() // let other writers in between two Write calls of one goroutine
	return len(b), nil
}

func (p *livePipe) Read(b []byte) (int, error) {
	p.mu.Lock()
	defer p.mu.Unlock()
	for len(p.q) == 0 && !p.closed {
		p.cond.Wait()
	}
	if len(p.q) == 0 {
		return 0, io.EOF
	}
	if len(b) == 0 {
		return 0, nil
	}
	k := copy(b, p.q[0])
	if k == len(p.q[0]) {
		p.q = p.q[1:]
	} else {
		p.q[0] = p.q[0][k:]
	}
	return k, nil
}

func (p *livePipe) Close() error {
	p.mu.Lock()
	p.closed = true
	p.cond.Broadcast()
	p.mu.Unlock()
	return nil
}

// gatedStream is a re-chunking stream whose chunks are released one by one
// by the test schedule: a Read blocks until the next chunk is released (or the
// stream is finished), and never spans two chunks. Same chunk semantics as
// chunkReader (the unread part of a chunk stays available).
type gatedStream struct {
	mu       sync.Mutex
	cond     *sync.Cond
	data     []byte
	chunks   []int
	pos      int
	ci       int // chunks fully or partly handed out
	cur      int // unread part of the current chunk
	released int
	finished bool
	reads    int // number of underlying Read calls that returned data
}

func newGatedStream(data []byte, chunks []int) *gatedStream {
	g := &gatedStream{data: data, chunks: chunks}
	g.cond = sync.NewCond(&g.mu)
	return g
}

func (g *gatedStream) Read(p []byte) (int, error) {
	g.mu.Lock()
	defer g.mu.Unlock()
	for {
		if g.pos >= len(g.data) && g.finished {
			return 0, io.EOF
		}
		if g.cur > 0 || (g.ci < g.released && g.ci < len(g.chunks)) {
			break
		}
		g.cond.Wait()
	}
	if len(p) == 0 {
		return 0, nil
	}
	if g.cur == 0 {
		g.cur = g.chunks[g.ci]
		g.ci++
	}
	k := len(p)
	if g.cur < k {
		k = g.cur
	}
	copy(p, g.data[g.pos:g.pos+k])
	g.pos += k
	g.cur -= k
	g.reads++
	return k, nil
}

func (g *gatedStream) Write(b []byte) (int, error) { return len(b), nil }
func (g *gatedStream) Close() error                { return nil }

func (g *gatedStream) release(n int) {
	g.mu.Lock()
	g.released += n
	if g.released >= len(g.chunks) {
		g.released = len(g.chunks)
		g.finished = true
	}
	g.cond.Broadcast()
	g.mu.Unlock()
}

// settle waits until the consumer of the stream makes no more progress
// (everything released was read, or it is blocked elsewhere).
func (g *gatedStream) settle() {
	last, same := -1, 0
	deadline := time.Now().Add(200 * time.Millisecond)
	for same < 8 && time.Now().Before(deadline) {
		g.mu.Lock()
		n := g.reads
		g.mu.Unlock()
		if n == last {
			same++
		} else {
			last, same = n, 0
		}
		runtime.Gosched()
		time.Sleep(150 * time.Microsecond)
	}
}

func chunkStyle(c *hx.Ctx) int { return c.Rng.Intn(4) }

func chunksFor(c *hx.Ctx, n int) ([]int, string) {
	st := chunkStyle(c)
	switch st {
	case 0:
		return c.Chunking(n, 0), "1-byte"
	case 1:
		return nil, "all-at-once"
	default:
		ch := c.Chunking(n, 2)
		if c.Rng.Intn(3) == 0 && len(ch) > 1 {
			ch = ch[:c.Rng.Intn(len(ch))] // the tail arrives at once
		}
		return ch, "random"
	}
}

// natList prints a chunk list; a run of equal sizes is printed as a repeat
// expression (Coq parses long literal lists slowly).
func natList(l []int) string {
	if len(l) > 4 {
		same := true
		for _, x := range l {
			if x != l[0] {
				same = false
				break
			}
		}
		if same {
			return fmt.Sprintf("(repeat %d%%nat %d%%nat)", l[0], len(l))
		}
	}
	return hx.NatList(l)
}

func u32le(v uint32) []byte { return []byte{byte(v), byte(v >> 8), byte(v >> 16), byte(v >> 24)} }
