package main

import (
	"bytes"
	"context"
	"errors"
	"fmt"
	"io"
	"net"
	"sync"

	stream_packet "github.com/aperturerobotics/bifrost/stream/packet"
	"github.com/aperturerobotics/bifrost/util/rwc"
	"verifharness/internal/hx"
)

type addr string

func (a addr) Network() string { return "verif" }
func (a addr) String() string  { return string(a) }

// rawMsg is a protobuf_go_lite.Message whose wire form is its bytes.
type rawMsg struct{ b []byte }

func (m *rawMsg) SizeVT() int { return len(m.b) }
func (m *rawMsg) MarshalToSizedBufferVT(d []byte) (int, error) {
	copy(d[len(d)-len(m.b):], m.b)
	return len(m.b), nil
}
func (m *rawMsg) MarshalVT() ([]byte, error) { return append([]byte{}, m.b...), nil }
func (m *rawMsg) UnmarshalVT(d []byte) error { m.b = append([]byte{}, d...); return nil }
func (m *rawMsg) Reset()                     { m.b = []byte{} }

func endClass(err error) int {
	switch {
	case err == nil:
		return 0
	case errors.Is(err, io.EOF):
		return 1
	case errors.Is(err, io.ErrUnexpectedEOF):
		return 2
	default:
		return 3
	}
}

// writeAll sends the packets through the real writer (PacketConn.WriteTo or
// Session.SendMsg), from `writers` goroutines, and returns the write calls
// seen by the stream in order.
func writeAll(session bool, pkts [][]byte, writers int, maxp uint32) (writes [][]byte, errs []error, split []int) {
	sink := &pipeEnd{chunkReader: newChunkReader(nil, nil)}
	var send func(p []byte) error
	raddr := addr("remote")
	if session {
		s := stream_packet.NewSession(sink, maxp)
		send = func(p []byte) error { return s.SendMsg(&rawMsg{b: p}) }
	} else {
		pc := rwc.NewPacketConn(context.Background(), sink, addr("local"), raddr, maxp, 2)
		send = func(p []byte) error {
			n, err := pc.WriteTo(p, raddr)
			if err == nil && n != len(p) {
				err = errors.New("WriteTo returned a wrong count")
			}
			return err
		}
	}
	if writers <= 1 {
		for _, p := range pkts {
			sink.wmu.Lock()
			before := len(sink.writes)
			sink.wmu.Unlock()
			if err := send(p); err != nil {
				errs = append(errs, err)
			}
			sink.wmu.Lock()
			k := len(sink.writes) - before
			sink.wmu.Unlock()
			want := 1
			if len(p) == 0 && !session {
				want = 0
			}
			if k != want {
				split = append(split, k)
			}
		}
	} else {
		var wg sync.WaitGroup
		var emu sync.Mutex
		for w := 0; w < writers; w++ {
			wg.Add(1)
			go func(w int) {
				defer wg.Done()
				for i := w; i < len(pkts); i += writers {
					if err := send(pkts[i]); err != nil {
						emu.Lock()
						errs = append(errs, err)
						emu.Unlock()
					}
				}
			}(w)
		}
		wg.Wait()
	}
	sink.wmu.Lock()
	writes = sink.writes
	sink.wmu.Unlock()
	return writes, errs, split
}

// halfDuplex gives a PacketConn/Session one direction of a livePipe.
type halfDuplex struct {
	r io.Reader
	w io.Writer
}

func (h halfDuplex) Read(b []byte) (int, error) {
	if h.r == nil {
		return 0, io.EOF
	}
	return h.r.Read(b)
}
func (h halfDuplex) Write(b []byte) (int, error) {
	if h.w == nil {
		return len(b), nil
	}
	return h.w.Write(b)
}
func (h halfDuplex) Close() error { return nil }

// liveRun: `writers` goroutines send through the real writer into a pipe that
// delivers every Write call separately, while the real receiver is reading.
func liveRun(session bool, pkts [][]byte, writers int, maxp uint32) (pipe *livePipe, got [][]byte, end int, errs []error) {
	pipe = newLivePipe()
	var send func(p []byte) error
	raddr := addr("remote")
	done := make(chan struct{})
	if session {
		ws := stream_packet.NewSession(halfDuplex{w: pipe}, maxp)
		rs := stream_packet.NewSession(halfDuplex{r: pipe}, maxp)
		send = func(p []byte) error { return ws.SendMsg(&rawMsg{b: p}) }
		go func() {
			defer close(done)
			for {
				m := &rawMsg{b: []byte("stale")}
				if err := rs.RecvMsg(m); err != nil {
					end = endClass(err)
					return
				}
				got = append(got, m.b)
			}
		}()
	} else {
		wc := rwc.NewPacketConn(context.Background(), halfDuplex{w: pipe}, addr("local"), raddr, maxp, 2)
		rc := rwc.NewPacketConn(context.Background(), halfDuplex{r: pipe}, addr("local"), raddr, maxp, 1)
		send = func(p []byte) error {
			n, err := wc.WriteTo(p, raddr)
			if err == nil && n != len(p) {
				err = errors.New("WriteTo returned a wrong count")
			}
			return err
		}
		go func() {
			defer close(done)
			for {
				buf := make([]byte, int(maxp)+8)
				n, _, err := rc.ReadFrom(buf)
				if err != nil {
					end = endClass(err)
					return
				}
				got = append(got, buf[:n])
			}
		}()
	}
	var wg sync.WaitGroup
	var emu sync.Mutex
	for w := 0; w < writers; w++ {
		wg.Add(1)
		go func(w int) {
			defer wg.Done()
			for i := w; i < len(pkts); i += writers {
				if err := send(pkts[i]); err != nil {
					emu.Lock()
					errs = append(errs, err)
					emu.Unlock()
				}
			}
		}(w)
	}
	wg.Wait()
	pipe.Close()
	<-done
	return pipe, got, end, errs
}

// readAll runs the real receiver over the chunked stream until it ends.
func readAll(session bool, data []byte, chunks []int, de bool, maxp uint32, bufN int, bufLen int) (pkts [][]byte, end int, shorts []bool, closed int) {
	src := &pipeEnd{chunkReader: newChunkReader(data, chunks)}
	src.eofData = de
	if session {
		s := stream_packet.NewSession(src, maxp)
		for {
			m := &rawMsg{b: []byte("stale")}
			err := s.RecvMsg(m)
			if err != nil {
				return pkts, endClass(err), nil, src.closed
			}
			pkts = append(pkts, m.b)
		}
	}
	pc := rwc.NewPacketConn(context.Background(), src, addr("local"), addr("remote"), maxp, bufN)
	for {
		buf := make([]byte, bufLen)
		n, a, err := pc.ReadFrom(buf)
		if err != nil && !errors.Is(err, io.ErrShortBuffer) {
			return pkts, endClass(err), shorts, src.closed
		}
		if a == nil || a.String() != "remote" {
			return pkts, 77, shorts, src.closed
		}
		pkts = append(pkts, buf[:n])
		shorts = append(shorts, err != nil)
	}
}

func genPackets(c *hx.Ctx, n int, lo int, maxp int) [][]byte {
	out := make([][]byte, n)
	for i := range out {
		sz := lo + c.Rng.Intn(12)
		switch c.Rng.Intn(8) {
		case 0:
			sz = maxp
		case 1:
			sz = maxp - 1
		case 2:
			sz = lo
		case 3:
			sz = lo + c.Rng.Intn(maxp-lo+1)
		}
		if sz > maxp {
			sz = maxp
		}
		if sz < lo {
			sz = lo
		}
		p := c.RandBytes(sz)
		if sz >= 2 { // unique, recognisable
			p[0], p[1] = byte(i), byte(i>>8)
		}
		out[i] = p
	}
	return out
}

func c08(c *hx.Ctx) {
	c.Type = "c08_case"
	c.Agree = "c08_agree"
	c.Rule = "rwc.PacketConn and stream_packet.Session: packet sequences (0..10 packets, sizes 1..max incl. max, max in 4..300, empty messages for Session) written by the real writer; single writer: one Write call per WriteTo/SendMsg is checked, the recorded byte stream is re-chunked (1-byte, all-at-once, random; a quarter with the last bytes delivered together with io.EOF) into the real receiver; 2..3 concurrent writers: through a pipe that delivers every Write call separately while the real receiver runs; malformed: zero / over-limit / 2^32-1 prefixes, truncated frames, trailing garbage; ReadFrom with short buffers; non-trivial = distinct stream with at least one packet delivered or a rejected prefix"
	for i := 0; i < c.N; i++ {
		i := i
		// a panic in harness code must not abort the run
		if p, v := hx.Catch(func() { c08scenario(c, i) }); p {
			c.Failf("scenario-panic", map[string]any{"kind": "c08/scenario", "index": i, "panic": fmt.Sprint(v)}, "scenario %d panicked outside the guarded calls of the implementation: %v", i, v)
		}
	}
}

// frameSpan is one frame found in a byte stream by the reference parser.
type frameSpan struct {
	start, end int
	payload    []byte
}

// refFrames parses 4-byte little-endian length ++ payload frames; ok is
// false if the stream does not end on a frame boundary.
func refFrames(stream []byte) (out []frameSpan, ok bool) {
	off := 0
	for off < len(stream) {
		if off+4 > len(stream) {
			return out, false
		}
		n := int(uint32(stream[off]) | uint32(stream[off+1])<<8 | uint32(stream[off+2])<<16 | uint32(stream[off+3])<<24)
		if n < 0 || off+4+n > len(stream) {
			return out, false
		}
		out = append(out, frameSpan{start: off, end: off + 4 + n, payload: stream[off+4 : off+4+n]})
		off += 4 + n
	}
	return out, true
}

func c08scenario(c *hx.Ctx, i int) {
	session := c.Rng.Intn(5) < 2
	lo := 1
	if session {
		lo = 0
	}
	maxp := 4 + c.Rng.Intn(60)
	if c.Rng.Intn(6) == 0 {
		maxp = 200 + c.Rng.Intn(100)
	}
	np := c.Rng.Intn(7)
	if c.Rng.Intn(10) == 0 {
		np = 10
	}
	writers := 1
	if c.Rng.Intn(3) == 0 {
		writers = 2 + c.Rng.Intn(2)
	}
	name := map[bool]string{false: "pktconn", true: "session"}[session]
	if writers > 1 {
		liveCase(c, name, session, writers, maxp)
		return
	}
	pkts := genPackets(c, np, lo, maxp)
	var writes [][]byte
	var werrs []error
	var split []int
	wdesc := map[string]any{"kind": name + "/write", "max": maxp, "packets": hexes(pkts)}
	if p, v := hx.Catch(func() { writes, werrs, split = writeAll(session, pkts, 1, uint32(maxp)) }); p {
		c.Failf("writer-panic", wdesc, "WriteTo/SendMsg panicked: %v", v)
		return
	}
	wdesc["writes"] = hexes(writes)
	if len(werrs) > 0 {
		c.Failf("write-error", wdesc, "writer returned %v", werrs[0])
	}
	if len(split) > 0 {
		c.Failf("frame-split-across-writes", wdesc, "a WriteTo/SendMsg call produced %v Write calls on the stream instead of exactly one (atomicity assumption of the concurrent-writer theorem)", split)
	}
	// what reached the stream, independent of how it was split into Write calls
	var stream []byte
	for _, w := range writes {
		stream = append(stream, w...)
	}
	var sent [][]byte
	for _, p := range pkts {
		if len(p) > 0 || session {
			sent = append(sent, p)
		}
	}
	frames, ok := refFrames(stream)
	var order [][]byte
	for _, f := range frames {
		order = append(order, f.payload)
	}
	if !ok || !eq2(order, sent) {
		c.Failf("writes-not-the-packets", wdesc, "the bytes on the stream %x are not the frames (4-byte little-endian length ++ payload) of the packets sent, in order", stream)
		return // nothing well defined to feed the receiver with
	}
	if i%6 == 0 && len(frames) > 0 {
		f := frames[c.Rng.Intn(len(frames))]
		c.Case(hx.App("Fr", hx.Bytes(f.payload), hx.Bytes(stream[f.start:f.end])), map[string]any{"kind": name + "/frame", "frame": hx.Hex(stream[f.start:f.end])})
		c.Class(name + "/frame")
	}
	// receiver
	kind := "valid"
	expect := order
	mustErr := false
	data := stream
	switch c.Rng.Intn(10) {
	case 0, 1, 3: // bad prefix after k packets
		k := c.Rng.Intn(len(frames) + 1)
		cutAt := len(stream)
		if k < len(frames) {
			cutAt = frames[k].start
		}
		data = append([]byte{}, stream[:cutAt]...)
		expect = order[:k]
		var bad uint32
		switch c.Rng.Intn(4) {
		case 0:
			bad, kind = 0, "zero-prefix"
			if session {
				kind = "" // an empty message for Session
			}
		case 1:
			bad, kind = uint32(maxp)+1, "over-limit"
		case 2:
			bad, kind = 0xffffffff, "over-limit"
		default:
			bad, kind = uint32(maxp)+1+uint32(c.Rng.Intn(1<<20)), "over-limit"
		}
		if kind == "" {
			kind = "valid"
			expect = append(append([][]byte{}, expect...), []byte{})
			data = append(data, u32le(0)...)
		} else {
			mustErr = true
			data = append(data, u32le(bad)...)
			data = append(data, c.RandBytes(c.Rng.Intn(12))...)
			data = append(data, stream[cutAt:]...) // later packets must not be misframed into delivery
		}
	case 2: // truncated
		if len(stream) > 0 {
			cut := c.Rng.Intn(len(stream))
			data = stream[:cut]
			kind = "truncated"
			expect = nil
			for _, f := range frames {
				if f.end <= cut {
					expect = append(expect, f.payload)
				}
			}
		}
	}
	chunks, cname := chunksFor(c, len(data))
	de := c.Rng.Intn(4) == 0
	desc := map[string]any{"kind": name + "/" + kind, "eof_with_last_read": de, "max": maxp, "chunking": cname, "chunks": chunks, "data": hx.Hex(data), "expected": hexes(expect)}
	var got [][]byte
	var end int
	if p, v := hx.Catch(func() { got, end, _, _ = readAll(session, data, chunks, de, uint32(maxp), 1+c.Rng.Intn(3), maxp+8) }); p {
		c.Failf("receiver-panic", desc, "the receiver panicked: %v", v)
		return
	}
	desc["got"], desc["end"] = hexes(got), end
	c.Case(hx.App("Pk", hx.Bool(session), hx.Z(int64(maxp)), natList(chunks), hx.Bytes(data), hx.BytesList(got), hx.Nat(end)), desc)
	c.Class(name + "/" + kind + "/" + cname)
	if de {
		c.Class(name + "/eof-with-last-read")
	}
	if len(got) > 0 || mustErr {
		c.Nontrivial(name + hx.Hex(data))
	}
	if !eq2(got, expect) {
		c.Failf("packets-not-preserved/"+kind, desc, "receiver delivered %v, expected exactly %v", hexes(got), hexes(expect))
	}
	switch kind {
	case "valid":
		if end != 1 {
			c.Failf("clean-end-misreported", desc, "after the last packet the receiver reported class %d, expected io.EOF", end)
		}
	case "truncated":
		if end != 1 && end != 2 {
			c.Failf("truncation-misreported", desc, "a truncated stream ended with class %d", end)
		}
	default:
		if end != 3 {
			c.Failf("bad-prefix-not-an-error/"+kind, desc, "a %s length prefix ended the connection with class %d (0 none, 1 EOF, 2 unexpected EOF), expected a framing error", kind, end)
		}
	}
	// short reader buffer (PacketConn only)
	if !session && kind == "valid" && len(order) > 0 && i%2 == 0 {
		bl := c.Rng.Intn(maxp + 2)
		var g2 [][]byte
		var e2 int
		var shorts []bool
		sdesc := map[string]any{"kind": "pktconn/short-buffer", "buflen": bl, "data": hx.Hex(data)}
		if p, v := hx.Catch(func() { g2, e2, shorts, _ = readAll(false, data, chunks, de, uint32(maxp), 2, bl) }); p {
			c.Failf("receiver-panic", sdesc, "ReadFrom with a %d-byte buffer panicked: %v", bl, v)
			return
		}
		c.Eval()
		sdesc["got"], sdesc["shorts"], sdesc["end"] = hexes(g2), shorts, e2
		for k := range order {
			if k >= len(g2) || k >= len(shorts) {
				c.Failf("short-buffer-lost-packet", sdesc, "packet %d was not delivered", k)
				break
			}
			want := order[k]
			ws := len(want) > bl
			if ws {
				want = want[:bl]
			}
			if !bytes.Equal(g2[k], want) || shorts[k] != ws {
				c.Failf("short-buffer-misreported", sdesc, "packet %d (%d bytes) read into %d bytes gave %x short=%v", k, len(order[k]), bl, g2[k], shorts[k])
			}
			if k == 0 || ws {
				c.Case(hx.App("Rf", hx.Nat(bl), hx.Bytes(order[k]), hx.Bytes(g2[k]), hx.Bool(shorts[k])), sdesc)
				c.Class("pktconn/readfrom")
			}
		}
	}
}

// selfDescribing builds packet seq of writer w: [w, seq, filler...] with a
// filler that is a function of (w, seq, position), so that any packet made of
// bytes of two different frames is recognisable.
func selfDescribing(w, seq, size int) []byte {
	if size < 2 {
		size = 2
	}
	p := make([]byte, size)
	p[0], p[1] = byte(w), byte(seq)
	for k := 2; k < size; k++ {
		p[k] = byte(0x80 | (w*53+seq*17+k*7)&0x7f)
	}
	return p
}

// liveCase: N concurrent writers of self-describing packets over a pipe that
// delivers each Write call to the concurrently running real receiver as its
// own chunk. Checks the one-Write-per-frame atomicity assumption and that
// every packet arrives exactly once, intact, in per-writer order.
func liveCase(c *hx.Ctx, name string, session bool, writers int, maxp int) {
	if maxp < 6 {
		maxp = 6
	}
	per := 2 + c.Rng.Intn(5)
	var pkts [][]byte // writer w sends pkts[w], pkts[w+writers], ...
	for seq := 0; seq < per; seq++ {
		for w := 0; w < writers; w++ {
			sz := 2 + c.Rng.Intn(10)
			if sz > maxp {
				sz = maxp
			}
			pkts = append(pkts, selfDescribing(w, seq, sz))
		}
	}
	desc := map[string]any{"kind": name + "/concurrent-writers", "max": maxp, "writers": writers, "packets": hexes(pkts)}
	var pipe *livePipe
	var got [][]byte
	var end int
	var werrs []error
	if p, v := hx.Catch(func() { pipe, got, end, werrs = liveRun(session, pkts, writers, uint32(maxp)) }); p {
		c.Failf("concurrent-writers-panic", desc, "writers/receiver panicked: %v", v)
		return
	}
	pipe.mu.Lock()
	sizes := append([]int{}, pipe.sizes...)
	all := append([]byte{}, pipe.all...)
	pipe.mu.Unlock()
	desc["write_sizes"], desc["data"], desc["got"], desc["end"] = sizes, hx.Hex(all), hexes(got), end
	c.Case(hx.App("Pk", hx.Bool(session), hx.Z(int64(maxp)), natList(sizes), hx.Bytes(all), hx.BytesList(got), hx.Nat(end)), desc)
	c.Class(name + "/concurrent-writers")
	if len(got) > 0 {
		c.Nontrivial(name + "live" + hx.Hex(all))
	}
	if len(werrs) > 0 {
		c.Failf("write-error", desc, "writer returned %v", werrs[0])
	}
	// atomicity: every Write call the stream saw is exactly one whole frame
	whole := len(sizes) == len(pkts)
	off := 0
	for _, sz := range sizes {
		if off+sz > len(all) {
			whole = false
			break
		}
		w := all[off : off+sz]
		off += sz
		if len(w) < 4 || !bytes.Equal(w[:4], u32le(uint32(len(w)-4))) {
			whole = false
		}
	}
	if !whole {
		c.Failf("frame-split-across-writes", desc, "%d packets reached the stream in %d Write calls of sizes %v: not one Write call per whole frame (atomicity assumption of the concurrent-writer theorem)", len(pkts), len(sizes), sizes)
	}
	// the receiver must deliver every packet exactly once, intact, in per-writer order
	next := make([]int, writers)
	misframed := ""
	for k, g := range got {
		if len(g) < 2 || int(g[0]) >= writers {
			misframed = fmt.Sprintf("delivered packet %d (%x) is not a packet any writer sent", k, g)
			break
		}
		w, seq := int(g[0]), int(g[1])
		idx := seq*writers + w
		if seq != next[w] || idx >= len(pkts) || !bytes.Equal(g, pkts[idx]) {
			misframed = fmt.Sprintf("delivered packet %d (%x) is not packet %d of writer %d (%x)", k, g, next[w], w, safeIdx(pkts, next[w]*writers+w))
			break
		}
		next[w]++
	}
	if misframed == "" {
		for w := 0; w < writers; w++ {
			if next[w] != per {
				misframed = fmt.Sprintf("writer %d sent %d packets, %d were delivered", w, per, next[w])
				break
			}
		}
	}
	if misframed == "" && end != 1 {
		misframed = fmt.Sprintf("after the last packet the receiver reported class %d, expected io.EOF", end)
	}
	if misframed != "" {
		c.Failf("concurrent-writers-misframed", desc, "%s", misframed)
	}
}

func safeIdx(l [][]byte, i int) []byte {
	if i < 0 || i >= len(l) {
		return nil
	}
	return l[i]
}

func sameMultiset(a, b [][]byte) bool {
	cnt := map[string]int{}
	nb := 0
	for _, x := range b {
		cnt[string(x)]++
		nb++
	}
	na := 0
	for _, x := range a {
		cnt[string(x)]--
		na++
	}
	for _, v := range cnt {
		if v != 0 {
			return false
		}
	}
	return true
}

// perWriterOrder: writer w sent pkts[w], pkts[w+writers], ... in that order.
func perWriterOrder(order, pkts [][]byte, writers int) bool {
	if writers <= 1 {
		return eq2(order, nonEmptyOrAll(order, pkts))
	}
	pos := map[string][]int{}
	for i, x := range order {
		pos[string(x)] = append(pos[string(x)], i)
	}
	for w := 0; w < writers; w++ {
		last := -1
		used := map[string]int{}
		for i := w; i < len(pkts); i += writers {
			k := string(pkts[i])
			l := pos[k]
			u := used[k]
			// duplicates: take the first occurrence after last
			found := -1
			for _, p := range l[min(u, len(l)):] {
				if p > last {
					found = p
					break
				}
			}
			if found < 0 {
				// fall back: any occurrence after last
				for _, p := range l {
					if p > last {
						found = p
						break
					}
				}
			}
			if found < 0 {
				return false
			}
			last = found
			used[k] = u + 1
		}
	}
	return true
}

func nonEmptyOrAll(order, pkts [][]byte) [][]byte {
	if len(order) == len(pkts) {
		return pkts
	}
	var o [][]byte
	for _, p := range pkts {
		if len(p) > 0 {
			o = append(o, p)
		}
	}
	return o
}

func eq2(a, b [][]byte) bool {
	if len(a) != len(b) {
		return false
	}
	for i := range a {
		if !bytes.Equal(a[i], b[i]) {
			return false
		}
	}
	return true
}

func hexes(l [][]byte) []string {
	o := make([]string, len(l))
	for i := range l {
		o[i] = hx.Hex(l[i])
	}
	return o
}

var _ net.Addr = addr("")
