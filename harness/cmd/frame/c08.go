package main

import (
	"bytes"
	"context"
	"errors"
	"io"
	"net"
	"sync"

	stream_packet "github.com/aperturerobotics/bifrost/stream/packet"
	"github.com/aperturerobotics/bifrost/util/rwc"
	"verifharness/internal/hx"
)

type addr string

func (a addr) Network() string { return "verif" }
func (a addr) String() string  { return string(a) }

// rawMsg is a protobuf_go_lite.Message whose wire form is its bytes.
type rawMsg struct{ b []byte }

func (m *rawMsg) SizeVT() int { return len(m.b) }
func (m *rawMsg) MarshalToSizedBufferVT(d []byte) (int, error) {
	copy(d[len(d)-len(m.b):], m.b)
	return len(m.b), nil
}
func (m *rawMsg) MarshalVT() ([]byte, error) { return append([]byte{}, m.b...), nil }
func (m *rawMsg) UnmarshalVT(d []byte) error { m.b = append([]byte{}, d...); return nil }
func (m *rawMsg) Reset()                     { m.b = []byte{} }

func endClass(err error) int {
	switch {
	case err == nil:
		return 0
	case errors.Is(err, io.EOF):
		return 1
	case errors.Is(err, io.ErrUnexpectedEOF):
		return 2
	default:
		return 3
	}
}

// writeAll sends the packets through the real writer (PacketConn.WriteTo or
// Session.SendMsg), from `writers` goroutines, and returns the write calls
// seen by the stream in order.
func writeAll(session bool, pkts [][]byte, writers int, maxp uint32) (writes [][]byte, errs []error, split []int) {
	sink := &pipeEnd{chunkReader: newChunkReader(nil, nil)}
	var send func(p []byte) error
	raddr := addr("remote")
	if session {
		s := stream_packet.NewSession(sink, maxp)
		send = func(p []byte) error { return s.SendMsg(&rawMsg{b: p}) }
	} else {
		pc := rwc.NewPacketConn(context.Background(), sink, addr("local"), raddr, maxp, 2)
		send = func(p []byte) error {
			n, err := pc.WriteTo(p, raddr)
			if err == nil && n != len(p) {
				err = errors.New("WriteTo returned a wrong count")
			}
			return err
		}
	}
	if writers <= 1 {
		for _, p := range pkts {
			sink.wmu.Lock()
			before := len(sink.writes)
			sink.wmu.Unlock()
			if err := send(p); err != nil {
				errs = append(errs, err)
			}
			sink.wmu.Lock()
			k := len(sink.writes) - before
			sink.wmu.Unlock()
			want := 1
			if len(p) == 0 && !session {
				want = 0
			}
			if k != want {
				split = append(split, k)
			}
		}
	} else {
		var wg sync.WaitGroup
		var emu sync.Mutex
		for w := 0; w < writers; w++ {
			wg.Add(1)
			go func(w int) {
				defer wg.Done()
				for i := w; i < len(pkts); i += writers {
					if err := send(pkts[i]); err != nil {
						emu.Lock()
						errs = append(errs, err)
						emu.Unlock()
					}
				}
			}(w)
		}
		wg.Wait()
	}
	sink.wmu.Lock()
	writes = sink.writes
	sink.wmu.Unlock()
	return writes, errs, split
}

// halfDuplex gives a PacketConn/Session one direction of a livePipe.
type halfDuplex struct {
	r io.Reader
	w io.Writer
}

func (h halfDuplex) Read(b []byte) (int, error) {
	if h.r == nil {
		return 0, io.EOF
	}
	return h.r.Read(b)
}
func (h halfDuplex) Write(b []byte) (int, error) {
	if h.w == nil {
		return len(b), nil
	}
	return h.w.Write(b)
}
func (h halfDuplex) Close() error { return nil }

// liveRun: `writers` goroutines send through the real writer into a pipe that
// delivers every Write call separately, while the real receiver is reading.
func liveRun(session bool, pkts [][]byte, writers int, maxp uint32) (pipe *livePipe, got [][]byte, end int, errs []error) {
	pipe = newLivePipe()
	var send func(p []byte) error
	raddr := addr("remote")
	done := make(chan struct{})
	if session {
		ws := stream_packet.NewSession(halfDuplex{w: pipe}, maxp)
		rs := stream_packet.NewSession(halfDuplex{r: pipe}, maxp)
		send = func(p []byte) error { return ws.SendMsg(&rawMsg{b: p}) }
		go func() {
			defer close(done)
			for {
				m := &rawMsg{b: []byte("stale")}
				if err := rs.RecvMsg(m); err != nil {
					end = endClass(err)
					return
				}
				got = append(got, m.b)
			}
		}()
	} else {
		wc := rwc.NewPacketConn(context.Background(), halfDuplex{w: pipe}, addr("local"), raddr, maxp, 2)
		rc := rwc.NewPacketConn(context.Background(), halfDuplex{r: pipe}, addr("local"), raddr, maxp, 1)
		send = func(p []byte) error {
			n, err := wc.WriteTo(p, raddr)
			if err == nil && n != len(p) {
				err = errors.New("WriteTo returned a wrong count")
			}
			return err
		}
		go func() {
			defer close(done)
			for {
				buf := make([]byte, int(maxp)+8)
				n, _, err := rc.ReadFrom(buf)
				if err != nil {
					end = endClass(err)
					return
				}
				got = append(got, buf[:n])
			}
		}()
	}
	var wg sync.WaitGroup
	var emu sync.Mutex
	for w := 0; w < writers; w++ {
		wg.Add(1)
		go func(w int) {
			defer wg.Done()
			for i := w; i < len(pkts); i += writers {
				if err := send(pkts[i]); err != nil {
					emu.Lock()
					errs = append(errs, err)
					emu.Unlock()
				}
			}
		}(w)
	}
	wg.Wait()
	pipe.Close()
	<-done
	return pipe, got, end, errs
}

// readAll runs the real receiver over the chunked stream until it ends.
func readAll(session bool, data []byte, chunks []int, de bool, maxp uint32, bufN int, bufLen int) (pkts [][]byte, end int, shorts []bool, closed int) {
	src := &pipeEnd{chunkReader: newChunkReader(data, chunks)}
	src.eofData = de
	if session {
		s := stream_packet.NewSession(src, maxp)
		for {
			m := &rawMsg{b: []byte("stale")}
			err := s.RecvMsg(m)
			if err != nil {
				return pkts, endClass(err), nil, src.closed
			}
			pkts = append(pkts, m.b)
		}
	}
	pc := rwc.NewPacketConn(context.Background(), src, addr("local"), addr("remote"), maxp, bufN)
	for {
		buf := make([]byte, bufLen)
		n, a, err := pc.ReadFrom(buf)
		if err != nil && !errors.Is(err, io.ErrShortBuffer) {
			return pkts, endClass(err), shorts, src.closed
		}
		if a == nil || a.String() != "remote" {
			return pkts, 77, shorts, src.closed
		}
		pkts = append(pkts, buf[:n])
		shorts = append(shorts, err != nil)
	}
}

func genPackets(c *hx.Ctx, n int, lo int, maxp int) [][]byte {
	out := make([][]byte, n)
	for i := range out {
		sz := lo + c.Rng.Intn(12)
		switch c.Rng.Intn(8) {
		case 0:
			sz = maxp
		case 1:
			sz = maxp - 1
		case 2:
			sz = lo
		case 3:
			sz = lo + c.Rng.Intn(maxp-lo+1)
		}
		if sz > maxp {
			sz = maxp
		}
		if sz < lo {
			sz = lo
		}
		p := c.RandBytes(sz)
		if sz >= 2 { // unique, recognisable
			p[0], p[1] = byte(i), byte(i>>8)
		}
		out[i] = p
	}
	return out
}

func c08(c *hx.Ctx) {
	c.Type = "c08_case"
	c.Agree = "c08_agree"
	c.Rule = "rwc.PacketConn and stream_packet.Session: packet sequences (0..10 packets, sizes 1..max incl. max, max in 4..300, empty messages for Session) written by the real writer; single writer: one Write call per WriteTo/SendMsg is checked, the recorded byte stream is re-chunked (1-byte, all-at-once, random; a quarter with the last bytes delivered together with io.EOF) into the real receiver; 2..3 concurrent writers: through a pipe that delivers every Write call separately while the real receiver runs; malformed: zero / over-limit / 2^32-1 prefixes, truncated frames, trailing garbage; ReadFrom with short buffers; non-trivial = distinct stream with at least one packet delivered or a rejected prefix"
	for i := 0; i < c.N; i++ {
		session := c.Rng.Intn(5) < 2
		lo := 1
		if session {
			lo = 0
		}
		maxp := 4 + c.Rng.Intn(60)
		if c.Rng.Intn(6) == 0 {
			maxp = 200 + c.Rng.Intn(100)
		}
		np := c.Rng.Intn(7)
		if c.Rng.Intn(10) == 0 {
			np = 10
		}
		pkts := genPackets(c, np, lo, maxp)
		writers := 1
		if c.Rng.Intn(3) == 0 {
			writers = 2 + c.Rng.Intn(2)
		}
		name := map[bool]string{false: "pktconn", true: "session"}[session]
		if writers > 1 {
			liveCase(c, name, session, pkts, writers, maxp)
			continue
		}
		writes, werrs, split := writeAll(session, pkts, writers, uint32(maxp))
		// writer oracle: one write per packet, each exactly prefix ++ payload, per-writer order kept
		var order [][]byte
		var stream []byte
		wdesc := map[string]any{"kind": name + "/write", "packets": hexes(pkts), "writers": writers, "writes": hexes(writes)}
		if len(werrs) > 0 {
			c.Failf("write-error", wdesc, "writer returned %v", werrs[0])
		}
		expectWrites := 0
		for _, p := range pkts {
			if len(p) > 0 || session {
				expectWrites++
			}
		}
		if len(split) > 0 {
			c.Failf("frame-split-across-writes", wdesc, "a WriteTo/SendMsg call produced %v Write calls on the stream instead of exactly one (atomicity assumption of the concurrent-writer theorem)", split)
		}
		if len(writes) != expectWrites {
			c.Failf("write-count", wdesc, "%d packets produced %d stream writes", expectWrites, len(writes))
		}
		for _, w := range writes {
			stream = append(stream, w...)
			if len(w) < 4 || !bytes.Equal(w[:4], u32le(uint32(len(w)-4))) {
				c.Failf("frame-malformed", wdesc, "stream write %x is not a 4-byte little-endian length followed by that many bytes", w)
				continue
			}
			order = append(order, w[4:])
		}
		if !sameMultiset(order, pkts) || !perWriterOrder(order, pkts, writers) {
			c.Failf("writes-not-the-packets", wdesc, "payloads on the stream %v are not the packets sent (per-writer order kept)", hexes(order))
		}
		if i%6 == 0 && len(writes) > 0 {
			k := c.Rng.Intn(len(writes))
			c.Case(hx.App("Fr", hx.Bytes(writes[k][4:]), hx.Bytes(writes[k])), map[string]any{"kind": name + "/frame", "write": hx.Hex(writes[k])})
			c.Class(name + "/frame")
		}
		// receiver
		kind := "valid"
		expect := order
		mustErr := false
		data := stream
		switch c.Rng.Intn(10) {
		case 0, 1, 3: // bad prefix after k packets
			k := 0
			if len(writes) > 0 {
				k = c.Rng.Intn(len(writes) + 1)
			}
			data = nil
			for _, w := range writes[:k] {
				data = append(data, w...)
			}
			expect = order[:k]
			var bad uint32
			switch c.Rng.Intn(4) {
			case 0:
				bad, kind = 0, "zero-prefix"
				if session {
					kind = "" // an empty message for Session
				}
			case 1:
				bad, kind = uint32(maxp)+1, "over-limit"
			case 2:
				bad, kind = 0xffffffff, "over-limit"
			default:
				bad, kind = uint32(maxp)+1+uint32(c.Rng.Intn(1<<20)), "over-limit"
			}
			if kind == "" {
				kind = "valid"
				expect = append(append([][]byte{}, expect...), []byte{})
				data = append(data, u32le(0)...)
			} else {
				mustErr = true
				data = append(data, u32le(bad)...)
				data = append(data, c.RandBytes(c.Rng.Intn(12))...)
				for _, w := range writes[k:] { // later packets must not be misframed into delivery
					data = append(data, w...)
				}
			}
		case 2: // truncated
			if len(stream) > 0 {
				cut := c.Rng.Intn(len(stream))
				data = stream[:cut]
				kind = "truncated"
				expect = nil
				off := 0
				for k, w := range writes {
					if off+len(w) <= cut {
						expect = append(expect, order[k])
						off += len(w)
					} else {
						break
					}
				}
			}
		}
		chunks, cname := chunksFor(c, len(data))
		de := c.Rng.Intn(4) == 0
		got, end, _, closed := readAll(session, data, chunks, de, uint32(maxp), 1+c.Rng.Intn(3), maxp+8)
		desc := map[string]any{"kind": name + "/" + kind, "eof_with_last_read": de, "max": maxp, "chunking": cname, "chunks": chunks, "data": hx.Hex(data), "writers": writers, "expected": hexes(expect), "got": hexes(got), "end": end}
		c.Case(hx.App("Pk", hx.Bool(session), hx.Z(int64(maxp)), natList(chunks), hx.Bytes(data), hx.BytesList(got), hx.Nat(end)), desc)
		c.Class(name + "/" + kind + "/" + cname)
		if de {
			c.Class(name + "/eof-with-last-read")
		}
		if len(got) > 0 || mustErr {
			c.Nontrivial(name + hx.Hex(data))
		}
		_ = closed
		if !eq2(got, expect) {
			c.Failf("packets-not-preserved/"+kind, desc, "receiver delivered %v, expected exactly %v", hexes(got), hexes(expect))
		}
		switch kind {
		case "valid":
			if end != 1 {
				c.Failf("clean-end-misreported", desc, "after the last packet the receiver reported class %d, expected io.EOF", end)
			}
		case "truncated":
			if end != 1 && end != 2 {
				c.Failf("truncation-misreported", desc, "a truncated stream ended with class %d", end)
			}
		default:
			if end != 3 {
				c.Failf("bad-prefix-not-an-error/"+kind, desc, "a %s length prefix ended the connection with class %d (0 none, 1 EOF, 2 unexpected EOF), expected a framing error", kind, end)
			}
		}
		// short reader buffer (PacketConn only)
		if !session && kind == "valid" && len(order) > 0 && i%2 == 0 {
			bl := c.Rng.Intn(maxp + 2)
			g2, e2, shorts, _ := readAll(false, data, chunks, de, uint32(maxp), 2, bl)
			c.Eval()
			sdesc := map[string]any{"kind": "pktconn/short-buffer", "buflen": bl, "data": hx.Hex(data), "got": hexes(g2), "shorts": shorts, "end": e2}
			for k := range order {
				if k >= len(g2) {
					c.Failf("short-buffer-lost-packet", sdesc, "packet %d was not delivered", k)
					break
				}
				want := order[k]
				ws := len(want) > bl
				if ws {
					want = want[:bl]
				}
				if !bytes.Equal(g2[k], want) || shorts[k] != ws {
					c.Failf("short-buffer-misreported", sdesc, "packet %d (%d bytes) read into %d bytes gave %x short=%v", k, len(order[k]), bl, g2[k], shorts[k])
				}
				if k == 0 || ws {
					c.Case(hx.App("Rf", hx.Nat(bl), hx.Bytes(order[k]), hx.Bytes(g2[k]), hx.Bool(shorts[k])), sdesc)
					c.Class("pktconn/readfrom")
				}
			}
		}
	}
}

// liveCase: concurrent writers over a pipe that delivers each Write call
// separately while the receiver runs; checks the one-Write-per-frame
// atomicity assumption and that the receiver delivers the packets in the
// order in which the stream saw the writes.
func liveCase(c *hx.Ctx, name string, session bool, pkts [][]byte, writers int, maxp int) {
	pipe, got, end, werrs := liveRun(session, pkts, writers, uint32(maxp))
	desc := map[string]any{"kind": name + "/concurrent-writers", "max": maxp, "writers": writers, "packets": hexes(pkts), "write_sizes": pipe.sizes, "data": hx.Hex(pipe.all), "got": hexes(got), "end": end}
	c.Case(hx.App("Pk", hx.Bool(session), hx.Z(int64(maxp)), natList(pipe.sizes), hx.Bytes(pipe.all), hx.BytesList(got), hx.Nat(end)), desc)
	c.Class(name + "/concurrent-writers")
	if len(got) > 0 {
		c.Nontrivial(name + "live" + hx.Hex(pipe.all))
	}
	if len(werrs) > 0 {
		c.Failf("write-error", desc, "writer returned %v", werrs[0])
	}
	expectWrites := 0
	for _, p := range pkts {
		if len(p) > 0 || session {
			expectWrites++
		}
	}
	if len(pipe.sizes) != expectWrites {
		c.Failf("frame-split-across-writes", desc, "%d packets reached the stream in %d Write calls (one Write per frame is the atomicity assumption)", expectWrites, len(pipe.sizes))
	}
	// every Write call is one whole frame
	var order [][]byte
	off := 0
	for _, sz := range pipe.sizes {
		w := pipe.all[off : off+sz]
		off += sz
		if len(w) < 4 || !bytes.Equal(w[:4], u32le(uint32(len(w)-4))) {
			c.Failf("frame-split-across-writes", desc, "Write call %x is not one whole frame (4-byte little-endian length followed by that many bytes)", w)
			return
		}
		order = append(order, w[4:])
	}
	if !sameMultiset(order, pkts) || !perWriterOrder(order, pkts, writers) {
		c.Failf("writes-not-the-packets", desc, "payloads on the stream %v are not the packets sent (per-writer order kept)", hexes(order))
	}
	if !eq2(got, order) {
		c.Failf("packets-not-preserved/concurrent", desc, "receiver delivered %v, the stream carried %v", hexes(got), hexes(order))
	}
	if end != 1 {
		c.Failf("clean-end-misreported", desc, "after the last packet the receiver reported class %d, expected io.EOF", end)
	}
}

func sameMultiset(a, b [][]byte) bool {
	cnt := map[string]int{}
	nb := 0
	for _, x := range b {
		cnt[string(x)]++
		nb++
	}
	na := 0
	for _, x := range a {
		cnt[string(x)]--
		na++
	}
	for _, v := range cnt {
		if v != 0 {
			return false
		}
	}
	return true
}

// perWriterOrder: writer w sent pkts[w], pkts[w+writers], ... in that order.
func perWriterOrder(order, pkts [][]byte, writers int) bool {
	if writers <= 1 {
		return eq2(order, nonEmptyOrAll(order, pkts))
	}
	pos := map[string][]int{}
	for i, x := range order {
		pos[string(x)] = append(pos[string(x)], i)
	}
	for w := 0; w < writers; w++ {
		last := -1
		used := map[string]int{}
		for i := w; i < len(pkts); i += writers {
			k := string(pkts[i])
			l := pos[k]
			u := used[k]
			// duplicates: take the first occurrence after last
			found := -1
			for _, p := range l[min(u, len(l)):] {
				if p > last {
					found = p
					break
				}
			}
			if found < 0 {
				// fall back: any occurrence after last
				for _, p := range l {
					if p > last {
						found = p
						break
					}
				}
			}
			if found < 0 {
				return false
			}
			last = found
			used[k] = u + 1
		}
	}
	return true
}

func nonEmptyOrAll(order, pkts [][]byte) [][]byte {
	if len(order) == len(pkts) {
		return pkts
	}
	var o [][]byte
	for _, p := range pkts {
		if len(p) > 0 {
			o = append(o, p)
		}
	}
	return o
}

func eq2(a, b [][]byte) bool {
	if len(a) != len(b) {
		return false
	}
	for i := range a {
		if !bytes.Equal(a[i], b[i]) {
			return false
		}
	}
	return true
}

func hexes(l [][]byte) []string {
	o := make([]string, len(l))
	for i := range l {
		o[i] = hx.Hex(l[i])
	}
	return o
}

var _ net.Addr = addr("")
