package main

import (
	"bytes"
	"context"
	"errors"
	"fmt"
	"io"
	"runtime"

	"github.com/aperturerobotics/bifrost/util/rwc"
	"verifharness/internal/hx"
)

var errReset = errors.New("verif: connection reset")

type readObs struct {
	data  []byte
	short bool
	end   int // 0: data; otherwise the end class (1 EOF, 20 the underlying error, 98 other)
}

func c09(c *hx.Ctx) {
	c.Type = "c09_case"
	c.Agree = "c09_agree"
	c.Rule = "rwc.Conn over a re-chunked stream: written data 0..300 bytes (some 2000..5000 to cross connPktSize), chunkings 1-byte / all-at-once / random, reader buffer sizes from {0,1,2,3,7,16,100,2047,2048,4096} per Read, underlying end = io.EOF or a reset error (sometimes delivered together with the last bytes); lagging reader: position-coded data (byte at offset i = f(i)) arriving in small fixed / mixed chunks over time, reader takes 1-2 packets, falls up to channel capacity behind, drains with 4096-byte buffers, 3/4 of the runs with GOMAXPROCS(1); Conn.Write over short-writing / failing writers; non-trivial = distinct run that returned data"
	sizes := []int{0, 1, 2, 3, 7, 16, 100, 2047, 2048, 4096}
	for i := 0; i < c.N; i++ {
		i := i
		if p, v := hx.Catch(func() { c09read(c, i, sizes) }); p {
			c.Failf("scenario-panic", map[string]any{"kind": "c09/read", "index": i, "panic": fmt.Sprint(v)}, "read scenario %d panicked (implementation or harness): %v", i, v)
		}
	}
	// lagging reader over a stream whose chunks arrive over time
	lag := c.N / 8
	if lag < 16 {
		lag = 16
	}
	for i := 0; i < lag; i++ {
		i := i
		if p, v := hx.Catch(func() { c09lag(c, i) }); p {
			c.Failf("scenario-panic", map[string]any{"kind": "c09/lagging-reader", "index": i, "panic": fmt.Sprint(v)}, "lagging-reader scenario %d panicked (implementation or harness): %v", i, v)
		}
	}
	// Conn.Write
	for i := 0; i < c.N/5; i++ {
		if p, v := hx.Catch(func() { c09write(c) }); p {
			c.Failf("scenario-panic", map[string]any{"kind": "c09/write", "index": i, "panic": fmt.Sprint(v)}, "write scenario %d panicked (implementation or harness): %v", i, v)
		}
	}
}

func c09read(c *hx.Ctx, i int, sizes []int) {
	n := c.Rng.Intn(80)
	switch c.Rng.Intn(12) {
	case 0:
		n = 0
	case 1:
		n = 200 + c.Rng.Intn(100)
	case 2:
		if i%8 == 0 {
			n = 2040 + c.Rng.Intn(600)
		}
	}
	data := make([]byte, n)
	for k := range data { // position-dependent content: misplaced bytes are visible
		data[k] = byte(k*7 + k/256*13 + c.Rng.Intn(3))
	}
	chunks, cname := chunksFor(c, n)
	if n >= 2000 {
		chunks = []int{1, 2100, 5, 2048}
		if c.Rng.Intn(2) == 0 {
			chunks = nil
		}
		cname = "large"
	}
	src := &pipeEnd{chunkReader: newChunkReader(data, chunks)}
	ecls := 1
	if c.Rng.Intn(3) == 0 {
		src.endErr = errReset
		ecls = 20
	}
	src.eofData = c.Rng.Intn(3) == 0
	conn := rwc.NewConn(context.Background(), src, addr("l"), addr("r"), c.Rng.Intn(4))
	// buffer sizes
	big := c.Rng.Intn(3) == 0 // every buffer larger than everything written (and >= 2048)
	var bufs []int
	var obs []readObs
	ends := 0
	maxReads := 4 + c.Rng.Intn(12)
	if n >= 2000 || cname == "1-byte" {
		maxReads = 8 + c.Rng.Intn(8)
	}
	for r := 0; r < maxReads && ends < 2; r++ {
		bl := sizes[c.Rng.Intn(len(sizes))]
		if big {
			bl = 2048 + c.Rng.Intn(2)*2048
			if bl <= n {
				bl = n + 1
			}
		}
		buf := make([]byte, bl)
		k, err := conn.Read(buf)
		bufs = append(bufs, bl)
		switch {
		case err == nil:
			obs = append(obs, readObs{data: append([]byte{}, buf[:k]...)})
		case errors.Is(err, io.ErrShortBuffer):
			obs = append(obs, readObs{data: append([]byte{}, buf[:k]...), short: true})
		default:
			ends++
			e := 98
			if errors.Is(err, io.EOF) {
				e = 1
			} else if errors.Is(err, errReset) {
				e = 20
			}
			if k != 0 {
				e = 97
			}
			obs = append(obs, readObs{end: e})
		}
	}
	terms := make([]string, len(obs))
	var od []string
	for k, o := range obs {
		if o.end != 0 {
			terms[k] = hx.App("OEnd", hx.Nat(o.end))
			od = append(od, fmt.Sprintf("end:%d", o.end))
		} else {
			terms[k] = hx.App("OData", hx.Bytes(o.data), hx.Bool(o.short), "[]")
			od = append(od, fmt.Sprintf("%d:%v", len(o.data), o.short))
		}
	}
	desc := map[string]any{"kind": "conn", "len": n, "data": hx.Hex(clip(data)), "chunking": cname, "chunks": chunks, "bufs": bufs, "end_error": ecls, "eof_with_data": src.eofData, "reads": od}
	c.Case(hx.App("Cn", natList(chunks), hx.Bytes(data), hx.Nat(ecls), hx.NatList(bufs), hx.List(terms)), desc)
	c.Class("conn/" + cname)
	if big {
		c.Class("conn/big-buffers")
	}
	if len(obs) > 0 && obs[0].end == 0 {
		c.Nontrivial(fmt.Sprint(chunks, bufs, n))
	}
	connOracle(c, data, obs, ecls, big, desc)
}

// posByte is the position code: the byte at stream offset i (Frame/Run.v posdata).
func posByte(i int) byte { return byte(i*7 + i/256*13) }

// c09lag: position-coded data arrives in small / mixed chunks over time; the
// reader takes a packet or two, then lags while up to channel-capacity packets
// queue up behind it, then drains with large buffers. No read may report
// ErrShortBuffer, so every byte returned must be the byte of the next unread
// offset. Most runs pin GOMAXPROCS(1) so that buffers recycled by the reader
// are handed straight back to the pump.
func c09lag(c *hx.Ctx, idx int) {
	single := c.Rng.Intn(4) != 0
	if single {
		old := runtime.GOMAXPROCS(1)
		defer runtime.GOMAXPROCS(old)
	}
	nch := 12 + c.Rng.Intn(14)
	fixed := []int{64, 100, 200, 256, 300, 333, 500, 700}[c.Rng.Intn(8)]
	mixed := c.Rng.Intn(3) == 0
	chunks := make([]int, nch)
	total := 0
	for k := range chunks {
		chunks[k] = fixed
		if mixed {
			chunks[k] = 40 + c.Rng.Intn(460)
		}
		total += chunks[k]
	}
	data := make([]byte, total)
	for k := range data {
		data[k] = posByte(k)
	}
	capN := []int{0, 0, 4, 10, 16}[c.Rng.Intn(5)]
	capEff := capN
	if capEff <= 0 {
		capEff = 10
	}
	src := newGatedStream(data, chunks)
	conn := rwc.NewConn(context.Background(), src, addr("l"), addr("r"), capN)
	var bufs []int
	var obs []readObs
	ends := 0
	readOne := func() {
		bl := 4096
		buf := make([]byte, bl)
		k, err := conn.Read(buf)
		bufs = append(bufs, bl)
		switch {
		case err == nil:
			obs = append(obs, readObs{data: append([]byte{}, buf[:k]...)})
		case errors.Is(err, io.ErrShortBuffer):
			obs = append(obs, readObs{data: append([]byte{}, buf[:k]...), short: true})
		default:
			ends++
			e := 98
			if errors.Is(err, io.EOF) {
				e = 1
			}
			if k != 0 {
				e = 97
			}
			obs = append(obs, readObs{end: e})
		}
	}
	var sched []string
	released := 0
	rel := func(n int) {
		if released+n > nch {
			n = nch - released
		}
		if n > 0 {
			src.release(n)
			released += n
			src.settle()
			sched = append(sched, fmt.Sprintf("release %d", n))
		}
	}
	// read a packet or two early, lag, read a little, lag again ...
	for round := 0; round < 3 && released < nch; round++ {
		first := 1 + c.Rng.Intn(2)
		rel(first)
		for k := 0; k < first && len(obs) < released; k++ {
			readOne()
		}
		sched = append(sched, fmt.Sprintf("read %d", first))
		rel(1 + c.Rng.Intn(capEff+2)) // fall up to capacity (+ the packet the pump holds) behind
	}
	rel(nch)
	for ends < 2 && len(obs) < 4*nch+8 {
		readOne()
	}
	sched = append(sched, "drain")
	terms := make([]string, len(obs))
	var od []string
	for k, o := range obs {
		if o.end != 0 {
			terms[k] = hx.App("OEnd", hx.Nat(o.end))
			od = append(od, fmt.Sprintf("end:%d", o.end))
		} else {
			terms[k] = hx.App("OData", hx.Bytes(o.data), hx.Bool(o.short), "[]")
			od = append(od, fmt.Sprintf("%d:%v", len(o.data), o.short))
		}
	}
	desc := map[string]any{"kind": "conn/lagging-reader", "gomaxprocs1": single, "len": total, "data": "byte at offset i = (i*7 + i/256*13) mod 256", "chunks": chunks, "channel_capacity": capEff, "schedule": sched, "buffer": 4096, "reads": od}
	if idx < 5 { // also a Coq case (position-coded data is an expression, the observations are literals)
		c.Case(hx.App("Cn", natList(chunks), fmt.Sprintf("(posdata %d%%nat)", total), hx.Nat(1), natList(bufs), hx.List(terms)), desc)
	} else {
		c.Eval()
	}
	c.Class("conn/lagging-reader")
	c.Nontrivial(fmt.Sprint("lag", chunks, sched))
	// which read first returned a byte that is not the byte of its offset
	off := 0
	for k, o := range obs {
		if o.end != 0 {
			continue
		}
		for j, b := range o.data {
			if off+j >= total || b != posByte(off+j) {
				want := -1
				if off+j < total {
					want = int(posByte(off + j))
				}
				c.Failf("bytes-lost-or-reordered", desc, "read %d returned byte %d at stream offset %d where the writer wrote %d (no read reported ErrShortBuffer): queued data was lost, duplicated or overwritten", k, b, off+j, want)
				return
			}
		}
		if o.short {
			c.Failf("short-buffer-with-big-buffer", desc, "read %d with a 4096-byte buffer reported ErrShortBuffer", k)
			return
		}
		off += len(o.data)
	}
	connOracle(c, data, obs, 1, true, desc)
}

func c09write(c *hx.Ctx) {
	pkt := c.RandBytes(c.Rng.Intn(40))
	var acc []accept
	for k := c.Rng.Intn(5); k > 0; k-- {
		acc = append(acc, accept{n: 1 + c.Rng.Intn(12), fail: c.Rng.Intn(6) == 0})
	}
	sink := &pipeEnd{chunkReader: newChunkReader(nil, nil), accepts: append([]accept{}, acc...), werr: errReset}
	conn := rwc.NewConn(context.Background(), sink, addr("l"), addr("r"), 1)
	k, err := conn.Write(pkt)
	items := make([]string, len(acc))
	for j, a := range acc {
		items[j] = fmt.Sprintf("(%d%%nat, %s)", a.n, hx.Bool(a.fail))
	}
	desc := map[string]any{"kind": "conn/write", "pkt": hx.Hex(pkt), "accepts": fmt.Sprint(acc), "writes": hexes(sink.writes), "n": k, "err": err != nil}
	c.Case(hx.App("Wr", hx.List(items), hx.Bytes(pkt), hx.BytesList(sink.writes), hx.Nat(k), hx.Bool(err != nil)), desc)
	c.Class("conn/write")
	// oracle: what reached the stream is a prefix of pkt of exactly the reported length; complete unless an error is reported
	w := sink.written()
	if k != len(w) || !bytes.HasPrefix(pkt, w) {
		c.Failf("write-count-wrong", desc, "Write reported %d bytes, the stream received %x of %x", k, w, pkt)
	}
	if err == nil && k != len(pkt) {
		c.Failf("write-incomplete-without-error", desc, "Write returned %d of %d bytes and no error", k, len(pkt))
	}
}

// connOracle checks the property text directly: the returned bytes are the
// next unread bytes of the stream, in order; bytes are skipped only right
// after a read that reported io.ErrShortBuffer; the end is reported with the
// underlying error, and only after everything was delivered.
func connOracle(c *hx.Ctx, data []byte, obs []readObs, ecls int, big bool, desc any) {
	// reach[p]: some alignment has consumed exactly data[:p] so far
	reach := map[int]bool{0: true}
	prevShort := false
	for k, o := range obs {
		if o.end != 0 {
			if o.end != ecls {
				c.Failf("end-error-misreported", desc, "read %d reported end class %d, the underlying stream ended with class %d", k, o.end, ecls)
			}
			ok := false
			for p := range reach {
				if p == len(data) || prevShort {
					ok = true
				}
			}
			if !ok {
				c.Failf("end-before-all-data", desc, "read %d reported the end of the stream but not all %d bytes were delivered", k, len(data))
			}
			continue
		}
		if big && o.short {
			c.Failf("short-buffer-with-big-buffer", desc, "read %d with a buffer larger than all the data written reported ErrShortBuffer", k)
		}
		next := map[int]bool{}
		for p := range reach {
			lo, hi := p, p
			if prevShort {
				hi = len(data) - len(o.data)
			}
			for q := lo; q <= hi; q++ {
				if q+len(o.data) <= len(data) && bytes.Equal(data[q:q+len(o.data)], o.data) {
					next[q+len(o.data)] = true
				}
			}
		}
		if len(next) == 0 {
			c.Failf("bytes-lost-or-reordered", desc, "read %d returned %x which is not the next unread data (bytes may only be skipped right after a short-buffer read)", k, clip(o.data))
			return
		}
		reach = next
		prevShort = o.short
	}
	if big {
		var all []byte
		for _, o := range obs {
			all = append(all, o.data...)
		}
		if !bytes.HasPrefix(data, all) {
			c.Failf("big-buffers-not-a-prefix", desc, "with buffers larger than all the data written the returned bytes are not a prefix of the stream")
		}
	}
}
