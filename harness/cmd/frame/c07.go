package main

import (
	"bytes"
	"context"
	"errors"
	"fmt"
	"io"
	"sync"
	"time"
	"unicode/utf8"

	"github.com/aperturerobotics/bifrost/link"
	"github.com/aperturerobotics/bifrost/peer"
	"github.com/aperturerobotics/bifrost/protocol"
	"github.com/aperturerobotics/bifrost/stream"
	"github.com/aperturerobotics/bifrost/testbed"
	tptc "github.com/aperturerobotics/bifrost/transport/controller"
	"github.com/aperturerobotics/controllerbus/controller"
	"github.com/aperturerobotics/controllerbus/directive"
	"github.com/blang/semver/v4"
	"github.com/sirupsen/logrus"
	"verifharness/internal/hx"
)

// header case: bytes on the stream, what the generator intends.
type hdrInput struct {
	data       []byte
	kind       string
	mustAccept bool   // well-formed header of a valid protocol ID
	mustReject bool   // one of the rejection classes of the property
	pid        []byte // for mustAccept
	payload    []byte // for mustAccept
}

func varint(v uint64) []byte {
	var out []byte
	for v >= 0x80 {
		out = append(out, byte(v)|0x80)
		v >>= 7
	}
	return append(out, byte(v))
}

func varintPadded(v uint64, n int) []byte { // non-minimal encoding on n bytes
	out := make([]byte, n)
	for i := 0; i < n; i++ {
		out[i] = byte(v&0x7f) | 0x80
		v >>= 7
	}
	out[n-1] &= 0x7f
	return out
}

var pidAlphabet = []string{"a", "z", "/", "-", ".", "0", "é", "ß", "中", "文", "€", "😀", "\u0000", "\u007f", "ࠀ", "￿", "\U00010000", "\U0010ffff"}

func validPid(c *hx.Ctx, n int) []byte {
	var b []byte
	for len(b) < n {
		b = append(b, pidAlphabet[c.Rng.Intn(len(pidAlphabet))]...)
	}
	for !utf8.Valid(b[:n]) {
		n++
		if n > len(b) {
			b = append(b, 'x')
		}
	}
	return b[:n]
}

var badUtf8 = [][]byte{{0x80}, {0xc0, 0x80}, {0xc1, 0xbf}, {0xe0, 0x80, 0x80}, {0xe0, 0x9f, 0xbf}, {0xed, 0xa0, 0x80}, {0xed, 0xbf, 0xbf},
	{0xf0, 0x80, 0x80, 0x80}, {0xf0, 0x8f, 0xbf, 0xbf}, {0xf4, 0x90, 0x80, 0x80}, {0xf5, 0x80, 0x80, 0x80}, {0xff}, {0xfe}, {0xc2}, {0xe2, 0x82}, {0xf0, 0x9f, 0x98}, {0xc2, 0x41}, {0xe2, 0x28, 0xa1}}

func body(pid []byte) []byte {
	if len(pid) == 0 {
		return nil
	}
	out := []byte{0x0a}
	out = append(out, varint(uint64(len(pid)))...)
	return append(out, pid...)
}

func unknownField(c *hx.Ctx) []byte {
	fn := uint64(2 + c.Rng.Intn(30))
	if c.Rng.Intn(6) == 0 {
		fn = uint64(1<<29 - 1)
	}
	switch c.Rng.Intn(6) {
	case 0:
		return append(varint(fn<<3|0), varint(uint64(c.Rng.Int63()))...)
	case 1:
		return append(varint(fn<<3|1), c.RandBytes(8)...)
	case 2:
		d := c.RandBytes(c.Rng.Intn(6))
		return append(append(varint(fn<<3|2), varint(uint64(len(d)))...), d...)
	case 3: // group with a nested field
		in := append(varint(3<<3|0), 7)
		out := append(varint(fn<<3|3), in...)
		return append(out, varint(fn<<3|4)...)
	case 4:
		return append(varint(fn<<3|5), c.RandBytes(4)...)
	default:
		return append(varintPadded(fn<<3|0, 3), varintPadded(5, 10)...)
	}
}

func genHeader(c *hx.Ctx, i int) hdrInput {
	maxSz := tptc.VerifStreamEstablishMaxPacketSize()
	payload := c.RandBytes(c.Rng.Intn(12))
	if c.Rng.Intn(4) == 0 {
		payload = nil
	}
	mk := func(pid []byte) []byte {
		return tptc.VerifMarshalStreamEstablishHeader(tptc.NewStreamEstablish(protocol.ID(pid)))
	}
	cat := func(parts ...[]byte) []byte {
		var o []byte
		for _, p := range parts {
			o = append(o, p...)
		}
		return o
	}
	sel := c.Rng.Intn(100)
	switch {
	case sel < 40: // valid
		n := 1 + c.Rng.Intn(24)
		switch c.Rng.Intn(10) {
		case 0:
			n = 1
		case 1:
			n = 125 + c.Rng.Intn(6) // body length crosses the 1->2 byte varint boundary
		case 2:
			if i%3 == 0 {
				n = 200 + c.Rng.Intn(60)
			}
		}
		pid := validPid(c, n)
		return hdrInput{data: cat(mk(pid), payload), kind: "valid", mustAccept: true, pid: pid, payload: payload}
	case sel < 46: // invalid utf-8 pid
		pid := cat(validPid(c, c.Rng.Intn(4)), badUtf8[c.Rng.Intn(len(badUtf8))], validPid(c, c.Rng.Intn(3)))
		if utf8.Valid(pid) {
			pid = []byte{0xff}
		}
		return hdrInput{data: cat(mk(pid), payload), kind: "invalid-utf8", mustReject: true}
	case sel < 49: // empty pid as the opener would write it: a single zero byte
		return hdrInput{data: cat(mk(nil), payload), kind: "empty-pid", mustReject: true}
	case sel < 53: // zero length prefix, also non-minimal
		z := [][]byte{{0}, {0x80, 0}, {0x80, 0x80, 0}, {0x80, 0x80, 0x80, 0}}[c.Rng.Intn(4)]
		return hdrInput{data: cat(z, c.RandBytes(c.Rng.Intn(8))), kind: "zero-length", mustReject: true}
	case sel < 60: // oversized
		var pre []byte
		switch c.Rng.Intn(6) {
		case 0:
			pre = varint(maxSz + 1)
		case 1:
			pre = varint(maxSz + 1 + uint64(c.Rng.Intn(1000000)))
		case 2:
			pre = varint(1<<28 - 1)
		case 3:
			pre = varint(1 << 31)
		case 4:
			pre = varint(1 << 63)
		default:
			pre = []byte{0xff, 0xff, 0xff, 0xff, 0xff, 0xff, 0xff, 0xff, 0xff, 0x7f}
		}
		return hdrInput{data: cat(pre, validPid(c, 5), c.RandBytes(c.Rng.Intn(8))), kind: "oversized", mustReject: true}
	case sel < 68: // truncated
		pid := validPid(c, 1+c.Rng.Intn(20))
		h := mk(pid)
		return hdrInput{data: h[:c.Rng.Intn(len(h))], kind: "truncated", mustReject: true}
	case sel < 76: // undecodable body
		pid := validPid(c, 1+c.Rng.Intn(8))
		var b []byte
		switch c.Rng.Intn(7) {
		case 0: // field 1 with a wrong wire type
			b = cat([]byte{byte(1<<3 | []int{0, 1, 5, 3}[c.Rng.Intn(4)])}, varint(uint64(len(pid))), pid, c.RandBytes(8))
		case 1: // string length beyond the body
			b = cat([]byte{0x0a}, varint(uint64(len(pid)+1+c.Rng.Intn(5))), pid)
		case 2: // tag cut inside a varint
			b = cat(body(pid), []byte{0x80})
		case 3: // end-group without a group
			b = cat(body(pid), varint(uint64(2+c.Rng.Intn(5))<<3|4))
		case 4: // field number zero
			b = cat([]byte{0x02}, varint(uint64(len(pid))), pid)
		case 5: // unterminated group
			b = cat(body(pid), varint(5<<3|3), []byte{0x08, 0x01})
		default: // wire types 6, 7
			b = cat(body(pid), []byte{byte(2<<3 | 6 + c.Rng.Intn(2))}, c.RandBytes(3))
		}
		return hdrInput{data: cat(varint(uint64(len(b))), b, payload), kind: "undecodable", mustReject: true}
	case sel < 88: // decodable but unusual: unknown fields, repeated field 1, non-minimal varints
		pid := validPid(c, 1+c.Rng.Intn(10))
		var b []byte
		switch c.Rng.Intn(6) {
		case 0:
			b = cat(unknownField(c), body(pid))
		case 1:
			b = cat(body(pid), unknownField(c))
		case 2: // last one wins
			b = cat(body(validPid(c, 3)), unknownField(c), body(pid))
		case 3: // non-minimal tag and length
			b = cat(varintPadded(0x0a, 1+c.Rng.Intn(4)), varintPadded(uint64(len(pid)), 1+c.Rng.Intn(3)), pid)
		case 4: // field number 2^32+1 is truncated to 1 by int32()
			b = cat(varint((1<<32+1)<<3|2), varint(uint64(len(pid))), pid)
		default: // only unknown fields: empty pid
			b = cat(unknownField(c), unknownField(c))
		}
		pre := varint(uint64(len(b)))
		if c.Rng.Intn(3) == 0 {
			pre = varintPadded(uint64(len(b)), 2+c.Rng.Intn(3))
		}
		return hdrInput{data: cat(pre, b, payload), kind: "unusual"}
	case sel < 91: // declared length 1 or 2 (cannot carry a protocol ID), plain and padded prefixes
		bodies := [][]byte{{0x0a}, {0x08}, {0x00}, {0x0b}, {0x0c}, {0x0f}, {0x80}, {0xff}, {0x0a, 0x00}, {0x0a, 0x01}, {0x0a, 0x7f}, {0x0a, 0x80}, {0x10, 0x05}, {0x12, 0x00}, {0x12, 0x01}, {0x0d, 0x01}, {0x09, 0x01}, {0x1b, 0x1c}, {0x80, 0x01}, {0xff, 0xff}}
		b := bodies[c.Rng.Intn(len(bodies))]
		pre := varint(uint64(len(b)))
		if c.Rng.Intn(2) == 0 {
			pre = varintPadded(uint64(len(b)), 2+c.Rng.Intn(4)) // 5 bytes: longer than the prefetch
		}
		tail := c.RandBytes(c.Rng.Intn(7))
		if c.Rng.Intn(3) == 0 {
			tail = nil
		}
		return hdrInput{data: cat(pre, b, tail), kind: "declared-length-1-2", mustReject: true}
	case sel < 94: // short headers (< 4 bytes): the prefetch reads beyond them
		b := [][]byte{{0x10, 0x01}, {0x15}, {0x12, 0x00}, {0x0a, 0x00}, {0x18}}[c.Rng.Intn(5)]
		return hdrInput{data: cat(varint(uint64(len(b))), b, payload), kind: "short-header"}
	default:
		n := c.Rng.Intn(24)
		d := c.RandBytes(n)
		if n > 0 && c.Rng.Intn(2) == 0 {
			d[0] = byte(c.Rng.Intn(n + 2))
		}
		return hdrInput{data: d, kind: "random"}
	}
}

func limitCases(c *hx.Ctx) []hdrInput {
	maxSz := int(tptc.VerifStreamEstablishMaxPacketSize())
	var out []hdrInput
	// body = 1 + len(varint(n)) + n
	for _, bodyLen := range []int{maxSz, maxSz + 1} {
		n := bodyLen - 1 - len(varint(uint64(bodyLen)))
		for 1+len(varint(uint64(n)))+n < bodyLen {
			n++
		}
		pid := bytes.Repeat([]byte{'p'}, n)
		h := tptc.VerifMarshalStreamEstablishHeader(tptc.NewStreamEstablish(protocol.ID(pid)))
		payload := []byte{1, 2, 3}
		in := hdrInput{data: append(h, payload...), pid: pid, payload: payload}
		if 1+len(varint(uint64(n)))+n <= maxSz {
			in.kind, in.mustAccept = "valid-at-limit", true
		} else {
			in.kind, in.mustReject = "oversized-by-one", true
		}
		out = append(out, in)
	}
	return out
}

// runHeader executes readStreamEstablishHeader + Validate on the real code.
func runHeader(data []byte, chunks []int, de bool) (cls int, pid, rest []byte) {
	r := newChunkReader(data, chunks)
	r.eofData = de
	var est *tptc.StreamEstablish
	var err error
	if p, _ := hx.Catch(func() { est, err = tptc.VerifReadStreamEstablishHeader(r) }); p {
		return 99, nil, nil
	}
	if err != nil {
		if errors.Is(err, io.EOF) {
			return 1, nil, nil
		}
		return 2, nil, nil
	}
	id := protocol.ID(est.GetProtocolId())
	if verr := id.Validate(); verr != nil {
		if errors.Is(verr, protocol.ErrEmptyProtocolID) {
			return 7, nil, nil
		}
		return 8, nil, nil
	}
	return 0, []byte(id), r.rest()
}

func c07(c *hx.Ctx) {
	c.Type = "c07_case"
	c.Agree = "c07_agree"
	c.Rule = "stream-establish headers: marshalled valid protocol IDs (ASCII/multi-byte UTF-8, 1..260 bytes, two cases at the size limit) + payload under 1-byte / all-at-once / random chunkings, a quarter of them with the last bytes delivered together with io.EOF; malformed stream: zero and oversized length prefixes, truncations, declared lengths 1 and 2, padded (non-minimal) varint prefixes, wrong wire types, bad inner lengths, groups, unknown fields, non-minimal varints, invalid UTF-8, short headers, random bytes; end-to-end HandleIncomingStream with a fake link and a recording HandleMountedStream handler controller, one stream at a time and 2..4 streams on the same bus back to back / overlapping that differ in one of protocol ID, local peer, remote peer; IsEquivalent of the directive on pairs differing in one field; non-trivial = distinct accepted header or distinct rejected malformed header"
	// marshal
	for i := 0; i < c.N/10; i++ {
		pid := validPid(c, c.Rng.Intn(30))
		if c.Rng.Intn(5) == 0 {
			pid = c.RandBytes(c.Rng.Intn(200))
		}
		out := tptc.VerifMarshalStreamEstablishHeader(tptc.NewStreamEstablish(protocol.ID(pid)))
		c.Case(hx.App("Marsh", hx.Bytes(pid), hx.Bytes(out)), map[string]any{"kind": "marshal", "pid": hx.Hex(pid), "out": hx.Hex(out)})
		c.Class("marshal")
	}
	// size limit: implementation + oracle only (100 kB literals are too slow for Coq;
	// the theorems cover every size)
	for _, in := range limitCases(c) {
		chunks := []int{3, 1, 70000, 5}
		cls, pid, rest := runHeader(in.data, chunks, false)
		c.Eval()
		c.Class(in.kind)
		headerOracle(c, in, false, cls, pid, rest, map[string]any{"kind": in.kind, "len": len(in.data), "chunks": chunks, "class": cls, "data_prefix": hx.Hex(clip(in.data))})
	}
	inputs := []hdrInput{}
	for i := 0; i < c.N; i++ {
		inputs = append(inputs, genHeader(c, i))
	}
	for k, in := range inputs {
		k, in := k, in
		if p, v := hx.Catch(func() { c07header(c, in) }); p {
			c.Failf("scenario-panic", map[string]any{"kind": "c07/header", "index": k, "data": hx.Hex(clip(in.data)), "panic": fmt.Sprint(v)}, "header scenario %d panicked outside the guarded call of the implementation: %v", k, v)
		}
	}
	if p, v := hx.Catch(func() { c07dispatch(c) }); p {
		c.Failf("scenario-panic", map[string]any{"kind": "c07/dispatch", "panic": fmt.Sprint(v)}, "dispatch scenarios panicked: %v", v)
	}
}

func c07header(c *hx.Ctx, in hdrInput) {
	chunks, cname := chunksFor(c, len(in.data))
	de := c.Rng.Intn(4) == 0 // the last bytes arrive together with io.EOF
	cls, pid, rest := runHeader(in.data, chunks, de)
	desc := map[string]any{"kind": in.kind, "eof_with_last_read": de, "chunking": cname, "chunks": chunks, "data": hx.Hex(clip(in.data)), "len": len(in.data), "class": cls, "pid": hx.Hex(clip(pid)), "rest": hx.Hex(rest)}
	c.Case(hx.App("Hdr", hx.Bool(de), natList(chunks), hx.Bytes(in.data), hx.Nat(cls), hx.Bytes(pid), hx.Bytes(rest)), desc)
	c.Class(in.kind + "/" + cname)
	if de {
		c.Class("eof-with-last-read/" + in.kind)
	}
	c.Class("outcome-" + map[int]string{0: "accepted", 1: "eof", 2: "header-error", 7: "empty-pid", 8: "invalid-pid", 99: "panic"}[cls])
	c.Nontrivial(in.kind + hx.Hex(clip(in.data)))
	headerOracle(c, in, de, cls, pid, rest, desc)
	// chunking independence, directly: the other two styles must give the same result
	for _, alt := range [][]int{c.Chunking(len(in.data), 0), nil} {
		c2, p2, r2 := runHeader(in.data, alt, de)
		c.Eval()
		if c2 != cls || !bytes.Equal(p2, pid) || !bytes.Equal(r2, rest) {
			c.Failf("header-depends-on-chunking", desc, "chunking %v gives class %d pid %x rest %x, chunking %v gives class %d pid %x rest %x", chunks, cls, pid, rest, alt, c2, p2, r2)
		}
	}
}

func clip(b []byte) []byte {
	if len(b) > 96 {
		return b[:96]
	}
	return b
}

func headerOracle(c *hx.Ctx, in hdrInput, de bool, cls int, pid, rest []byte, desc any) {
	if cls == 99 {
		c.Failf("header-panic", desc, "readStreamEstablishHeader panicked")
	}
	if in.mustAccept {
		if cls != 0 && de {
			c.Failf("valid-header-rejected/eof-with-last-read", desc, "a marshalled header of a valid protocol ID was rejected (class %d) when the Read delivering the last bytes also reported io.EOF", cls)
		} else if cls != 0 {
			c.Failf("valid-header-rejected", desc, "a marshalled header of a valid protocol ID was rejected (class %d)", cls)
		} else {
			if !bytes.Equal(pid, in.pid) {
				c.Failf("pid-mismatch", desc, "decoded protocol ID %x, opener wrote %x", clip(pid), clip(in.pid))
			}
			if !bytes.Equal(rest, in.payload) {
				c.Failf("payload-not-intact", desc, "bytes left for the application %x, payload written after the header %x", rest, in.payload)
			}
		}
	}
	if in.mustReject && cls == 0 {
		c.Failf("malformed-header-accepted/"+in.kind, desc, "a %s header was accepted with protocol ID %x", in.kind, clip(pid))
	}
	if cls == 0 {
		if len(pid) == 0 || !utf8.Valid(pid) {
			c.Failf("invalid-pid-accepted", desc, "accepted protocol ID %x is empty or not UTF-8", clip(pid))
		}
		if !bytes.HasSuffix(in.data, rest) {
			c.Failf("rest-not-a-suffix", desc, "bytes left %x are not the tail of the stream", rest)
		}
	}
}

// ---- end-to-end dispatch through Controller.HandleIncomingStream ----

type fakeStream struct {
	*chunkReader
	mu     sync.Mutex
	closed int
}

func (s *fakeStream) Write(b []byte) (int, error)      { return len(b), nil }
func (s *fakeStream) SetReadDeadline(time.Time) error  { return nil }
func (s *fakeStream) SetWriteDeadline(time.Time) error { return nil }
func (s *fakeStream) SetDeadline(time.Time) error      { return nil }
func (s *fakeStream) Close() error {
	s.mu.Lock()
	s.closed++
	s.mu.Unlock()
	return nil
}

type fakeLink struct {
	local, remote peer.ID
}

func (l *fakeLink) GetUUID() uint64                { return 11 }
func (l *fakeLink) GetTransportUUID() uint64       { return 22 }
func (l *fakeLink) GetRemoteTransportUUID() uint64 { return 33 }
func (l *fakeLink) OpenStream(stream.OpenOpts) (stream.Stream, error) {
	return nil, errors.New("not supported")
}
func (l *fakeLink) AcceptStream() (stream.Stream, stream.OpenOpts, error) {
	return nil, stream.OpenOpts{}, errors.New("not supported")
}
func (l *fakeLink) GetRemotePeer() peer.ID { return l.remote }
func (l *fakeLink) GetLocalPeer() peer.ID  { return l.local }
func (l *fakeLink) Close() error           { return nil }

type dispatchRec struct {
	strm               stream.Stream // identity of the stream handed to the handler
	pid, local, remote string        // as carried by the directive
	msPid, msPeer      string        // as carried by the mounted stream
	lnkLocal, lnkRem   string
	rest               []byte
}

type recorder struct {
	mu   sync.Mutex
	recs []dispatchRec
	// hold: while non-nil, a handler that receives a stream blocks on it
	// (keeps the lookup directive referenced) after signalling entered
	hold    chan struct{}
	entered chan struct{}
}

type recHandler struct {
	r   *recorder
	dir link.HandleMountedStream
}

func (h *recHandler) HandleMountedStream(ctx context.Context, ms link.MountedStream) error {
	rest, _ := io.ReadAll(ms.GetStream())
	h.r.mu.Lock()
	hold, entered := h.r.hold, h.r.entered
	h.r.hold, h.r.entered = nil, nil // only the first stream of an overlapping pair waits
	h.r.mu.Unlock()
	if hold != nil {
		close(entered)
		select {
		case <-hold:
		case <-time.After(3 * time.Second):
		}
	}
	h.r.mu.Lock()
	h.r.recs = append(h.r.recs, dispatchRec{
		strm:     ms.GetStream(),
		pid:      string(h.dir.HandleMountedStreamProtocolID()),
		local:    string(h.dir.HandleMountedStreamLocalPeerID()),
		remote:   string(h.dir.HandleMountedStreamRemotePeerID()),
		msPid:    string(ms.GetProtocolID()),
		msPeer:   string(ms.GetPeerID()),
		lnkLocal: string(ms.GetLink().GetLocalPeer()),
		lnkRem:   string(ms.GetLink().GetRemotePeer()),
		rest:     rest,
	})
	h.r.mu.Unlock()
	return nil
}

type recController struct{ r *recorder }

func (rc *recController) GetControllerInfo() *controller.Info {
	return controller.NewInfo("verif/recorder", semver.MustParse("0.0.1"), "records HandleMountedStream")
}
func (rc *recController) Execute(ctx context.Context) error { return nil }
func (rc *recController) Close() error                      { return nil }
func (rc *recController) HandleDirective(ctx context.Context, di directive.Instance) ([]directive.Resolver, error) {
	if d, ok := di.GetDirective().(link.HandleMountedStream); ok {
		var h link.MountedStreamHandler = &recHandler{r: rc.r, dir: d}
		return directive.R(directive.NewValueResolver([]link.MountedStreamHandler{h}), nil)
	}
	return nil, nil
}

// c07equiv ties triple_eqb to HandleMountedStream.IsEquivalent: directives
// differing in any one field are not equivalent, equal ones are.
func c07equiv(c *hx.Ctx) {
	vals := [][]byte{[]byte("a"), []byte("b"), []byte("ab"), []byte("a/b"), []byte("A")}
	pick := func() []byte { return vals[c.Rng.Intn(len(vals))] }
	for i := 0; i < 24; i++ {
		t1 := [3][]byte{pick(), pick(), pick()}
		t2 := t1
		switch c.Rng.Intn(5) {
		case 0: // equal
		case 1, 2, 3:
			f := c.Rng.Intn(3)
			for bytes.Equal(t2[f], t1[f]) {
				t2[f] = pick()
			}
		default:
			t2 = [3][]byte{pick(), pick(), pick()}
		}
		d1 := link.NewHandleMountedStream(protocol.ID(t1[0]), peer.ID(t1[1]), peer.ID(t1[2]))
		d2 := link.NewHandleMountedStream(protocol.ID(t2[0]), peer.ID(t2[1]), peer.ID(t2[2]))
		type equiv interface {
			IsEquivalent(directive.Directive) bool
		}
		eq, eq2 := d1.(equiv).IsEquivalent(d2), d2.(equiv).IsEquivalent(d1)
		same := bytes.Equal(t1[0], t2[0]) && bytes.Equal(t1[1], t2[1]) && bytes.Equal(t1[2], t2[2])
		desc := map[string]any{"kind": "directive-equivalence", "a": []string{string(t1[0]), string(t1[1]), string(t1[2])}, "b": []string{string(t2[0]), string(t2[1]), string(t2[2])}, "equivalent": eq}
		c.Case(hx.App("Eqv", hx.Bytes(t1[0]), hx.Bytes(t1[1]), hx.Bytes(t1[2]), hx.Bytes(t2[0]), hx.Bytes(t2[1]), hx.Bytes(t2[2]), hx.Bool(eq)), desc)
		c.Class("directive-equivalence")
		if eq != same || eq2 != same {
			c.Failf("directive-equivalence-wrong", desc, "HandleMountedStream(%q,%q,%q).IsEquivalent(HandleMountedStream(%q,%q,%q)) = %v / %v, the triples are equal: %v (lookups for different streams would be merged on the bus)", t1[0], t1[1], t1[2], t2[0], t2[1], t2[2], eq, eq2, same)
		}
	}
}

type multiStream struct {
	in            hdrInput
	local, remote string
	chunks        []int
	de            bool
	strm          *fakeStream
}

// c07multi: several streams on the SAME bus within the dispose delay of the
// lookup directives (back to back, or the second while the handler of the
// first is still running): same protocol ID / local peer / remote peer except
// for one field. Every accepted stream must be served by a lookup that carried
// exactly its own protocol ID and its own link's peers.
func c07multi(c *hx.Ctx, ctx context.Context, ctrl *tptc.Controller, rec *recorder, round int) {
	mk := func(pid []byte) []byte {
		return tptc.VerifMarshalStreamEstablishHeader(tptc.NewStreamEstablish(protocol.ID(pid)))
	}
	tag := fmt.Sprintf("%d", round%7) // a few rounds share triples with earlier rounds (live or just disposed lookups)
	pids := []string{"multi/a" + tag, "multi/b" + tag}
	locals := []string{"local-1", "local-2"}
	remotes := []string{"remote-B", "remote-C", "remote-D"}
	base := [3]int{c.Rng.Intn(2), c.Rng.Intn(2), c.Rng.Intn(3)}
	n := 2 + c.Rng.Intn(3)
	var ss []*multiStream
	for k := 0; k < n; k++ {
		t := base
		if k > 0 {
			switch c.Rng.Intn(6) {
			case 0, 1, 2: // the interesting one: other remote peer, same protocol and local peer
				t[2] = (base[2] + 1 + c.Rng.Intn(2)) % 3
			case 3:
				t[1] = 1 - base[1]
			case 4:
				t[0] = 1 - base[0]
			default: // identical triple: may legitimately share the lookup
			}
		}
		var in hdrInput
		if c.Rng.Intn(6) == 0 {
			in = genHeader(c, k)
			in.mustAccept, in.pid = false, nil // only the generic oracle for these
		} else {
			payload := c.RandBytes(c.Rng.Intn(6))
			in = hdrInput{data: append(mk([]byte(pids[t[0]])), payload...), kind: "valid", mustAccept: true, pid: []byte(pids[t[0]]), payload: payload}
		}
		chunks, _ := chunksFor(c, len(in.data))
		m := &multiStream{in: in, local: locals[t[1]], remote: remotes[t[2]], chunks: chunks, de: c.Rng.Intn(4) == 0}
		m.strm = &fakeStream{chunkReader: newChunkReader(in.data, chunks)}
		m.strm.eofData = m.de
		ss = append(ss, m)
	}
	overlap := c.Rng.Intn(2) == 0
	rec.mu.Lock()
	before := len(rec.recs)
	var hold, entered chan struct{}
	if overlap {
		hold, entered = make(chan struct{}), make(chan struct{})
		rec.hold, rec.entered = hold, entered
	}
	rec.mu.Unlock()
	run := func(m *multiStream) bool {
		p, _ := hx.Catch(func() {
			ctrl.HandleIncomingStream(ctx, nil, &fakeLink{local: peer.ID(m.local), remote: peer.ID(m.remote)}, m.strm, stream.OpenOpts{})
		})
		return p
	}
	panicked := false
	if overlap {
		// the first stream that reaches a handler stays there (its lookup referenced) while the others are handled
		done := make(chan bool, 1)
		go func() { done <- run(ss[0]) }()
		select {
		case <-entered:
		case p := <-done: // rejected: never reached a handler
			panicked = panicked || p
			done <- false
			rec.mu.Lock()
			rec.hold, rec.entered = nil, nil
			rec.mu.Unlock()
		case <-time.After(3 * time.Second):
		}
		for _, m := range ss[1:] {
			panicked = run(m) || panicked
		}
		rec.mu.Lock()
		rec.hold, rec.entered = nil, nil
		rec.mu.Unlock()
		close(hold)
		select {
		case p := <-done:
			panicked = panicked || p
		case <-time.After(5 * time.Second):
		}
	} else {
		for _, m := range ss {
			panicked = run(m) || panicked
		}
	}
	rec.mu.Lock()
	got := append([]dispatchRec{}, rec.recs[before:]...)
	rec.mu.Unlock()
	mode := map[bool]string{false: "back-to-back", true: "overlapping"}[overlap]
	var evs, obs []string
	var sdesc []map[string]any
	desc := map[string]any{"kind": "dispatch-many/" + mode}
	for _, m := range ss {
		evs = append(evs, hx.App("Arrive", hx.Bool(m.de), hx.Str(m.local), hx.Str(m.remote), "("+natList(m.chunks)+", "+hx.Bytes(m.in.data)+")"))
		var d *dispatchRec
		cnt := 0
		for k := range got {
			if got[k].strm == stream.Stream(m.strm) {
				d = &got[k]
				cnt++
			}
		}
		one := map[string]any{"local": m.local, "remote": m.remote, "data": hx.Hex(m.in.data), "chunks": m.chunks, "eof_with_last_read": m.de, "dispatched": cnt}
		if d == nil {
			obs = append(obs, "(Rejected 0%nat)")
		} else {
			tr := func(p, l, r string) string { return "(" + hx.Str(p) + ", " + hx.Str(l) + ", " + hx.Str(r) + ")" }
			obs = append(obs, hx.App("Served", tr(d.msPid, d.lnkLocal, d.msPeer), tr(d.pid, d.local, d.remote), hx.Bytes(d.rest)))
			one["served_by_lookup"] = []string{d.pid, d.local, d.remote}
			one["stream_triple"] = []string{d.msPid, d.lnkLocal, d.msPeer}
		}
		sdesc = append(sdesc, one)
	}
	desc["streams"] = sdesc
	c.Case(hx.App("Multi", hx.List(evs), hx.List(obs)), desc)
	c.Class("dispatch-many/" + mode)
	c.Nontrivial(fmt.Sprint("multi", round, evs))
	if panicked {
		c.Failf("dispatch-panic", desc, "HandleIncomingStream panicked")
	}
	// oracle, from the property text
	for k, m := range ss {
		var d *dispatchRec
		cnt := 0
		for j := range got {
			if got[j].strm == stream.Stream(m.strm) {
				d = &got[j]
				cnt++
			}
		}
		if cnt > 1 {
			c.Failf("dispatched-twice", desc, "stream %d was handed to a handler %d times", k, cnt)
		}
		if m.in.mustAccept && d == nil {
			c.Failf("valid-stream-not-dispatched", desc, "stream %d (valid header for %q on link %s<-%s) was not dispatched", k, m.in.pid, m.local, m.remote)
		}
		if m.in.mustReject && d != nil {
			c.Failf("malformed-stream-dispatched/"+m.in.kind, desc, "stream %d with a %s header was dispatched as %q", k, m.in.kind, d.pid)
		}
		if d == nil {
			if m.strm.closed == 0 {
				c.Failf("rejected-stream-not-closed", desc, "stream %d was neither dispatched nor closed", k)
			}
			continue
		}
		if d.lnkLocal != m.local || d.msPeer != m.remote || d.lnkRem != m.remote || (m.in.mustAccept && d.msPid != string(m.in.pid)) {
			c.Failf("mounted-stream-inconsistent", desc, "stream %d arrived on link (%s, %s) for %q, the mounted stream says (%s, %s) %q", k, m.local, m.remote, m.in.pid, d.lnkLocal, d.msPeer, d.msPid)
		}
		if d.pid != d.msPid || d.local != m.local || d.remote != m.remote {
			c.Failf("dispatch-served-by-other-lookup", desc, "stream %d (protocol %q, local %s, remote %s) was handed to the handler of a lookup carrying (protocol %q, local %s, remote %s): the lookup for this stream was not made with its own triple (%s)", k, d.msPid, m.local, m.remote, d.pid, d.local, d.remote, mode)
		}
		if m.in.mustAccept && !bytes.Equal(d.rest, m.in.payload) {
			c.Failf("dispatch-payload-not-intact", desc, "stream %d: handler read %x, payload was %x", k, d.rest, m.in.payload)
		}
	}
}

func c07dispatch(c *hx.Ctx) {
	ctx, cancel := context.WithCancel(context.Background())
	defer cancel()
	log := logrus.New()
	log.SetOutput(io.Discard)
	le := logrus.NewEntry(log)
	tb, err := testbed.NewTestbed(ctx, le, testbed.TestbedOpts{NoPeer: true, NoEcho: true})
	if err != nil {
		panic(err)
	}
	rec := &recorder{}
	rel, err := tb.Bus.AddController(ctx, &recController{r: rec}, nil)
	if err != nil {
		panic(err)
	}
	defer rel()
	ctrl := tptc.NewController(le, tb.Bus, controller.NewInfo("verif/tptc", semver.MustParse("0.0.1"), "x"), "", false, nil)
	peers := []string{"12D3KooWLocalPeerAAAA", "12D3KooWRemotePeerBBBB", "peer-c", "p"}
	n := c.N / 6
	if n < 20 {
		n = 20
	}
	for i := 0; i < n; i++ {
		in := genHeader(c, i)
		li := c.Rng.Intn(len(peers))
		ri := (li + 1 + c.Rng.Intn(len(peers)-1)) % len(peers)
		lnk := &fakeLink{local: peer.ID(peers[li]), remote: peer.ID(peers[ri])}
		chunks, cname := chunksFor(c, len(in.data))
		de := c.Rng.Intn(4) == 0
		strm := &fakeStream{chunkReader: newChunkReader(in.data, chunks)}
		strm.eofData = de
		before := len(rec.recs)
		panicked, _ := hx.Catch(func() { ctrl.HandleIncomingStream(ctx, nil, lnk, strm, stream.OpenOpts{}) })
		rec.mu.Lock()
		got := append([]dispatchRec{}, rec.recs[before:]...)
		rec.mu.Unlock()
		desc := map[string]any{"kind": "dispatch/" + in.kind, "eof_with_last_read": de, "chunking": cname, "chunks": chunks, "data": hx.Hex(in.data), "local": peers[li], "remote": peers[ri], "dispatched": len(got), "closed": strm.closed}
		c.Class("dispatch/" + in.kind)
		if panicked {
			c.Failf("dispatch-panic", desc, "HandleIncomingStream panicked")
			continue
		}
		var d dispatchRec
		if len(got) > 0 {
			d = got[0]
			desc["pid"] = hx.Hex([]byte(d.pid))
			desc["rest"] = hx.Hex(d.rest)
		}
		c.Case(hx.App("Disp", hx.Bool(de), natList(chunks), hx.Str(peers[li]), hx.Str(peers[ri]), hx.Bytes(in.data), hx.Bool(len(got) > 0),
			hx.Str(d.pid), hx.Str(d.local), hx.Str(d.remote), hx.Bytes(d.rest)), desc)
		if len(got) > 0 {
			c.Nontrivial("disp" + hx.Hex(in.data) + peers[li] + peers[ri])
		}
		// oracle
		if len(got) > 1 {
			c.Failf("dispatched-twice", desc, "one stream was dispatched %d times", len(got))
		}
		if in.mustAccept && len(got) == 0 && de {
			c.Failf("valid-stream-not-dispatched/eof-with-last-read", desc, "valid header for %x was not dispatched when the Read delivering the last bytes also reported io.EOF", in.pid)
		} else if in.mustAccept && len(got) == 0 {
			c.Failf("valid-stream-not-dispatched", desc, "valid header for %x was not dispatched", in.pid)
		}
		if in.mustReject && len(got) > 0 {
			c.Failf("malformed-stream-dispatched/"+in.kind, desc, "a %s header was dispatched as %x", in.kind, d.pid)
		}
		if len(got) == 0 && strm.closed == 0 {
			c.Failf("rejected-stream-not-closed", desc, "the stream was neither dispatched nor closed")
		}
		if len(got) > 0 {
			if strm.closed != 0 {
				c.Failf("dispatched-stream-closed", desc, "the stream was closed although the handler accepted it")
			}
			if d.local != peers[li] || d.remote != peers[ri] {
				c.Failf("dispatch-wrong-peers", desc, "directive carries local=%q remote=%q, link has local=%q remote=%q", d.local, d.remote, peers[li], peers[ri])
			}
			if d.msPid != d.pid || d.msPeer != peers[ri] || d.lnkLocal != peers[li] || d.lnkRem != peers[ri] {
				c.Failf("mounted-stream-inconsistent", desc, "mounted stream pid=%q peer=%q link=(%q,%q) vs directive pid=%q and link (%q,%q)", d.msPid, d.msPeer, d.lnkLocal, d.lnkRem, d.pid, peers[li], peers[ri])
			}
			if in.mustAccept {
				if d.pid != string(in.pid) {
					c.Failf("dispatch-wrong-pid", desc, "directive carries %x, opener wrote %x", d.pid, in.pid)
				}
				if !bytes.Equal(d.rest, in.payload) {
					c.Failf("dispatch-payload-not-intact", desc, "handler read %x, payload was %x", d.rest, in.payload)
				}
			}
		}
	}
	c07equiv(c)
	rounds := c.N / 8
	if rounds < 20 {
		rounds = 20
	}
	for r := 0; r < rounds; r++ {
		r := r
		if p, v := hx.Catch(func() { c07multi(c, ctx, ctrl, rec, r) }); p {
			c.Failf("scenario-panic", map[string]any{"kind": "c07/dispatch-many", "round": r, "panic": fmt.Sprint(v)}, "dispatch-many scenario %d panicked: %v", r, v)
		}
	}
}
