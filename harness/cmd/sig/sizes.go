package main

import (
	"fmt"
	"strings"

	"verifharness/internal/hx"
)

// sizeClasses: lengths around the block sizes and fixed scratch-buffer sizes a
// refactoring is likely to introduce (32/64/128/256 and those minus the fixed
// parts of the sign body / KDF input).
var sizeClasses = []int{0, 1, 31, 32, 33, 63, 64, 65, 73, 74, 104, 105, 127, 128, 129, 203, 204, 234, 235, 245, 246, 255, 256, 257, 512, 1024}

// patterned returns n printable bytes; different tags give different strings,
// the same tag gives strings that are prefixes of each other.
func patterned(n int, tag int) []byte {
	b := make([]byte, n)
	for i := range b {
		b[i] = byte('a' + (i*7+tag*11+i/26)%26)
	}
	pdict.add(n, tag, b)
	return b
}

// ---- compact Coq terms for byte strings that contain long patterned runs ----
// (Lib/SigPatt.v: pslice n tag off len = patterned(n, tag)[off : off+len])

type pbase struct {
	n, tag int
	p      []byte
	idx    map[string][]int
}

type pdictT struct{ bases []*pbase }

var pdict pdictT

const pgram = 8

func (d *pdictT) add(n, tag int, p []byte) {
	for _, b := range d.bases {
		if b.n == n && b.tag == tag {
			return
		}
	}
	if n < 48 {
		return
	}
	b := &pbase{n: n, tag: tag, p: append([]byte{}, p...), idx: map[string][]int{}}
	for j := 0; j+pgram <= n; j++ {
		k := string(p[j : j+pgram])
		if len(b.idx[k]) < 4 {
			b.idx[k] = append(b.idx[k], j)
		}
	}
	d.bases = append(d.bases, b)
}

// bz prints a byte string as a Coq term of type bytes: literals, with every run
// of >= 32 bytes that occurs in a registered patterned string replaced by a pslice.
func bz(b []byte) string {
	if len(b) < 48 || len(pdict.bases) == 0 {
		return hx.Bytes(b)
	}
	var parts []string
	lit := 0
	flush := func(upto int) {
		if upto > lit {
			parts = append(parts, hx.Bytes(b[lit:upto]))
		}
	}
	i := 0
	for i+pgram <= len(b) {
		bestLen, bestOff := 0, 0
		var best *pbase
		k := string(b[i : i+pgram])
		for _, base := range pdict.bases {
			for _, j := range base.idx[k] {
				l := 0
				for i+l < len(b) && j+l < base.n && b[i+l] == base.p[j+l] {
					l++
				}
				if l > bestLen {
					bestLen, bestOff, best = l, j, base
				}
			}
		}
		if bestLen >= 32 {
			flush(i)
			parts = append(parts, fmt.Sprintf("pslice %d%%nat %d%%nat %d%%nat %d%%nat", best.n, best.tag, bestOff, bestLen))
			i += bestLen
			lit = i
		} else {
			i++
		}
	}
	flush(len(b))
	if len(parts) == 0 {
		return "[]"
	}
	if len(parts) == 1 && strings.HasPrefix(parts[0], "[") {
		return parts[0]
	}
	return "(" + strings.Join(parts, " ++ ") + ")"
}

// pickSizes: every class in the thorough tier; in the quick tier the mandatory
// ones plus k random others.
func pickSizes(c *hx.Ctx, mandatory []int, k int) []int {
	if c.Tier == "thorough" {
		return append([]int{}, sizeClasses...)
	}
	seen := map[int]bool{}
	var out []int
	for _, m := range mandatory {
		if !seen[m] {
			seen[m] = true
			out = append(out, m)
		}
	}
	for i := 0; i < k; i++ {
		s := sizeClasses[c.Rng.Intn(len(sizeClasses))]
		if !seen[s] {
			seen[s] = true
			out = append(out, s)
		}
	}
	return out
}

// tailVariant returns a copy of b that differs only in the last byte (or one appended byte for the empty string).
func tailVariant(b []byte) []byte {
	o := append([]byte{}, b...)
	if len(o) == 0 {
		return []byte{'#'}
	}
	o[len(o)-1] ^= 0x01
	return o
}

// reuseBuf is one backing array that successive calls are served from, with
// DIFFERENT contents each time (callers that recycle a scratch buffer).
type reuseBuf struct{ back []byte }

func (r *reuseBuf) load(b []byte) []byte {
	if b == nil {
		return nil
	}
	if r.back == nil {
		r.back = make([]byte, 8192)
	}
	n := copy(r.back, b)
	return r.back[:n:len(r.back)]
}

// zero wipes the backing array (callers that scrub a buffer after use).
func (r *reuseBuf) zero() {
	for i := range r.back {
		r.back[i] = 0
	}
}
