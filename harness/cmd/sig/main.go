// Harness for peer/signed-msg.go and peer/signature.go (C01, C02): runs the
// real code on honest and tampered messages / signatures and emits
// correspondence cases for Sig/Run.v.
package main

import (
	"bytes"
	"crypto/ed25519"
	"errors"
	"fmt"

	"github.com/aperturerobotics/bifrost/crypto"
	"github.com/aperturerobotics/bifrost/hash"
	"github.com/aperturerobotics/bifrost/peer"
	b58 "github.com/mr-tron/base58/base58"
	"verifharness/internal/hx"
)

func main() { hx.Main(run) }

func run(c *hx.Ctx) {
	c.Imports = "Sig.Run"
	c.ShardSize = 300
	w := newWorld(c)
	switch c.Prop {
	case "C01":
		c01(c, w)
	case "C02":
		c02(c, w)
	default:
		panic("unknown property " + c.Prop)
	}
}

// ---------------------------------------------------------------- universe

type tuple struct {
	k    int
	ctx  []byte
	ht   hash.HashType
	data []byte
}

func (t tuple) String() string {
	return fmt.Sprintf("k%d ctx=%q ht=%d data=%x", t.k, t.ctx, int32(t.ht), t.data)
}

type world struct {
	c      *hx.Ctx
	privs  []crypto.PrivKey
	pubs   []crypto.PubKey
	raws   [][]byte  // raw public keys
	ids    []peer.ID // canonical peer IDs
	idStr  []string  // canonical base58 sender strings
	pubMar [][]byte  // marshalled public keys (pub_key field)
	ctxs   [][]byte
	bodies [][]byte
	hts    []hash.HashType // supported
	badHts []hash.HashType
	// signature bytes -> the tuple NewSignature made them for
	sigTab  map[string]tuple
	junk    map[string]int
	extraPk map[string]int // raw public keys outside k0..k3 -> atom
	calls   int
	longCtxs   [][]byte
	longBodies [][]byte
	prevMsg    *peer.SignedMsg
	prevCtx    []byte
	ruData, ruSig, ruPub, ruWire, ruVData, ruVSig reuseBuf
	prevWire   []byte
	prevVData, prevVSig []byte
}

func newWorld(c *hx.Ctx) *world {
	w := &world{c: c, sigTab: map[string]tuple{}, junk: map[string]int{}, extraPk: map[string]int{}}
	for i := 0; i < 4; i++ {
		k := ed25519.NewKeyFromSeed(c.RandBytes(32))
		priv, pub, err := crypto.KeyPairFromStdKey(&k)
		if err != nil {
			panic(err)
		}
		id, err := peer.IDFromPublicKey(pub)
		if err != nil {
			panic(err)
		}
		raw, _ := pub.Raw()
		mar, _ := crypto.MarshalPublicKey(pub)
		w.privs = append(w.privs, priv)
		w.pubs = append(w.pubs, pub)
		w.raws = append(w.raws, raw)
		w.ids = append(w.ids, id)
		w.idStr = append(w.idStr, peer.IDB58Encode(id))
		w.pubMar = append(w.pubMar, mar)
	}
	w.ctxs = [][]byte{[]byte("ctx A"), []byte("ctx A "), []byte("ctx B"), {}, []byte("c"),
		[]byte("ctx A - SIGN - 1"), []byte("x - SIGN - 3 - SIGN - "), {0, 255}}
	w.bodies = [][]byte{[]byte("b"), []byte("body one"), []byte("body one."), {0}, c.RandBytes(40),
		[]byte("1 - SIGN - body"), c.RandBytes(3)}
	// whitespace neighbours of "ctx A"
	w.ctxs = append(w.ctxs, []byte(" ctx A"), []byte("\tctx A"), []byte("ctx A\n"))
	// long contexts in every size class, each with a neighbour that differs only in the last
	// byte; beyond 256 bytes also one that differs only at offset 300
	for _, n := range pickSizes(c, []int{204, 235, 246, 257, 512}, 3) {
		if n < 63 {
			continue
		}
		b := patterned(n, 1)
		w.longCtxs = append(w.longCtxs, b, tailVariant(b))
		if n > 300 {
			v := clone(b)
			v[300] ^= 0x20
			w.longCtxs = append(w.longCtxs, v)
		}
	}
	for _, n := range pickSizes(c, []int{64, 257}, 2) {
		if n == 0 {
			continue
		}
		b := patterned(n, 5)
		w.longBodies = append(w.longBodies, b, tailVariant(b))
	}
	w.hts = []hash.HashType{hash.HashType_HashType_SHA256, hash.HashType_HashType_SHA1, hash.HashType_HashType_BLAKE3}
	// unsupported values incl. ones that equal a supported value after truncation to 8 / 16 / 24 bits or sign loss
	w.badHts = []hash.HashType{0, 4, 99, -1, 1 << 20, 257, 258, 259, 65537, 1<<24 | 3, -255, -2147483647, 2147483647, 256}
	return w
}

// pickCtx: a short context, or (30%) a long one from the size classes
func (w *world) pickCtx() []byte {
	r := w.c.Rng
	if len(w.longCtxs) > 0 && r.Intn(10) < 3 {
		return w.longCtxs[r.Intn(len(w.longCtxs))]
	}
	return w.ctxs[r.Intn(len(w.ctxs))]
}

func (w *world) pickBody() []byte {
	r := w.c.Rng
	if len(w.longBodies) > 0 && r.Intn(8) == 0 {
		return w.longBodies[r.Intn(len(w.longBodies))]
	}
	return w.bodies[r.Intn(len(w.bodies))]
}

func (w *world) randTuple() tuple {
	r := w.c.Rng
	return tuple{r.Intn(len(w.privs)), w.pickCtx(), w.hts[r.Intn(len(w.hts))], w.pickBody()}
}

// independentPub parses a marshalled crypto.PublicKey WITHOUT the key
// unmarshallers under test: Ed25519 type and exactly 32 bytes of key data.
func independentPub(b []byte) ([]byte, bool) {
	pm := &crypto.PublicKey{}
	if err := pm.UnmarshalVT(b); err != nil {
		return nil, false
	}
	if pm.GetKeyType() != crypto.KeyType_Ed25519 || len(pm.GetData()) != ed25519.PublicKeySize {
		return nil, false
	}
	return pm.GetData(), true
}

// embeddedKey marshals a PublicKey message whose key data has rawLen bytes
// (prefix of key k, or key k followed by more bytes).
func (w *world) embeddedKey(k, rawLen int) []byte {
	raw := append(clone(w.raws[k]), w.raws[(k+1)%len(w.raws)]...)
	raw = append(raw, raw...)
	b, err := (&crypto.PublicKey{KeyType: crypto.KeyType_Ed25519, Data: raw[:rawLen]}).MarshalVT()
	if err != nil {
		panic(err)
	}
	if rawLen == 0 && w.c.Rng.Intn(2) == 0 {
		b = []byte{0x08, byte(crypto.KeyType_Ed25519)} // key_type only, no data field at all
	}
	return b
}

var embeddedKeyLens = []int{0, 1, 2, 5, 8, 15, 16, 17, 24, 30, 31, 32, 33, 64}

// sign makes the honest signature for t and records its bytes.
func (w *world) sign(t tuple, incl bool) *peer.Signature {
	s, err := peer.NewSignature(string(t.ctx), w.privs[t.k], t.ht, t.data, incl)
	if err != nil {
		panic(fmt.Sprintf("NewSignature failed for %v: %v", t, err))
	}
	key := string(s.GetSigData())
	if old, ok := w.sigTab[key]; ok {
		if old.k != t.k || !bytes.Equal(old.ctx, t.ctx) || old.ht != t.ht || !bytes.Equal(old.data, t.data) {
			w.c.Failf("c02-signature-collision", map[string]any{"a": old.String(), "b": t.String()}, "two different (key, context, hash type, data) produced the same signature bytes")
		}
	} else {
		w.sigTab[key] = tuple{t.k, append([]byte{}, t.ctx...), t.ht, append([]byte{}, t.data...)}
	}
	return s
}

func (w *world) keyAtom(raw []byte) int {
	for i, r := range w.raws {
		if bytes.Equal(r, raw) {
			return i
		}
	}
	if a, ok := w.extraPk[string(raw)]; ok {
		return a
	}
	a := 100 + len(w.extraPk)
	w.extraPk[string(raw)] = a
	return a
}

// ---- symbolic reading of real values (the atom table of DESIGN 4.4) ----

func (w *world) sigTerm(b []byte) string {
	if len(b) == 0 {
		return "SigNone"
	}
	if t, ok := w.sigTab[string(b)]; ok {
		return hx.App("SigReal", hx.Nat(t.k), bz(t.ctx), hx.Z(int64(int32(t.ht))), bz(t.data))
	}
	n, ok := w.junk[string(b)]
	if !ok {
		n = len(w.junk)
		w.junk[string(b)] = n
	}
	return hx.App("SigJunk", hx.Nat(n))
}

func (w *world) pubTerm(b []byte) string {
	if len(b) == 0 {
		return "PubNone"
	}
	raw, ok := independentPub(b)
	if !ok {
		return "PubBad"
	}
	return hx.App("PubOf", hx.Nat(w.keyAtom(raw)))
}

func (w *world) senderTerm(s string) string {
	if s == "" {
		return "SenderEmpty"
	}
	var id peer.ID
	var err error
	if p, _ := hx.Catch(func() { id, err = peer.IDB58Decode(s) }); p || err != nil {
		return "SenderBadID" // a panic here is reported by the ExtractAndVerify call itself
	}
	var pk crypto.PubKey
	if p, _ := hx.Catch(func() { pk, err = id.ExtractPublicKey() }); p || err != nil {
		return "SenderBadKey"
	}
	raw, _ := pk.Raw()
	if len(raw) != ed25519.PublicKeySize {
		return "SenderBadKey"
	}
	return hx.App("SenderOf", hx.Nat(w.keyAtom(raw)))
}

// ---------------------------------------------------------------- argument integrity helpers

// spare returns a copy of b that is a sub-slice whole[guardPad:guardPad+len(b)]
// of a larger patterned buffer (guardPad = 96 bytes before, 96 bytes of spare
// capacity after) and the whole buffer.  nil stays nil.
func spare(b []byte) (sub, whole []byte) {
	sub, g := guardBytes(b)
	if g == nil {
		return nil, nil
	}
	return sub, g.whole
}

// intact reports whether the pattern around the sub-slice is untouched and the content equals want.
func intact(whole, want []byte) bool {
	if whole == nil {
		return true
	}
	g := &guard{whole: whole, n: len(want), want: want}
	return !g.argChanged() && !g.outsideChanged()
}

func sameMsg(a, b *peer.SignedMsg) bool {
	if (a.Signature == nil) != (b.Signature == nil) {
		return false
	}
	return a.FromPeerId == b.FromPeerId && bytes.Equal(a.Data, b.Data) &&
		bytes.Equal(a.GetSignature().GetPubKey(), b.GetSignature().GetPubKey()) &&
		bytes.Equal(a.GetSignature().GetSigData(), b.GetSignature().GetSigData()) &&
		a.GetSignature().GetHashType() == b.GetSignature().GetHashType()
}

// spareMsg rebuilds m with every byte field living inside a larger buffer.
func spareMsg(m *peer.SignedMsg) (*peer.SignedMsg, [][2][]byte) {
	o := &peer.SignedMsg{FromPeerId: m.FromPeerId}
	var bufs [][2][]byte
	put := func(b []byte) []byte {
		sub, whole := spare(b)
		bufs = append(bufs, [2][]byte{whole, clone(b)})
		return sub
	}
	o.Data = put(m.Data)
	if m.Signature != nil {
		o.Signature = &peer.Signature{HashType: m.Signature.HashType}
		o.Signature.PubKey = put(m.Signature.PubKey)
		o.Signature.SigData = put(m.Signature.SigData)
	}
	return o, bufs
}

// ---------------------------------------------------------------- running ExtractAndVerify

type evRes struct {
	cls, key int
	accepted bool
	pub      crypto.PubKey
	id       peer.ID
	err      error
	pv       any
}

// extractAndVerify runs the implementation, checks that no argument was
// modified, and every few calls repeats the call on buffers with spare capacity.
func (w *world) extractAndVerify(m *peer.SignedMsg, ctx []byte) evRes {
	before := cloneMsg(m)
	r := w.extractAndVerify1(m, ctx)
	w.calls++
	d := map[string]any{"kind": "ExtractAndVerify", "from_peer_id": before.FromPeerId, "data_hex": hx.Hex(before.Data),
		"sig_data_hex": hx.Hex(before.GetSignature().GetSigData()), "sig_hash_type": int32(before.GetSignature().GetHashType()),
		"sig_pub_key_hex": hx.Hex(before.GetSignature().GetPubKey()), "verify_context_hex": hx.Hex(ctx)}
	if !sameMsg(before, m) {
		w.c.Failf("c01-argument-modified", d, "ExtractAndVerify modified the message it was called on")
	}
	if w.calls%2 == 0 && r.cls != 99 {
		m2, bufs := spareMsg(before)
		r2 := w.extractAndVerify1(m2, ctx)
		r3 := w.extractAndVerify1(m2, ctx)
		w.c.Eval()
		w.c.Eval()
		if r2.cls != r.cls || r2.key != r.key || r3.cls != r.cls || r3.key != r.key || r2.id != r.id || r3.id != r.id {
			w.c.Failf("c01-repeated-call-differs", d, "repeating ExtractAndVerify on the same message (buffers with spare capacity) gave class %d/%d key %d/%d instead of %d/%d", r2.cls, r3.cls, r2.key, r3.key, r.cls, r.key)
		}
		for _, b := range bufs {
			if !intact(b[0], b[1]) {
				w.c.Failf("c01-argument-modified", d, "ExtractAndVerify wrote to a message buffer or beyond its length")
			}
		}
	}
	// recycled buffers: the previous message is verified from one set of backing
	// arrays, the arrays are overwritten with THIS message, and the result must be
	// the one obtained from fresh buffers (r)
	if w.calls%2 == 1 && r.cls != 99 && w.prevMsg != nil {
		build := func(src *peer.SignedMsg) *peer.SignedMsg {
			o := &peer.SignedMsg{FromPeerId: src.FromPeerId, Data: w.ruData.load(src.Data)}
			if src.Signature != nil {
				o.Signature = &peer.Signature{HashType: src.Signature.HashType, PubKey: w.ruPub.load(src.Signature.PubKey), SigData: w.ruSig.load(src.Signature.SigData)}
			}
			return o
		}
		w.extractAndVerify1(build(w.prevMsg), w.prevCtx)
		if w.calls%4 == 1 {
			w.ruData.zero()
			w.ruSig.zero()
			w.ruPub.zero()
		}
		r4 := w.extractAndVerify1(build(before), ctx)
		w.c.Eval()
		w.c.Eval()
		if r4.cls != r.cls || r4.key != r.key || r4.id != r.id {
			w.c.Failf("c01-buffer-reuse-differs", d, "verifying this message from buffers that held a different message before gave class %d key %d, from fresh buffers class %d key %d", r4.cls, r4.key, r.cls, r.key)
		}
	}
	w.prevMsg, w.prevCtx = before, clone(ctx)
	return r
}

func (w *world) extractAndVerify1(m *peer.SignedMsg, ctx []byte) evRes {
	var r evRes
	panicked, pv := hx.Catch(func() { r.pub, r.id, r.err = m.ExtractAndVerify(string(ctx)) })
	if panicked {
		return evRes{cls: 99, pv: pv}
	}
	err := r.err
	switch {
	case err == nil:
		r.accepted = true
		if r.pub != nil {
			raw, _ := r.pub.Raw()
			r.key = w.keyAtom(raw)
		} else {
			r.key = 9999
		}
	case errors.Is(err, peer.ErrEmptyBody):
		r.cls = 1
	case errors.Is(err, peer.ErrEmptyPeerID):
		r.cls = 2
	case r.pub == nil:
		switch {
		case m.GetSignature().GetHashType().Validate() != nil:
			r.cls = 3
		case errors.Is(err, peer.ErrSignatureInvalid):
			r.cls = 4
		case m.GetSignature().Validate() != nil:
			r.cls = 5
		case r.id == "":
			r.cls = 6
		default:
			r.cls = 7
		}
	default:
		if errors.Is(err, peer.ErrSignatureInvalid) {
			r.cls = 9
		} else {
			r.cls = 8
		}
	}
	return r
}

// oracle: the property text applied to what the implementation did; independent of the model.
func (w *world) oracleC01(m *peer.SignedMsg, ctx []byte, r evRes, desc any) {
	c := w.c
	if r.cls == 99 {
		c.Failf("c01-panic", desc, "ExtractAndVerify panicked: %v", r.pv)
		return
	}
	if !r.accepted {
		return
	}
	t, ok := w.sigTab[string(m.GetSignature().GetSigData())]
	if !ok {
		c.Failf("c01-forged-signature-accepted", desc, "accepted although the signature bytes were not produced by any Sign call")
		return
	}
	if !bytes.Equal(t.ctx, ctx) {
		c.Failf("c01-wrong-context-accepted", desc, "accepted under context %q, signed under %q", ctx, t.ctx)
	}
	if !bytes.Equal(t.data, m.GetData()) {
		c.Failf("c01-changed-body-accepted", desc, "accepted with body %x, signed body %x", m.GetData(), t.data)
	}
	if t.ht != m.GetSignature().GetHashType() {
		c.Failf("c01-changed-hash-type-accepted", desc, "accepted with hash type %d, signed with %d", m.GetSignature().GetHashType(), t.ht)
	}
	if r.pub == nil || !r.pub.Equals(w.pubs[t.k]) {
		c.Failf("c01-wrong-sender-accepted", desc, "accepted with a sender key that is not the signer's (k%d)", t.k)
	} else if m.GetFromPeerId() != w.idStr[t.k] || r.id != w.ids[t.k] {
		c.Failf("c01-sender-alias-accepted", desc, "accepted with sender string %q (returned peer ID %x) which is not the peer ID %q of the signer", m.GetFromPeerId(), []byte(r.id), w.idStr[t.k])
	}
}

func (w *world) msgDesc(kind string, m *peer.SignedMsg, ctx []byte, r evRes, how string) map[string]any {
	return map[string]any{"kind": kind, "how": how, "verify_context": string(ctx), "verify_context_hex": hx.Hex(ctx),
		"from_peer_id": m.GetFromPeerId(), "data_hex": hx.Hex(m.GetData()),
		"sig_hash_type": int32(m.GetSignature().GetHashType()), "sig_data_hex": hx.Hex(m.GetSignature().GetSigData()),
		"sig_pub_key_hex": hx.Hex(m.GetSignature().GetPubKey()), "sig_nil": m.Signature == nil,
		"class": r.cls, "accepted": r.accepted}
}

func (w *world) emitMsg(m *peer.SignedMsg, ctx []byte, how, class string) evRes {
	c := w.c
	r := w.extractAndVerify(m, ctx)
	desc := w.msgDesc("ExtractAndVerify", m, ctx, r, how)
	sg := m.GetSignature()
	c.Case(hx.App("Msg", bz(ctx), w.senderTerm(m.GetFromPeerId()), w.pubTerm(sg.GetPubKey()),
		hx.Z(int64(int32(sg.GetHashType()))), w.sigTerm(sg.GetSigData()), bz(m.GetData()),
		hx.Nat(r.cls), hx.Nat(r.key)), desc)
	c.Class(class)
	if r.accepted {
		c.Nontrivial("acc" + fmt.Sprint(desc))
	}
	w.oracleC01(m, ctx, r, desc)
	return r
}

// ---------------------------------------------------------------- tampering

func clone(b []byte) []byte { return append([]byte{}, b...) }

func cloneMsg(m *peer.SignedMsg) *peer.SignedMsg {
	o := &peer.SignedMsg{FromPeerId: m.FromPeerId, Data: clone(m.Data)}
	if m.Signature != nil {
		o.Signature = &peer.Signature{PubKey: clone(m.Signature.PubKey), HashType: m.Signature.HashType, SigData: clone(m.Signature.SigData)}
		if len(m.Signature.PubKey) == 0 {
			o.Signature.PubKey = nil
		}
	}
	return o
}

func (w *world) honest(t tuple) *peer.SignedMsg {
	m, err := peer.NewSignedMsg(string(t.ctx), w.privs[t.k], t.ht, t.data)
	if err != nil {
		panic(fmt.Sprintf("NewSignedMsg failed for %v: %v", t, err))
	}
	w.sign(t, false) // records the signature bytes (Ed25519 is deterministic)
	if _, ok := w.sigTab[string(m.GetSignature().GetSigData())]; !ok {
		w.c.Failf("c02-signing-not-deterministic", map[string]any{"tuple": t.String()}, "NewSignedMsg and NewSignature produced different signature bytes for the same inputs")
	}
	return m
}

// numeric extremes for every length / varint field
var varintExtremes = []uint64{0, 1, 127, 128, 1<<31 - 1, 1 << 31, 1<<32 - 1, 1 << 32, 1<<63 - 1, 1 << 63, 1<<64 - 1}

// uvarint encodes v minimally, or (long = true) padded with continuation bytes to the 10-byte form.
func uvarint(v uint64, long bool) []byte {
	var o []byte
	for v >= 0x80 {
		o = append(o, byte(v)|0x80)
		v >>= 7
	}
	o = append(o, byte(v))
	if long {
		for len(o) < 10 {
			o[len(o)-1] |= 0x80
			o = append(o, 0)
		}
	}
	return o
}

// trailing returns too few / exact / extra bytes for a declared length n (capped: the point is the header).
func (w *world) trailing(n uint64, content []byte) []byte {
	exact := content
	if n <= 200 {
		exact = make([]byte, n)
		copy(exact, content)
	}
	switch w.c.Rng.Intn(4) {
	case 0:
		return nil
	case 1:
		if len(exact) > 0 {
			return exact[:len(exact)-1]
		}
		return nil
	case 2:
		return exact
	}
	return append(clone(exact), w.c.RandBytes(1+w.c.Rng.Intn(3))...)
}

// extremeID: multihash bytes whose code and / or digest-length varints take extreme values.
func (w *world) extremeID(k int) []byte {
	r := w.c.Rng
	code, dlen := uint64(0), varintExtremes[r.Intn(len(varintExtremes))]
	switch r.Intn(4) {
	case 0:
		code = varintExtremes[r.Intn(len(varintExtremes))]
		dlen = uint64(len(w.pubMar[k]))
	case 1:
		code = varintExtremes[r.Intn(len(varintExtremes))]
	}
	id := append(uvarint(code, r.Intn(2) == 0), uvarint(dlen, r.Intn(2) == 0)...)
	return append(id, w.trailing(dlen, w.pubMar[k])...)
}

// aliasID builds a different byte string that decodes to the same public key
// (non-minimal varint in the multihash header), base58 encoded.
func (w *world) aliasID(k int, variant int) string {
	id := []byte(w.ids[k])
	switch variant % 3 {
	case 0: // code 0 encoded as 0x80 0x00
		return b58.Encode(append([]byte{0x80, 0x00}, id[1:]...))
	case 1: // length encoded with a redundant continuation byte
		return b58.Encode(append([]byte{id[0], id[1] | 0x80, 0x00}, id[2:]...))
	default: // unknown protobuf field appended inside the embedded key, length adjusted
		inner := append(clone(id[2:]), 0x18, 0x01)
		return b58.Encode(append([]byte{0x00, byte(len(inner))}, inner...))
	}
}

type tamper struct {
	name string
	// apply edits the message / context in place; returns false when not applicable
	apply func(w *world, t tuple, m *peer.SignedMsg, ctx *[]byte) bool
}

func tampers() []tamper {
	otherOf := func(w *world, n, cur int) int { return (cur + 1 + w.c.Rng.Intn(n-1)) % n }
	return []tamper{
		{"context-other", func(w *world, t tuple, m *peer.SignedMsg, ctx *[]byte) bool {
			for {
				x := w.pickCtx()
				if !bytes.Equal(x, t.ctx) {
					*ctx = x
					return true
				}
			}
		}},
		{"context-extended", func(w *world, t tuple, m *peer.SignedMsg, ctx *[]byte) bool {
			*ctx = append(clone(t.ctx), byte(w.c.Rng.Intn(256)))
			return true
		}},
		{"context-absorbs-separator", func(w *world, t tuple, m *peer.SignedMsg, ctx *[]byte) bool {
			// move the boundary: context' = context ++ sep ++ itoa(ht): the digest field then follows a different prefix
			*ctx = append(clone(t.ctx), []byte(fmt.Sprintf(" - SIGN - %d", int32(t.ht)))...)
			return true
		}},
		{"context-tail-changed", func(w *world, t tuple, m *peer.SignedMsg, ctx *[]byte) bool {
			*ctx = tailVariant(t.ctx)
			return true
		}},
		{"context-truncated-by-one", func(w *world, t tuple, m *peer.SignedMsg, ctx *[]byte) bool {
			if len(t.ctx) == 0 {
				*ctx = []byte{' '}
			} else {
				*ctx = clone(t.ctx[:len(t.ctx)-1])
			}
			return true
		}},
		{"context-whitespace", func(w *world, t tuple, m *peer.SignedMsg, ctx *[]byte) bool {
			ws := []string{" ", "\t", "\n", "\x00"}[w.c.Rng.Intn(4)]
			if w.c.Rng.Intn(2) == 0 {
				*ctx = append([]byte(ws), t.ctx...)
			} else {
				*ctx = append(clone(t.ctx), ws...)
			}
			return true
		}},
		{"body-tail-changed", func(w *world, t tuple, m *peer.SignedMsg, ctx *[]byte) bool {
			m.Data = tailVariant(t.data)
			return true
		}},
		{"signature-resized", func(w *world, t tuple, m *peer.SignedMsg, ctx *[]byte) bool {
			n := sizeClasses[w.c.Rng.Intn(len(sizeClasses))]
			if n == len(m.Signature.SigData) {
				n++
			}
			o := make([]byte, n)
			copy(o, m.Signature.SigData)
			m.Signature.SigData = o
			return true
		}},
		{"body-other", func(w *world, t tuple, m *peer.SignedMsg, ctx *[]byte) bool {
			for {
				x := w.pickBody()
				if !bytes.Equal(x, t.data) {
					m.Data = clone(x)
					return true
				}
			}
		}},
		{"body-bitflip", func(w *world, t tuple, m *peer.SignedMsg, ctx *[]byte) bool {
			i := w.c.Rng.Intn(len(m.Data))
			m.Data[i] ^= 1 << w.c.Rng.Intn(8)
			return true
		}},
		{"body-truncated", func(w *world, t tuple, m *peer.SignedMsg, ctx *[]byte) bool {
			m.Data = m.Data[:len(m.Data)-1]
			return true
		}},
		{"body-extended", func(w *world, t tuple, m *peer.SignedMsg, ctx *[]byte) bool {
			m.Data = append(m.Data, byte(w.c.Rng.Intn(256)))
			return true
		}},
		{"body-empty", func(w *world, t tuple, m *peer.SignedMsg, ctx *[]byte) bool { m.Data = nil; return true }},
		{"sender-other-key", func(w *world, t tuple, m *peer.SignedMsg, ctx *[]byte) bool {
			m.FromPeerId = w.idStr[otherOf(w, len(w.idStr), t.k)]
			return true
		}},
		{"sender-fresh-key", func(w *world, t tuple, m *peer.SignedMsg, ctx *[]byte) bool {
			k := ed25519.NewKeyFromSeed(w.c.RandBytes(32))
			_, pub, _ := crypto.KeyPairFromStdKey(&k)
			id, _ := peer.IDFromPublicKey(pub)
			m.FromPeerId = peer.IDB58Encode(id)
			return true
		}},
		{"sender-malformed", func(w *world, t tuple, m *peer.SignedMsg, ctx *[]byte) bool {
			switch w.c.Rng.Intn(5) {
			case 0:
				m.FromPeerId = "not base58 0OIl"
			case 1:
				if len(m.FromPeerId) > 2 {
					m.FromPeerId = m.FromPeerId[:len(m.FromPeerId)-2]
				} else {
					m.FromPeerId = "z"
				}
			case 2:
				m.FromPeerId = b58.Encode(w.c.RandBytes(1 + w.c.Rng.Intn(40)))
			case 3:
				m.FromPeerId = m.FromPeerId + "1"
			default:
				m.FromPeerId = " " + m.FromPeerId
			}
			return true
		}},
		{"sender-bad-embedded-key", func(w *world, t tuple, m *peer.SignedMsg, ctx *[]byte) bool {
			var inner []byte
			switch w.c.Rng.Intn(3) {
			case 0:
				inner = []byte{0x08, 0x01, 0x12, 0x03, 1, 2, 3} // Ed25519 key of 3 bytes
			case 1:
				inner = append([]byte{0x08, 0x07, 0x12, 0x20}, w.c.RandBytes(32)...) // unknown key type
			default:
				inner = []byte{0xff, 0xff}
			}
			m.FromPeerId = b58.Encode(append([]byte{0x00, byte(len(inner))}, inner...))
			return true
		}},
		{"sender-non-identity-multihash", func(w *world, t tuple, m *peer.SignedMsg, ctx *[]byte) bool {
			id := clone([]byte(w.ids[t.k]))
			id[0] = 0x12
			m.FromPeerId = b58.Encode(id)
			return true
		}},
		{"sender-empty", func(w *world, t tuple, m *peer.SignedMsg, ctx *[]byte) bool { m.FromPeerId = ""; return true }},
		{"sender-varint-extremes", func(w *world, t tuple, m *peer.SignedMsg, ctx *[]byte) bool {
			m.FromPeerId = b58.Encode(w.extremeID(t.k))
			return true
		}},
		{"sender-alias-encoding", func(w *world, t tuple, m *peer.SignedMsg, ctx *[]byte) bool {
			m.FromPeerId = w.aliasID(t.k, w.c.Rng.Intn(3))
			return true
		}},
		{"hashtype-other-supported", func(w *world, t tuple, m *peer.SignedMsg, ctx *[]byte) bool {
			for {
				x := w.hts[w.c.Rng.Intn(len(w.hts))]
				if x != t.ht {
					m.Signature.HashType = x
					return true
				}
			}
		}},
		{"hashtype-unsupported", func(w *world, t tuple, m *peer.SignedMsg, ctx *[]byte) bool {
			m.Signature.HashType = w.badHts[w.c.Rng.Intn(len(w.badHts))]
			return true
		}},
		{"signature-transplant", func(w *world, t tuple, m *peer.SignedMsg, ctx *[]byte) bool {
			// the signature of an honest message that differs in exactly one component
			u := t
			switch w.c.Rng.Intn(4) {
			case 0:
				u.k = otherOf(w, len(w.privs), t.k)
			case 1:
				for bytes.Equal(u.ctx, t.ctx) {
					u.ctx = w.pickCtx()
				}
			case 2:
				for u.ht == t.ht {
					u.ht = w.hts[w.c.Rng.Intn(len(w.hts))]
				}
			default:
				for bytes.Equal(u.data, t.data) {
					u.data = w.pickBody()
				}
			}
			m.Signature.SigData = clone(w.sign(u, false).GetSigData())
			return true
		}},
		{"signature-truncated", func(w *world, t tuple, m *peer.SignedMsg, ctx *[]byte) bool {
			m.Signature.SigData = m.Signature.SigData[:w.c.Rng.Intn(len(m.Signature.SigData))]
			return true
		}},
		{"signature-extended", func(w *world, t tuple, m *peer.SignedMsg, ctx *[]byte) bool {
			m.Signature.SigData = append(m.Signature.SigData, w.c.RandBytes(1+w.c.Rng.Intn(3))...)
			return true
		}},
		{"signature-bitflip", func(w *world, t tuple, m *peer.SignedMsg, ctx *[]byte) bool {
			i := w.c.Rng.Intn(len(m.Signature.SigData))
			m.Signature.SigData[i] ^= 1 << w.c.Rng.Intn(8)
			return true
		}},
		{"signature-random", func(w *world, t tuple, m *peer.SignedMsg, ctx *[]byte) bool {
			m.Signature.SigData = w.c.RandBytes(64)
			return true
		}},
		{"signature-empty", func(w *world, t tuple, m *peer.SignedMsg, ctx *[]byte) bool {
			m.Signature.SigData = nil
			return true
		}},
		{"signature-object-nil", func(w *world, t tuple, m *peer.SignedMsg, ctx *[]byte) bool { m.Signature = nil; return true }},
	}
}

// pubfield variations do not touch any authenticated field
func (w *world) varyPubField(m *peer.SignedMsg, t tuple) string {
	if m.Signature == nil {
		return ""
	}
	switch w.c.Rng.Intn(8) {
	case 0:
		m.Signature.PubKey = clone(w.pubMar[t.k])
		return "+pub_key=signer"
	case 1:
		m.Signature.PubKey = clone(w.pubMar[(t.k+1)%len(w.pubMar)])
		return "+pub_key=other-key"
	case 2:
		m.Signature.PubKey = []byte{0xff, 0x01, 0x02}
		return "+pub_key=unparsable"
	case 3:
		n := embeddedKeyLens[w.c.Rng.Intn(len(embeddedKeyLens))]
		m.Signature.PubKey = w.embeddedKey(t.k, n)
		return fmt.Sprintf("+pub_key=embedded-key-of-%d-bytes", n)
	}
	return ""
}

func c01(c *hx.Ctx, w *world) {
	c.Type = "c01_case"
	c.Agree = "c01_agree"
	c.Rule = "honest SignedMsg over 4 keys x (11 short contexts incl. whitespace neighbours + long contexts in the size classes 63..1024 with last-byte / offset-300 neighbours) x (7 short bodies + sized bodies) x 3 hash types; arguments as sub-slices with spare capacity, repeated calls, recycled buffers holding another message before; every single-field tampering (context, body, sender, hash type, signature bytes incl. transplant from a message differing in one component / truncation / extension / bit flip / random / empty / nil object), pairs of tamperings, consistent whole-message substitutions, random field combinations; pub_key field variations; marshalled messages mutated on the wire and random bytes through UnmarshalSignedMsg; NewSignedMsg with unsupported hash types / empty body; non-trivial = distinct accepted message"
	tps := tampers()
	nWire := c.N / 4
	nSign := c.N / 12
	nMsg := c.N - nWire - nSign
	for i := 0; i < nMsg; i++ {
		t := w.randTuple()
		m := w.honest(t)
		ctx := clone(t.ctx)
		var how, class string
		switch {
		case i%8 == 0:
			how, class = "honest", "honest"
		case i%8 <= 4:
			tp := tps[(i/8*4+i%8-1)%len(tps)] // cycles through every tampering
			tp.apply(w, t, m, &ctx)
			how, class = tp.name, "single/"+tp.name
		case i%8 <= 6:
			a, b := tps[c.Rng.Intn(len(tps))], tps[c.Rng.Intn(len(tps))]
			a.apply(w, t, m, &ctx)
			if m.Signature != nil && len(m.Data) > 0 && len(m.Signature.SigData) > 0 {
				b.apply(w, t, m, &ctx)
			}
			how, class = a.name+"+"+b.name, "pair"
		default:
			// consistent substitution of several fields from another honest message: parts or all of it
			u := w.randTuple()
			o := w.honest(u)
			mask := 1 + c.Rng.Intn(15)
			if mask&1 != 0 {
				m.Signature.SigData = clone(o.Signature.SigData)
				m.Signature.HashType = o.Signature.HashType
			}
			if mask&2 != 0 {
				m.Data = clone(o.Data)
			}
			if mask&4 != 0 {
				m.FromPeerId = o.FromPeerId
			}
			if mask&8 != 0 {
				ctx = clone(u.ctx)
			}
			how, class = fmt.Sprintf("fields-from-other-honest-message mask=%d", mask), "substitution"
		}
		how += w.varyPubField(m, t)
		r := w.emitMsg(m, ctx, how, class)
		if how == "honest" && !r.accepted {
			c.Failf("c01-honest-rejected", w.msgDesc("ExtractAndVerify", m, ctx, r, how), "an untouched honest message was rejected: %v", r.err)
		}
	}
	// NewSignedMsg itself
	for i := 0; i < nSign; i++ {
		t := w.randTuple()
		switch c.Rng.Intn(4) {
		case 0:
			t.ht = w.badHts[c.Rng.Intn(len(w.badHts))]
		case 1:
			t.data = nil
		}
		var err error
		var m *peer.SignedMsg
		dArg, dWhole := spare(t.data)
		panicked, pv := hx.Catch(func() { m, err = peer.NewSignedMsg(string(t.ctx), w.privs[t.k], t.ht, dArg) })
		if !intact(dWhole, t.data) {
			c.Failf("c01-argument-modified", map[string]any{"kind": "NewSignedMsg", "tuple": t.String()}, "NewSignedMsg modified its data argument or wrote beyond its length")
		}
		if !panicked && err == nil {
			m2, err2 := peer.NewSignedMsg(string(t.ctx), w.privs[t.k], t.ht, dArg)
			m3, err3 := peer.NewSignedMsg(string(t.ctx), w.privs[t.k], t.ht, clone(t.data))
			c.Eval()
			c.Eval()
			if err2 != nil || err3 != nil || !sameMsg(m, m2) || !sameMsg(m, m3) || !intact(dWhole, t.data) {
				c.Failf("c01-repeated-call-differs", map[string]any{"kind": "NewSignedMsg", "tuple": t.String()}, "repeating NewSignedMsg (same data slice / fresh copy) gave a different message or modified the data")
			}
		}
		cls := 0
		switch {
		case panicked:
			cls = 99
		case err == nil:
		case errors.Is(err, peer.ErrEmptyBody):
			cls = 1
		default:
			cls = 3
		}
		desc := map[string]any{"kind": "NewSignedMsg", "tuple": t.String(), "class": cls}
		c.Case(hx.App("SignMsg", bz(t.ctx), hx.Nat(t.k), hx.Z(int64(int32(t.ht))), bz(t.data), hx.Nat(cls)), desc)
		c.Class("new-signed-msg")
		if panicked {
			c.Failf("c01-sign-panic", desc, "NewSignedMsg panicked: %v", pv)
		}
		if err == nil {
			w.sign(t, false)
			r := w.extractAndVerify(m, t.ctx)
			c.Eval()
			if !r.accepted {
				c.Failf("c01-honest-rejected", desc, "a freshly signed message was rejected: %v", r.err)
			}
		}
	}
	// wire level
	for i := 0; i < nWire; i++ {
		t := w.randTuple()
		m := w.honest(t)
		ctx := clone(t.ctx)
		how := "wire/honest"
		if c.Rng.Intn(3) == 0 {
			tp := tps[c.Rng.Intn(len(tps))]
			tp.apply(w, t, m, &ctx)
			how = "wire/" + tp.name
		}
		wire, err := m.MarshalVT()
		if err != nil {
			panic(err)
		}
		switch i % 7 {
		case 0: // untouched bytes
		case 1:
			for k := 0; k < 1+c.Rng.Intn(3); k++ {
				wire[c.Rng.Intn(len(wire))] ^= 1 << c.Rng.Intn(8)
			}
			how += "+bitflips"
		case 2:
			wire = wire[:c.Rng.Intn(len(wire))]
			how += "+truncated"
		case 3: // unknown field appended (varint field 15) or a second data field (last one wins)
			switch c.Rng.Intn(5) {
			case 0:
				wire = append(wire, 0x78, 0x05)
				how += "+unknown-field"
			case 1: // a second signature field: merged into the first (here it overrides hash_type)
				wire = append(wire, 0x12, 0x02, 0x10, byte(1+c.Rng.Intn(3)))
				how += "+second-signature-field-merged"
			case 2: // an empty second signature field: merge changes nothing
				wire = append(wire, 0x12, 0x00)
				how += "+empty-second-signature-field"
			case 3: // known field with the wrong wire type / length in a non-minimal varint / nested group
				wire = append(wire, [][]byte{{0x08, 0x01}, {0x1a, 0x82, 0x00, 'y', 'y'}, {0x7b, 0x7c}, {0x7b, 0x08, 0x01, 0x7c}}[c.Rng.Intn(4)]...)
				how += "+wrong-wiretype-or-nonminimal-length-or-group"
			default:
				wire = append(wire, 0x1a, 0x02, 'z', 'z')
				how += "+second-data-field"
			}
		case 4:
			wire = c.RandBytes(c.Rng.Intn(60))
			how = "wire/random-bytes"
		case 5: // a byte inserted or removed
			p := c.Rng.Intn(len(wire))
			if c.Rng.Intn(2) == 0 {
				wire = append(append(clone(wire[:p]), byte(c.Rng.Intn(256))), wire[p:]...)
			} else {
				wire = append(clone(wire[:p]), wire[p+1:]...)
			}
			how += "+byte-inserted-or-removed"
		default: // extreme values in the length prefixes / hash-type varint, group tags
			v := varintExtremes[c.Rng.Intn(len(varintExtremes))]
			long := c.Rng.Intn(2) == 0
			switch c.Rng.Intn(6) {
			case 0: // from_peer_id / data length prefix
				tag := []byte{0x0a, 0x1a}[c.Rng.Intn(2)]
				fld := append([]byte{tag}, uvarint(v, long)...)
				fld = append(fld, w.trailing(v, []byte(m.FromPeerId))...)
				if c.Rng.Intn(2) == 0 {
					wire = append(fld, wire...)
				} else {
					wire = append(wire, fld...)
				}
				how += fmt.Sprintf("+length-prefix-%d", v)
			case 1: // signature message length prefix
				fld := append([]byte{0x12}, uvarint(v, long)...)
				wire = append(wire, append(fld, w.trailing(v, []byte{0x10, 0x01})...)...)
				how += fmt.Sprintf("+signature-length-prefix-%d", v)
			case 2: // inside the signature: pub_key / sig_data length prefix
				inner := append([]byte{[]byte{0x0a, 0x1a}[c.Rng.Intn(2)]}, uvarint(v, long)...)
				inner = append(inner, w.trailing(v, m.GetSignature().GetSigData())...)
				wire = append(wire, append(append([]byte{0x12}, uvarint(uint64(len(inner)), false)...), inner...)...)
				how += fmt.Sprintf("+inner-length-prefix-%d", v)
			case 3: // hash type varint (second signature field is merged: overrides the hash type)
				inner := append([]byte{0x10}, uvarint(v, long)...)
				wire = append(wire, append(append([]byte{0x12}, uvarint(uint64(len(inner)), false)...), inner...)...)
				how += fmt.Sprintf("+hash-type-varint-%d", v)
			case 4: // sender id with extreme multihash varints, re-marshalled
				m2 := cloneMsg(m)
				m2.FromPeerId = b58.Encode(w.extremeID(t.k))
				wire, _ = m2.MarshalVT()
				how += "+sender-varint-extremes"
			default:
				wire = append([]byte{0x0a, 0xff, 0xff, 0xff, 0xff, 0x0f}, wire...)
				if c.Rng.Intn(2) == 0 {
					wire = []byte{0x0b, 0x0c}
				}
			}
			how += "+bad-length-or-group"
		}
		var dm *peer.SignedMsg
		var derr error
		wireBefore := clone(wire)
		panicked, pv := hx.Catch(func() { dm, derr = peer.UnmarshalSignedMsg(wire) })
		if !bytes.Equal(wire, wireBefore) {
			c.Failf("c01-argument-modified", map[string]any{"kind": "UnmarshalSignedMsg", "wire_hex": hx.Hex(wireBefore)}, "UnmarshalSignedMsg modified its input")
		}
		if !panicked && i%2 == 0 {
			sub, whole := spare(wireBefore)
			for rep := 0; rep < 2; rep++ {
				var dm2 *peer.SignedMsg
				var derr2 error
				p2, _ := hx.Catch(func() { dm2, derr2 = peer.UnmarshalSignedMsg(sub) })
				c.Eval()
				if p2 || (derr == nil) != (derr2 == nil) || (derr == nil && !sameMsg(dm, dm2)) {
					c.Failf("c01-repeated-call-differs", map[string]any{"kind": "UnmarshalSignedMsg", "wire_hex": hx.Hex(wireBefore)}, "decoding the same bytes as a sub-slice of a larger buffer (call %d) gave a different result", rep+1)
				}
			}
			if whole != nil && !intact(whole, wireBefore) {
				c.Failf("c01-argument-modified", map[string]any{"kind": "UnmarshalSignedMsg", "wire_hex": hx.Hex(wireBefore)}, "UnmarshalSignedMsg wrote to its input buffer or beyond its length")
			}
		}
		if !panicked && w.prevWire != nil {
			// recycled read buffer: previous wire bytes, then these, from the same backing array
			hx.Catch(func() { _, _ = peer.UnmarshalSignedMsg(w.ruWire.load(w.prevWire)) })
			var dm3 *peer.SignedMsg
			var derr3 error
			p3, _ := hx.Catch(func() { dm3, derr3 = peer.UnmarshalSignedMsg(w.ruWire.load(wireBefore)) })
			c.Eval()
			c.Eval()
			if p3 || (derr == nil) != (derr3 == nil) || (derr == nil && !sameMsg(dm, dm3)) {
				c.Failf("c01-buffer-reuse-differs", map[string]any{"kind": "UnmarshalSignedMsg", "wire_hex": hx.Hex(wireBefore), "previous_wire_hex": hx.Hex(w.prevWire)}, "decoding these bytes from a buffer that held other bytes before gave a different result than from a fresh buffer")
			}
		}
		w.prevWire = wireBefore
		if panicked {
			desc := map[string]any{"kind": "UnmarshalSignedMsg", "how": how, "wire_hex": hx.Hex(wire)}
			c.Case(hx.App("WireRaw", bz(wire), bz(ctx), "SenderEmpty", "PubNone", "SigNone", hx.Nat(99), hx.Nat(0), "None"), desc)
			c.Class("wire/panic")
			c.Failf("c01-unmarshal-panic", desc, "UnmarshalSignedMsg panicked: %v", pv)
			continue
		}
		if derr != nil {
			desc := map[string]any{"kind": "UnmarshalSignedMsg", "how": how, "wire_hex": hx.Hex(wire), "decode_error": true}
			c.Case(hx.App("WireRaw", bz(wire), bz(ctx), "SenderEmpty", "PubNone", "SigNone", hx.Nat(11), hx.Nat(0), "None"), desc)
			c.Class("wire/decode-error")
			continue
		}
		r := w.extractAndVerify(dm, ctx)
		desc := w.msgDesc("UnmarshalSignedMsg+ExtractAndVerify", dm, ctx, r, how)
		desc["wire_hex"] = hx.Hex(wire)
		sg := dm.GetSignature()
		dec := "(Some (" + bz([]byte(dm.GetFromPeerId())) + ", " + bz(sg.GetPubKey()) + ", " + hx.Z(int64(int32(sg.GetHashType()))) + ", " +
			bz(sg.GetSigData()) + ", " + bz(dm.GetData()) + "))"
		c.Case(hx.App("WireRaw", bz(wire), bz(ctx), w.senderTerm(dm.GetFromPeerId()), w.pubTerm(sg.GetPubKey()),
			w.sigTerm(sg.GetSigData()), hx.Nat(r.cls), hx.Nat(r.key), dec), desc)
		if r.accepted {
			c.Class("wire/accepted")
			c.Nontrivial("wire" + hx.Hex(wire))
		} else {
			c.Class("wire/rejected")
		}
		w.oracleC01(dm, ctx, r, desc)
		if how == "wire/honest" && !r.accepted {
			c.Failf("c01-honest-rejected", desc, "an honest message was rejected after a marshal/unmarshal round trip: %v", r.err)
		}
	}
}

// ---------------------------------------------------------------- C02

func c02(c *hx.Ctx, w *world) {
	c.Type = "c02_case"
	c.Agree = "c02_agree"
	c.Rule = "size classes 0..1024 for contexts and data (long common prefix, whitespace neighbours), embedded pub_key fields with 0..33 and 64 key bytes, recycled buffers; NewSignature over keys x contexts x data x hash types (supported and 0, 4, 99, -1, 2^20) with and without embedded key; VerifyWithPublic of honest signatures under every substitution of 0, 1 or 2 of (key, context, hash type field, data), junk / truncated / extended / flipped / empty signature bytes, unsupported hash types; Signature.Validate over hash types x signature bytes x pub_key field (absent, parsable, unparsable); non-trivial = distinct case that verifies or validates"
	nNew := c.N / 6
	nVal := c.N / 5
	nVer := c.N - nNew - nVal
	// NewSignature
	var ruNew reuseBuf
	var prevNewData []byte
	for i := 0; i < nNew; i++ {
		t := w.randTuple()
		if c.Rng.Intn(3) == 0 {
			t.ht = w.badHts[c.Rng.Intn(len(w.badHts))]
		}
		if c.Rng.Intn(8) == 0 {
			t.data = nil // empty data is allowed for detached signatures
		}
		incl := c.Rng.Intn(2) == 0
		var s *peer.Signature
		var err error
		dsub, dwhole := spare(t.data)
		privRawBefore, _ := w.privs[t.k].Raw()
		panicked, pv := hx.Catch(func() { s, err = peer.NewSignature(string(t.ctx), w.privs[t.k], t.ht, dsub, incl) })
		privRawAfter, _ := w.privs[t.k].Raw()
		if !intact(dwhole, t.data) || !bytes.Equal(privRawBefore, privRawAfter) {
			c.Failf("c02-argument-modified", map[string]any{"kind": "NewSignature", "tuple": t.String()}, "NewSignature modified its data argument (or wrote beyond it) or the private key")
		}
		if !panicked && err == nil {
			s2, err2 := peer.NewSignature(string(t.ctx), w.privs[t.k], t.ht, clone(t.data), incl)
			s3, err3 := peer.NewSignature(string(t.ctx), w.privs[t.k], t.ht, dsub, incl) // the same slice again
			c.Eval()
			c.Eval()
			if !intact(dwhole, t.data) {
				c.Failf("c02-argument-modified", map[string]any{"kind": "NewSignature", "tuple": t.String()}, "NewSignature modified its data argument or wrote beyond it (second call)")
			}
			if prevNewData != nil {
				// recycled data buffer: the previous data, then this data, from the same backing array
				_, _ = peer.NewSignature(string(t.ctx), w.privs[t.k], t.ht, ruNew.load(prevNewData), incl)
				s4, err4 := peer.NewSignature(string(t.ctx), w.privs[t.k], t.ht, ruNew.load(t.data), incl)
				c.Eval()
				c.Eval()
				if err4 != nil || !bytes.Equal(s4.GetSigData(), s.GetSigData()) {
					c.Failf("c02-buffer-reuse-differs", map[string]any{"kind": "NewSignature", "tuple": t.String()}, "signing data from a buffer that held other data before gave a different signature than from a fresh buffer")
				}
			}
			prevNewData = clone(t.data)
			if prevNewData == nil {
				prevNewData = []byte{}
			}
						if err2 != nil || err3 != nil || !bytes.Equal(s2.GetSigData(), s.GetSigData()) || !bytes.Equal(s2.GetPubKey(), s.GetPubKey()) || !bytes.Equal(s3.GetSigData(), s.GetSigData()) {
				c.Failf("c02-repeated-call-differs", map[string]any{"kind": "NewSignature", "tuple": t.String()}, "two NewSignature calls with identical inputs produced different signature objects")
			}
		}
		cls := 0
		if panicked {
			cls = 99
		} else if err != nil {
			cls = 3
		}
		desc := map[string]any{"kind": "NewSignature", "tuple": t.String(), "incl_pub_key": incl, "class": cls}
		c.Case(hx.App("NewSig", bz(t.ctx), hx.Nat(t.k), hx.Z(int64(int32(t.ht))), bz(t.data), hx.Bool(incl), hx.Nat(cls)), desc)
		c.Class("new-signature")
		if panicked {
			c.Failf("c02-new-signature-panic", desc, "NewSignature panicked: %v", pv)
			continue
		}
		supported := false
		for _, h := range w.hts {
			supported = supported || h == t.ht
		}
		if (err == nil) != supported {
			c.Failf("c02-new-signature-hash-type", desc, "NewSignature error=%v for hash type %d (supported=%v)", err, int32(t.ht), supported)
		}
		if err == nil {
			c.Nontrivial("new" + t.String())
			w.sign(t, incl)
			if s.GetHashType() != t.ht || len(s.GetSigData()) == 0 {
				c.Failf("c02-new-signature-fields", desc, "signature object does not carry the requested hash type / signature bytes")
			}
			if incl {
				pk, perr := s.ParsePubKey()
				if perr != nil || pk == nil || !pk.Equals(w.pubs[t.k]) {
					c.Failf("c02-new-signature-fields", desc, "embedded public key is not the signer's")
				}
			} else if len(s.GetPubKey()) != 0 {
				c.Failf("c02-new-signature-fields", desc, "public key embedded although not requested")
			}
			if ok, verr := s.VerifyWithPublic(string(t.ctx), w.pubs[t.k], t.data); !ok || verr != nil {
				c.Failf("c02-honest-signature-rejected", desc, "a fresh signature does not verify under its own key, context and data: ok=%v err=%v", ok, verr)
			}
		}
	}
	// VerifyWithPublic
	for i := 0; i < nVer; i++ {
		t := w.randTuple()
		if c.Rng.Intn(10) == 0 {
			t.data = nil
		}
		s := w.sign(t, c.Rng.Intn(4) == 0)
		s = &peer.Signature{PubKey: clone(s.PubKey), HashType: s.HashType, SigData: clone(s.SigData)}
		v := t // what we verify against
		how := "same"
		subst := func() {
			switch c.Rng.Intn(9) {
			case 0:
				v.k = (v.k + 1 + c.Rng.Intn(len(w.privs)-1)) % len(w.privs)
				how += "+key"
			case 1:
				v.ctx = w.pickCtx()
				how += "+context"
			case 2:
				s.HashType = w.hts[c.Rng.Intn(len(w.hts))]
				how += "+hashtype"
			case 3:
				s.HashType = w.badHts[c.Rng.Intn(len(w.badHts))]
				how += "+hashtype-unsupported"
			case 4:
				v.data = w.pickBody()
				how += "+data"
			case 5:
				u := w.randTuple()
				s.SigData = clone(w.sign(u, false).GetSigData())
				how += "+signature-of-other-tuple"
			case 6:
				switch c.Rng.Intn(4) {
				case 0:
					s.SigData = s.SigData[:c.Rng.Intn(len(s.SigData)+1)]
				case 1:
					s.SigData = append(s.SigData, byte(c.Rng.Intn(256)))
				case 2:
					if len(s.SigData) > 0 {
						s.SigData[c.Rng.Intn(len(s.SigData))] ^= 1 << c.Rng.Intn(8)
					}
				default:
					s.SigData = c.RandBytes(64)
				}
				how += "+signature-bytes-damaged"
			case 7:
				s.SigData = nil
				how += "+signature-empty"
			default:
				v.ctx = append(clone(v.ctx), []byte(fmt.Sprintf(" - SIGN - %d", int32(s.HashType)))...)
				how += "+context-absorbs-separator"
			}
		}
		switch i % 4 {
		case 0:
		case 1, 2:
			subst()
		default:
			subst()
			subst()
		}
		var ok bool
		var err error
		sBefore := &peer.Signature{PubKey: clone(s.PubKey), HashType: s.HashType, SigData: clone(s.SigData)}
		dataArg := clone(v.data)
		pubRawBefore, _ := w.pubs[v.k].Raw()
		pubRawBefore = clone(pubRawBefore)
		panicked, pv := hx.Catch(func() { ok, err = s.VerifyWithPublic(string(v.ctx), w.pubs[v.k], dataArg) })
		argd := map[string]any{"kind": "VerifyWithPublic", "verified_against": v.String(), "sig_data_hex": hx.Hex(sBefore.SigData), "sig_hash_type": int32(sBefore.HashType)}
		pubRawAfter, _ := w.pubs[v.k].Raw()
		if !bytes.Equal(dataArg, v.data) || !bytes.Equal(s.SigData, sBefore.SigData) || !bytes.Equal(s.PubKey, sBefore.PubKey) || s.HashType != sBefore.HashType || !bytes.Equal(pubRawAfter, pubRawBefore) {
			c.Failf("c02-argument-modified", argd, "VerifyWithPublic modified its data argument, the signature object or the public key")
		}
		if !panicked && i%2 == 0 {
			dsub, dwhole := spare(v.data)
			ssub, swhole := spare(sBefore.SigData)
			s2 := &peer.Signature{PubKey: clone(sBefore.PubKey), HashType: sBefore.HashType, SigData: ssub}
			for rep := 0; rep < 2; rep++ {
				var ok2 bool
				var err2 error
				p2, _ := hx.Catch(func() { ok2, err2 = s2.VerifyWithPublic(string(v.ctx), w.pubs[v.k], dsub) })
				c.Eval()
				if p2 || ok2 != ok || (err2 == nil) != (err == nil) {
					c.Failf("c02-repeated-call-differs", argd, "repeating VerifyWithPublic on the same inputs (buffers with spare capacity) gave ok=%v err=%v instead of ok=%v err=%v", ok2, err2, ok, err)
				}
			}
			if !intact(dwhole, v.data) || !intact(swhole, sBefore.SigData) {
				c.Failf("c02-argument-modified", argd, "VerifyWithPublic wrote to an argument buffer or beyond its length")
			}
		}
		if !panicked && i%2 == 1 && w.prevVSig != nil {
			// recycled buffers: the previous (data, signature) then this one from the same backing arrays
			sp := &peer.Signature{PubKey: clone(sBefore.PubKey), HashType: sBefore.HashType, SigData: w.ruVSig.load(w.prevVSig)}
			hx.Catch(func() { _, _ = sp.VerifyWithPublic(string(v.ctx), w.pubs[v.k], w.ruVData.load(w.prevVData)) })
			if i%4 == 1 {
				w.ruVData.zero()
				w.ruVSig.zero()
			}
			sp.SigData = w.ruVSig.load(sBefore.SigData)
			var ok3 bool
			var err3 error
			p3, _ := hx.Catch(func() { ok3, err3 = sp.VerifyWithPublic(string(v.ctx), w.pubs[v.k], w.ruVData.load(v.data)) })
			c.Eval()
			c.Eval()
			if p3 || ok3 != ok || (err3 == nil) != (err == nil) {
				c.Failf("c02-buffer-reuse-differs", argd, "VerifyWithPublic on buffers that held another data/signature before gave ok=%v err=%v, on fresh buffers ok=%v err=%v", ok3, err3, ok, err)
			}
		}
		w.prevVData, w.prevVSig = clone(v.data), clone(sBefore.SigData)
		if w.prevVData == nil {
			w.prevVData = []byte{}
		}
		obs := 0
		switch {
		case panicked:
			obs = 99
		case err != nil:
			obs = 2
		case ok:
			obs = 1
		}
		desc := map[string]any{"kind": "VerifyWithPublic", "how": how, "signed": t.String(), "verified_against": v.String(),
			"sig_hash_type": int32(s.HashType), "sig_data_hex": hx.Hex(s.SigData), "result": obs}
		c.Case(hx.App("VerifyPub", bz(v.ctx), hx.Nat(v.k), bz(v.data), w.pubTerm(s.PubKey),
			hx.Z(int64(int32(s.HashType))), w.sigTerm(s.SigData), hx.Nat(obs)), desc)
		if how == "same" {
			c.Class("verify/same")
		} else {
			c.Class("verify/substituted")
		}
		if obs == 1 {
			c.Nontrivial("ver" + fmt.Sprint(desc))
		}
		// ---- direct oracle ----
		if panicked {
			c.Failf("c02-verify-panic", desc, "VerifyWithPublic panicked: %v", pv)
			continue
		}
		if err != nil && ok {
			c.Failf("c02-verify-true-with-error", desc, "VerifyWithPublic returned true together with an error")
		}
		made, known := w.sigTab[string(s.SigData)]
		exact := known && made.k == v.k && bytes.Equal(made.ctx, v.ctx) && made.ht == s.HashType && bytes.Equal(made.data, v.data)
		if ok && !exact {
			c.Failf("c02-verifies-without-matching-signature", desc, "verified although the signature bytes were not made by this key over this context, hash type and data")
		}
		if !ok && exact {
			c.Failf("c02-matching-signature-rejected", desc, "signature made by this key over this context, hash type and data does not verify: err=%v", err)
		}
		supported := false
		for _, h := range w.hts {
			supported = supported || h == s.HashType
		}
		if (!supported || len(s.SigData) == 0) && err == nil {
			c.Failf("c02-unknown-hash-type-or-empty-signature-not-an-error", desc, "VerifyWithPublic returned no error for hash type %d / %d signature bytes", int32(s.HashType), len(s.SigData))
		}
	}
	// Validate
	for i := 0; i < nVal; i++ {
		s := &peer.Signature{}
		allHts := append(append([]hash.HashType{}, w.hts...), w.badHts...)
		s.HashType = allHts[c.Rng.Intn(len(allHts))]
		switch c.Rng.Intn(4) {
		case 0:
		case 1:
			s.SigData = clone(w.sign(w.randTuple(), false).GetSigData())
		case 2:
			s.SigData = c.RandBytes(1 + c.Rng.Intn(70))
		default:
			s.SigData = []byte{}
		}
		switch c.Rng.Intn(5) {
		case 0, 1:
		case 2:
			s.PubKey = clone(w.pubMar[c.Rng.Intn(len(w.pubMar))])
		case 3:
			s.PubKey = c.RandBytes(1 + c.Rng.Intn(40))
		default:
			// embedded Ed25519 keys of every length 0..33 and 64
			s.PubKey = w.embeddedKey(c.Rng.Intn(len(w.raws)), embeddedKeyLens[c.Rng.Intn(len(embeddedKeyLens))])
		}
		var err error
		var sp *peer.Signature = s
		if c.Rng.Intn(25) == 0 {
			sp = nil
			s = &peer.Signature{}
		}
		vBefore := &peer.Signature{PubKey: clone(s.PubKey), HashType: s.HashType, SigData: clone(s.SigData)}
		var vPubWhole, vSigWhole []byte
		if i%2 == 0 && sp != nil {
			s.PubKey, vPubWhole = spare(vBefore.PubKey)
			s.SigData, vSigWhole = spare(vBefore.SigData)
			if len(vBefore.PubKey) == 0 {
				s.PubKey, vPubWhole = nil, nil
			}
		}
		panicked, pv := hx.Catch(func() { err = sp.Validate() })
		if !intact(vPubWhole, vBefore.PubKey) || !intact(vSigWhole, vBefore.SigData) {
			c.Failf("c02-argument-modified", map[string]any{"kind": "Signature.Validate", "sig_data_hex": hx.Hex(vBefore.SigData)}, "Validate wrote to a field buffer or beyond its length")
		}
		if !bytes.Equal(vBefore.PubKey, s.PubKey) || !bytes.Equal(vBefore.SigData, s.SigData) || vBefore.HashType != s.HashType {
			c.Failf("c02-argument-modified", map[string]any{"kind": "Signature.Validate", "sig_data_hex": hx.Hex(vBefore.SigData)}, "Validate modified the signature object")
		}
		if !panicked {
			var err2 error
			p2, _ := hx.Catch(func() { err2 = sp.Validate() })
			c.Eval()
			if p2 || (err2 == nil) != (err == nil) {
				c.Failf("c02-repeated-call-differs", map[string]any{"kind": "Signature.Validate", "sig_data_hex": hx.Hex(vBefore.SigData)}, "a second Validate call gave a different answer")
			}
		}
		obs := 0
		switch {
		case panicked:
			obs = 99
		case err == nil:
		case s.GetHashType().Validate() != nil:
			obs = 3
		case errors.Is(err, peer.ErrSignatureInvalid):
			obs = 4
		default:
			obs = 5
		}
		desc := map[string]any{"kind": "Signature.Validate", "nil_object": sp == nil, "hash_type": int32(s.HashType),
			"sig_data_hex": hx.Hex(s.SigData), "pub_key_hex": hx.Hex(s.PubKey), "class": obs}
		c.Case(hx.App("Validate", w.pubTerm(s.PubKey), hx.Z(int64(int32(s.HashType))), w.sigTerm(s.SigData), hx.Nat(obs)), desc)
		c.Class("validate")
		if obs == 0 {
			c.Nontrivial("val" + fmt.Sprint(desc))
		}
		if panicked {
			c.Failf("c02-validate-panic", desc, "Validate panicked: %v", pv)
			continue
		}
		// property text: unknown (out of range) hash types, empty signature bytes, unparsable embedded keys are rejected
		inRange := s.HashType >= 0 && int(s.HashType) <= 3
		// independent of the unmarshallers under test: an embedded key must be a 32-byte Ed25519 key
		indRaw, indOK := independentPub(s.PubKey)
		pubBad := len(s.PubKey) != 0 && !indOK
		if len(s.PubKey) != 0 {
			var ppk crypto.PubKey
			var pperr error
			pp, _ := hx.Catch(func() { ppk, pperr = (&peer.Signature{PubKey: clone(s.PubKey)}).ParsePubKey() })
			c.Eval()
			if pp {
				c.Failf("c02-validate-panic", desc, "ParsePubKey panicked")
			} else if pperr == nil && !indOK {
				c.Failf("c02-malformed-embedded-key-parsed", desc, "ParsePubKey accepted pub_key %x, which is not a 32-byte Ed25519 key", s.PubKey)
			} else if pperr == nil {
				if raw, _ := ppk.Raw(); !bytes.Equal(raw, indRaw) {
					c.Failf("c02-malformed-embedded-key-parsed", desc, "ParsePubKey returned a key different from the embedded bytes")
				}
			} else if indOK {
				c.Failf("c02-validate-rejects-valid", desc, "ParsePubKey rejected a well-formed embedded key: %v", pperr)
			}
		}
		if err == nil && (!inRange || len(s.SigData) == 0 || pubBad) {
			c.Failf("c02-validate-accepts-invalid", desc, "Validate accepted hash type %d, %d signature bytes, unparsable pub_key=%v", int32(s.HashType), len(s.SigData), pubBad)
		}
		if err != nil && inRange && len(s.SigData) != 0 && !pubBad {
			c.Failf("c02-validate-rejects-valid", desc, "Validate rejected a well-formed signature object: %v", err)
		}
	}
}
