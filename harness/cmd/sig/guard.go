package main

import "bytes"

// guard wraps a []byte argument as a sub-slice whole[off:off+n] of a larger
// buffer with guardPad bytes of patterned spare capacity before and after
// (cap(arg) = n + guardPad, so an append inside the callee aliases the buffer).
const guardPad = 96

type guard struct {
	whole []byte
	n     int
	want  []byte // expected content of the argument; nil for pure output buffers
}

func guardPat(i int) byte { return byte(i*31+7) | 1 }

// guardBytes returns the guarded argument for b (nil stays nil: nothing to alias).
func guardBytes(b []byte) ([]byte, *guard) {
	if b == nil {
		return nil, nil
	}
	g := &guard{whole: make([]byte, guardPad+len(b)+guardPad), n: len(b), want: append([]byte{}, b...)}
	for i := range g.whole {
		g.whole[i] = guardPat(i)
	}
	copy(g.whole[guardPad:], b)
	return g.whole[guardPad : guardPad+len(b)], g
}

// guardOut returns an output buffer of n bytes inside a patterned larger buffer.
func guardOut(n int) ([]byte, *guard) {
	g := &guard{whole: make([]byte, guardPad+n+guardPad), n: n}
	for i := range g.whole {
		g.whole[i] = guardPat(i)
	}
	return g.whole[guardPad : guardPad+n], g
}

// argChanged: the argument bytes differ from what was passed in.
func (g *guard) argChanged() bool {
	return g != nil && g.want != nil && !bytes.Equal(g.whole[guardPad:guardPad+g.n], g.want)
}

// outsideChanged: a byte before the slice or between len and cap was written.
func (g *guard) outsideChanged() bool {
	if g == nil {
		return false
	}
	for i := range g.whole {
		if (i < guardPad || i >= guardPad+g.n) && g.whole[i] != guardPat(i) {
			return true
		}
	}
	return false
}
