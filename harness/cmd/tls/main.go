// Harness for crypto/tls + transport/common/quic identity (C03): builds real
// certificates from recipes (honest, re-signed, extension removed / duplicated
// / corrupted, binding over another key, several certificates, ...), runs
// PubKeyFromCertChain, ConfigForPeer(x).VerifyPeerCertificate and real
// in-memory QUIC/TLS handshakes, and emits correspondence cases for Tls/Run.v.
package main

import (
	"context"
	"crypto/ecdsa"
	"crypto/elliptic"
	"crypto/rand"
	"crypto/tls"
	"crypto/x509"
	"crypto/x509/pkix"
	"encoding/asn1"
	"fmt"
	"io"
	"math/big"
	"strings"
	"time"

	"github.com/aperturerobotics/bifrost/crypto"
	p2ptls "github.com/aperturerobotics/bifrost/crypto/tls"
	"github.com/aperturerobotics/bifrost/peer"
	transport_quic "github.com/aperturerobotics/bifrost/transport/common/quic"
	"github.com/quic-go/quic-go"
	"github.com/sirupsen/logrus"
	"verifharness/cmd/dial/dscen"
	"verifharness/cmd/dial/qmem"
	"verifharness/internal/hx"
)

func main() { hx.Main(run) }

const realPrefix = "libp2p-tls-handshake:"

var keyOID = asn1.ObjectIdentifier{1, 3, 6, 1, 4, 1, 53594, 1, 1}

type signedKey struct {
	PubKey    []byte
	Signature []byte
}

// world: peer keys and certificate keys, by index.
var (
	privs    []crypto.PrivKey
	pubs     []crypto.PubKey
	pids     []peer.ID
	certKeys []*ecdsa.PrivateKey
	// every signature the harness produced: bytes -> symbolic term
	sigTerms = map[string]string{}
)

func initWorld() {
	for i := 0; i < 4; i++ {
		p, err := peer.NewPeer(nil)
		if err != nil {
			panic(err)
		}
		pk, _ := p.GetPrivKey(context.Background())
		privs = append(privs, pk)
		pubs = append(pubs, pk.GetPublic())
		pids = append(pids, p.GetPeerID())
	}
	for i := 0; i < 4; i++ {
		k, err := ecdsa.GenerateKey(elliptic.P256(), rand.Reader)
		if err != nil {
			panic(err)
		}
		certKeys = append(certKeys, k)
	}
}

func pkixOf(ck int) []byte {
	b, err := x509.MarshalPKIXPublicKey(certKeys[ck].Public())
	if err != nil {
		panic(err)
	}
	return b
}

// sign makes a real signature and records its symbolic term.
func sign(signer int, prefix string, msgCertKey int) []byte {
	sig, err := privs[signer].Sign(append([]byte(prefix), pkixOf(msgCertKey)...))
	if err != nil {
		panic(err)
	}
	sigTerms[string(sig)] = hx.App("SigBy", hx.Nat(signer), hx.App("msg_of", hx.Str(prefix), hx.Z(int64(msgCertKey))))
	return sig
}

type recipe struct {
	Signer     int    // peer key that signs the binding
	Claimed    int    // peer key placed in the extension (-1: garbage bytes)
	Prefix     string // prefix that is signed
	MsgCertKey int    // certificate key whose PKIX encoding is signed
	CertKey    int    // the certificate's key
	IssuerKey  int    // key that signs the certificate (== CertKey: self-signed)
	ExtMode    string // normal | omitted | dup-good-first | dup-bad-first | garbage | critical | sig-flip | sig-trunc | unknown-critical | wrong-oid | trailing
	Expired    bool
}

func (r recipe) honestShape() bool {
	// (Go's x509 parser refuses certificates with duplicate extensions, so both
	// duplicated forms are rejected before bifrost code sees them)
	okExt := r.ExtMode == "normal" || r.ExtMode == "critical" || r.ExtMode == "trailing"
	return okExt && r.Signer == r.Claimed && r.Claimed >= 0 && r.Prefix == realPrefix &&
		r.MsgCertKey == r.CertKey && r.IssuerKey == r.CertKey && !r.Expired
}

// onlyResigned: the sole deviation is that the certificate is signed by another key.
func (r recipe) onlyResigned() bool {
	if r.IssuerKey == r.CertKey {
		return false
	}
	r2 := r
	r2.IssuerKey = r2.CertKey
	return r2.honestShape()
}

func forgedKey(r recipe) string {
	if r.onlyResigned() {
		return "non-self-signed-cert-accepted"
	}
	return "forged-chain-accepted"
}

func forgedKeyN(rs []recipe) string {
	if len(rs) == 1 {
		return forgedKey(rs[0])
	}
	return "forged-chain-accepted"
}

func honest(k, ck int) recipe {
	return recipe{Signer: k, Claimed: k, Prefix: realPrefix, MsgCertKey: ck, CertKey: ck, IssuerKey: ck, ExtMode: "normal"}
}

func (r recipe) build(c *hx.Ctx) []byte {
	var pkb []byte
	if r.Claimed >= 0 {
		var err error
		pkb, err = crypto.MarshalPublicKey(pubs[r.Claimed])
		if err != nil {
			panic(err)
		}
	} else {
		pkb = c.RandBytes(7)
	}
	sig := sign(r.Signer, r.Prefix, r.MsgCertKey)
	switch r.ExtMode {
	case "sig-flip":
		sig = append([]byte{}, sig...)
		sig[c.Rng.Intn(len(sig))] ^= 1 << uint(c.Rng.Intn(8))
	case "sig-trunc":
		sig = sig[:len(sig)-1-c.Rng.Intn(8)]
	}
	val, err := asn1.Marshal(signedKey{PubKey: pkb, Signature: sig})
	if err != nil {
		panic(err)
	}
	good := pkix.Extension{Id: keyOID, Value: val}
	bad := pkix.Extension{Id: keyOID, Value: c.RandBytes(5 + c.Rng.Intn(20))}
	var exts []pkix.Extension
	switch r.ExtMode {
	case "omitted":
	case "dup-good-first":
		exts = []pkix.Extension{good, bad}
	case "dup-bad-first":
		exts = []pkix.Extension{bad, good}
	case "garbage":
		exts = []pkix.Extension{bad}
	case "critical":
		good.Critical = true
		exts = []pkix.Extension{good}
	case "unknown-critical":
		exts = []pkix.Extension{good, {Id: asn1.ObjectIdentifier{1, 3, 6, 1, 4, 1, 53594, 9, 9}, Critical: true, Value: []byte{5, 0}}}
	case "wrong-oid":
		good.Id = asn1.ObjectIdentifier{1, 3, 6, 1, 4, 1, 53594, 1, 2}
		exts = []pkix.Extension{good}
	case "trailing":
		good.Value = append(append([]byte{}, val...), 0, 1, 2)
		exts = []pkix.Extension{good}
	default:
		exts = []pkix.Extension{good}
	}
	sn, _ := rand.Int(rand.Reader, big.NewInt(1<<62))
	tmpl := &x509.Certificate{
		SerialNumber:    sn,
		NotBefore:       time.Now().Add(-time.Hour),
		NotAfter:        time.Now().Add(24 * time.Hour),
		Subject:         pkix.Name{SerialNumber: sn.String()},
		ExtraExtensions: exts,
	}
	if r.Expired {
		tmpl.NotBefore = time.Now().Add(-48 * time.Hour)
		tmpl.NotAfter = time.Now().Add(-24 * time.Hour)
	}
	der, err := x509.CreateCertificate(rand.Reader, tmpl, tmpl, certKeys[r.CertKey].Public(), certKeys[r.IssuerKey])
	if err != nil {
		panic(err)
	}
	return der
}

// certTerm renders what the Go libraries make of a DER certificate.
func certTerm(der []byte) (term string, ok bool) {
	cert, err := x509.ParseCertificate(der)
	if err != nil {
		return "RawGarbage", false
	}
	// oracle for cert.Verify as PubKeyFromCertChain calls it
	for idx, oident := range cert.UnhandledCriticalExtensions {
		if oident.Equal(keyOID) {
			cert.UnhandledCriticalExtensions = append(cert.UnhandledCriticalExtensions[:idx], cert.UnhandledCriticalExtensions[idx+1:]...)
			break
		}
	}
	pool := x509.NewCertPool()
	pool.AddCert(cert)
	_, verr := cert.Verify(x509.VerifyOptions{Roots: pool})
	var exts []string
	for _, e := range cert.Extensions {
		var oid []string
		for _, x := range e.Id {
			oid = append(oid, hx.Z(int64(x)))
		}
		val := "ExtGarbage"
		var sk signedKey
		if _, err := asn1.Unmarshal(e.Value, &sk); err == nil {
			pk := "PkGarbage"
			if pub, err := crypto.UnmarshalPublicKey(sk.PubKey); err == nil {
				pk = hx.App("PkOf", hx.Nat(50))
				for i, p := range pubs {
					if p.Equals(pub) {
						pk = hx.App("PkOf", hx.Nat(i))
					}
				}
			}
			sg, found := sigTerms[string(sk.Signature)]
			if !found {
				sg = "SigGarbage"
			}
			val = hx.App("SignedKey", pk, sg)
		}
		exts = append(exts, hx.App("mkExt", hx.List(oid), hx.Bool(e.Critical), val))
	}
	ck := int64(99)
	for i, k := range certKeys {
		if pub, ok := cert.PublicKey.(*ecdsa.PublicKey); ok && pub.Equal(k.Public()) {
			ck = int64(i)
		}
	}
	_, perr := x509.MarshalPKIXPublicKey(cert.PublicKey)
	selfSigned := cert.CheckSignature(cert.SignatureAlgorithm, cert.RawTBSCertificate, cert.Signature) == nil
	return hx.App("mkCert", hx.Bool(verr == nil), hx.List(exts), hx.Bool(selfSigned), hx.Z(ck), hx.Bool(perr == nil)), true
}

func keyIndex(pk crypto.PubKey) int {
	for i, p := range pubs {
		if p.Equals(pk) {
			return i
		}
	}
	return 50
}

var modes = []string{"normal", "omitted", "dup-good-first", "dup-bad-first", "garbage", "critical", "sig-flip", "sig-trunc", "unknown-critical", "wrong-oid", "trailing"}
var prefixes = []string{realPrefix, "libp2p-tls-handshake", "", "bifrost-tls-handshake:", "libp2p-tls-handshake::"}

// genRecipe: mostly one deviation from an honest certificate.
func genRecipe(c *hx.Ctx) (recipe, string) {
	k, ck := c.Rng.Intn(len(privs)), c.Rng.Intn(len(certKeys))
	r := honest(k, ck)
	other := func(x, n int) int { return (x + 1 + c.Rng.Intn(n-1)) % n }
	switch c.Rng.Intn(12) {
	case 0, 1, 2:
		return r, "honest"
	case 3:
		r.Signer = other(k, len(privs))
		return r, "binding-signed-by-other-key"
	case 4:
		r.MsgCertKey = other(ck, len(certKeys))
		return r, "binding-over-other-cert-key"
	case 5:
		r.IssuerKey = other(ck, len(certKeys))
		return r, "cert-resigned-with-other-key"
	case 6:
		r.Prefix = prefixes[1+c.Rng.Intn(len(prefixes)-1)]
		return r, "wrong-prefix"
	case 7:
		r.Claimed = -1
		return r, "pubkey-garbage"
	case 8:
		r.Expired = true
		return r, "expired"
	case 9, 10:
		r.ExtMode = modes[1+c.Rng.Intn(len(modes)-1)]
		return r, "ext-" + r.ExtMode
	default:
		// two deviations
		r.ExtMode = modes[c.Rng.Intn(len(modes))]
		r.Signer = c.Rng.Intn(len(privs))
		r.MsgCertKey = c.Rng.Intn(len(certKeys))
		return r, "mixed"
	}
}

func run(c *hx.Ctx) {
	c.Imports = "Lib.Sym Link.Model Dial.Model Tls.Model Tls.Run"
	c.Type = "c03_case"
	c.Agree = "c03_agree"
	if c.Prop != "C03" {
		panic("unknown property " + c.Prop)
	}
	c.Rule = "real X.509 certificates built from recipes (honest; binding signed by another peer key; binding over another certificate key; certificate re-signed with another key; wrong prefix; extension omitted/duplicated/garbage/critical/corrupted signature/wrong OID/trailing bytes; unknown critical extension; expired; 0-3 certificates; unparsable DER) through PubKeyFromCertChain and ConfigForPeer(x).VerifyPeerCertificate with empty/matching/other expected peer, plus real in-memory QUIC handshakes against honest and impersonating endpoints; non-trivial = distinct recipe/expected-peer combination"
	initWorld()
	identity, err := p2ptls.NewIdentity(privs[0])
	if err != nil {
		panic(err)
	}
	nShake := c.N / 12
	nUnit := c.N - nShake
	for i := 0; i < nUnit; i++ {
		// chain of 1 certificate mostly; sometimes 0, 2, 3 or unparsable
		n := 1
		switch c.Rng.Intn(14) {
		case 0:
			n = 0
		case 1:
			n = 2
		case 2:
			n = 3
		}
		var ders [][]byte
		var recipes []recipe
		var kinds []string
		for j := 0; j < n; j++ {
			r, kind := genRecipe(c)
			if n > 1 && j == 0 && c.Rng.Intn(2) == 0 {
				r, kind = honest(c.Rng.Intn(len(privs)), c.Rng.Intn(len(certKeys))), "honest"
			}
			recipes = append(recipes, r)
			kinds = append(kinds, kind)
			ders = append(ders, r.build(c))
		}
		garbageDER := false
		if n >= 1 && c.Rng.Intn(25) == 0 {
			garbageDER = true
			j := c.Rng.Intn(n)
			if c.Rng.Intn(2) == 0 {
				ders[j] = ders[j][:len(ders[j])/2]
			} else {
				ders[j] = c.RandBytes(40)
			}
		}
		class := fmt.Sprintf("chain-of-%d", n)
		if n == 1 {
			class = kinds[0]
		}
		if garbageDER {
			class = "unparsable-der"
		}
		c.Class(class)
		var rawTerms, certTerms []string
		allParsed := true
		for _, d := range ders {
			t, ok := certTerm(d)
			if ok {
				rawTerms = append(rawTerms, hx.App("RawCert", t))
				certTerms = append(certTerms, t)
			} else {
				rawTerms = append(rawTerms, t)
				allParsed = false
			}
		}
		desc := map[string]any{"recipes": fmt.Sprintf("%+v", recipes), "kinds": kinds, "garbage_der": garbageDER}
		shouldAccept := n == 1 && !garbageDER && recipes[0].honestShape()

		// --- PubKeyFromCertChain on the parsed chain
		if allParsed {
			chain := make([]*x509.Certificate, len(ders))
			for j, d := range ders {
				chain[j], _ = x509.ParseCertificate(d)
			}
			var pk crypto.PubKey
			var perr error
			panicked, pv := hx.Catch(func() { pk, perr = p2ptls.PubKeyFromCertChain(chain) })
			obs := int64(-1)
			switch {
			case panicked:
				obs = -2
				c.Failf("chain-panic", desc, "PubKeyFromCertChain panicked: %v", pv)
			case perr == nil:
				obs = int64(keyIndex(pk))
			}
			desc["pubkey_from_chain"] = obs
			c.Case(hx.App("Chain", hx.List(certTerms), hx.Z(obs)), desc)
			if obs >= 0 {
				c.Nontrivial(fmt.Sprintf("acc%+v", recipes))
				if !shouldAccept {
					c.Failf(forgedKeyN(recipes), desc, "PubKeyFromCertChain accepted a chain that is not a single self-signed certificate with a valid key binding")
				} else if int(obs) != recipes[0].Claimed {
					c.Failf("wrong-key-returned", desc, "returned key %d, the binding is by key %d", obs, recipes[0].Claimed)
				}
			} else if shouldAccept {
				c.Failf("honest-chain-rejected", desc, "an honest certificate was rejected: %v", perr)
			}
		}

		// --- VerifyPeerCertificate with an expected peer
		exp := 0 // model id: 0 = none, k+1 = peer k
		switch c.Rng.Intn(3) {
		case 1:
			if n >= 1 && recipes[0].Claimed >= 0 {
				exp = recipes[0].Claimed + 1
			}
		case 2:
			exp = 1 + c.Rng.Intn(len(privs))
		}
		var remote peer.ID
		if exp > 0 {
			remote = pids[exp-1]
		}
		conf, keyCh := identity.ConfigForPeer(remote)
		var verr error
		panicked, pv := hx.Catch(func() { verr = conf.VerifyPeerCertificate(ders, nil) })
		obs := int64(-1)
		switch {
		case panicked:
			obs = -2
			c.Failf("verify-panic", desc, "VerifyPeerCertificate panicked: %v", pv)
		case verr == nil:
			select {
			case pk := <-keyCh:
				if pk == nil {
					c.Failf("verify-no-key", desc, "VerifyPeerCertificate succeeded without a key")
				} else {
					obs = int64(keyIndex(pk))
				}
			default:
				c.Failf("verify-no-key", desc, "VerifyPeerCertificate succeeded without delivering a key")
			}
		}
		d2 := map[string]any{"recipes": desc["recipes"], "kinds": kinds, "expected_peer": exp, "verify_peer": obs}
		c.Case(hx.App("Verify", hx.Z(int64(exp)), hx.List(rawTerms), hx.Z(obs)), d2)
		c.Nontrivial(fmt.Sprintf("v%d%+v", exp, recipes))
		if obs >= 0 {
			if !shouldAccept {
				c.Failf(forgedKeyN(recipes), d2, "VerifyPeerCertificate accepted a chain that is not a single self-signed certificate with a valid key binding")
			} else if exp > 0 && int(obs)+1 != exp {
				c.Failf("unexpected-peer-accepted", d2, "required peer %d, accepted peer key %d", exp, obs)
			}
		} else if shouldAccept && (exp == 0 || exp == recipes[0].Claimed+1) && obs == -1 {
			c.Failf("honest-chain-rejected", d2, "an honest certificate was rejected: %v", verr)
		}
		if exp > 0 && exp != 0 && n == 1 && shouldAccept && exp != recipes[0].Claimed+1 {
			c.Class("expected-other-peer")
		}
	}
	for i := 0; i < nShake; i++ {
		shake(c)
	}
	// expected-peer enforcement at the level callers use it: Transport.DialPeer
	// on a pconn/quic transport (dial function with an EMPTY TLS constraint +
	// post-check), overlapping and sequential dials of one address with
	// different expected peers, intended peer / impostor / nobody answering
	nDial := c.N / 10
	if nDial < 10 {
		nDial = 10
	}
	dscen.RunExpectedPeer(c, nDial, "link-to-caller-names-other-peer", "SharedDial",
		"call %d required peer%d at the address but was handed a link to peer %d")
}

// ---------------------------------------------------------------------------
// end to end: the local peer (key 0) dials an endpoint that presents a
// certificate built from a recipe and holds (or not) the certificate key.

func quietLogger() *logrus.Entry {
	log := logrus.New()
	log.SetOutput(io.Discard)
	log.SetLevel(logrus.PanicLevel)
	return logrus.NewEntry(log)
}

func shake(c *hx.Ctx) {
	le := quietLogger()
	r, kind := genRecipe(c)
	if c.Rng.Intn(3) == 0 {
		r, kind = honest(1+c.Rng.Intn(3), c.Rng.Intn(len(certKeys))), "honest"
	}
	// the endpoint's TLS private key: its own certificate key, or (replaying
	// somebody's certificate) a key that does not match the certificate
	holds := true
	tlsKey := certKeys[r.CertKey]
	if c.Rng.Intn(6) == 0 {
		holds = false
		tlsKey = certKeys[(r.CertKey+1)%len(certKeys)]
		kind += "+no-cert-key"
	}
	der := r.build(c)
	exp := 0
	switch c.Rng.Intn(3) {
	case 1:
		if r.Claimed >= 0 {
			exp = r.Claimed + 1
		}
	case 2:
		exp = 2 + c.Rng.Intn(3)
	}
	var remote peer.ID
	if exp > 0 {
		remote = pids[exp-1]
	}
	c.Class("handshake-" + kind)

	nw := qmem.NewNet()
	srvPC := nw.NewConn("srv", true)
	cliPC := nw.NewConn("cli", true)
	defer srvPC.Close()
	defer cliPC.Close()
	srvConf := &tls.Config{
		MinVersion:             tls.VersionTLS13,
		Certificates:           []tls.Certificate{{Certificate: [][]byte{der}, PrivateKey: tlsKey}},
		NextProtos:             []string{transport_quic.Alpn},
		ClientAuth:             tls.RequireAnyClientCert,
		InsecureSkipVerify:     true,
		SessionTicketsDisabled: true,
		VerifyPeerCertificate:  func([][]byte, [][]*x509.Certificate) error { return nil },
	}
	qconf := transport_quic.BuildQuicConfig(&transport_quic.Opts{})
	ln, err := quic.Listen(srvPC, srvConf, qconf)
	if err != nil {
		panic(err)
	}
	defer ln.Close()
	ctx, cancel := context.WithTimeout(context.Background(), 3*time.Second)
	defer cancel()
	go func() {
		for {
			s, err := ln.Accept(ctx)
			if err != nil {
				return
			}
			go func() { <-ctx.Done(); _ = s.CloseWithError(0, "") }()
		}
	}()
	identity, err := p2ptls.NewIdentity(privs[0])
	if err != nil {
		panic(err)
	}
	obs := int64(-1)
	var what string
	sess, pk, derr := transport_quic.DialSession(ctx, le, &transport_quic.Opts{}, cliPC, identity, qmem.Addr("srv"), remote)
	if derr == nil {
		var lnk *transport_quic.Link
		lnk, derr = transport_quic.NewLink(ctx, le, &transport_quic.Opts{}, 1, pids[0], qmem.Addr("cli"), sess, nil)
		if derr == nil {
			rp := lnk.GetRemotePeer()
			obs = 0
			for i, id := range pids {
				if id == rp {
					obs = int64(i + 1)
				}
			}
			if id2, err := peer.IDFromPublicKey(pk); err != nil || id2 != rp {
				c.Failf("link-peer-ne-handshake-key", kind, "link names %s, the handshake delivered another key", rp.String())
			}
			_ = lnk.Close()
		}
		_ = sess.CloseWithError(0, "")
	}
	if derr != nil {
		what = derr.Error()
		if strings.Contains(what, "context deadline") {
			what = "timeout: " + what
		}
	}
	t, parsed := certTerm(der)
	rawTerm := t
	if parsed {
		rawTerm = hx.App("RawCert", t)
	}
	desc := map[string]any{"kind": "handshake", "recipe": fmt.Sprintf("%+v", r), "holds_cert_key": holds, "expected_peer": exp, "link_remote": obs, "error": what}
	c.Case(hx.App("Shake", hx.Z(int64(exp)), hx.App("mkAttempt", hx.List([]string{rawTerm}), hx.Bool(holds)), hx.Z(obs)), desc)
	c.Nontrivial(fmt.Sprintf("h%d%v%+v", exp, holds, r))
	if obs >= 0 {
		// the C03 statement itself
		if !r.honestShape() || !holds {
			key := "impostor-link-established"
			if holds && r.onlyResigned() {
				key = "non-self-signed-cert-accepted"
			}
			c.Failf(key, desc, "a link was established with an endpoint that presented a forged certificate or does not hold its key")
		} else if int(obs) != r.Claimed+1 {
			c.Failf("link-names-wrong-peer", desc, "link names peer %d, the certificate binding is by key %d", obs, r.Claimed)
		} else if exp > 0 && int(obs) != exp {
			c.Failf("unexpected-peer-accepted", desc, "required peer %d, link to peer %d", exp, obs)
		}
	} else if r.honestShape() && holds && (exp == 0 || exp == r.Claimed+1) {
		c.Failf("honest-handshake-failed", desc, "handshake with an honest endpoint failed: %s", what)
	}
}
