// Harness for C40 (Decode/): runs every generated UnmarshalVT that parses
// bytes from a remote peer, the three length-prefixed readers in front of
// them, and the remaining network-facing parsers on random, structured and
// mutated inputs. Emits correspondence cases for Decode/Run.v and applies the
// direct oracle: no panic, allocation within the configured limit.
package main

import (
	"context"
	"errors"
	"fmt"
	"io"
	"net"
	"runtime"
	"sort"
	"time"

	"github.com/aperturerobotics/bifrost/crypto"
	"github.com/aperturerobotics/bifrost/envelope"
	"github.com/aperturerobotics/bifrost/hash"
	link_solicit "github.com/aperturerobotics/bifrost/link/solicit"
	"github.com/aperturerobotics/bifrost/peer"
	"github.com/aperturerobotics/bifrost/pubsub/floodsub"
	"github.com/aperturerobotics/bifrost/pubsub/util/pubmessage"
	signaling_rpc "github.com/aperturerobotics/bifrost/signaling/rpc"
	stream_packet "github.com/aperturerobotics/bifrost/stream/packet"
	transport_controller "github.com/aperturerobotics/bifrost/transport/controller"
	"github.com/aperturerobotics/bifrost/transport/webrtc"
	"github.com/aperturerobotics/bifrost/util/rwc"
	protobuf_go_lite "github.com/aperturerobotics/protobuf-go-lite"
	"github.com/aperturerobotics/protobuf-go-lite/types/known/timestamppb"
	"verifharness/internal/hx"
)

func main() { hx.Main(run) }

func run(c *hx.Ctx) {
	c.Imports = "Decode.Run"
	switch c.Prop {
	case "C40":
		c40(c)
	default:
		panic("unknown property " + c.Prop)
	}
}

// vtMsg is what every generated message offers.
type vtMsg interface {
	UnmarshalVT([]byte) error
	MarshalVT() ([]byte, error)
	Reset()
}

type msgType struct {
	name string // proto name
	coq  string // descriptor in gen/Descs.v
	mk   func() vtMsg
}

// the decoders in scope; names must exist in gen/Descs.v (the translator fails
// if a root disappears from the .proto files, the case files fail to compile
// if a name here has no descriptor)
var msgTypes = []msgType{
	{"peer.Signature", "d_peer_Signature", func() vtMsg { return &peer.Signature{} }},
	{"peer.SignedMsg", "d_peer_SignedMsg", func() vtMsg { return &peer.SignedMsg{} }},
	{"hash.Hash", "d_hash_Hash", func() vtMsg { return &hash.Hash{} }},
	{"crypto.PublicKey", "d_crypto_PublicKey", func() vtMsg { return &crypto.PublicKey{} }},
	{"crypto.PrivateKey", "d_crypto_PrivateKey", func() vtMsg { return &crypto.PrivateKey{} }},
	{"transport.controller.StreamEstablish", "d_transport_controller_StreamEstablish", func() vtMsg { return &transport_controller.StreamEstablish{} }},
	{"floodsub.Packet", "d_floodsub_Packet", func() vtMsg { return &floodsub.Packet{} }},
	{"floodsub.SubscriptionOpts", "d_floodsub_SubscriptionOpts", func() vtMsg { return &floodsub.SubscriptionOpts{} }},
	{"google.protobuf.Timestamp", "d_google_protobuf_Timestamp", func() vtMsg { return &timestamppb.Timestamp{} }},
	{"pubmessage.PubMessageInner", "d_pubmessage_PubMessageInner", func() vtMsg { return &pubmessage.PubMessageInner{} }},
	{"link.solicit.SolicitationExchange", "d_link_solicit_SolicitationExchange", func() vtMsg { return &link_solicit.SolicitationExchange{} }},
	{"signaling.rpc.ListenRequest", "d_signaling_rpc_ListenRequest", func() vtMsg { return &signaling_rpc.ListenRequest{} }},
	{"signaling.rpc.ListenResponse", "d_signaling_rpc_ListenResponse", func() vtMsg { return &signaling_rpc.ListenResponse{} }},
	{"signaling.rpc.SessionInit", "d_signaling_rpc_SessionInit", func() vtMsg { return &signaling_rpc.SessionInit{} }},
	{"signaling.rpc.SessionMsg", "d_signaling_rpc_SessionMsg", func() vtMsg { return &signaling_rpc.SessionMsg{} }},
	{"signaling.rpc.SessionRequest", "d_signaling_rpc_SessionRequest", func() vtMsg { return &signaling_rpc.SessionRequest{} }},
	{"signaling.rpc.SessionResponse", "d_signaling_rpc_SessionResponse", func() vtMsg { return &signaling_rpc.SessionResponse{} }},
	{"envelope.Envelope", "d_envelope_Envelope", func() vtMsg { return &envelope.Envelope{} }},
	{"envelope.EnvelopeGrant", "d_envelope_EnvelopeGrant", func() vtMsg { return &envelope.EnvelopeGrant{} }},
	{"envelope.EnvelopeGrantInner", "d_envelope_EnvelopeGrantInner", func() vtMsg { return &envelope.EnvelopeGrantInner{} }},
	{"envelope.EnvelopeShare", "d_envelope_EnvelopeShare", func() vtMsg { return &envelope.EnvelopeShare{} }},
	{"envelope.EnvelopeKeypair", "d_envelope_EnvelopeKeypair", func() vtMsg { return &envelope.EnvelopeKeypair{} }},
	{"webrtc.WebRtcSignal", "d_webrtc_WebRtcSignal", func() vtMsg { return &webrtc.WebRtcSignal{} }},
	{"webrtc.WebRtcSdp", "d_webrtc_WebRtcSdp", func() vtMsg { return &webrtc.WebRtcSdp{} }},
	{"webrtc.WebRtcIce", "d_webrtc_WebRtcIce", func() vtMsg { return &webrtc.WebRtcIce{} }},
}

func typeByName(n string) *msgType {
	for i := range msgTypes {
		if msgTypes[i].name == n {
			return &msgTypes[i]
		}
	}
	panic("no type " + n)
}

// error classes of Lib/Proto.v
func errClass(err error) int {
	switch {
	case errors.Is(err, io.ErrUnexpectedEOF), errors.Is(err, io.EOF):
		return 1
	case errors.Is(err, protobuf_go_lite.ErrIntOverflow):
		return 2
	case errors.Is(err, protobuf_go_lite.ErrInvalidLength):
		return 3
	case errors.Is(err, protobuf_go_lite.ErrUnexpectedEndOfGroup):
		return 4
	default:
		return 5
	}
}

// exact returns a copy of b with cap == len, so that any read past the end of
// the input panics instead of silently reading allocator slack.
func exact(b []byte) []byte {
	o := make([]byte, len(b))
	copy(o, b)
	return o[:len(b):len(b)]
}

// measure returns the bytes of heap allocated while f ran.
func measure(f func()) uint64 {
	var a, b runtime.MemStats
	runtime.ReadMemStats(&a)
	f()
	runtime.ReadMemStats(&b)
	return b.TotalAlloc - a.TotalAlloc
}

// allocation allowed for decoding n input bytes into Go structs: every
// decoded value costs at most one struct / slice header / string header plus
// slice growth; the constant is generous, the point is "linear in the input,
// not in a number the input announces".
func decodeBudget(n int) uint64 { return uint64(n)*160 + 8192 }

type obs struct {
	kind string // ok | err | panic
	out  []byte
	cls  int
}

func (o obs) term() string {
	switch o.kind {
	case "ok":
		return hx.App("ObsOk", hx.Bytes(o.out))
	case "err":
		return hx.App("ObsErr", hx.Nat(o.cls))
	default:
		return "ObsPanic"
	}
}

func (o obs) String() string {
	switch o.kind {
	case "ok":
		return "ok:" + hx.Hex(o.out)
	case "err":
		return fmt.Sprintf("err:%d", o.cls)
	default:
		return "panic"
	}
}

// unmarshal runs the real UnmarshalVT with panic capture and re-marshals on success.
func unmarshal(t *msgType, in []byte) (o obs, pv any, alloc uint64) {
	var m vtMsg
	var err error
	var panicked bool
	inCopy := exact(in)
	alloc = measure(func() {
		panicked, pv = hx.Catch(func() {
			m = t.mk()
			err = m.UnmarshalVT(inCopy)
		})
	})
	if panicked {
		return obs{kind: "panic"}, pv, alloc
	}
	if err != nil {
		return obs{kind: "err", cls: errClass(err)}, nil, alloc
	}
	var out []byte
	panicked, pv = hx.Catch(func() { out, err = m.MarshalVT() })
	if panicked {
		return obs{kind: "panic"}, pv, alloc
	}
	if err != nil {
		panic("MarshalVT failed after a successful UnmarshalVT: " + err.Error())
	}
	return obs{kind: "ok", out: out}, nil, alloc
}

func c40(c *hx.Ctx) {
	c.Type = "c40_case"
	c.Agree = "c40_agree"
	c.Rule = "every generated UnmarshalVT in scope on targeted malformed encodings, schema-agnostic structured wire data, mutations of valid encodings (bit flips, truncation, length edits, huge varints, splices, nesting) and random bytes: accept/reject class and decoded value (through MarshalVT) compared with the generic decoder; the three length-prefixed readers on finite streams with announced lengths around and far above the limit, measured allocation compared with the model's allocation trace; other parsers (peer id, keys, signed messages, envelopes, webrtc signals, decryption) with panic capture; non-trivial = accepted input carrying at least one field, or a rejected mutation of a valid encoding"
	runtime.GOMAXPROCS(2)
	g := &gen{c: c}
	g.initSeeds()

	nPb := c.N
	perType := nPb / len(msgTypes)
	if perType < 6 {
		perType = 6
	}
	for ti := range msgTypes {
		t := &msgTypes[ti]
		tg, pf := g.targeted(t)
		if c.Tier != "thorough" { // quick: a rotating sample of the generic (Skip / tag) encodings
			k := 6 + c.N/100
			c.Rng.Shuffle(len(tg), func(i, j int) { tg[i], tg[j] = tg[j], tg[i] })
			if k < len(tg) {
				tg = tg[:k]
			}
		}
		for _, in := range tg {
			pbCase(c, t, in, "targeted")
		}
		for _, in := range pf { // every field of the message, every shape, in both tiers
			pbCase(c, t, in, "field")
		}
		for i := 0; i < perType; i++ {
			var in []byte
			var cls string
			switch r := c.Rng.Intn(10); {
			case r < 4:
				in, cls = g.mutate(g.seedFor(t)), "mutated"
			case r < 8:
				in, cls = g.wire(0, 1+c.Rng.Intn(5)), "wire"
			case r < 9:
				in, cls = c.RandBytes(c.Rng.Intn(40)), "random"
			default:
				in, cls = g.seedFor(t), "valid"
			}
			if len(in) > 300 {
				in = in[:300]
			}
			pbCase(c, t, in, cls)
		}
	}
	readers(c, g, c.N/10+20)
	otherParsers(c, g, c.N)
}

func pbCase(c *hx.Ctx, t *msgType, in []byte, cls string) {
	o, pv, alloc := unmarshal(t, in)
	desc := map[string]any{"kind": "pb", "type": t.name, "input": hx.Hex(in), "gen": cls, "observed": o.String()}
	c.Case(hx.App("Pb", t.coq, hx.Bytes(in), o.term()), desc)
	c.Class("pb:" + cls + ":" + o.kind)
	if o.kind == "ok" && len(o.out) > 0 {
		c.Nontrivial("pb" + t.name + hx.Hex(in))
	}
	if o.kind == "err" && cls == "mutated" {
		c.Nontrivial("pbm" + t.name + hx.Hex(in))
	}
	// direct oracle
	if o.kind == "panic" {
		c.Failf("unmarshal-panic:"+t.name, desc, "%s.UnmarshalVT panicked: %v (must return a value or an error)", t.name, pv)
	}
	if alloc > decodeBudget(len(in)) {
		c.Failf("unmarshal-alloc:"+t.name, desc, "%s.UnmarshalVT allocated %d bytes for %d input bytes (budget %d)", t.name, alloc, len(in), decodeBudget(len(in)))
	}
}

// ---------- generators ----------

type gen struct {
	c     *hx.Ctx
	seeds map[string][][]byte
	priv  crypto.PrivKey
	pub   crypto.PubKey
	pid   peer.ID
}

func appendVarint(b []byte, v uint64) []byte { return protobuf_go_lite.AppendVarint(b, v) }

// a varint, sometimes non-minimal, sometimes overflowing
func (g *gen) varint(v uint64) []byte {
	b := appendVarint(nil, v)
	switch g.c.Rng.Intn(14) {
	case 0: // non-minimal: pad with 0x80.. 0x00
		if len(b) < 9 {
			k := 1 + g.c.Rng.Intn(9-len(b))
			b[len(b)-1] |= 0x80
			for i := 0; i < k-1; i++ {
				b = append(b, 0x80)
			}
			b = append(b, 0x00)
		}
	case 1: // ten bytes, tenth byte > 1 (overflow for the strict decoder, fine for Skip)
		b = []byte{0xff, 0xff, 0xff, 0xff, 0xff, 0xff, 0xff, 0xff, 0xff, byte(2 + g.c.Rng.Intn(126))}
	}
	return b
}

var edgeValues = []uint64{0, 1, 2, 127, 128, 255, 300, 16383, 16384, 1<<31 - 1, 1 << 31, 1<<32 - 1, 1 << 32, 1<<32 + 1, 1<<63 - 1, 1 << 63, 1<<64 - 1}

func (g *gen) value() uint64 {
	if g.c.Rng.Intn(3) == 0 {
		return edgeValues[g.c.Rng.Intn(len(edgeValues))]
	}
	return uint64(g.c.Rng.Intn(1000))
}

func (g *gen) fieldNum() uint64 {
	switch r := g.c.Rng.Intn(40); {
	case r < 32:
		return uint64(1 + g.c.Rng.Intn(7))
	case r < 36:
		return uint64(8 + g.c.Rng.Intn(20))
	case r == 36:
		return 0
	case r == 37:
		return 1<<29 + uint64(1+g.c.Rng.Intn(7)) // int32(wire>>3) wraps to a small field number
	case r == 38:
		return 1 << 28 // int32 negative after the shift
	default:
		return uint64(g.c.Rng.Intn(1 << 20))
	}
}

func (g *gen) text() []byte {
	samples := []string{"", "a", "/bifrost/test", "12D3KooW", "ch-1", "offer", "answer", "v=0\r\n", "\xff\xfe", "héllo"}
	return []byte(samples[g.c.Rng.Intn(len(samples))])
}

// schema-agnostic wire data: records with small field numbers, mostly varint
// and length-delimited, nested payloads, groups, occasional dishonest lengths
func (g *gen) wire(depth, nrec int) []byte {
	var out []byte
	for i := 0; i < nrec; i++ {
		fn := g.fieldNum()
		var wt uint64
		switch r := g.c.Rng.Intn(100); {
		case r < 45:
			wt = 2
		case r < 80:
			wt = 0
		case r < 84:
			wt = 1
		case r < 88:
			wt = 5
		case r < 93:
			wt = 3
		case r < 97:
			wt = 4
		default:
			wt = uint64(6 + g.c.Rng.Intn(2))
		}
		out = append(out, g.varint(fn<<3|wt)...)
		switch wt {
		case 0:
			out = append(out, g.varint(g.value())...)
		case 1:
			out = append(out, g.c.RandBytes(8)...)
		case 5:
			out = append(out, g.c.RandBytes(4)...)
		case 2:
			var payload []byte
			switch r := g.c.Rng.Intn(10); {
			case r < 4 && depth < 4:
				payload = g.wire(depth+1, g.c.Rng.Intn(4))
			case r < 6:
				payload = g.text()
			case r < 8: // packed varints
				for k := g.c.Rng.Intn(5); k > 0; k-- {
					payload = append(payload, g.varint(g.value())...)
				}
			default:
				payload = g.c.RandBytes(g.c.Rng.Intn(12))
			}
			ln := uint64(len(payload))
			switch g.c.Rng.Intn(16) {
			case 0:
				ln++
			case 1:
				if ln > 0 {
					ln--
				}
			case 2:
				ln = edgeValues[9+g.c.Rng.Intn(len(edgeValues)-9)]
			}
			out = append(out, g.varint(ln)...)
			out = append(out, payload...)
		case 3:
			if depth < 4 {
				out = append(out, g.wire(depth+1, g.c.Rng.Intn(3))...)
			}
			if g.c.Rng.Intn(5) != 0 {
				out = append(out, g.varint(fn<<3|4)...)
			}
		}
	}
	return out
}

func must(b []byte, err error) []byte {
	if err != nil {
		panic(err)
	}
	return b
}

func (g *gen) initSeeds() {
	c := g.c
	var err error
	g.priv, g.pub, err = crypto.GenerateEd25519Key(c.Rng)
	if err != nil {
		panic(err)
	}
	g.pid, err = peer.IDFromPublicKey(g.pub)
	if err != nil {
		panic(err)
	}
	s := map[string][][]byte{}
	add := func(name string, m vtMsg) { s[name] = append(s[name], must(m.MarshalVT())) }

	sm, err := peer.NewSignedMsg("ctx", g.priv, hash.HashType_HashType_BLAKE3, []byte("hello world"))
	if err != nil {
		panic(err)
	}
	sm2 := &peer.SignedMsg{FromPeerId: "x", Signature: &peer.Signature{HashType: -1, SigData: []byte{1, 2}}, Data: []byte{9}}
	add("peer.SignedMsg", sm)
	add("peer.SignedMsg", sm2)
	add("peer.Signature", sm.GetSignature())
	add("peer.Signature", &peer.Signature{PubKey: []byte{1, 2, 3}, HashType: 3, SigData: []byte{4}})
	add("hash.Hash", &hash.Hash{HashType: 1, Hash: c.RandBytes(32)})
	pkb, _ := crypto.MarshalPublicKey(g.pub)
	s["crypto.PublicKey"] = [][]byte{pkb}
	skb, _ := crypto.MarshalPrivateKey(g.priv)
	s["crypto.PrivateKey"] = [][]byte{skb}
	add("transport.controller.StreamEstablish", &transport_controller.StreamEstablish{ProtocolId: "/bifrost/proto/1"})
	add("floodsub.SubscriptionOpts", &floodsub.SubscriptionOpts{Subscribe: true, ChannelId: "chan"})
	add("floodsub.Packet", &floodsub.Packet{
		Subscriptions: []*floodsub.SubscriptionOpts{{Subscribe: true, ChannelId: "a"}, {ChannelId: "b"}, {}},
		Publish:       []*peer.SignedMsg{sm2, {}},
	})
	add("google.protobuf.Timestamp", &timestamppb.Timestamp{Seconds: -5, Nanos: -1})
	add("google.protobuf.Timestamp", &timestamppb.Timestamp{Seconds: 1700000000, Nanos: 999})
	add("pubmessage.PubMessageInner", &pubmessage.PubMessageInner{Data: []byte("d"), Channel: "c", Timestamp: &timestamppb.Timestamp{Seconds: 7}})
	add("link.solicit.SolicitationExchange", &link_solicit.SolicitationExchange{ProtocolHashes: [][]byte{c.RandBytes(32), {}, c.RandBytes(3)}})
	add("signaling.rpc.ListenRequest", &signaling_rpc.ListenRequest{})
	add("signaling.rpc.ListenResponse", &signaling_rpc.ListenResponse{Body: &signaling_rpc.ListenResponse_SetPeer{SetPeer: "p1"}})
	add("signaling.rpc.ListenResponse", &signaling_rpc.ListenResponse{Body: &signaling_rpc.ListenResponse_ClearPeer{ClearPeer: ""}})
	add("signaling.rpc.SessionInit", &signaling_rpc.SessionInit{PeerId: g.pid.String()})
	add("signaling.rpc.SessionMsg", &signaling_rpc.SessionMsg{SignedMsg: sm2, Seqno: 4})
	add("signaling.rpc.SessionRequest", &signaling_rpc.SessionRequest{SessionSeqno: 3, Body: &signaling_rpc.SessionRequest_Init{Init: &signaling_rpc.SessionInit{PeerId: "pp"}}})
	add("signaling.rpc.SessionRequest", &signaling_rpc.SessionRequest{Body: &signaling_rpc.SessionRequest_SendMsg{SendMsg: &signaling_rpc.SessionMsg{SignedMsg: sm2, Seqno: 1}}})
	add("signaling.rpc.SessionRequest", &signaling_rpc.SessionRequest{Body: &signaling_rpc.SessionRequest_AckMsg{AckMsg: 0}})
	add("signaling.rpc.SessionRequest", &signaling_rpc.SessionRequest{Body: &signaling_rpc.SessionRequest_ClearMsg{ClearMsg: 9}})
	add("signaling.rpc.SessionResponse", &signaling_rpc.SessionResponse{Body: &signaling_rpc.SessionResponse_Opened{Opened: 2}})
	add("signaling.rpc.SessionResponse", &signaling_rpc.SessionResponse{Body: &signaling_rpc.SessionResponse_Closed{Closed: false}})
	add("signaling.rpc.SessionResponse", &signaling_rpc.SessionResponse{Body: &signaling_rpc.SessionResponse_RecvMsg{RecvMsg: &signaling_rpc.SessionMsg{Seqno: 5}}})
	add("envelope.EnvelopeShare", &envelope.EnvelopeShare{Id: c.RandBytes(32), Value: c.RandBytes(32)})
	add("envelope.EnvelopeGrantInner", &envelope.EnvelopeGrantInner{Shares: []*envelope.EnvelopeShare{{Id: []byte{1}, Value: []byte{2}}, {}}})
	add("envelope.EnvelopeGrant", &envelope.EnvelopeGrant{KeypairIndexes: []uint32{0, 1, 300, 1<<32 - 1}, Ciphertexts: [][]byte{{1, 2}, {}}})
	add("envelope.EnvelopeKeypair", &envelope.EnvelopeKeypair{PubKey: pkb, AuthMethodId: "m", AuthMethodParams: []byte{7}})
	envm, err := envelope.BuildEnvelope(c.Rng, "ctx", []byte("payload"), []crypto.PubKey{g.pub}, &envelope.EnvelopeConfig{
		Threshold: 0, GrantConfigs: []*envelope.EnvelopeGrantConfig{{ShareCount: 1, KeypairIndexes: []uint32{0}}},
	})
	if err != nil {
		panic(err)
	}
	add("envelope.Envelope", envm)
	add("webrtc.WebRtcSdp", &webrtc.WebRtcSdp{TxSeqno: 3, SdpType: "offer", Sdp: "v=0\r\n"})
	add("webrtc.WebRtcIce", &webrtc.WebRtcIce{Candidate: "{}"})
	add("webrtc.WebRtcSignal", &webrtc.WebRtcSignal{Body: &webrtc.WebRtcSignal_RequestOffer{RequestOffer: 0}})
	add("webrtc.WebRtcSignal", &webrtc.WebRtcSignal{Body: &webrtc.WebRtcSignal_Sdp{Sdp: &webrtc.WebRtcSdp{TxSeqno: 1, SdpType: "answer", Sdp: "x"}}})
	add("webrtc.WebRtcSignal", &webrtc.WebRtcSignal{Body: &webrtc.WebRtcSignal_Ice{Ice: &webrtc.WebRtcIce{Candidate: "c"}}})
	g.seeds = s
}

func (g *gen) seedFor(t *msgType) []byte {
	l := g.seeds[t.name]
	if len(l) == 0 {
		return nil
	}
	b := append([]byte{}, l[g.c.Rng.Intn(len(l))]...)
	if len(b) > 260 {
		b = b[:0]
		// long seeds (the envelope) are replaced by an accepted random encoding
		for i := 0; i < 20 && len(b) == 0; i++ {
			w := g.wire(0, 3)
			m := t.mk()
			if m.UnmarshalVT(w) == nil {
				b = w
			}
		}
	}
	return b
}

// structured mutation of a valid encoding
func (g *gen) mutate(b []byte) []byte {
	c := g.c
	b = append([]byte{}, b...)
	n := 1 + c.Rng.Intn(2)
	for ; n > 0; n-- {
		switch c.Rng.Intn(10) {
		case 0: // bit flip
			if len(b) > 0 {
				b[c.Rng.Intn(len(b))] ^= 1 << uint(c.Rng.Intn(8))
			}
		case 1: // truncate
			if len(b) > 0 {
				b = b[:c.Rng.Intn(len(b))]
			}
		case 2: // set a byte to a length-like value
			if len(b) > 0 {
				b[c.Rng.Intn(len(b))] = []byte{0, 1, 0x7f, 0x80, 0xff, byte(len(b))}[c.Rng.Intn(6)]
			}
		case 3: // insert a huge varint
			p := c.Rng.Intn(len(b) + 1)
			v := appendVarint(nil, edgeValues[9+c.Rng.Intn(len(edgeValues)-9)])
			b = append(b[:p], append(v, b[p:]...)...)
		case 4: // delete a byte
			if len(b) > 0 {
				p := c.Rng.Intn(len(b))
				b = append(b[:p], b[p+1:]...)
			}
		case 5: // duplicate the whole encoding (merge semantics: last wins / append / merge)
			if len(b) < 130 {
				b = append(b, b...)
			}
		case 6: // splice generated records in front or behind
			w := g.wire(0, 1+c.Rng.Intn(2))
			if c.Rng.Intn(2) == 0 {
				b = append(w, b...)
			} else {
				b = append(b, w...)
			}
		case 7: // wrap: the encoding becomes the payload of field k (deep nesting)
			k := uint64(1 + c.Rng.Intn(5))
			w := appendVarint(nil, k<<3|2)
			w = appendVarint(w, uint64(len(b)))
			b = append(w, b...)
		case 8: // duplicate a random region
			if len(b) > 1 {
				i := c.Rng.Intn(len(b))
				j := i + 1 + c.Rng.Intn(len(b)-i)
				b = append(b[:j], append(append([]byte{}, b[i:j]...), b[j:]...)...)
			}
		default: // increment/decrement a byte (length-field edit)
			if len(b) > 0 {
				p := c.Rng.Intn(len(b))
				if c.Rng.Intn(2) == 0 {
					b[p]++
				} else {
					b[p]--
				}
			}
		}
	}
	return b
}

// malformed encodings aimed at specific branches of the generated code / Skip
func (g *gen) targeted(t *msgType) (generic [][]byte, perField [][]byte) {
	tag := func(fn, wt uint64) []byte { return appendVarint(nil, fn<<3|wt) }
	cat := func(parts ...[]byte) []byte {
		var o []byte
		for _, p := range parts {
			o = append(o, p...)
		}
		return o
	}
	ten := func(last byte) []byte {
		return []byte{0x80, 0x80, 0x80, 0x80, 0x80, 0x80, 0x80, 0x80, 0x80, last}
	}
	all := [][]byte{
		{},
		{0x00},                             // field number 0
		{0x02, 0x00},                       // field number 0, wire type 2
		{0x0c},                             // end group at top level
		tag(1<<29+1, 2),                    // int32(wire>>3) == 1 after truncation, then EOF
		cat(tag(1<<29+1, 2), []byte{0}),    // ... with an empty payload
		cat(tag(1<<29+1, 0), []byte{5}),    // ... as a varint
		cat(tag(1<<28, 0), []byte{1}),      // int32(wire>>3) negative: illegal tag
		ten(0x02),                          // tag varint overflows
		ten(0x01),                          // ten-byte tag, field number has bit 60 set
		{0x80},                             // truncated tag
		cat(tag(15, 3), tag(15, 4)),        // unknown empty group
		cat(tag(15, 3), []byte{0x08, 0x01}, tag(15, 4)),                // unknown group with a varint
		cat(tag(15, 3), tag(9, 3), tag(9, 4), tag(15, 4), []byte{0x78, 1}), // nested groups then unknown varint
		cat(tag(15, 3), []byte{0x08, 0x01}),                            // unknown group never closed
		cat(tag(15, 3), tag(7, 4)),                                     // group closed by another field number (Skip does not compare)
		cat(tag(15, 3), ten(0x7f), []byte{1}, tag(15, 4)),              // lax ten-byte tag inside a group
		cat(tag(15, 3), ten(0x80)),                                     // eleven-byte tag inside a group: overflow
		cat(tag(15, 1), []byte{1, 2, 3}),                               // unknown fixed64 truncated
		cat(tag(15, 1), []byte{1, 2, 3, 4, 5, 6, 7, 8}),                // unknown fixed64
		cat(tag(15, 5), []byte{1, 2}),                                  // unknown fixed32 truncated
		cat(tag(15, 5), []byte{1, 2, 3, 4}, tag(15, 0), []byte{0}),     // unknown fixed32, unknown varint
		cat(tag(15, 0), ten(0x7f)),                                     // unknown varint, lax ten bytes (Skip accepts)
		cat(tag(15, 0), ten(0x80), []byte{0}),                          // unknown varint eleven bytes
		cat(tag(15, 2), appendVarint(nil, 1<<63)),                      // unknown bytes, negative length
		cat(tag(15, 2), appendVarint(nil, 1<<62)),                      // unknown bytes, huge length
		cat(tag(15, 2), appendVarint(nil, 1<<63-1)),                    // unknown bytes, iNdEx+length overflows int
		cat(tag(15, 2), ten(0x7f)),                                     // unknown bytes, lax length with high bits
		cat(tag(15, 2), []byte{3, 1, 2, 3}),                            // unknown bytes
		cat(tag(15, 6), []byte{0}),                                     // illegal wire type 6
		cat(tag(15, 7)),                                                // illegal wire type 7
		cat(tag(15, 3), tag(3, 6)),                                     // illegal wire type inside a group
		cat(tag(15, 3), tag(3, 2), appendVarint(nil, 1<<63), tag(15, 4)), // negative length inside a group
		cat(tag(15, 3), tag(3, 1), []byte{1, 2}),                       // fixed64 past the end inside a group
	}
	// every known field number (and one unknown one) with every wire type and a few payload shapes
	known := func(fn uint64) bool { // a known field rejects some wire type; Skip accepts 0,1,2,5 for unknown ones
		for _, rec := range [][]byte{cat(tag(fn, 0), []byte{0}), cat(tag(fn, 2), []byte{0}), cat(tag(fn, 5), []byte{0, 0, 0, 0})} {
			if err := t.mk().UnmarshalVT(rec); err != nil && errClass(err) == 5 {
				return true
			}
		}
		return false
	}
	var fields []uint64
	unknownDone := false
	for fn := uint64(1); fn <= 12; fn++ {
		if known(fn) {
			fields = append(fields, fn)
		} else if !unknownDone {
			fields = append(fields, fn)
			unknownDone = true
		}
	}
	var pf [][]byte
	for _, fn := range fields {
		pf = append(pf,
			cat(tag(fn, 0), []byte{1}),
			cat(tag(fn, 0), appendVarint(nil, 1<<64-1)),
			cat(tag(fn, 0), appendVarint(nil, 1<<32+5)),
			cat(tag(fn, 0), ten(0x02)),
			cat(tag(fn, 2), []byte{0}),
			cat(tag(fn, 2), []byte{2, 0x08, 0x01}),
			cat(tag(fn, 2), []byte{1, 0x80, 0x01}),       // packed element running past the announced length
			cat(tag(fn, 2), []byte{1, 0x80, 0x0a, 0x00}), // ... and the loop continuing behind it
			cat(tag(fn, 2), []byte{3, 0x80, 0x01}),       // length past the end
			cat(tag(fn, 2), appendVarint(nil, 1<<63)),    // negative length
			cat(tag(fn, 2), appendVarint(nil, 1<<63-1), []byte{1}), // int overflow of postIndex
			cat(tag(fn, 2), appendVarint(nil, 1<<31), []byte{1}),   // 2 GiB announced
			cat(tag(fn, 2), ten(0x02)),
			cat(tag(fn, 1), []byte{1, 2, 3, 4, 5, 6, 7, 8}),
			cat(tag(fn, 5), []byte{1, 2, 3, 4}),
			cat(tag(fn, 3), tag(fn, 4)),
			cat(tag(fn, 2), []byte{0}, tag(fn, 2), []byte{2, 0x08, 0x00}, tag(fn, 0), []byte{0}),
			cat(tag(fn, 2), []byte{3, 0x0a, 0x05, 0x61}),                    // nested record announcing more than its parent holds
			cat(tag(fn, 2), []byte{3, 0x0a, 0x05, 0x61, 0x62, 0x63, 0x64, 0x65}), // ... while the enclosing buffer does hold that much
			cat(tag(fn, 2), []byte{3, 0x0a, 0x01, 0x61}, []byte{0x62, 0x63}), // nested record complete, trailing bytes become top-level tags
		)
	}
	return all, pf
}

// ---------- the length-prefixed readers ----------

type finiteRWC struct {
	data   []byte
	pos    int
	chunks []int
	ci     int
}

func (f *finiteRWC) Read(p []byte) (int, error) {
	if f.pos >= len(f.data) {
		return 0, io.EOF
	}
	if len(p) == 0 {
		return 0, nil
	}
	k := len(f.data) - f.pos
	if len(f.chunks) > 0 {
		if ck := f.chunks[f.ci%len(f.chunks)]; ck < k {
			k = ck
		}
		f.ci++
	}
	if k > len(p) {
		k = len(p)
	}
	copy(p, f.data[f.pos:f.pos+k])
	f.pos += k
	return k, nil
}
func (f *finiteRWC) Write(p []byte) (int, error) { return len(p), nil }
func (f *finiteRWC) Close() error                { return nil }

func le32(v uint32) []byte { return []byte{byte(v), byte(v >> 8), byte(v >> 16), byte(v >> 24)} }

func (g *gen) chunks() []int {
	switch g.c.Rng.Intn(3) {
	case 0:
		return nil
	case 1:
		return []int{1}
	default:
		return []int{1 + g.c.Rng.Intn(5), 1 + g.c.Rng.Intn(3)}
	}
}

func readers(c *hx.Ctx, g *gen, n int) {
	limits := []uint32{16, 64, 300, 16384, 2000000}
	big := []uint32{1 << 31, 1<<32 - 1, 1 << 24, 3000000}
	pkt := typeByName("floodsub.Packet")
	sol := typeByName("link.solicit.SolicitationExchange")
	for i := 0; i < n; i++ {
		t := pkt
		if c.Rng.Intn(2) == 0 {
			t = sol
		}
		max := limits[c.Rng.Intn(len(limits))]
		body := g.seedFor(t)
		if c.Rng.Intn(3) == 0 {
			body = g.mutate(body)
		}
		if len(body) > 200 {
			body = body[:200]
		}
		announced := uint32(len(body))
		var cls string
		switch r := c.Rng.Intn(12); {
		case r < 4:
			cls = "honest"
		case r == 4:
			announced, cls = big[c.Rng.Intn(len(big))], "huge"
		case r == 5:
			announced, cls = max+1, "limit+1"
		case r == 6:
			announced, cls = max, "limit-truncated"
		case r == 7:
			announced, cls = 0, "zero"
		case r == 8:
			announced, cls = announced+uint32(1+c.Rng.Intn(3)), "short-body"
		case r == 9:
			if announced > 0 {
				announced--
			}
			cls = "long-body"
		default:
			cls = "honest"
		}
		stream := append(le32(announced), body...)
		if c.Rng.Intn(4) == 0 {
			stream = append(stream, c.RandBytes(c.Rng.Intn(6))...)
		}
		if c.Rng.Intn(10) == 0 {
			stream = stream[:c.Rng.Intn(5)]
			cls = "short-prefix"
		}
		recvCase(c, g, t, max, stream, cls)
		rxCase(c, g, max, stream, cls)
	}
	// stream establish header
	for i := 0; i < n; i++ {
		var stream []byte
		var cls string
		pid := []byte("/bifrost/p/" + fmt.Sprint(c.Rng.Intn(100)))
		if c.Rng.Intn(5) == 0 {
			pid = pid[:c.Rng.Intn(3)]
		}
		msg := &transport_controller.StreamEstablish{ProtocolId: string(pid)}
		hdr := transport_controller.VerifMarshalStreamEstablishHeader(msg)
		switch r := c.Rng.Intn(12); {
		case r < 4:
			stream, cls = hdr, "honest"
		case r == 4:
			stream, cls = append(appendVarint(nil, uint64(big[c.Rng.Intn(len(big))])), hdr[1:]...), "huge"
		case r == 5:
			stream, cls = append(appendVarint(nil, transport_controller.VerifStreamEstablishMaxPacketSize()+1), hdr[1:]...), "limit+1"
		case r == 6:
			stream, cls = append(appendVarint(nil, transport_controller.VerifStreamEstablishMaxPacketSize()), hdr[1:]...), "limit-truncated"
		case r == 7:
			stream, cls = append([]byte{0}, hdr[1:]...), "zero"
		case r == 8:
			stream, cls = []byte{0x80, 0x80, 0x80, 0x80, 0x01, 1, 2}, "long-varint"
		case r == 9:
			stream, cls = append(appendVarint(nil, 1<<63), hdr...), "overflow-varint"
		case r == 10:
			stream, cls = g.mutate(hdr), "mutated"
		default:
			body := g.wire(0, 1+c.Rng.Intn(3))
			stream, cls = append(appendVarint(nil, uint64(len(body))), body...), "wire"
		}
		if c.Rng.Intn(3) == 0 {
			stream = append(stream, c.RandBytes(c.Rng.Intn(8))...)
		}
		if c.Rng.Intn(10) == 0 && len(stream) > 0 {
			stream = stream[:c.Rng.Intn(len(stream))]
			cls = "truncated"
		}
		estabCase(c, g, stream, cls)
	}
}

func readerOracle(c *hx.Ctx, key string, desc map[string]any, o obs, pv any, alloc uint64, limit uint64, streamLen int) {
	if o.kind == "panic" {
		c.Failf(key+"-panic", desc, "reader panicked: %v", pv)
	}
	// one message: the frame buffer (<= limit) plus what decoding it builds
	// (<= limit, linear overhead in the bytes actually present)
	if budget := limit + decodeBudget(streamLen); alloc > budget {
		c.Failf(key+"-alloc", desc, "allocated %d bytes for one message, limit %d (budget %d)", alloc, limit, budget)
	}
}

func recvCase(c *hx.Ctx, g *gen, t *msgType, max uint32, stream []byte, cls string) {
	f := &finiteRWC{data: stream, chunks: g.chunks()}
	sess := stream_packet.NewSession(f, max)
	m := t.mk()
	var err error
	var panicked bool
	var pv any
	alloc := measure(func() {
		panicked, pv = hx.Catch(func() { err = sess.RecvMsg(m.(protobuf_go_lite.Message)) })
	})
	o := obs{kind: "ok"}
	switch {
	case panicked:
		o = obs{kind: "panic"}
	case err != nil:
		o = obs{kind: "err", cls: errClass(err)}
	default:
		o.out = must(m.MarshalVT())
	}
	left := len(stream) - f.pos
	desc := map[string]any{"kind": "recv", "type": t.name, "max": max, "stream": hx.Hex(stream), "gen": cls, "observed": o.String(), "left": left, "alloc": alloc}
	c.Case(hx.App("Recv", hx.U(uint64(max)), t.coq, hx.Bytes(stream), o.term(), hx.Z(int64(left)), hx.U(alloc)), desc)
	c.Class("recv:" + cls + ":" + o.kind)
	if o.kind == "ok" && len(o.out) > 0 {
		c.Nontrivial("recv" + hx.Hex(stream))
	}
	readerOracle(c, "session-recv", desc, o, pv, alloc, uint64(max), len(stream))
}

type addr string

func (a addr) Network() string { return "verif" }
func (a addr) String() string  { return string(a) }

func rxCase(c *hx.Ctx, g *gen, max uint32, stream []byte, cls string) {
	// at most one whole frame plus fewer than a prefix of trailing bytes, so that
	// the pump stops right after the first packet and the measurement is exact
	if len(stream) >= 4 {
		n := int(uint32(stream[0]) | uint32(stream[1])<<8 | uint32(stream[2])<<16 | uint32(stream[3])<<24)
		if n >= 0 && 4+n+3 < len(stream) {
			stream = stream[:4+n+c.Rng.Intn(4)]
		}
	}
	f := &finiteRWC{data: stream, chunks: g.chunks()}
	buf := make([]byte, len(stream)+8)
	var first []byte
	var ferr error
	var panicked bool
	var pv any
	ctx, cancel := context.WithTimeout(context.Background(), 20*time.Second)
	defer cancel()
	alloc := measure(func() {
		panicked, pv = hx.Catch(func() {
			pc := rwc.NewPacketConn(ctx, f, addr("l"), addr("r"), max, 1)
			n, _, err := pc.ReadFrom(buf)
			if err != nil {
				ferr = err
				return
			}
			first = append([]byte{}, buf[:n]...)
			// wait for the pump to finish (the stream is finite)
			for k := 0; k < 3; k++ {
				if _, _, err := pc.ReadFrom(buf); err != nil {
					break
				}
			}
		})
	})
	o := obs{kind: "ok", out: first}
	switch {
	case panicked:
		o = obs{kind: "panic"}
	case ferr != nil:
		o = obs{kind: "err", cls: errClass(ferr)}
	}
	desc := map[string]any{"kind": "rxpkt", "max": max, "stream": hx.Hex(stream), "gen": cls, "observed": o.String(), "alloc": alloc}
	c.Case(hx.App("RxPkt", hx.U(uint64(max)), hx.Bytes(stream), o.term(), hx.U(alloc)), desc)
	c.Class("rxpkt:" + cls + ":" + o.kind)
	if o.kind == "ok" {
		c.Nontrivial("rx" + hx.Hex(stream))
	}
	readerOracle(c, "pktconn-rx", desc, o, pv, alloc, uint64(max), len(stream))
}

func estabCase(c *hx.Ctx, g *gen, stream []byte, cls string) {
	f := &finiteRWC{data: stream, chunks: g.chunks()}
	var m *transport_controller.StreamEstablish
	var err error
	var panicked bool
	var pv any
	alloc := measure(func() {
		panicked, pv = hx.Catch(func() { m, err = transport_controller.VerifReadStreamEstablishHeader(f) })
	})
	o := obs{kind: "ok"}
	switch {
	case panicked:
		o = obs{kind: "panic"}
	case err != nil:
		o = obs{kind: "err", cls: errClass(err)}
	default:
		o.out = must(m.MarshalVT())
	}
	left := len(stream) - f.pos
	desc := map[string]any{"kind": "estab", "stream": hx.Hex(stream), "gen": cls, "observed": o.String(), "left": left, "alloc": alloc}
	c.Case(hx.App("Estab", hx.Bytes(stream), o.term(), hx.Z(int64(left)), hx.U(alloc)), desc)
	c.Class("estab:" + cls + ":" + o.kind)
	if o.kind == "ok" && len(o.out) > 0 {
		c.Nontrivial("est" + hx.Hex(stream))
	}
	readerOracle(c, "establish-header", desc, o, pv, alloc, transport_controller.VerifStreamEstablishMaxPacketSize(), len(stream))
}

// ---------- the other network-facing parsers: panic capture only ----------

func otherParsers(c *hx.Ctx, g *gen, n int) {
	type parser struct {
		name string
		seed func() []byte
		run  func(b []byte)
	}
	pkb := g.seeds["crypto.PublicKey"][0]
	skb := g.seeds["crypto.PrivateKey"][0]
	smb := g.seeds["peer.SignedMsg"][0]
	envb := g.seeds["envelope.Envelope"][0]
	sig, err := webrtc.EncodeWebRtcSignal(&webrtc.WebRtcSignal{Body: &webrtc.WebRtcSignal_Sdp{Sdp: &webrtc.WebRtcSdp{TxSeqno: 1, SdpType: "offer", Sdp: "v=0\r\n"}}}, g.pub)
	if err != nil {
		panic(err)
	}
	enc, err := peer.EncryptToPubKey(g.pub, "ctx", []byte("secret"))
	if err != nil {
		panic(err)
	}
	parsers := []parser{
		{"peer.IDFromBytes", func() []byte { return []byte(g.pid) }, func(b []byte) {
			id, err := peer.IDFromBytes(b)
			if err == nil {
				_, _ = id.ExtractPublicKey()
				_ = id.String()
				_ = id.Validate()
			}
		}},
		{"peer.IDB58Decode", func() []byte { return []byte(g.pid.String()) }, func(b []byte) {
			id, err := peer.IDB58Decode(string(b))
			if err == nil {
				_, _ = id.ExtractPublicKey()
			}
		}},
		{"crypto.UnmarshalPublicKey", func() []byte { return pkb }, func(b []byte) {
			k, err := crypto.UnmarshalPublicKey(b)
			if err == nil && k != nil {
				_, _ = k.Raw()
				_, _ = peer.IDFromPublicKey(k)
			}
		}},
		{"crypto.UnmarshalPrivateKey", func() []byte { return skb }, func(b []byte) {
			k, err := crypto.UnmarshalPrivateKey(b)
			if err == nil && k != nil {
				_ = k.GetPublic()
				_, _ = k.Sign([]byte("x"))
			}
		}},
		{"peer.UnmarshalSignedMsg+ExtractAndVerify", func() []byte { return smb }, func(b []byte) {
			m, err := peer.UnmarshalSignedMsg(b)
			if err == nil && m != nil {
				_, _, _ = m.ExtractAndVerify("ctx")
				_, _, _ = m.ExtractPubKey()
				_ = m.ComputeMessageID()
			}
		}},
		{"envelope.UnmarshalVT+UnlockEnvelope", func() []byte { return envb }, func(b []byte) {
			e := &envelope.Envelope{}
			if e.UnmarshalVT(b) == nil {
				_, _, _ = envelope.UnlockEnvelope("ctx", e, []crypto.PrivKey{g.priv})
			}
		}},
		{"webrtc.DecodeWebRtcSignal", func() []byte { return sig }, func(b []byte) {
			s, err := webrtc.DecodeWebRtcSignal(b, g.priv)
			if err == nil && s != nil {
				_ = s.Validate()
			}
		}},
		{"webrtc.WebRtcSignal.Validate", func() []byte { return g.seeds["webrtc.WebRtcSignal"][c.Rng.Intn(3)] }, func(b []byte) {
			s := &webrtc.WebRtcSignal{}
			if s.UnmarshalVT(b) == nil {
				_ = s.Validate()
				if sdp := s.GetSdp(); sdp != nil {
					_, _ = sdp.ParseSDP()
					_ = sdp.ParseSDPType()
				}
				if ice := s.GetIce(); ice != nil {
					_, _ = ice.ParseICECandidateInit()
				}
			}
		}},
		{"peer.DecryptWithPrivKey", func() []byte { return enc }, func(b []byte) {
			_, _ = peer.DecryptWithPrivKey(g.priv, "ctx", b)
		}},
		{"hash.Hash.Validate", func() []byte { return g.seeds["hash.Hash"][0] }, func(b []byte) {
			h := &hash.Hash{}
			if h.UnmarshalVT(b) == nil {
				_ = h.Validate()
				_, _ = h.VerifyData([]byte("x"))
			}
		}},
		{"peer.Signature.Validate", func() []byte { return g.seeds["peer.Signature"][0] }, func(b []byte) {
			s := &peer.Signature{}
			if s.UnmarshalVT(b) == nil {
				_ = s.Validate()
			}
		}},
	}
	try := func(name string, run func([]byte), in []byte) {
		inCopy := exact(in)
		var panicked bool
		var pv any
		alloc := measure(func() { panicked, pv = hx.Catch(func() { run(inCopy) }) })
		c.Eval()
		c.Class("parser:" + name)
		desc := map[string]any{"kind": "parser", "parser": name, "input": hx.Hex(in)}
		if panicked {
			c.Failf("parser-panic:"+name, desc, "%s panicked on %d bytes: %v", name, len(in), pv)
		}
		// these parsers hold a whole message in memory: generous constant for
		// key expansion / SDP parsing, still linear in the input
		if budget := uint64(len(in))*2000 + 1<<20; alloc > budget {
			c.Failf("parser-alloc:"+name, desc, "%s allocated %d bytes for %d input bytes", name, alloc, len(in))
		}
	}
	per := n / len(parsers)
	if per < 20 {
		per = 20
	}
	names := make([]string, 0, len(parsers))
	for _, p := range parsers {
		names = append(names, p.name)
		for i := 0; i < per; i++ {
			var in []byte
			switch r := c.Rng.Intn(10); {
			case r < 5:
				in = g.mutate(p.seed())
			case r < 6:
				in = append([]byte{}, p.seed()...)
			case r < 7: // every prefix length is interesting for the fixed-offset parsers
				s := p.seed()
				in = append([]byte{}, s[:c.Rng.Intn(len(s)+1)]...)
			case r < 9:
				in = c.RandBytes(c.Rng.Intn(80))
			default:
				in = g.wire(0, 1+c.Rng.Intn(3))
			}
			try(p.name, p.run, in)
		}
		// every prefix of a valid input (fixed-offset parsers)
		seed := p.seed()
		for l := 0; l <= len(seed) && l <= 300; l++ {
			try(p.name, p.run, seed[:l])
		}
	}
	// sweep: every length 0..80, several random contents each, for the fixed-offset decrypt paths
	for l := 0; l <= 80; l++ {
		for k := 0; k < 6; k++ {
			try("peer.DecryptWithPrivKey", parsers[8].run, c.RandBytes(l))
			try("webrtc.DecodeWebRtcSignal", parsers[6].run, c.RandBytes(l))
		}
	}
	sort.Strings(names)
	c.Extra["parsers"] = names
	c.Extra["decoders"] = len(msgTypes)
	_ = net.IPv4len
}
