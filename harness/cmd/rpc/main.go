// Harness for C35 (rpc / http lookup filters and prefix stripping) and C36
// (rpc/access LookupRpcService response stream, component ids).
package main

import (
	"context"
	"errors"
	"fmt"
	"net/http"
	"net/http/httptest"
	"net/url"
	"regexp"
	"runtime"
	"slices"
	"strings"
	"sync"
	"time"

	bifrost_http "github.com/aperturerobotics/bifrost/http"
	bifrost_rpc "github.com/aperturerobotics/bifrost/rpc"
	bifrost_rpc_access "github.com/aperturerobotics/bifrost/rpc/access"
	"github.com/aperturerobotics/bifrost/testbed"
	"github.com/aperturerobotics/controllerbus/bus"
	"github.com/aperturerobotics/controllerbus/controller"
	"github.com/aperturerobotics/controllerbus/directive"
	"github.com/aperturerobotics/starpc/srpc"
	"github.com/blang/semver/v4"
	b58 "github.com/mr-tron/base58/base58"
	"verifharness/cmd/handlers/fk"
	"verifharness/internal/hx"
)

func main() { hx.Main(run) }

func run(c *hx.Ctx) {
	c.Imports = "Rpc.Run"
	switch c.Prop {
	case "C35":
		c35(c)
	case "C36":
		c36(c)
	default:
		panic("unknown property " + c.Prop)
	}
}

// ---------------------------------------------------------------- C35

type recInvoker struct {
	mtx    sync.Mutex
	called bool
	svc    string
}

func (r *recInvoker) InvokeMethod(serviceID, methodID string, strm srpc.Stream) (bool, error) {
	r.mtx.Lock()
	r.called, r.svc = true, serviceID
	r.mtx.Unlock()
	return true, nil
}

type recHandler struct {
	mtx    sync.Mutex
	called bool
	path   string
}

func (r *recHandler) ServeHTTP(w http.ResponseWriter, req *http.Request) {
	r.mtx.Lock()
	r.called, r.path = true, req.URL.Path
	r.mtx.Unlock()
}

func strList(l []string) string {
	it := make([]string, len(l))
	for i := range l {
		it[i] = hx.Str(l[i])
	}
	return hx.List(it)
}

func optBool(present bool, b bool) string { return hx.Opt(present, hx.Bool(b)) }

func optSeen(observed, called bool, s string) string {
	if !observed {
		return "None"
	}
	return "(Some " + hx.Opt(called, hx.Str(s)) + ")"
}

// resolveOne runs the resolver against a recording handler until it marks idle
// and returns the values it emitted.
func resolveOne(res []directive.Resolver) []directive.Value {
	rh := &fk.RH{IdleCh: make(chan struct{}, 4)}
	ctx, cancel := context.WithCancel(context.Background())
	var wg sync.WaitGroup
	for _, r := range res {
		wg.Add(1)
		go func(r directive.Resolver) {
			defer wg.Done()
			_ = r.Resolve(ctx, rh)
		}(r)
	}
	for range res {
		select {
		case <-rh.IdleCh:
		case <-time.After(5 * time.Second):
			panic("resolver did not become idle")
		}
	}
	rh.Mtx.Lock()
	vals := append([]directive.Value{}, rh.Vals...)
	rh.Mtx.Unlock()
	cancel()
	wg.Wait()
	return vals
}

func allStrings(alpha string, maxLen int) []string {
	out := []string{""}
	prev := []string{""}
	for l := 1; l <= maxLen; l++ {
		var cur []string
		for _, p := range prev {
			for _, ch := range alpha {
				cur = append(cur, p+string(ch))
			}
		}
		out = append(out, cur...)
		prev = cur
	}
	return out
}

func firstPrefix(s string, ps []string) (string, bool) {
	for _, p := range ps {
		if strings.HasPrefix(s, p) {
			return p, true
		}
	}
	return "", false
}

func c35(c *hx.Ctx) {
	c.Type = "c35_case"
	c.Agree = "c35_agree"
	c.Rule = "alphabet {a,b,/}: all service ids / paths up to length 3 (4 in thorough) x server ids {\"\",s,t} against prefix lists (0-2 non-empty prefixes, shadowing orders), 4 regexes, explicit lists, strip flags; real HandleDirective on every point (direct oracle), a seeded sample resolved through the real resolver with a recording invoker/handler and evaluated in Coq; non-trivial = matched and resolved"
	info := controller.NewInfo("verif/rpc", semver.MustParse("0.0.1"), "verif")
	maxLen := 3
	if c.Tier == "thorough" {
		maxLen = 4
	}
	queries := allStrings("ab/", maxLen)
	prefixLists := [][]string{nil, {"a"}, {"a/"}, {"ab"}, {"/"}, {"a", "ab"}, {"ab", "a"}, {"a/", "b"}, {"b", "b/"}, {"a", "a"}, {"/a", "/"}, {"ba", "ab"}}
	regexes := []string{"", "^a+$", "b", "^/", "a$|^$"}
	lists := [][]string{nil, {"ab"}, {"a/", "b"}}
	srvRegexes := []string{"", "^s$"}
	servers := []string{"", "s", "t"}
	compile := func(s string) *regexp.Regexp {
		if s == "" {
			return nil
		}
		return regexp.MustCompile(s)
	}
	ctx, cancel := context.WithCancel(context.Background())
	defer cancel()

	// ---- RpcServiceController ----
	nCfg := len(prefixLists) * len(regexes) * len(lists) * 2 * len(srvRegexes)
	total := nCfg * len(queries) * len(servers)
	keep := float64(c.N) * 0.55 / float64(total)
	for _, ps := range prefixLists {
		for _, reS := range regexes {
			for _, lst := range lists {
				for _, strip := range []bool{false, true} {
					for _, sreS := range srvRegexes {
						re, sre := compile(reS), compile(sreS)
						inner := &recInvoker{}
						ctrl := bifrost_rpc.NewRpcServiceController(info, bifrost_rpc.NewRpcServiceBuilder(inner), ps, strip, re, lst, sre)
						_ = ctrl.Execute(ctx)
						for _, q := range queries {
							for _, srv := range servers {
								var res []directive.Resolver
								pn, _ := hx.Catch(func() {
									res, _ = ctrl.HandleDirective(ctx, fk.NewInst(bifrost_rpc.NewLookupRpcService(q, srv)))
								})
								got := len(res) != 0
								// direct oracle from the property text
								_, byPrefix := firstPrefix(q, ps)
								svcOK := (len(ps) == 0 && re == nil && len(lst) == 0) || byPrefix || (re != nil && re.MatchString(q)) || slices.Contains(lst, q)
								want := svcOK && (sre == nil || sre.MatchString(srv))
								desc := map[string]any{"ctrl": "rpc-service", "prefixes": ps, "strip": strip, "re": reS, "list": lst, "server_re": sreS, "service": q, "server": srv, "answered": got}
								if pn {
									c.Failf("rpc-service-panic", desc, "HandleDirective panicked")
								} else if got != want {
									c.Failf("rpc-service-filter", desc, "answered=%v but the configured filters say %v", got, want)
								}
								c.Class("rpc-service")
								if c.Rng.Float64() >= keep {
									c.Eval()
									continue
								}
								observed, called, seen := false, false, ""
								if got {
									vals := resolveOne(res)
									if len(vals) == 1 {
										inner.called, inner.svc = false, ""
										inv := vals[0].(srpc.Invoker)
										_, _ = inv.InvokeMethod(q, "m", nil)
										observed, called, seen = true, inner.called, inner.svc
										desc["invoker_called"], desc["invoker_saw"] = called, seen
										if p, ok := firstPrefix(q, ps); strip && ok && p != "" {
											if !called || seen != q[len(p):] {
												c.Failf("rpc-service-strip", desc, "strip enabled, first matching prefix %q: invoker must see %q, saw called=%v %q", p, q[len(p):], called, seen)
											}
										}
										if !strip && (!called || seen != q) {
											c.Failf("rpc-service-nostrip", desc, "strip disabled: invoker must see the request unchanged, saw called=%v %q", called, seen)
										}
										c.Nontrivial(fmt.Sprint("rpcsvc", ps, strip, reS, lst, sreS, q, srv))
									} else {
										c.Failf("rpc-service-values", desc, "resolver emitted %d values", len(vals))
									}
								}
								var reO, sreO string
								reO = optBool(re != nil, re != nil && re.MatchString(q))
								sreO = optBool(sre != nil, sre != nil && sre.MatchString(srv))
								c.Case(hx.App("RpcSvc", strList(ps), hx.Bool(strip), reO, strList(lst), sreO, hx.Str(q), hx.Str(srv), hx.Bool(got), optSeen(observed, called, seen)), desc)
							}
						}
					}
				}
			}
		}
	}
	// ---- InvokerController ----
	keepI := float64(c.N) * 0.15 / float64(len(prefixLists)*len(queries))
	for _, ps := range prefixLists {
		inner := &recInvoker{}
		ctrl := bifrost_rpc.NewInvokerController(fk.Logger(), nil, info, inner, ps)
		for _, q := range queries {
			var res []directive.Resolver
			pn, _ := hx.Catch(func() {
				res, _ = ctrl.HandleDirective(ctx, fk.NewInst(bifrost_rpc.NewLookupRpcService(q, "")))
			})
			got := len(res) != 0
			p, byPrefix := firstPrefix(q, ps)
			want := len(ps) == 0 || byPrefix
			desc := map[string]any{"ctrl": "invoker", "prefixes": ps, "service": q, "answered": got}
			if pn {
				c.Failf("invoker-panic", desc, "HandleDirective panicked")
			} else if got != want {
				c.Failf("invoker-filter", desc, "answered=%v but the configured prefixes say %v", got, want)
			}
			c.Class("invoker")
			inner.called, inner.svc = false, ""
			_, _ = ctrl.InvokeMethod(q, "m", nil)
			called, seen := inner.called, inner.svc
			desc["invoker_called"], desc["invoker_saw"] = called, seen
			if got {
				wantSeen := q
				if byPrefix && len(ps) != 0 {
					wantSeen = q[len(p):]
				}
				if !called || seen != wantSeen {
					c.Failf("invoker-strip", desc, "invoker must see %q, saw called=%v %q", wantSeen, called, seen)
				}
			}
			if c.Rng.Float64() >= keepI {
				c.Eval()
				continue
			}
			if got {
				c.Nontrivial(fmt.Sprint("inv", ps, q))
			}
			c.Case(hx.App("RpcInv", strList(ps), hx.Str(q), hx.Bool(got), optSeen(true, called, seen)), desc)
		}
	}
	// ---- HTTPHandlerController ----
	pathQueries := queries
	keepH := float64(c.N) * 0.3 / float64(len(prefixLists)*len(regexes)*2*len(pathQueries))
	for _, ps := range prefixLists {
		for _, reS := range regexes {
			for _, strip := range []bool{false, true} {
				re := compile(reS)
				inner := &recHandler{}
				ctrl := bifrost_http.NewHTTPHandlerController(info, bifrost_http.NewHTTPHandlerBuilder(inner), ps, strip, re)
				_ = ctrl.Execute(ctx)
				for _, q := range pathQueries {
					u := &url.URL{Path: q}
					var res []directive.Resolver
					pn, _ := hx.Catch(func() {
						res, _ = ctrl.HandleDirective(ctx, fk.NewInst(bifrost_http.NewLookupHTTPHandler("GET", u, "")))
					})
					got := len(res) != 0
					p, byPrefix := firstPrefix(q, ps)
					want := (len(ps) == 0 && re == nil) || byPrefix || (re != nil && re.MatchString(q))
					desc := map[string]any{"ctrl": "http", "prefixes": ps, "strip": strip, "re": reS, "path": q, "answered": got}
					if pn {
						c.Failf("http-panic", desc, "HandleDirective panicked")
					} else if got != want {
						c.Failf("http-filter", desc, "answered=%v but the configured filters say %v", got, want)
					}
					c.Class("http")
					if c.Rng.Float64() >= keepH {
						c.Eval()
						continue
					}
					observed, called, seen := false, false, ""
					if got {
						vals := resolveOne(res)
						if len(vals) == 1 {
							inner.called, inner.path = false, ""
							h := vals[0].(http.Handler)
							req := httptest.NewRequest("GET", "http://x/", nil)
							req.URL = &url.URL{Path: q}
							h.ServeHTTP(httptest.NewRecorder(), req)
							observed, called, seen = true, inner.called, inner.path
							desc["handler_called"], desc["handler_saw"] = called, seen
							if strip && byPrefix && p != "" && (!called || seen != q[len(p):]) {
								c.Failf("http-strip", desc, "strip enabled, first matching prefix %q: handler must see %q, saw called=%v %q", p, q[len(p):], called, seen)
							}
							if !strip && (!called || seen != q) {
								c.Failf("http-nostrip", desc, "strip disabled: handler must see the path unchanged, saw called=%v %q", called, seen)
							}
							c.Nontrivial(fmt.Sprint("http", ps, strip, reS, q))
						} else {
							c.Failf("http-values", desc, "resolver emitted %d values", len(vals))
						}
					}
					c.Case(hx.App("Http", strList(ps), hx.Bool(strip), optBool(re != nil, re != nil && re.MatchString(q)), hx.Str(q), hx.Bool(got), optSeen(observed, called, seen)), desc)
				}
			}
		}
	}
	// ---- overlapping lookups on a real bus: a lookup must be answered for ITS path even while a
	// lookup for another path is alive (the bus de-duplicates equivalent directives) ----
	overlappingLookups(c)
	// ---- MatchServeMuxPattern: which method reaches the mux ----
	mux := http.NewServeMux()
	for _, m := range []string{"GET", "POST", "OPTIONS", "PUT", "DELETE", "HEAD"} {
		mux.Handle(m+" /x", &recHandler{})
	}
	for _, m := range []string{"", "GET", "POST", "OPTIONS", "PUT", "DELETE"} {
		_, pat := bifrost_http.MatchServeMuxPattern(mux, bifrost_http.NewLookupHTTPHandler(m, &url.URL{Path: "/x"}, ""))
		saw := strings.TrimSuffix(pat, " /x")
		desc := map[string]any{"ctrl": "mux", "method": m, "pattern": pat}
		if m != "" && saw != m {
			c.Failf("mux-method", desc, "a non-empty method must reach the mux unchanged, pattern %q", pat)
		}
		c.Class("mux")
		c.Case(hx.App("Mux", hx.Str(m), hx.Str(saw)), desc)
	}
}

type namedHandler struct {
	name string
	mtx  sync.Mutex
	saw  []string
}

func (h *namedHandler) ServeHTTP(w http.ResponseWriter, req *http.Request) {
	h.mtx.Lock()
	h.saw = append(h.saw, h.name+":"+req.URL.Path)
	h.mtx.Unlock()
}

// overlappingLookups registers three handler controllers on a real controller bus and issues, for
// every ordered pair of distinct request URLs, a second LookupHTTPHandler while the first is still
// referenced; the second must be served exactly as the configuration says for ITS url.
func overlappingLookups(c *hx.Ctx) {
	ctx, cancel := context.WithTimeout(context.Background(), 60*time.Second)
	defer cancel()
	tb, err := testbed.NewTestbed(ctx, fk.Logger(), testbed.TestbedOpts{NoEcho: true, NoPeer: true})
	if err != nil {
		panic(err)
	}
	defer tb.Release()
	type reg struct {
		name, prefix string
		strip        bool
		h            *namedHandler
	}
	regs := []*reg{{name: "A", prefix: "/a", strip: true}, {name: "B", prefix: "/b", strip: true}, {name: "C", prefix: "/ab", strip: false}}
	var saw []string
	var smtx sync.Mutex
	for _, r := range regs {
		r.h = &namedHandler{name: r.name}
		ctrl := bifrost_http.NewHTTPHandlerController(
			controller.NewInfo("verif/http/"+r.name, semver.MustParse("0.0.1"), "verif"),
			bifrost_http.NewHTTPHandlerBuilder(r.h), []string{r.prefix}, r.strip, nil)
		rel, err := tb.Bus.AddController(ctx, ctrl, nil)
		if err != nil {
			panic(err)
		}
		defer rel()
	}
	_ = saw
	_ = &smtx
	// expected (handler, path seen) set for a request path, from the registrations alone
	expect := func(p string) []string {
		var out []string
		for _, r := range regs {
			if strings.HasPrefix(p, r.prefix) {
				seen := p
				if r.strip {
					seen = p[len(r.prefix):]
				}
				out = append(out, r.name+":"+seen)
			}
		}
		slices.Sort(out)
		return out
	}
	serveAll := func(vals []bifrost_http.LookupHTTPHandlerValue, u *url.URL) []string {
		for _, r := range regs {
			r.h.mtx.Lock()
			r.h.saw = nil
			r.h.mtx.Unlock()
		}
		for _, v := range vals {
			req := httptest.NewRequest("GET", "http://x/", nil)
			req.URL = &url.URL{Path: u.Path, RawQuery: u.RawQuery}
			v.ServeHTTP(httptest.NewRecorder(), req)
		}
		var out []string
		for _, r := range regs {
			r.h.mtx.Lock()
			out = append(out, r.h.saw...)
			r.h.mtx.Unlock()
		}
		slices.Sort(out)
		return out
	}
	urls := []string{"/a/x", "/b/x", "/a/y", "/c/x", "/ab/x", "/a", "/b", "/a/x?q=1", "http://h/a/x", "http://g/a/x", "/b/x?q=1"}
	for _, s1 := range urls {
		for _, s2 := range urls {
			if s1 == s2 {
				continue
			}
			u1, _ := url.Parse(s1)
			u2, _ := url.Parse(s2)
			desc := map[string]any{"ctrl": "http-overlapping-lookups", "first_lookup": s1, "second_lookup": s2, "registrations": "A{/a strip} B{/b strip} C{/ab}"}
			c.Eval()
			c.Class("http-overlap")
			// the directive identity the bus de-duplicates on
			d1 := bifrost_http.NewLookupHTTPHandler("GET", u1, "")
			d2 := bifrost_http.NewLookupHTTPHandler("GET", u2, "")
			if eq := d2.(directive.DirectiveWithEquiv).IsEquivalent(d1); eq && u1.String() != u2.String() {
				c.Failf("http-lookup-merges-different-urls", desc, "LookupHTTPHandler(%s).IsEquivalent(LookupHTTPHandler(%s)) = true: a lookup for %s would be folded into the running lookup for %s", s2, s1, s2, s1)
			}
			vals1, _, ref1, err := bifrost_http.ExLookupHTTPHandlers(ctx, tb.Bus, "GET", u1, "", false)
			if err != nil {
				panic(err)
			}
			vals2, _, ref2, err := bifrost_http.ExLookupHTTPHandlers(ctx, tb.Bus, "GET", u2, "", false)
			if err != nil {
				panic(err)
			}
			got1, got2 := serveAll(vals1, u1), serveAll(vals2, u2)
			desc["second_lookup_served_by"] = got2
			if want := expect(u1.Path); !slices.Equal(got1, want) {
				c.Failf("http-lookup-wrong-handler", desc, "lookup for %s was served by %v, the registrations require %v", s1, got1, want)
			}
			if want := expect(u2.Path); !slices.Equal(got2, want) {
				c.Failf("http-overlapping-lookup-wrong-handler", desc, "lookup for %s issued while the lookup for %s was alive was served by %v (handler:path seen), the registrations require %v", s2, s1, got2, want)
			}
			if ref1 != nil {
				ref1.Release()
			}
			if ref2 != nil {
				ref2.Release()
			}
		}
	}
}

// ---------------------------------------------------------------- C36

type fakeBus struct {
	bus.Bus
	mtx     sync.Mutex
	inst    *fk.Inst
	handler directive.ReferenceHandler
	dir     directive.Directive
}

func (b *fakeBus) AddDirective(dir directive.Directive, rh directive.ReferenceHandler) (directive.Instance, directive.Reference, error) {
	b.mtx.Lock()
	defer b.mtx.Unlock()
	b.inst = fk.NewInst(dir)
	b.handler = rh
	b.dir = dir
	return b.inst, &fk.Ref{}, nil
}

type fakeLookupStream struct {
	srpc.Stream
	ctx  context.Context
	mtx  sync.Mutex
	sent []*bifrost_rpc_access.LookupRpcServiceResponse
	// onSend runs inside Send, after the message was recorded and before Send returns:
	// the harness uses it to deliver the next history events WHILE the send is in progress.
	onSend func()
}

func (s *fakeLookupStream) Context() context.Context { return s.ctx }
func (s *fakeLookupStream) Send(m *bifrost_rpc_access.LookupRpcServiceResponse) error {
	s.mtx.Lock()
	s.sent = append(s.sent, m.CloneVT())
	s.mtx.Unlock()
	if s.onSend != nil {
		s.onSend()
	}
	return nil
}
func (s *fakeLookupStream) count() int {
	s.mtx.Lock()
	defer s.mtx.Unlock()
	return len(s.sent)
}
func (s *fakeLookupStream) SendAndClose(m *bifrost_rpc_access.LookupRpcServiceResponse) error {
	return s.Send(m)
}

type av struct {
	id  uint32
	val directive.Value
}

func (a *av) GetValueID() uint32        { return a.id }
func (a *av) GetValue() directive.Value { return a.val }

type act struct {
	kind    int // 0 add 1 remove 2 idle
	id      uint32
	ok      bool
	idle    bool
	hasErr  bool
	errKind int  // 0 none, 1 context.Canceled, 2 a real resolver error (hasErr = errKind != 0)
	inSend  bool // deliver this event from inside a strm.Send call if one happens in time
}

func (a act) term() string {
	switch a.kind {
	case 0:
		return hx.App("Add", hx.U(uint64(a.id)), hx.Bool(a.ok))
	case 1:
		return hx.App("Remove", hx.U(uint64(a.id)))
	default:
		return hx.App("IdleCb", hx.Bool(a.idle), hx.Bool(a.hasErr), hx.Bool(a.errKind == 2))
	}
}

func (a act) String() string {
	switch a.kind {
	case 0:
		return fmt.Sprintf("add(%d,%v)%s", a.id, a.ok, map[bool]string{true: "@send"}[a.inSend])
	case 1:
		return fmt.Sprintf("remove(%d)%s", a.id, map[bool]string{true: "@send"}[a.inSend])
	default:
		return fmt.Sprintf("idle(%v,err=%s)%s", a.idle, []string{"none", "canceled", "real"}[a.errKind], map[bool]string{true: "@send"}[a.inSend])
	}
}

var errResolver = errors.New("verif resolver error")

func respTerm(m *bifrost_rpc_access.LookupRpcServiceResponse) string {
	switch {
	case m.GetExists() && !m.GetRemoved() && !m.GetIdle():
		return "RExists"
	case m.GetRemoved() && !m.GetExists() && !m.GetIdle():
		return "RRemoved"
	case !m.GetExists() && !m.GetRemoved():
		return hx.App("RIdle", hx.Bool(m.GetIdle()))
	}
	return "RMixed" // not a constructor: makes the case file fail loudly
}

// driveLookup runs the real LookupRpcService against the callback history.
func driveLookup(hist []act, wantQuiescent int, mayEnd, mustEnd bool) (quiescent, sent []*bifrost_rpc_access.LookupRpcServiceResponse, result int, panicked, endedBeforeDispose bool) {
	fb := &fakeBus{}
	srv := bifrost_rpc_access.NewAccessRpcServiceServer(fb, false, nil)
	strm := &fakeLookupStream{ctx: context.Background()}
	errCh := make(chan error, 1)
	go func() {
		var err error
		pn, _ := hx.Catch(func() {
			err = srv.LookupRpcService(bifrost_rpc_access.NewLookupRpcServiceRequest("svc", "srv"), strm)
		})
		if pn {
			panicked = true
		}
		errCh <- err
	}()
	// wait until the directive and the idle callback are attached
	deadline := time.Now().Add(5 * time.Second)
	var idleCb directive.IdleCallback
	for idleCb == nil {
		fb.mtx.Lock()
		inst := fb.inst
		fb.mtx.Unlock()
		if inst != nil {
			inst.Mtx.Lock()
			if len(inst.IdleCbs) != 0 {
				idleCb = inst.IdleCbs[0]
			}
			inst.Mtx.Unlock()
		}
		if idleCb == nil {
			if time.Now().After(deadline) {
				panic("LookupRpcService did not attach")
			}
			runtime.Gosched()
		}
	}
	inv := &recInvoker{}
	deliver := func(a act) {
		switch a.kind {
		case 0:
			var v directive.Value = "not-an-invoker"
			if a.ok {
				v = bifrost_rpc.LookupRpcServiceValue(inv)
			}
			fb.handler.HandleValueAdded(fb.inst, &av{a.id, v})
		case 1:
			fb.handler.HandleValueRemoved(fb.inst, &av{a.id, nil})
		case 2:
			var errs []error
			if a.errKind == 1 {
				errs = []error{nil, context.Canceled}
			} else if a.hasErr {
				errs = []error{nil, errResolver}
			}
			idleCb(a.idle, errs)
		}
	}
	// events are delivered in history order, by the driver or from inside strm.Send
	var cmtx sync.Mutex
	cursor := 0
	strm.onSend = func() {
		cmtx.Lock()
		for cursor < len(hist) && hist[cursor].inSend {
			deliver(hist[cursor])
			cursor++
			inSendDelivered++
		}
		cmtx.Unlock()
	}
	for {
		cmtx.Lock()
		if cursor >= len(hist) {
			cmtx.Unlock()
			break
		}
		if !hist[cursor].inSend {
			deliver(hist[cursor])
			cursor++
			cmtx.Unlock()
			continue
		}
		at := cursor
		cmtx.Unlock()
		// give a Send in progress (or about to start) the chance to pick the event up
		deadline := time.Now().Add(10 * time.Millisecond)
		for time.Now().Before(deadline) {
			cmtx.Lock()
			moved := cursor != at
			cmtx.Unlock()
			if moved {
				break
			}
			runtime.Gosched()
		}
		cmtx.Lock()
		if cursor == at { // no Send came: the driver delivers it
			deliver(hist[cursor])
			cursor++
		}
		cmtx.Unlock()
	}
	// quiescence before dispose: wait until the stream has what the history requires
	// (returns at once on a correct implementation; a lost wake-up runs into the timeout)
	var err error
	if wantQuiescent >= 0 {
		deadline := time.Now().Add(quiesceTimeout)
		for time.Now().Before(deadline) {
			if mayEnd {
				select {
				case err = <-errCh:
					endedBeforeDispose = true
				default:
				}
				if endedBeforeDispose {
					break
				}
			}
			if !mustEnd && strm.count() >= wantQuiescent {
				break
			}
			time.Sleep(200 * time.Microsecond)
		}
		// settle: nothing more may arrive
		for k := 0; k < 20; k++ {
			runtime.Gosched()
		}
	}
	strm.mtx.Lock()
	quiescent = append(quiescent, strm.sent...)
	strm.mtx.Unlock()
	fb.handler.HandleInstanceDisposed(fb.inst)
	if !endedBeforeDispose {
		select {
		case err = <-errCh:
		case <-time.After(5 * time.Second):
			panic("LookupRpcService did not return after dispose")
		}
	}
	switch {
	case err == errResolver:
		result = 1
	case err != nil && err.Error() == "directive disposed":
		result = 2
	default:
		result = 9
	}
	strm.mtx.Lock()
	sent = strm.sent
	strm.mtx.Unlock()
	return
}

var inSendDelivered int
var quiesceTimeout = 3 * time.Second

func c36(c *hx.Ctx) {
	c.Type = "c36_case"
	c.Agree = "c36_agree"
	c.Rule = "callback histories delivered by the driver AND from inside strm.Send (a base history with the in-Send burst starting at every position x 3 burst lengths, then random bursts), quiescence observed before dispose; callback histories (length 0-14) over value ids {1,2,3}: adds/removes incl. removes of absent ids and non-invoker values, idle toggles and repeats; 10% with a repeated add of a present id (outside the bus contract), ~15% with resolvers exiting with context.Canceled or a real error (also exactly when the directive goes idle); real LookupRpcService on a fake bus/stream; component ids: requests over a small alphabet and random bytes, plus truncated/mutated/extended encodings; non-trivial = a history that reports at least one Exists, or an accepted decoding"
	nHist := c.N / 2
	// crafted: one base history, the in-Send burst starting at every position, three burst lengths
	var crafted [][]act
	base := []act{{kind: 0, id: 1, ok: true}, {kind: 1, id: 1}, {kind: 0, id: 2, ok: true}, {kind: 2, idle: true}, {kind: 1, id: 2}, {kind: 2, idle: false}, {kind: 0, id: 1, ok: true}, {kind: 0, id: 3, ok: true}, {kind: 1, id: 1}, {kind: 1, id: 3}}
	for pos := 1; pos < len(base); pos++ {
		for _, bl := range []int{1, 2, len(base)} {
			h := append([]act{}, base...)
			for j := pos; j < len(h) && j < pos+bl; j++ {
				h[j].inSend = true
			}
			crafted = append(crafted, h)
		}
	}
	for _, ek := range []int{1, 2} {
		for _, send := range []bool{false, true} {
			crafted = append(crafted,
				// the resolver exits with an error at the moment the directive goes idle
				[]act{{kind: 2, idle: true, hasErr: true, errKind: ek}},
				[]act{{kind: 0, id: 1, ok: true}, {kind: 2, idle: true, hasErr: true, errKind: ek, inSend: send}},
				[]act{{kind: 0, id: 1, ok: true}, {kind: 2, idle: true, hasErr: true, errKind: ek, inSend: send}, {kind: 1, id: 1, inSend: send}},
				[]act{{kind: 2, idle: true}, {kind: 2, idle: false}, {kind: 0, id: 2, ok: true}, {kind: 2, idle: true, hasErr: true, errKind: ek, inSend: send}},
				// error first, idle later; error while idle already
				[]act{{kind: 2, idle: false, hasErr: true, errKind: ek}, {kind: 0, id: 1, ok: true}, {kind: 2, idle: true, inSend: send}},
				[]act{{kind: 2, idle: true}, {kind: 2, idle: true, hasErr: true, errKind: ek, inSend: send}, {kind: 2, idle: false}, {kind: 2, idle: true}},
				// a cancellation first hides a later real error (resErr keeps the first)
				[]act{{kind: 2, idle: false, hasErr: true, errKind: 1}, {kind: 2, idle: true, hasErr: true, errKind: ek, inSend: send}, {kind: 0, id: 3, ok: true}},
			)
		}
	}
	lostReports := 0
	for i := 0; i < nHist; i++ {
		n := c.Rng.Intn(15)
		dup := c.Rng.Intn(10) == 0
		withErr := c.Rng.Intn(6) == 0
		present := map[uint32]bool{}
		var hist []act
		illFormed := false
		for j := 0; j < n; j++ {
			switch r := c.Rng.Intn(10); {
			case r < 4:
				id := uint32(1 + c.Rng.Intn(3))
				ok := c.Rng.Intn(8) != 0
				if ok && present[id] {
					if !dup {
						// keep to the bus contract: pick an absent id if there is one
						found := false
						for k := uint32(1); k <= 3; k++ {
							if !present[k] {
								id, found = k, true
								break
							}
						}
						if !found {
							continue
						}
					} else {
						illFormed = true
					}
				}
				if ok {
					present[id] = true
				}
				hist = append(hist, act{kind: 0, id: id, ok: ok})
			case r < 7:
				id := uint32(1 + c.Rng.Intn(3))
				delete(present, id)
				hist = append(hist, act{kind: 1, id: id})
			default:
				ek := 0
				if withErr && c.Rng.Intn(3) == 0 {
					ek = 1 + c.Rng.Intn(2)
				}
				hist = append(hist, act{kind: 2, idle: c.Rng.Intn(2) == 0, hasErr: ek != 0, errKind: ek})
			}
		}
		if i < len(crafted) {
			hist, illFormed = crafted[i], false
		} else if c.Rng.Intn(4) != 0 {
			// events arriving while strm.Send is in progress: random bursts
			for j := range hist {
				hist[j].inSend = j > 0 && c.Rng.Intn(5) < 2
			}
		}
		hasErr := false
		firstErr := 0 // resErr keeps the FIRST resolver error
		for _, a := range hist {
			hasErr = hasErr || a.hasErr
			if firstErr == 0 {
				firstErr = a.errKind
			}
		}
		// a cancellation (or no error) never ends the call: fully deterministic.
		// a real first error ends the call once the directive is idle with it.
		mayEnd := firstErr == 2
		// what the code must have queued after the whole history (len(vals)==1 after an insert)
		wantQ := 0
		finalIdle, realSeen, idleWithErr := false, false, false
		{
			cnt := map[uint32]bool{}
			idle := false
			for _, a := range hist {
				switch a.kind {
				case 0:
					if a.ok {
						cnt[a.id] = true
						if len(cnt) == 1 {
							wantQ++
						}
					}
				case 1:
					if cnt[a.id] {
						delete(cnt, a.id)
						if len(cnt) == 0 {
							wantQ++
						}
					}
				case 2:
					if mayEnd && a.errKind != 0 {
						realSeen = true
					}
					if a.idle != idle {
						idle = a.idle
						wantQ++
					}
					if idle && realSeen {
						idleWithErr = true
					}
				}
			}
			finalIdle = idle
		}
		mustEnd := mayEnd && finalIdle && realSeen
		_ = idleWithErr
		quiescent, sent, result, pn, ended := driveLookup(hist, wantQ, mayEnd, mustEnd)
		if lostReports >= 3 {
			quiesceTimeout = 100 * time.Millisecond // enough replays recorded: do not wait long again
		}
		sq := make([]string, len(quiescent))
		for k, m := range quiescent {
			sq[k] = respTerm(m)
		}
		hs := make([]string, len(hist))
		ht := make([]string, len(hist))
		for k, a := range hist {
			hs[k], ht[k] = a.String(), a.term()
		}
		st := make([]string, len(sent))
		ss := make([]string, len(sent))
		for k, m := range sent {
			st[k] = respTerm(m)
			ss[k] = st[k]
		}
		desc := map[string]any{"kind": "history", "history": hs, "sent_at_quiescence_before_dispose": sq, "sent": ss, "result": result, "ill_formed_dup_add": illFormed}
		if pn {
			result = 3
			c.Failf("lookup-panic", desc, "LookupRpcService panicked")
		}
		switch {
		case illFormed:
			c.Class("hist-dup-add")
		case mayEnd:
			c.Class("hist-resolver-error-real")
		case hasErr:
			c.Class("hist-resolver-error-canceled")
		default:
			c.Class("hist")
		}
		desc["ended_with_resolver_error_before_dispose"] = ended
		// ---- resolver exits with a real error: the stream must end with that error once the directive
		// is idle, or (while not idle) the remote side must know the actual state ----
		if !illFormed && mayEnd {
			switch {
			case mustEnd && !(ended && result == 1):
				lostReports++
				c.Failf("lookup-error-not-returned", desc, "the directive is idle with a resolver error at the end of the history, but the call did not end with that error (stream at quiescence %v): the remote side neither learns the error nor the idle state", sq)
			case ended && result != 1:
				c.Failf("lookup-result", desc, "call ended before dispose with class %d", result)
			case !ended && !mustEnd && len(sq) != wantQ:
				lostReports++
				c.Failf("lookup-lost-report", desc, "after the history the stream had only %v (%d reports expected)", sq, wantQ)
			}
		}
		// ---- direct oracle (bus-contract histories; a cancellation is not an error for the stream) ----
		if !illFormed && !mayEnd {
			// reference: provider count and idle state from the history alone
			cnt := map[uint32]bool{}
			var want []string
			idle := false
			for _, a := range hist {
				switch a.kind {
				case 0:
					if a.ok {
						was := len(cnt)
						cnt[a.id] = true
						if was == 0 && len(cnt) == 1 {
							want = append(want, "RExists")
						}
					}
				case 1:
					was := len(cnt)
					delete(cnt, a.id)
					if was == 1 && len(cnt) == 0 {
						want = append(want, "RRemoved")
					}
				case 2:
					if a.idle != idle {
						idle = a.idle
						want = append(want, hx.App("RIdle", hx.Bool(idle)))
					}
				}
			}
			if !slices.Equal(want, st) {
				c.Failf("lookup-reports", desc, "response stream %v, the provider/idle history requires %v", st, want)
			}
			// at quiescence (history over, nothing disposed yet) the remote side must know the final state
			if !slices.Equal(want, sq) {
				lostReports++
				lastER, lastIdle := "none", false
				for _, r := range sq {
					switch r {
					case "RExists", "RRemoved":
						lastER = r
					case "(RIdle true)":
						lastIdle = true
					case "(RIdle false)":
						lastIdle = false
					}
				}
				c.Failf("lookup-lost-report", desc, "after the history the stream had only %v (last availability report %s, last idle report %v) although %d provider(s) are present and idle=%v: %v was still unreported until the directive was disposed", sq, lastER, lastIdle, len(cnt), idle, want[len(sq):min(len(want), len(sq)+3)])
			}
			last := ""
			for _, r := range st {
				if r == "RExists" || r == "RRemoved" {
					if r == last {
						c.Failf("lookup-twice-in-a-row", desc, "%s reported twice in a row", r)
					}
					if last == "" && r != "RExists" {
						c.Failf("lookup-removed-first", desc, "Removed reported before any Exists")
					}
					last = r
				}
			}
			if result != 2 {
				c.Failf("lookup-result", desc, "call returned class %d, expected the disposed error", result)
			}
		}
		c.Case(hx.App("Hist", hx.List(ht), hx.List(sq), hx.List(st), hx.Nat(result)), desc)
		if slices.Contains(st, "RExists") {
			c.Nontrivial("h" + strings.Join(hs, ","))
		}
	}
	c.Extra["events_delivered_inside_send"] = inSendDelivered
	// ---- component ids ----
	alpha := []string{"", "a", "b", "/", "ab", "a/b", "svc.Echo", "\x00", "\xff\xfe", "1", "11"}
	pick := func() string {
		switch c.Rng.Intn(6) {
		case 0:
			return string(c.RandBytes(1 + c.Rng.Intn(20)))
		case 1:
			if c.Rng.Intn(8) == 0 {
				return strings.Repeat("x", 120+c.Rng.Intn(100))
			}
		}
		return alpha[c.Rng.Intn(len(alpha))]
	}
	for i := 0; i < c.N-nHist; i++ {
		svc, srv := pick(), pick()
		req := bifrost_rpc_access.NewLookupRpcServiceRequest(svc, srv)
		var raw []byte
		var cid string
		var err error
		pn, _ := hx.Catch(func() {
			raw, err = req.MarshalVT()
			if err == nil {
				cid, err = req.MarshalComponentID()
			}
		})
		desc := map[string]any{"kind": "component-id", "service": hx.Hex([]byte(svc)), "server": hx.Hex([]byte(srv)), "cid": cid}
		if pn || err != nil {
			c.Failf("cid-marshal", desc, "MarshalComponentID failed/panicked: %v", err)
			continue
		}
		back := &bifrost_rpc_access.LookupRpcServiceRequest{}
		pn, _ = hx.Catch(func() { err = back.UnmarshalComponentID(cid) })
		if svc == "" && srv == "" {
			// not a valid request (Validate demands a service id): its encoding is the empty
			// string, which base58 refuses to decode; recorded, not demanded by the property
			c.Class("cid-empty-request")
			c.Extra["empty_request_component_id_decodes"] = err == nil && !pn
		} else if pn || err != nil || back.GetServiceId() != svc || back.GetServerId() != srv {
			c.Failf("cid-roundtrip", desc, "UnmarshalComponentID(MarshalComponentID(r)) = (%q,%q,err=%v panic=%v)", back.GetServiceId(), back.GetServerId(), err, pn)
		}
		if i%2 == 0 {
			c.Class("cid-encode")
			c.Case(hx.App("CidEnc", hx.Str(svc), hx.Str(srv), hx.Bytes(raw)), desc)
			c.Nontrivial("e" + cid)
			continue
		}
		// decode side: the encoding, or a damaged one
		buf := append([]byte{}, raw...)
		mut := c.Rng.Intn(5)
		switch {
		case mut == 1 && len(buf) > 0:
			buf = buf[:c.Rng.Intn(len(buf))]
		case mut == 2 && len(buf) > 0:
			buf[c.Rng.Intn(len(buf))] ^= byte(1 << uint(c.Rng.Intn(8)))
		case mut == 3:
			buf = append(buf, raw...)
		case mut == 4:
			buf = append(buf, c.RandBytes(1+c.Rng.Intn(4))...)
		}
		got := &bifrost_rpc_access.LookupRpcServiceRequest{}
		pn, _ = hx.Catch(func() { err = got.UnmarshalComponentID(b58.Encode(buf)) })
		{
			// the protobuf decoder must leave its input bytes alone, and the decoded strings must not alias them
			in := append([]byte{}, buf...)
			chk := &bifrost_rpc_access.LookupRpcServiceRequest{}
			if e2 := chk.UnmarshalVT(in); e2 == nil {
				s1, s2 := chk.GetServiceId(), chk.GetServerId()
				if string(in) != string(buf) {
					c.Failf("cid-unmarshal-mutates-input", map[string]any{"bytes": hx.Hex(buf)}, "UnmarshalVT modified its input")
				}
				for k := range in {
					in[k] ^= 0xff
				}
				if chk.GetServiceId() != s1 || chk.GetServerId() != s2 {
					c.Failf("cid-unmarshal-aliases-input", map[string]any{"bytes": hx.Hex(buf)}, "decoded request changed when the input buffer was overwritten")
				}
			}
		}
		desc2 := map[string]any{"kind": "component-id-decode", "bytes": hx.Hex(buf), "mutation": mut, "err": fmt.Sprint(err)}
		if pn {
			c.Failf("cid-unmarshal-panic", desc2, "UnmarshalComponentID panicked")
			continue
		}
		obs := "None"
		if err == nil {
			obs = "(Some (" + hx.Str(got.GetServiceId()) + ", " + hx.Str(got.GetServerId()) + "))"
			c.Nontrivial("d" + hx.Hex(buf))
			c.Class("cid-decode-accept")
		} else {
			c.Class("cid-decode-reject")
		}
		c.Case(hx.App("CidDec", hx.Bytes(buf), obs), desc2)
	}
	// strings that are not base58 must be rejected without a panic (oracle only)
	for _, s := range []string{"0", "O", "l", "I", "abc def", "\xff", "+/="} {
		r := &bifrost_rpc_access.LookupRpcServiceRequest{}
		var err error
		pn, _ := hx.Catch(func() { err = r.UnmarshalComponentID(s) })
		c.Eval()
		if pn || err == nil {
			c.Failf("cid-not-b58", map[string]any{"cid": s}, "non-base58 component id: panic=%v err=%v", pn, err)
		}
	}
}
